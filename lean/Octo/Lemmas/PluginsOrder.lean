import Octo.Model.Plugins
/-!
  Lemmas about the pure parts of the plugin model: prefix stripping, the descending insertion sort,
  "first element of a descending list that passes a test = the greatest element that passes", `mapE`.
-/
namespace Octo.Plugins
open Octo.Fs

/-! ### names -/

theorem stripPrefix?_append (p n : FName) : stripPrefix? p (p ++ n) = some n := by
  induction p with
  | nil => cases n <;> rfl
  | cons c cs ih => simp [stripPrefix?, ih]

theorem nameOfDir_pluginDirName (n : FName) : nameOfDir (pluginDirName n) = n := by
  simp [nameOfDir, trimPrefix, pluginDirName, stripPrefix?_append]

theorem stripPrefix?_eq_some {p s r : FName} (h : stripPrefix? p s = some r) : s = p ++ r := by
  induction p generalizing s with
  | nil => cases s <;> simp_all [stripPrefix?]
  | cons c cs ih =>
    cases s with
    | nil => simp [stripPrefix?] at h
    | cons d ds =>
      simp only [stripPrefix?] at h
      split at h
      · next hcd => subst hcd; simp [ih h]
      · cases h

/-- a directory whose name starts with the prefix is recognised under exactly the rest of its name -/
theorem nameOfDir_eq_of_prefixed {d n : FName} (hd : stripPrefix? pluginPrefix d ≠ none) (h : nameOfDir d = n) :
    d = pluginDirName n := by
  cases hs : stripPrefix? pluginPrefix d with
  | none => exact absurd hs hd
  | some r =>
    have := stripPrefix?_eq_some hs
    simp [nameOfDir, trimPrefix, hs] at h
    subst h
    simpa [pluginDirName] using this

theorem isDot_cons_dot (s : FName) : isDot ('.' :: s) = true := rfl

/-! ### the order laws assumed of the version library -/

structure OrderLaws {V : Type} (gt : V → V → Bool) : Prop where
  irrefl : ∀ a, gt a a = false
  trans : ∀ a b c, gt a b = true → gt b c = true → gt a c = true
  total : ∀ a b, gt a b = true ∨ a = b ∨ gt b a = true

section sort
variable {V : Type} (gt : V → V → Bool)

/-- descending: nothing later is greater than anything earlier -/
def Desc (l : List V) : Prop := l.Pairwise (fun a b => gt b a = false)

theorem mem_insertDesc {x y : V} {l : List V} : y ∈ insertDesc gt x l ↔ y = x ∨ y ∈ l := by
  induction l with
  | nil => simp [insertDesc]
  | cons z zs ih =>
    simp only [insertDesc]
    split
    · simp [ih]; constructor
      · rintro (h | h | h) <;> simp [h]
      · rintro (h | h | h) <;> simp [h]
    · simp

theorem mem_sortDesc {y : V} {l : List V} : y ∈ sortDesc gt l ↔ y ∈ l := by
  induction l with
  | nil => simp [sortDesc]
  | cons z zs ih => simp [sortDesc, mem_insertDesc, ih]

theorem length_insertDesc (x : V) (l : List V) : (insertDesc gt x l).length = l.length + 1 := by
  induction l with
  | nil => rfl
  | cons z zs ih => simp only [insertDesc]; split <;> simp [ih]

theorem length_sortDesc (l : List V) : (sortDesc gt l).length = l.length := by
  induction l with
  | nil => rfl
  | cons z zs ih => simp [sortDesc, length_insertDesc, ih]

variable {gt}

theorem OrderLaws.not_gt_trans (L : OrderLaws gt) {a b c : V} (h1 : gt b a = false) (h2 : gt c b = false) :
    gt c a = false := by
  cases hca : gt c a with
  | false => rfl
  | true =>
    rcases L.total b a with h | h | h
    · simp [h] at h1
    · subst h; simp [hca] at h2
    · have := L.trans c a b hca h; simp [this] at h2

theorem desc_insertDesc (L : OrderLaws gt) {x : V} {l : List V} (h : Desc gt l) : Desc gt (insertDesc gt x l) := by
  induction l with
  | nil => simp [insertDesc, Desc]
  | cons z zs ih =>
    simp only [Desc, List.pairwise_cons] at h
    simp only [insertDesc]
    split
    · next hzx =>
      simp only [Desc, List.pairwise_cons]
      refine ⟨?_, ih h.2⟩
      intro w hw
      rcases (mem_insertDesc gt).1 hw with rfl | hw
      · rcases L.total w z with h' | h' | h'
        · have := L.trans _ _ _ h' hzx; simp [L.irrefl] at this
        · subst h'; simp [L.irrefl] at hzx
        · cases hwz : gt w z with
          | false => rfl
          | true => have := L.trans _ _ _ hwz h'; simp [L.irrefl] at this
      · exact h.1 w hw
    · next hzx =>
      have hzx' : gt z x = false := by simpa using hzx
      simp only [Desc, List.pairwise_cons]
      refine ⟨?_, h.1, h.2⟩
      intro w hw
      rcases List.mem_cons.1 hw with rfl | hw
      · exact hzx'
      · exact L.not_gt_trans hzx' (h.1 w hw)

theorem desc_sortDesc (L : OrderLaws gt) (l : List V) : Desc gt (sortDesc gt l) := by
  induction l with
  | nil => simp [sortDesc, Desc]
  | cons z zs ih => exact desc_insertDesc L ih

/-- `v` passes `p` and nothing in `l` that passes `p` is greater -/
def IsMaxSat (gt : V → V → Bool) (p : V → Bool) (l : List V) (v : V) : Prop :=
  v ∈ l ∧ p v = true ∧ ∀ w ∈ l, p w = true → gt w v = false

theorem find?_desc_isMaxSat (L : OrderLaws gt) {p : V → Bool} {l : List V} {v : V} (hd : Desc gt l)
    (h : l.find? p = some v) : IsMaxSat gt p l v := by
  induction l with
  | nil => simp at h
  | cons z zs ih =>
    simp only [Desc, List.pairwise_cons] at hd
    simp only [List.find?_cons] at h
    split at h
    · next hz =>
      cases h
      refine ⟨by simp, hz, ?_⟩
      intro w hw _
      rcases List.mem_cons.1 hw with rfl | hw
      · exact L.irrefl w
      · exact hd.1 w hw
    · next hz =>
      have := ih hd.2 h
      refine ⟨List.mem_cons_of_mem _ this.1, this.2.1, ?_⟩
      intro w hw hpw
      rcases List.mem_cons.1 hw with rfl | hw
      · simp [hpw] at hz
      · exact this.2.2 w hw hpw

/-- the greatest passing element is unique -/
theorem IsMaxSat.unique (L : OrderLaws gt) {p : V → Bool} {l : List V} {v w : V}
    (hv : IsMaxSat gt p l v) (hw : IsMaxSat gt p l w) : v = w := by
  rcases L.total v w with h | h | h
  · have := hw.2.2 v hv.1 hv.2.1; simp [h] at this
  · exact h
  · have := hv.2.2 w hw.1 hw.2.1; simp [h] at this

theorem find?_none_iff {p : V → Bool} {l : List V} : l.find? p = none ↔ ∀ w ∈ l, p w = false := by
  simp [List.find?_eq_none]

/-- resolution on a sorted list: the result is the greatest passing element, and there is one iff some element passes -/
theorem find?_sortDesc_eq_some_iff (L : OrderLaws gt) {p : V → Bool} {l : List V} {v : V} :
    (sortDesc gt l).find? p = some v ↔ IsMaxSat gt p l v := by
  constructor
  · intro h
    have := find?_desc_isMaxSat L (desc_sortDesc L l) h
    exact ⟨(mem_sortDesc gt).1 this.1, this.2.1, fun w hw => this.2.2 w ((mem_sortDesc gt).2 hw)⟩
  · intro hv
    cases hf : (sortDesc gt l).find? p with
    | none =>
      have := (find?_none_iff.1 hf) v ((mem_sortDesc gt).2 hv.1)
      simp [hv.2.1] at this
    | some w =>
      have hw := find?_desc_isMaxSat L (desc_sortDesc L l) hf
      have hw' : IsMaxSat gt p l w := ⟨(mem_sortDesc gt).1 hw.1, hw.2.1, fun u hu => hw.2.2 u ((mem_sortDesc gt).2 hu)⟩
      rw [hw'.unique L hv]

theorem find?_sortDesc_eq_none_iff {p : V → Bool} {l : List V} :
    (sortDesc gt l).find? p = none ↔ ∀ w ∈ l, p w = false := by
  rw [find?_none_iff]
  constructor
  · intro h w hw; exact h w ((mem_sortDesc gt).2 hw)
  · intro h w hw; exact h w ((mem_sortDesc gt).1 hw)

/-- `IsMaxSat` only depends on which elements the list has -/
theorem IsMaxSat.congr {p : V → Bool} {l l' : List V} {v : V} (h : ∀ w, w ∈ l ↔ w ∈ l') :
    IsMaxSat gt p l v ↔ IsMaxSat gt p l' v := by
  unfold IsMaxSat
  constructor
  · rintro ⟨a, b, c⟩; exact ⟨(h v).1 a, b, fun w hw => c w ((h w).2 hw)⟩
  · rintro ⟨a, b, c⟩; exact ⟨(h v).2 a, b, fun w hw => c w ((h w).1 hw)⟩

end sort
end Octo.Plugins

namespace Octo.Plugins

/-! ### mapE -/

theorem mapE_cons_ok {α β ε : Type} {f : α → Except ε β} {x : α} {xs : List α} {ys : List β} :
    mapE f (x :: xs) = .ok ys ↔ ∃ y ys', f x = .ok y ∧ mapE f xs = .ok ys' ∧ ys = y :: ys' := by
  simp only [mapE]
  constructor
  · intro h
    split at h
    · cases h
    · next y hy =>
      split at h
      · cases h
      · next ys' hys => cases h; exact ⟨y, ys', hy, hys, rfl⟩
  · rintro ⟨y, ys', hy, hys, rfl⟩
    rw [hy]; simp only []; rw [hys]

theorem mapE_mem {α β ε : Type} {f : α → Except ε β} {l : List α} {ys : List β} (h : mapE f l = .ok ys) {y : β} :
    y ∈ ys ↔ ∃ x ∈ l, f x = .ok y := by
  induction l generalizing ys with
  | nil => simp only [mapE] at h; cases h; simp
  | cons x xs ih =>
    obtain ⟨y', ys', hy, hys, rfl⟩ := mapE_cons_ok.1 h
    simp only [List.mem_cons, ih hys]
    constructor
    · rintro (rfl | ⟨z, hz, hf⟩)
      · exact ⟨_, Or.inl rfl, hy⟩
      · exact ⟨z, Or.inr hz, hf⟩
    · rintro ⟨z, hz | hz, hf⟩
      · subst hz; rw [hy] at hf; cases hf; exact Or.inl rfl
      · exact Or.inr ⟨z, hz, hf⟩

/-- `mapE` succeeds iff `f` succeeds on every element -/
theorem mapE_isOk_iff {α β ε : Type} {f : α → Except ε β} {l : List α} :
    (∃ ys, mapE f l = .ok ys) ↔ ∀ x ∈ l, ∃ y, f x = .ok y := by
  induction l with
  | nil => simp [mapE]
  | cons x xs ih =>
    constructor
    · rintro ⟨ys, h⟩
      obtain ⟨y', ys', hy, hys, rfl⟩ := mapE_cons_ok.1 h
      intro z hz
      rcases List.mem_cons.1 hz with rfl | hz
      · exact ⟨_, hy⟩
      · exact (ih.1 ⟨_, hys⟩) z hz
    · intro h
      obtain ⟨y, hy⟩ := h x (by simp)
      obtain ⟨ys, hys⟩ := ih.2 (fun z hz => h z (List.mem_cons_of_mem _ hz))
      exact ⟨y :: ys, mapE_cons_ok.2 ⟨y, ys, hy, hys, rfl⟩⟩

theorem mapE_congr {α β ε : Type} {f g : α → Except ε β} {l : List α} (h : ∀ x ∈ l, f x = g x) :
    mapE f l = mapE g l := by
  induction l with
  | nil => rfl
  | cons x xs ih =>
    simp only [mapE]
    rw [h x (by simp), ih (fun z hz => h z (List.mem_cons_of_mem _ hz))]

/-- the results come in the order of the inputs -/
theorem mapE_length {α β ε : Type} {f : α → Except ε β} {l : List α} {ys : List β} (h : mapE f l = .ok ys) :
    ys.length = l.length := by
  induction l generalizing ys with
  | nil => simp only [mapE] at h; cases h; rfl
  | cons x xs ih =>
    obtain ⟨y', ys', _, hys, rfl⟩ := mapE_cons_ok.1 h
    simp [ih hys]

end Octo.Plugins
