import Octo.Lemmas.JsonPipeTok
import Octo.Lemmas.JsonPipePc
/-! Induction over reachable states; the token invariant and the pc invariants hold in every reachable state. -/
namespace Octo.JsonPipe

theorem run_append {s : State} {as bs : List Action} :
    run s (as ++ bs) = (run s as).bind (fun t => run t bs) := by
  induction as generalizing s with
  | nil => simp [run]
  | cons a as ih =>
    simp only [List.cons_append, run]
    cases step s a with
    | none => simp
    | some s' => simpa using ih

theorem invariant_of_run {I : State → Prop} (hstep : ∀ s a s', I s → step s a = some s' → I s')
    {s t : State} {sched : List Action} (h0 : I s) (hr : run s sched = some t) : I t := by
  induction sched generalizing s with
  | nil => simp only [run, Option.some.injEq] at hr; subst hr; exact h0
  | cons a as ih =>
    simp only [run] at hr
    cases hsa : step s a with
    | none => simp [hsa] at hr
    | some s' => simp only [hsa] at hr; exact ih (hstep s a s' h0 hsa) hr

theorem reachable_induction {I : State → Prop}
    (hinit : ∀ nw pipes, 1 ≤ nw → (∀ P, P ∈ pipes → P.IsInit) → I (State.init nw pipes))
    (hstep : ∀ s a s', I s → step s a = some s' → I s') {s : State} (h : Reachable s) : I s := by
  obtain ⟨nw, pipes, sched, h1, h2, h3⟩ := h
  exact invariant_of_run hstep (hinit nw pipes h1 h2) h3

theorem reachable_step {s s' : State} {a : Action} (h : Reachable s) (hs : step s a = some s') : Reachable s' := by
  obtain ⟨nw, pipes, sched, h1, h2, h3⟩ := h
  refine ⟨nw, pipes, sched ++ [a], h1, h2, ?_⟩
  rw [run_append, h3]
  simp [run, hs]

theorem reachable_run {s t : State} {sched : List Action} (h : Reachable s) (hr : run s sched = some t) : Reachable t :=
  invariant_of_run (fun _ _ _ h hs => reachable_step h hs) h hr

theorem busyWith_none (p n : Nat) : busyWith (fun _ => none) p n = 0 := by
  induction n with
  | zero => rfl
  | succ n ih => simp [busyWith, ih, jobCnt]

theorem busy_none (n : Nat) : busy (fun _ => none) n = 0 := by
  induction n with
  | zero => rfl
  | succ n ih => simp [busy, ih, someCnt]

theorem init_pipe_isInit {nw : Nat} {pipes : List Pipe} (h : ∀ P, P ∈ pipes → P.IsInit) {p : Nat}
    (hp : p < (State.init nw pipes).np) : ((State.init nw pipes).pipe p).IsInit := by
  simp only [State.init] at hp ⊢
  have : pipes.getD p default = pipes[p] := by simp [List.getD, hp]
  rw [this]
  exact h _ (List.getElem_mem hp)

theorem tokInv_init {nw : Nat} {pipes : List Pipe} (h : ∀ P, P ∈ pipes → P.IsInit) : TokInv (State.init nw pipes) := by
  have key : ∀ p, p < (State.init nw pipes).np →
      ((State.init nw pipes).pipe p).tokens = 0 ∧ inflight (State.init nw pipes) p = 0 ∧ ((State.init nw pipes).pipe p).out = [] := by
    intro p hp
    obtain ⟨lines, batch, se, bad, st, _, e⟩ := init_pipe_isInit h hp
    simp only [inflight, e]
    refine ⟨rfl, ?_, rfl⟩
    simp only [State.init, inJobs_nil, busyWith_none, Pipe.init, ctokCnt, holdCnt]
    split <;> simp
  refine ⟨fun p hp => ?_, fun p hp _ => ?_, fun p hp => ?_, fun j hj => ?_, fun w j hw => ?_⟩
  · obtain ⟨a, b, c⟩ := key p hp; simp [a, b, c]
  · obtain ⟨a, b, c⟩ := key p hp; simp [a, b, c]
  · obtain ⟨a, b, c⟩ := key p hp; simp [a]
  · simp [State.init] at hj
  · simp [State.init] at hw

theorem reachable_tokInv {s : State} (h : Reachable s) : TokInv s :=
  reachable_induction (fun _ _ _ hp => tokInv_init hp) (fun _ _ _ hi hs => step_tokInv hi hs) h

theorem reachable_pinv {s : State} (h : Reachable s) : ∀ p, p < s.np → PInv (s.pipe p) := by
  refine reachable_induction (I := fun s => ∀ p, p < s.np → PInv (s.pipe p)) ?_ ?_ h
  · intro nw pipes _ hp p hlt
    exact pinv_init (init_pipe_isInit hp hlt)
  · intro s a s' hi hs p hp
    rw [(step_np hs).1] at hp
    rcases step_pipe hs p with e | e
    · rw [e]; exact hi p hp
    · exact pinv_step (hi p hp) e

theorem reachable_nw {s : State} (h : Reachable s) : 1 ≤ s.nw := by
  refine reachable_induction (I := fun s => 1 ≤ s.nw) ?_ ?_ h
  · intro nw pipes h1 _; exact h1
  · intro s a s' hi hs; rw [(step_np hs).2]; exact hi

end Octo.JsonPipe
