import Octo.Lemmas.CsvRoundtrip
import Octo.Lemmas.JsonRow
/-!
  Lemmas for C25, part 8: `CSVFormatter` as a whole — header, one record per row, every scalar cell is the
  text of its value, NULL is the empty field, no panic on rows that fit the schema.
-/
namespace Octo.OutFmt
open Octo Octo.Spec

/-- what is assumed of `strconv.FormatFloat(f, 'f', -1, 64)` -/
structure CsvFloatOK (L : Lib) : Prop where
  fin : ∀ b, finite b = true → Json.validNumber (L.fmtFloatF b) = true ∧ Num.litToF64 (L.fmtFloatF b) = b
  nonfin : ∀ b, finite b = false → L.fmtFloatF b = nonFiniteText b

theorem csvCell_ok (L : Lib) (hL : FloatSyntax L) (hC : CsvFloatOK L) (hT : TextExact L) (τ : Ty) (v : Value) (hf : fits τ v = true) :
    ∃ cell, csvCell L τ v = some cell ∧ csvCellOk v cell = true := by
  cases v with
  | null => exact ⟨[], rfl, rfl⟩
  | int i => exact ⟨fmtInt i, rfl, by simp [csvCellOk, intLit_fmtInt]⟩
  | float b =>
    refine ⟨L.fmtFloatF b, rfl, ?_⟩
    by_cases hb : finite b = true
    · simp [csvCellOk, hb, hC.fin b hb]
    · have hb' : finite b = false := by simpa using hb
      simp [csvCellOk, hb', hC.nonfin b hb']
  | bool b => exact ⟨_, rfl, by simp [csvCellOk]⟩
  | str s => exact ⟨_, rfl, by simp [csvCellOk]⟩
  | time ns loc => exact ⟨_, rfl, by simp [csvCellOk, hT.time ns loc]⟩
  | dur ns => exact ⟨_, rfl, by simp [csvCellOk, hT.dur ns]⟩
  | list xs => obtain ⟨bs, h, _⟩ := encJson_dec L hL _ τ hf; exact ⟨bs, h, rfl⟩
  | struct xs => obtain ⟨bs, h, _⟩ := encJson_dec L hL _ τ hf; exact ⟨bs, h, rfl⟩
  | tuple xs => obtain ⟨bs, h, _⟩ := encJson_dec L hL _ τ hf; exact ⟨bs, h, rfl⟩

theorem csvCells_ok (L : Lib) (hL : FloatSyntax L) (hC : CsvFloatOK L) (hT : TextExact L) : ∀ (ts : List Ty) (vs : List Value),
    fitsEach ts vs = true → ∃ cells, csvCells L ts vs = some cells ∧ cells.length = vs.length ∧ csvRowOk vs cells = true
  | [], [], _ => ⟨[], rfl, rfl, rfl⟩
  | [], _ :: _, h => by simp [fitsEach] at h
  | _ :: _, [], h => by simp [fitsEach] at h
  | t :: ts, v :: vs, h => by
    simp only [fitsEach, Bool.and_eq_true] at h
    obtain ⟨c, hc, hok⟩ := csvCell_ok L hL hC hT t v h.1
    obtain ⟨cs, hcs, hlen, hoks⟩ := csvCells_ok L hL hC hT ts vs h.2
    exact ⟨c :: cs, by simp [csvCells, hc, hcs], by simp [hlen], by simp [csvRowOk, hok, hoks]⟩

theorem csvRows_ok (L : Lib) (hL : FloatSyntax L) (hC : CsvFloatOK L) (hT : TextExact L) (ns : List Name) (ts : List Ty) (hts : ts ≠ []) :
    ∀ rows : List (List Value), rows.all (rowFits ns ts) = true →
      ∃ cellss, csvRows L ts rows = some (concatRecords cellss) ∧ (∀ r ∈ cellss, r ≠ []) ∧ csvRowsOk rows cellss = true
  | [], _ => ⟨[], rfl, by simp, rfl⟩
  | r :: rs, h => by
    simp only [List.all_cons, Bool.and_eq_true] at h
    obtain ⟨h1, h2⟩ := h
    simp only [rowFits, Bool.and_eq_true, decide_eq_true_eq] at h1
    obtain ⟨cells, hc, hlen, hok⟩ := csvCells_ok L hL hC hT ts r h1.2
    obtain ⟨cellss, hcs, hne, hoks⟩ := csvRows_ok L hL hC hT ns ts hts rs h2
    have hl := fitsEach_length ts r h1.2
    have : cells ≠ [] := by
      intro e; subst e
      cases ts with
      | nil => exact hts rfl
      | cons _ _ => simp at hlen hl; omega
    refine ⟨cells :: cellss, by simp [csvRows, csvLine, hc, hcs, concatRecords], ?_, by simp [csvRowsOk, hok, hoks]⟩
    intro x hx
    rcases List.mem_cons.mp hx with e | e
    · subst e; exact this
    · exact hne x e

/-- **the whole `-o csv` output**: it parses, the first record is the header, and every further record is
    its row (scalars as their text, NULL as the empty field) -/
theorem csvOutput_ok (L : Lib) (hL : FloatSyntax L) (hC : CsvFloatOK L) (hT : TextExact L) (ns : List Name) (ts : List Ty)
    (rows : List (List Value)) (hns : ns ≠ []) (hlen : ns.length = ts.length)
    (hrows : rows.all (rowFits (withoutQualifiers ns) ts) = true) :
    ∃ bytes cellss, csvOutput L ns ts rows = some bytes ∧
      Csv.decode bytes = some ((withoutQualifiers ns).map nameBytes :: cellss) ∧ csvRowsOk rows cellss = true := by
  have hts : ts ≠ [] := by
    intro e; subst e; cases ns with
    | nil => exact hns rfl
    | cons _ _ => simp at hlen
  obtain ⟨cellss, hcs, hne, hok⟩ := csvRows_ok L hL hC hT (withoutQualifiers ns) ts hts rows hrows
  refine ⟨concatRecords ((withoutQualifiers ns).map nameBytes :: cellss), cellss, by simp [csvOutput, hcs, concatRecords], ?_, hok⟩
  have hq : (withoutQualifiers ns).map nameBytes ≠ [] := by
    cases ns with
    | nil => exact absurd rfl hns
    | cons _ _ => simp [withoutQualifiers]
  have := decode_records ((withoutQualifiers ns).map nameBytes :: cellss) (by
    intro r hr
    rcases List.mem_cons.mp hr with e | e
    · subst e; exact hq
    · exact hne r e)
  exact this

end Octo.OutFmt
