import Octo.Lemmas.TypingTy
import Octo.Model.TypingCovers
/-!
  Octo.Lemmas.TypingDefs — the vocabulary of the soundness theorem of C08: conforming environments, well-formed
  contexts, admissible constants, what a descriptor table has to satisfy (`SigOk`, `DescrSound`), and the invariant
  `Sound` that the induction over expressions maintains.
-/
namespace Octo.Tc
open Octo Octo.Ty

/-- the record values match the record schemas, context by context -/
def EnvConforms : Ctx → List (List Value) → Prop
  | [], [] => True
  | c :: cs, vs :: vss => conformsZip (c.map (·.2)) vs = true ∧ EnvConforms cs vss
  | _, _ => False

/-- every variable has a well-formed type (what `TypeSum` builds: one alternative per TypeID, no nested union) -/
def CtxWf (Γ : Ctx) : Prop := ∀ c ∈ Γ, ∀ f ∈ c, wf f.2 = true

/-- a constant whose reported type (`Value.Type()`) it matches and which is well formed: no list inside mixes structs
    of different shapes (C10, finding `typeof-list-shape-mismatch`) and no struct value has two or more fields (struct
    VALUES carry no field names).  Every scalar constant — all that SQL text can denote — qualifies. -/
def constOk (v : Value) : Bool := v.typeOfShapeOk && v.narrowStructs

mutual
def constsOk : LExpr → Bool
  | .var _ => true
  | .const v => constOk v
  | .call _ args => constsOkList args
  | .and l r => constsOk l && constsOk r
  | .or l r => constsOk l && constsOk r
  | .coalesce args => constsOkList args
  | .tuple args => constsOkList args
  | .cast _ e => constsOk e
  | .field _ e => constsOk e
def constsOkList : List LExpr → Bool
  | [] => true
  | e :: es => constsOk e && constsOkList es
end

/-- a declared parameter type: one of the six scalar types, or `Any` -/
def paramOk (p : Ty) : Bool := (isLeaf p && p.id != 0) || p.isAny

/-- **the per-descriptor obligation (i)**: whatever the body returns on arguments that match the parameter types
    matches the output type (for a `TypeFn` descriptor: the type the `TypeFn` computed from the argument types) -/
def DescrSound (d : Descr) (body : List Value → Res) : Prop :=
  match d.typeFn with
  | none => ∀ args v, conformsZip d.args args = true → body args = .val v → conforms d.out v = true
  | some f => ∀ tys o args v, f tys = some (some o) → conformsZip tys args = true → body args = .val v →
      conforms o v = true

/-- what the soundness theorem needs of a function environment -/
structure SigOk (S : Sig) : Prop where
  out_wf : ∀ name d, d ∈ S.descrs name → wf d.out = true
  params : ∀ name d, d ∈ S.descrs name → ∀ p ∈ d.args, paramOk p = true
  tyfn_wf : ∀ name d f, d ∈ S.descrs name → d.typeFn = some f →
    ∀ tys o, (∀ t ∈ tys, wf t = true) → f tys = some (some o) → wf o = true
  sound : ∀ name i d, (S.descrs name)[i]? = some d → DescrSound d (S.body name i)

/-- the invariant: the static type is well formed, and every value the expression evaluates to matches it -/
def Sound (S : Sig) (Γ : Ctx) (p : PExpr) : Prop :=
  wf p.ty = true ∧
  (coalesceOk p = true → ∀ ρ v, EnvConforms Γ ρ → eval S Γ ρ p = .val v → conforms p.ty v = true)

end Octo.Tc
