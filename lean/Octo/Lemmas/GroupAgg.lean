import Octo.Props.C14
import Octo.Lemmas.GroupFold
import Octo.Lemmas.OpsGroupFinal
/-!
  From the hash map of `SimpleGroupBy` to the rows it emits: every cell is C14's aggregate of the group's
  non-NULL inputs (`cellOut_spec`, by `Octo.C14.aggregate_correct` on the all-additions history), every item
  becomes `key ++ aggregates` (`itemsOut_spec`), and the node as a whole is `groupSem` (`groupNode_sem`).
-/
namespace Octo.Grp
open Octo Octo.Sql Octo.Agg

/-! ### an all-additions history -/

theorem netH_histOf (xs : List Value) (v : Value) : netH (histOf xs) v = cnt xs v := by
  induction xs with
  | nil => rfl
  | cons x r ih =>
    simp only [histOf, List.map_cons, netH, cnt, weight] at *
    rw [ih]
    split <;> simp

theorem cnt_nonneg (xs : List Value) (v : Value) : 0 ≤ cnt xs v := by
  induction xs with
  | nil => simp [cnt]
  | cons x r ih => simp only [cnt]; split <;> omega

theorem histOf_take (xs : List Value) (n : Nat) : (histOf xs).take n = histOf (xs.take n) := by
  simp [histOf, List.map_take]

theorem validHist_histOf (xs : List Value) : ValidHist (histOf xs) := by
  intro n v
  rw [histOf_take, netH_histOf]
  exact cnt_nonneg _ _

theorem isNet_histOf (xs : List Value) : IsNet xs (histOf xs) := fun v => (netH_histOf xs v).symm

/-- the inputs an aggregate may see: anything, except that float sums / averages need finite floats (C14) -/
def FiniteInputs (p : PAgg) (xs : List Value) : Prop := ∀ x ∈ xs, C14.Admissible p.kind x

theorem cellOut_spec (p : PAgg) (xs : List Value) (hf : FiniteInputs p xs) :
    ∃ v, cellOut p xs = .val v ∧ cmp v (aggValue p xs) = 0 := by
  cases xs with
  | nil => exact ⟨.null, rfl, by simp [aggValue, cmp, cmpWith]⟩
  | cons x r =>
    have hne : (x :: r) ≠ [] := by simp
    obtain ⟨v, hv, hc⟩ := C14.aggregate_correct p.kind p.distinct (histOf (x :: r)) (validHist_histOf _)
      (by
        intro e he
        simp only [histOf, List.mem_map] at he
        obtain ⟨y, hy, rfl⟩ := he
        exact hf y hy)
      (x :: r) (isNet_histOf _) hne
    refine ⟨v, ?_, ?_⟩
    · simp only [cellOut, trigAgg, List.length_cons]
      rw [if_pos (by omega)]
      exact hv
    · simpa [aggValue] using hc

/-! ### rows -/

theorem rowEq_cons {v w : Value} {vs ws : Row} (h1 : cmp v w = 0) (h2 : rowEq vs ws = true) :
    rowEq (v :: vs) (w :: ws) = true := by
  simp only [rowEq, beq_iff_eq] at *
  rw [show cmpList (v :: vs) (w :: ws) = if cmp v w != 0 then cmp v w else cmpList vs ws from Ops.cmpList_cons v w vs ws]
  simp [h1, h2]

theorem rowEq_append {a a' b b' : Row} (h1 : rowEq a a' = true) (h2 : rowEq b b' = true) :
    rowEq (a ++ b) (a' ++ b') = true :=
  Ops.rowEq_append (a := a) (a' := a') (b := b) (b' := b') h1 h2

theorem cellsOut_spec (aggs : List PAgg) (f : PAgg → List Value) (hf : ∀ p ∈ aggs, FiniteInputs p (f p)) :
    ∃ vs, cellsOut aggs (aggs.map f) = .ok vs ∧ rowEq vs (aggs.map fun p => aggValue p (f p)) = true := by
  induction aggs with
  | nil => exact ⟨[], rfl, rfl⟩
  | cons p ps ih =>
    obtain ⟨v, hv, hc⟩ := cellOut_spec p (f p) (hf p List.mem_cons_self)
    obtain ⟨vs, hvs, hr⟩ := ih (fun q hq => hf q (List.mem_cons_of_mem _ hq))
    refine ⟨v :: vs, ?_, ?_⟩
    · simp only [List.map_cons, cellsOut, hv, hvs, Res.bind]
    · simpa using rowEq_cons hc hr

theorem itemsOut_spec (aggs : List PAgg) (items : List GItem) (G : Row → Row)
    (h : ∀ it ∈ items, ∃ vs, cellsOut aggs it.cells = .ok vs ∧ rowEq vs (G it.key) = true) :
    ∃ out, itemsOut aggs items = .ok out ∧ RowsEqv out (items.map fun it => it.key ++ G it.key) := by
  induction items with
  | nil => exact ⟨[], rfl, trivial⟩
  | cons it rest ih =>
    obtain ⟨vs, hvs, hr⟩ := h it List.mem_cons_self
    obtain ⟨out, ho, he⟩ := ih (fun x hx => h x (List.mem_cons_of_mem _ hx))
    refine ⟨(it.key ++ vs) :: out, ?_, ?_⟩
    · simp only [itemsOut, hvs, ho, Res.bind]
    · exact ⟨rowEq_append (rowEq_refl _) hr, he⟩

/-! ### the node -/

theorem filterMap_congr' {α β : Type} {f g : α → Option β} {l : List α} (h : ∀ x ∈ l, f x = g x) :
    l.filterMap f = l.filterMap g := by
  induction l with
  | nil => rfl
  | cons x xs ih =>
    simp only [List.filterMap_cons, h x List.mem_cons_self]
    rw [ih (fun y hy => h y (List.mem_cons_of_mem _ hy))]

/-- every value an aggregate is fed is admissible for it (finite floats for the float sums) -/
def FiniteArgs (aggs : List PAgg) (rows : List Row) : Prop :=
  ∀ p ∈ aggs, ∀ r ∈ rows, ∀ v, evalArg r p = some v → C14.Admissible p.kind v

theorem finiteInputs_of_args {aggs : List PAgg} {rows : List Row} (hf : FiniteArgs aggs rows) {p : PAgg}
    (hp : p ∈ aggs) (sub : List Row) (hs : ∀ r ∈ sub, r ∈ rows) : FiniteInputs p (aggInputs p sub) := by
  intro x hx
  simp only [aggInputs, List.mem_filter, List.mem_filterMap] at hx
  obtain ⟨⟨r, hr, hv⟩, _⟩ := hx
  exact hf p hp r (hs r hr) x hv

/-- the cells of the item stored under `it.key` are, aggregate by aggregate, the non-NULL inputs of the rows of
    that key's class -/
theorem item_cells (keys : List SExpr) (aggs : List PAgg) (rows : List Row)
    (hok : evalsOk keys aggs rows = true) (it : GItem)
    (hit : it ∈ runPairs aggs.length [] (rows.map fun r => (keyOfRow keys r, insOfRow aggs r))) :
    it.cells = aggs.map fun p => aggInputs p (groupRows keys it.key rows) := by
  let pairs := rows.map fun r => (keyOfRow keys r, insOfRow aggs r)
  have hkeys : (runPairs aggs.length [] pairs).map (·.key) = keyClasses (pairs.map (·.1)) := run_keys_nil _ _
  have hpw : ((runPairs aggs.length [] pairs).map (·.key)).Pairwise fun a b => rowEq b a = false := by
    rw [hkeys]; exact keyClasses_pairwise _
  have hself := findKey_self hpw hit
  rw [findKey_run] at hself
  have hmem : it.key ∈ pairs.map (·.1) := by
    apply mem_keyClasses
    rw [← hkeys]
    exact List.mem_map_of_mem hit
  have hany : (pairs.any fun p => rowEq it.key p.1) = true := by
    rw [List.any_eq_true]
    obtain ⟨p, hp, hpk⟩ := List.mem_map.mp hmem
    exact ⟨p, hp, by rw [hpk]; exact rowEq_refl _⟩
  obtain ⟨it', h1, h2⟩ := applyIns_cells aggs.length it.key pairs (findKey it.key []) (Or.inr hany)
  rw [h1] at hself
  have e : it' = it := Option.some.inj hself
  rw [e] at h2
  rw [h2]
  -- column by column
  have hm : matchIns it.key pairs = (groupRows keys it.key rows).map (insOfRow aggs) := by
    simp only [matchIns, pairs, groupRows, List.filter_map, List.map_map, Function.comp_def]
    congr 1
    apply List.filter_congr
    intro r _
    exact rowEq_comm _ _
  rw [hm]
  apply List.ext_getElem?
  intro i
  rw [foldl_addCells_get]
  simp only [findKey, List.find?_nil, cellsOfOpt, emptyCells_get, List.getElem?_map]
  by_cases hi : i < aggs.length
  · simp only [hi, if_true, Option.map_some, List.nil_append, List.getElem?_eq_getElem hi]
    congr 1
    simp only [colInputs, aggInputs, List.filterMap_map, Function.comp_def]
    congr 1
    apply filterMap_congr'
    intro r hr
    have hr' : r ∈ rows := (List.mem_filter.mp hr).1
    have hro : (evalArgs r aggs).isSome = true := by
      have := List.all_eq_true.mp hok r hr'
      simp only [Bool.and_eq_true] at this
      exact this.2
    obtain ⟨ins, hins⟩ := Option.isSome_iff_exists.mp hro
    simp only [insOfRow, hins, Option.getD_some]
    rw [evalArgs_get r aggs ins hins i, List.getElem?_eq_getElem hi]
    rfl
  · have : aggs[i]? = none := by simp; omega
    simp [hi, this]

/-- **the GroupBy node is `groupSem`**: on every input on which the key and aggregate expressions evaluate
    (and float sums see finite floats), `SimpleGroupBy` neither fails nor panics, and emits — in order of first
    occurrence of the key classes — exactly one row per class of key tuples, equal (pointwise `Compare == 0`)
    to the key followed by the from-scratch aggregates of the class's non-NULL inputs, NULL where there is none -/
theorem groupNode_sem (keys : List SExpr) (aggs : List PAgg) (rows : List Row)
    (hok : evalsOk keys aggs rows = true) (hf : FiniteArgs aggs rows) :
    ∃ out, groupNode keys aggs rows = .ok out ∧ RowsEqv out (groupSem keys aggs rows) := by
  simp only [groupNode, gFold_ok keys aggs rows [] hok]
  let pairs := rows.map fun r => (keyOfRow keys r, insOfRow aggs r)
  let G : Row → Row := fun k => aggs.map fun p => aggValue p (aggInputs p (groupRows keys k rows))
  have hcells : ∀ it ∈ runPairs aggs.length [] pairs,
      ∃ vs, cellsOut aggs it.cells = .ok vs ∧ rowEq vs (G it.key) = true := by
    intro it hit
    rw [item_cells keys aggs rows hok it hit]
    exact cellsOut_spec aggs (fun p => aggInputs p (groupRows keys it.key rows))
      (fun p hp => finiteInputs_of_args hf hp _ (fun r hr => (List.mem_filter.mp hr).1))
  obtain ⟨out, ho, he⟩ := itemsOut_spec aggs (runPairs aggs.length [] pairs) G hcells
  refine ⟨out, ho, ?_⟩
  have hkeys : (runPairs aggs.length [] pairs).map (·.key) = keyClasses (rows.map (keyOfRow keys)) := by
    rw [run_keys_nil]; simp [pairs, List.map_map, Function.comp_def]
  have : groupSem keys aggs rows = (runPairs aggs.length [] pairs).map fun it => it.key ++ G it.key := by
    simp only [groupSem, ← hkeys, List.map_map, Function.comp_def, groupRow, G]
  rw [this]
  exact he

end Octo.Grp
