import Octo.Lemmas.TyIs
/-! Transitivity of `Is` and its soundness with respect to `conforms` ("value matches type"). -/
namespace Octo
namespace Ty

theorem any_is_plain {o : Ty} (ho : o.isUnion = false) (ha : o.isAny = false) : Ty.any.is o ≠ .is := by
  intro h
  rcases is_plain_inv (t := .any) rfl ho ha h with h | ⟨_, _, h, _⟩ | ⟨_, _, _, _, h, _⟩ | ⟨_, _, h, _⟩ | ⟨_, h⟩
  · simp at h
  · simp at h
  · simp at h
  · simp at h
  · subst h; simp [isAny] at ha

theorem is_trans_aux : ∀ (n : Nat) (a b c : Ty), a.size + b.size + c.size ≤ n →
    a.is b = .is → b.is c = .is → a.is c = .is := by
  intro n
  induction n with
  | zero => intro a b c h; have := size_pos a; omega
  | succ n ih =>
    intro a b c hn hab hbc
    -- 1. c = Any
    by_cases hcA : c.isAny = true
    · cases eq_any_of_isAny hcA; simp
    have hcA : c.isAny = false := by simpa using hcA
    -- 2. a is a union
    by_cases haU : a.isUnion = true
    · obtain ⟨xs, rfl⟩ := eq_union_of_isUnion haU
      rw [is_union_l] at hab ⊢
      intro x hx
      exact ih x b c (by have := size_le_sizeList hx; simp only [size] at hn; omega) (hab x hx) hbc
    have haU : a.isUnion = false := by simpa using haU
    -- 3. b is a union
    by_cases hbU : b.isUnion = true
    · obtain ⟨bs, rfl⟩ := eq_union_of_isUnion hbU
      rw [is_union_r a bs haU] at hab
      obtain ⟨b', hb', hab'⟩ := hab
      rw [is_union_l] at hbc
      exact ih a b' c (by have := size_le_sizeList hb'; simp only [size] at hn; omega) hab' (hbc b' hb')
    have hbU : b.isUnion = false := by simpa using hbU
    -- 4. c is a union (a, b are not)
    by_cases hcU : c.isUnion = true
    · obtain ⟨cs, rfl⟩ := eq_union_of_isUnion hcU
      rw [is_union_r b cs hbU] at hbc
      obtain ⟨c', hc', hbc'⟩ := hbc
      rw [is_union_r a cs haU]
      exact ⟨c', hc', ih a b c' (by have := size_le_sizeList hc'; simp only [size] at hn; omega) hab hbc'⟩
    have hcU : c.isUnion = false := by simpa using hcU
    -- 5. b = Any is impossible now
    by_cases hbA : b.isAny = true
    · cases eq_any_of_isAny hbA
      exact absurd hbc (any_is_plain hcU hcA)
    have hbA : b.isAny = false := by simpa using hbA
    -- 6. the structural core
    rcases is_plain_inv haU hbU hbA hab with ⟨rfl, hb⟩ | ⟨e, e', rfl, rfl, he⟩ | ⟨ns, ts, ns', ts', rfl, rfl, hl, hs⟩ |
        ⟨ts, ts', rfl, rfl, hl, hs⟩ | ⟨hc, rfl⟩
    · -- a = listNil
      rcases hb with rfl | ⟨e', rfl⟩
      · exact hbc
      · rcases is_plain_inv hbU hcU hcA hbc with ⟨h, _⟩ | ⟨_, e'', _, rfl, _⟩ | ⟨_, _, _, _, h, _⟩ | ⟨_, _, h, _⟩ | ⟨_, h⟩
        · simp at h
        · simp
        · simp at h
        · simp at h
        · subst h; simp
    · rcases is_plain_inv hbU hcU hcA hbc with ⟨h, _⟩ | ⟨e1, e'', h1, rfl, h2⟩ | ⟨_, _, _, _, h, _⟩ | ⟨_, _, h, _⟩ | ⟨h, _⟩
      · simp at h
      · cases h1
        rw [is_list_list]
        exact ih e e' e'' (by simp only [size] at hn; omega) he h2
      · simp at h
      · simp at h
      · simp [isConst] at h
    · rcases is_plain_inv hbU hcU hcA hbc with ⟨h, _⟩ | ⟨_, _, h, _⟩ | ⟨ns1, ts1, ns'', ts'', h1, rfl, hl2, hs2⟩ | ⟨_, _, h, _⟩ | ⟨h, _⟩
      · simp at h
      · simp at h
      · cases h1
        rw [is_struct_struct]
        refine ⟨hl.trans hl2, structLoop_trans _ ns ts ns' ts' ns'' ts'' ?_ hl hl2 hs hs2⟩
        intro x hx y hy z hz
        exact ih x y z (by
          have := size_le_sizeList hx; have := size_le_sizeList hy; have := size_le_sizeList hz
          simp only [size] at hn; omega)
      · simp at h
      · simp [isConst] at h
    · rcases is_plain_inv hbU hcU hcA hbc with ⟨h, _⟩ | ⟨_, _, h, _⟩ | ⟨_, _, _, _, h, _⟩ | ⟨ts1, ts'', h1, rfl, hl2, hs2⟩ | ⟨h, _⟩
      · simp at h
      · simp at h
      · simp at h
      · cases h1
        rw [is_tuple_tuple]
        refine ⟨hl.trans hl2, tupleLoop_trans _ ts ts' ts'' ?_ hl hl2 hs hs2⟩
        intro x hx y hy z hz
        exact ih x y z (by
          have := size_le_sizeList hx; have := size_le_sizeList hy; have := size_le_sizeList hz
          simp only [size] at hn; omega)
      · simp [isConst] at h
    · exact hbc

/-- `Is` (= `TypeRelationIs`) is transitive -/
theorem is_trans {a b c : Ty} (h1 : a.is b = .is) (h2 : b.is c = .is) : a.is c = .is :=
  is_trans_aux _ a b c (Nat.le_refl _) h1 h2

end Ty

/-! ### soundness of `Is` for the Spec notion "value matches type" -/

theorem conformsAny_iff (alts : List Ty) (v : Value) :
    conformsAny alts v = true ↔ ∃ a ∈ alts, conforms a v = true := by
  induction alts with
  | nil => simp [conformsAny]
  | cons a as ih => simp [conformsAny, ih]

@[simp] theorem conforms_any (v : Value) : conforms .any v = true := by cases v <;> simp [conforms]
@[simp] theorem conforms_union (alts : List Ty) (v : Value) : conforms (.union alts) v = conformsAny alts v := by
  cases v <;> simp [conforms]

namespace Ty

theorem conformsZip_struct_mono (f : Ty → Ty → Rel) : ∀ (ns : List Name) (ts : List Ty) (ns' : List Name) (ts' : List Ty)
    (xs : List Value),
    (∀ a ∈ ts, ∀ b ∈ ts', f a b = .is → ∀ v, conforms a v = true → conforms b v = true) →
    ts.length = ts'.length → structLoop f ns ts ns' ts' = .is →
    conformsZip ts xs = true → conformsZip ts' xs = true
  | _, [], _, [], xs, _, _, _, h => h
  | _, [], _, _ :: _, _, _, hl, _, _ => by simp at hl
  | _, _ :: _, _, [], _, _, hl, _, _ => by simp at hl
  | _, _ :: _, _, _ :: _, [], _, _, _, h => by simp [conformsZip] at h
  | ns, a :: ts, ns', b :: ts', x :: xs, h, hl, hs, hc => by
    rw [structLoop_cons] at hs
    simp only [conformsZip, Bool.and_eq_true] at hc ⊢
    exact ⟨h a (by simp) b (by simp) hs.2.1 x hc.1,
      conformsZip_struct_mono f ns.tail ts ns'.tail ts' xs
        (fun a ha b hb => h a (by simp [ha]) b (by simp [hb])) (by simpa using hl) hs.2.2 hc.2⟩

theorem conformsZip_tuple_mono (f : Ty → Ty → Rel) : ∀ (ts ts' : List Ty) (xs : List Value),
    (∀ a ∈ ts, ∀ b ∈ ts', f a b = .is → ∀ v, conforms a v = true → conforms b v = true) →
    ts.length = ts'.length → tupleLoop f ts ts' = .is →
    conformsZip ts xs = true → conformsZip ts' xs = true
  | [], [], xs, _, _, _, h => h
  | [], _ :: _, _, _, hl, _, _ => by simp at hl
  | _ :: _, [], _, _, hl, _, _ => by simp at hl
  | _ :: _, _ :: _, [], _, _, _, h => by simp [conformsZip] at h
  | a :: ts, b :: ts', x :: xs, h, hl, hs, hc => by
    rw [tupleLoop_cons] at hs
    simp only [conformsZip, Bool.and_eq_true] at hc ⊢
    exact ⟨h a (by simp) b (by simp) hs.1 x hc.1,
      conformsZip_tuple_mono f ts ts' xs
        (fun a ha b hb => h a (by simp [ha]) b (by simp [hb])) (by simpa using hl) hs.2 hc.2⟩

theorem is_sound_aux : ∀ (n : Nat) (a b : Ty), a.size + b.size ≤ n → a.is b = .is →
    ∀ v, conforms a v = true → conforms b v = true := by
  intro n
  induction n with
  | zero => intro a b h; have := size_pos a; omega
  | succ n ih =>
    intro a b hn hab v hv
    by_cases hbA : b.isAny = true
    · cases eq_any_of_isAny hbA; simp
    have hbA : b.isAny = false := by simpa using hbA
    by_cases haU : a.isUnion = true
    · obtain ⟨xs, rfl⟩ := eq_union_of_isUnion haU
      rw [is_union_l] at hab
      rw [conforms_union, conformsAny_iff] at hv
      obtain ⟨x, hx, hxv⟩ := hv
      exact ih x b (by have := size_le_sizeList hx; simp only [size] at hn; omega) (hab x hx) v hxv
    have haU : a.isUnion = false := by simpa using haU
    by_cases hbU : b.isUnion = true
    · obtain ⟨bs, rfl⟩ := eq_union_of_isUnion hbU
      rw [is_union_r a bs haU] at hab
      obtain ⟨b', hb', hab'⟩ := hab
      rw [conforms_union, conformsAny_iff]
      exact ⟨b', hb', ih a b' (by have := size_le_sizeList hb'; simp only [size] at hn; omega) hab' v hv⟩
    have hbU : b.isUnion = false := by simpa using hbU
    rcases is_plain_inv haU hbU hbA hab with ⟨rfl, hb⟩ | ⟨e, e', rfl, rfl, he⟩ | ⟨ns, ts, ns', ts', rfl, rfl, hl, hs⟩ |
        ⟨ts, ts', rfl, rfl, hl, hs⟩ | ⟨hc, rfl⟩
    · rcases hb with rfl | ⟨e', rfl⟩
      · exact hv
      · cases v <;> simp [conforms] at hv ⊢
        subst hv; simp
    · cases v with
      | list xs =>
        simp only [conforms] at hv ⊢
        rw [List.all_eq_true] at hv ⊢
        intro x hx
        exact ih e e' (by simp only [size] at hn; omega) he x (hv x hx)
      | _ => simp [conforms] at hv
    · cases v with
      | struct xs =>
        simp only [conforms] at hv ⊢
        refine conformsZip_struct_mono _ ns ts ns' ts' _ ?_ hl hs hv
        intro x hx y hy hxy
        exact ih x y (by
          have := size_le_sizeList hx; have := size_le_sizeList hy; simp only [size] at hn; omega) hxy
      | _ => simp [conforms] at hv
    · cases v with
      | tuple xs =>
        simp only [conforms] at hv ⊢
        refine conformsZip_tuple_mono _ ts ts' _ ?_ hl hs hv
        intro x hx y hy hxy
        exact ih x y (by
          have := size_le_sizeList hx; have := size_le_sizeList hy; simp only [size] at hn; omega) hxy
      | _ => simp [conforms] at hv
    · exact hv

/-- if `a Is b` then every value matching `a` matches `b` -/
theorem is_sound {a b : Ty} (h : a.is b = .is) (v : Value) (hv : conforms a v = true) : conforms b v = true :=
  is_sound_aux _ a b (Nat.le_refl _) h v hv

end Ty
end Octo
