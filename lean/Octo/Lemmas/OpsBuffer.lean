import Octo.Lemmas.OpsNet
import Octo.Model.OpTime
/-!
  Octo.Lemmas.OpsBuffer — the bucket model of RecordEventTimeBuffer (`etbAdd`/`etbEmit` on a list of
  (time, FIFO) buckets sorted by time) implements the naive specification `bufSpec`.
-/
namespace Octo.Ops
open Octo

/-- the buckets laid out flat, in release order -/
def flat (b : Buckets) : List (Int × Rec) := b.flatMap fun p => p.2.map fun r => (p.1, r)

def SortedKeys (b : Buckets) : Prop := b.Pairwise fun a c => a.1 < c.1

theorem flat_cons (u : Int) (rs : List Rec) (rest : Buckets) :
    flat ((u, rs) :: rest) = rs.map (fun r => (u, r)) ++ flat rest := by simp [flat]

theorem insByEt_front (t : Int) (r : Rec) (l : List (Int × Rec)) (h : ∀ p ∈ l, t < p.1) :
    insByEt t r l = (t, r) :: l := by
  cases l with
  | nil => rfl
  | cons a as => simp [insByEt, h a List.mem_cons_self]

theorem insByEt_skip (t : Int) (r : Rec) (l1 l2 : List (Int × Rec)) (h : ∀ p ∈ l1, ¬ t < p.1) :
    insByEt t r (l1 ++ l2) = l1 ++ insByEt t r l2 := by
  induction l1 with
  | nil => rfl
  | cons a as ih =>
    have h1 := h a List.mem_cons_self
    simp only [List.cons_append, insByEt, h1, ↓reduceIte]
    rw [ih (fun p hp => h p (List.mem_cons_of_mem _ hp))]

theorem mem_flat {b : Buckets} {p : Int × Rec} (h : p ∈ flat b) : ∃ q ∈ b, q.1 = p.1 := by
  simp only [flat, List.mem_flatMap, List.mem_map] at h
  obtain ⟨q, hq, r, _, rfl⟩ := h
  exact ⟨q, hq, rfl⟩

theorem etbAdd_flat (t : Int) (r : Rec) (b : Buckets) (hs : SortedKeys b) :
    flat (etbAdd t r b) = insByEt t r (flat b) ∧ SortedKeys (etbAdd t r b) ∧
      (∀ q ∈ etbAdd t r b, q.1 = t ∨ ∃ q' ∈ b, q'.1 = q.1) := by
  induction b with
  | nil => simp [etbAdd, flat, insByEt, SortedKeys]
  | cons a rest ih =>
    obtain ⟨u, rs⟩ := a
    have hs' := List.pairwise_cons.mp hs
    have keys_rest : ∀ p ∈ flat rest, u < p.1 := by
      intro p hp
      obtain ⟨q, hq, hqp⟩ := mem_flat hp
      rw [← hqp]; exact hs'.1 q hq
    simp only [etbAdd]
    by_cases h1 : t < u
    · simp only [h1, ↓reduceIte]
      refine ⟨?_, ?_, ?_⟩
      · rw [flat_cons, flat_cons]
        rw [insByEt_front]
        · simp
        · intro p hp
          rcases List.mem_append.mp hp with h | h
          · simp only [List.mem_map] at h; obtain ⟨_, _, rfl⟩ := h; exact h1
          · have := keys_rest p h; omega
      · simp only [SortedKeys, List.pairwise_cons]
        refine ⟨?_, hs'.1, hs'.2⟩
        intro q hq
        rcases List.mem_cons.mp hq with h | h
        · subst h; exact h1
        · have := hs'.1 q h; omega
      · intro q hq
        rcases List.mem_cons.mp hq with h | h
        · left; subst h; rfl
        · right; exact ⟨q, h, rfl⟩
    · simp only [h1, ↓reduceIte]
      by_cases h2 : u < t
      · simp only [h2, ↓reduceIte]
        obtain ⟨ih1, ih2, ih3⟩ := ih hs'.2
        refine ⟨?_, ?_, ?_⟩
        · rw [flat_cons, flat_cons, ih1, insByEt_skip]
          intro p hp
          simp only [List.mem_map] at hp; obtain ⟨_, _, rfl⟩ := hp; exact h1
        · simp only [SortedKeys, List.pairwise_cons]
          refine ⟨?_, ih2⟩
          intro q hq
          rcases ih3 q hq with h | ⟨q', hq', hqq⟩
          · rw [h]; exact h2
          · rw [← hqq]; exact hs'.1 q' hq'
        · intro q hq
          rcases List.mem_cons.mp hq with h | h
          · right; exact ⟨(u, rs), List.mem_cons_self, by rw [h]⟩
          · rcases ih3 q h with h' | ⟨q', hq', hqq⟩
            · left; exact h'
            · right; exact ⟨q', List.mem_cons_of_mem _ hq', hqq⟩
      · have hut : u = t := by omega
        subst hut
        simp only [h2, ↓reduceIte]
        refine ⟨?_, ?_, ?_⟩
        · rw [flat_cons, flat_cons, insByEt_skip]
          · rw [insByEt_front _ _ _ keys_rest]; simp
          · intro p hp
            simp only [List.mem_map] at hp; obtain ⟨_, _, rfl⟩ := hp; exact h1
        · simp only [SortedKeys, List.pairwise_cons]; exact ⟨hs'.1, hs'.2⟩
        · intro q hq
          rcases List.mem_cons.mp hq with h | h
          · left; rw [h]
          · right; exact ⟨q, List.mem_cons_of_mem _ h, rfl⟩

theorem filter_bucket_le (u w : Int) (h : u ≤ w) (rs : List Rec) :
    (rs.map fun r => (u, r)).filter (fun p => decide (p.1 ≤ w)) = rs.map fun r => (u, r) := by
  induction rs with
  | nil => rfl
  | cons r rs ih => simp [List.filter_cons, h, ih]

theorem filter_bucket_not_le (u w : Int) (h : u ≤ w) (rs : List Rec) :
    (rs.map fun r => (u, r)).filter (fun p => !decide (p.1 ≤ w)) = [] := by
  induction rs with
  | nil => rfl
  | cons r rs ih => simp [List.filter_cons, h, ih]

theorem etbEmit_flat (w : Int) (b : Buckets) (hs : SortedKeys b) :
    (etbEmit w b).1 = ((flat b).filter fun p => decide (p.1 ≤ w)).map (·.2) ∧
    flat (etbEmit w b).2 = (flat b).filter (fun p => !decide (p.1 ≤ w)) ∧
    SortedKeys (etbEmit w b).2 := by
  induction b with
  | nil => simp [etbEmit, flat, SortedKeys]
  | cons a rest ih =>
    obtain ⟨u, rs⟩ := a
    have hs' := List.pairwise_cons.mp hs
    simp only [etbEmit]
    by_cases h1 : u ≤ w
    · simp only [h1, ↓reduceIte]
      obtain ⟨ih1, ih2, ih3⟩ := ih hs'.2
      refine ⟨?_, ?_, ih3⟩
      · rw [flat_cons, List.filter_append, List.map_append, ih1, filter_bucket_le u w h1]
        simp [List.map_map, Function.comp_def]
      · rw [flat_cons, List.filter_append, ih2, filter_bucket_not_le u w h1]; rfl
    · simp only [h1, ↓reduceIte]
      have all_gt : ∀ p ∈ flat ((u, rs) :: rest), ¬ p.1 ≤ w := by
        intro p hp
        obtain ⟨q, hq, hqp⟩ := mem_flat hp
        rw [← hqp]
        rcases List.mem_cons.mp hq with h | h
        · subst h; exact h1
        · have := hs'.1 q h; omega
      refine ⟨?_, ?_, hs⟩
      · rw [List.filter_eq_nil_iff.mpr]
        · rfl
        · intro p hp; simpa using all_gt p hp
      · rw [List.filter_eq_self.mpr]
        intro p hp; simpa using all_gt p hp

/-! ### the stable sort commutes with releasing -/
theorem sortByEt_snoc (p : List (Int × Rec)) (t : Int) (r : Rec) :
    sortByEt (p ++ [(t, r)]) = insByEt t r (sortByEt p) := by
  simp [sortByEt, List.foldl_append]

theorem insByEt_filter_gt (w t : Int) (r : Rec) (l : List (Int × Rec)) :
    (insByEt t r l).filter (fun p => !decide (p.1 ≤ w)) =
      if t ≤ w then l.filter (fun p => !decide (p.1 ≤ w)) else insByEt t r (l.filter fun p => !decide (p.1 ≤ w)) := by
  induction l with
  | nil =>
    by_cases h2 : t ≤ w
    · simp [insByEt, List.filter_cons, h2]
    · simp [insByEt, List.filter_cons, h2]
  | cons a as ih =>
    obtain ⟨u, q⟩ := a
    simp only [insByEt]
    by_cases h1 : t < u
    · simp only [h1, ↓reduceIte, List.filter_cons]
      by_cases h2 : t ≤ w
      · simp [h2]
      · have : ¬ u ≤ w := by omega
        simp [h2, this, insByEt, h1]
    · simp only [h1, ↓reduceIte, List.filter_cons, ih]
      by_cases h2 : t ≤ w
      · simp [h2]
      · simp only [h2, ↓reduceIte]
        by_cases h3 : u ≤ w
        · simp [h3]
        · simp [h3, insByEt, h1]

theorem foldl_ins_filter_gt (w : Int) (p : List (Int × Rec)) :
    ∀ acc : List (Int × Rec),
      (p.filter fun q => !decide (q.1 ≤ w)).foldl (fun acc q => insByEt q.1 q.2 acc) (acc.filter fun q => !decide (q.1 ≤ w)) =
      (p.foldl (fun acc q => insByEt q.1 q.2 acc) acc).filter (fun q => !decide (q.1 ≤ w)) := by
  induction p with
  | nil => intro acc; rfl
  | cons a as ih =>
    intro acc
    obtain ⟨t, r⟩ := a
    have key := insByEt_filter_gt w t r acc
    by_cases h : t ≤ w
    · simp only [h, ↓reduceIte] at key
      simp only [List.filter_cons, h, decide_true, Bool.not_true, Bool.false_eq_true, ↓reduceIte, List.foldl_cons]
      rw [← ih (insByEt t r acc), key]
    · simp only [h, ↓reduceIte] at key
      simp only [List.filter_cons, h, decide_false, Bool.not_false, ↓reduceIte, List.foldl_cons]
      rw [← ih (insByEt t r acc), key]

theorem sortByEt_filter_gt (w : Int) (p : List (Int × Rec)) :
    sortByEt (p.filter fun q => !decide (q.1 ≤ w)) = (sortByEt p).filter (fun q => !decide (q.1 ≤ w)) := by
  have := foldl_ins_filter_gt w p []
  simpa [sortByEt] using this

/-! ### the buffer node equals its specification -/
theorem etb_runFrom (ms : List Msg) :
    ∀ (b : Buckets) (p : List (Int × Rec)), SortedKeys b → flat b = sortByEt p →
      etbOp.runFrom b ms false = (bufSpec p ms, none) := by
  induction ms with
  | nil =>
    intro b p hs hf
    simp only [Op.runFrom, etbOp, bufSpec, dataOf]
    rw [(etbEmit_flat maxWm b hs).1, hf]
    simp [List.map_map, Function.comp_def]
  | cons m ms ih =>
    intro b p hs hf
    cases m with
    | data r =>
      cases het : r.et with
      | none =>
        have hstep : etbOp.onMsg b (.data r) = (b, [.data r], none) := by simp [etbOp, het]
        simp only [Op.runFrom, hstep, bufSpec, het, ih b p hs hf, List.cons_append, List.nil_append]
      | some t =>
        have hstep : etbOp.onMsg b (.data r) = (etbAdd t r b, [], none) := by simp [etbOp, het]
        obtain ⟨h1, h2, _⟩ := etbAdd_flat t r b hs
        simp only [Op.runFrom, hstep, bufSpec, het, List.nil_append]
        rw [ih (etbAdd t r b) (p ++ [(t, r)]) h2 (by rw [h1, hf, sortByEt_snoc])]
    | wm w =>
      have hstep : etbOp.onMsg b (.wm w) = ((etbEmit w b).2, (etbEmit w b).1.map .data ++ [.wm w], none) := rfl
      obtain ⟨h1, h2, h3⟩ := etbEmit_flat w b hs
      simp only [Op.runFrom, hstep, bufSpec]
      rw [ih (etbEmit w b).2 (p.filter fun q => !decide (q.1 ≤ w)) h3 (by rw [h2, hf, sortByEt_filter_gt])]
      simp only [h1, hf, dataOf, List.map_map, Function.comp_def, List.append_assoc]

end Octo.Ops
