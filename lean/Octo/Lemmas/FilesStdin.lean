import Octo.Model.StdinPreview
/-! stdin preview replay: the invariant `previewed ++ unread = original input`, and every preview reader sees a
    prefix of the input. -/
namespace Octo.Files

theorem previewRead_inv (copy : BytesS) (st : StdinState) (req got : Nat) :
    (previewRead copy st req got).2.2.previewed ++ (previewRead copy st req got).2.2.unread
      = st.previewed ++ st.unread := by
  unfold previewRead
  split
  · rfl
  · split
    · rfl
    · simp [List.append_assoc, List.take_append_drop]

/-- what has been delivered so far plus the rest of the replayed copy is the previewed buffer -/
theorem previewRead_prefix (copy : BytesS) (st : StdinState) (req got : Nat) (done : BytesS)
    (h : done ++ copy = st.previewed) :
    done ++ (previewRead copy st req got).1 ++ (previewRead copy st req got).2.1
      = (previewRead copy st req got).2.2.previewed := by
  unfold previewRead
  split
  · simpa using h
  · split
    · simp [List.append_assoc, List.take_append_drop, h]
    · next hc =>
      have : copy = [] := by cases copy <;> simp_all
      subst this
      simp at h
      simp [h]

theorem previewReads_inv : ∀ (reads : List (Nat × Nat)) (copy : BytesS) (st : StdinState),
    (previewReads copy st reads).2.previewed ++ (previewReads copy st reads).2.unread = st.previewed ++ st.unread
  | [], _, _ => rfl
  | (req, got) :: rs, copy, st => by
    simp only [previewReads]
    rw [previewReads_inv rs, previewRead_inv]

theorem previewReads_prefix : ∀ (reads : List (Nat × Nat)) (copy : BytesS) (st : StdinState) (done : BytesS),
    done ++ copy = st.previewed →
    ∃ copy', done ++ (previewReads copy st reads).1 ++ copy' = (previewReads copy st reads).2.previewed
  | [], copy, st, done, h => ⟨copy, by simpa [previewReads] using h⟩
  | (req, got) :: rs, copy, st, done, h => by
    simp only [previewReads]
    have h1 := previewRead_prefix copy st req got done h
    obtain ⟨c', hc'⟩ := previewReads_prefix rs (previewRead copy st req got).2.1 (previewRead copy st req got).2.2
      (done ++ (previewRead copy st req got).1) h1
    exact ⟨c', by simpa [List.append_assoc] using hc'⟩

theorem previewSessions_inv : ∀ (ss : List (List (Nat × Nat))) (st : StdinState),
    (previewSessions st ss).previewed ++ (previewSessions st ss).unread = st.previewed ++ st.unread
  | [], _ => rfl
  | s :: ss, st => by
    simp only [previewSessions]
    rw [previewSessions_inv ss]
    exact previewReads_inv s st.previewed st

end Octo.Files
