import Octo.Lemmas.OpsNet
/-!
  Octo.Lemmas.OpsSort — the btree of `(key, values, count)` items of OrderSensitiveTransform and of
  the batch printer, as a list kept strictly sorted by the node's `Less`.  Abstract part: for any
  strict weak order `less` that looks at key and values only, `bump` keeps the list sorted with
  positive counts and changes exactly the count of the class of its argument.
-/
namespace Octo.Ops
open Octo

/-- `less` is a strict weak order on the well-formed items `P` (same key and value widths) that looks
    at key and values only -/
structure SWO (P : SItem → Prop) (less : SItem → SItem → Bool) : Prop where
  irrefl : ∀ a, P a → less a a = false
  trans : ∀ a b c, P a → P b → P c → less a b = true → less b c = true → less a c = true
  incomp_left : ∀ a b c, P a → P b → P c → less a b = false → less b a = false → less a c = less b c
  incomp_right : ∀ a b c, P a → P b → P c → less a b = false → less b a = false → less c a = less c b
  ext_left : ∀ a a' b, a.key = a'.key → a.vals = a'.vals → less a b = less a' b
  ext_right : ∀ a a' b, a.key = a'.key → a.vals = a'.vals → less b a = less b a'
  ext_P : ∀ a a', a.key = a'.key → a.vals = a'.vals → P a → P a'

/-- same class of the order -/
def eqv (less : SItem → SItem → Bool) (a b : SItem) : Bool := !less a b && !less b a

def StrictSorted (less : SItem → SItem → Bool) (t : List SItem) : Prop := t.Pairwise fun a b => less a b = true

/-- same key and values (the count may differ) -/
def SameKV (a b : SItem) : Prop := a.key = b.key ∧ a.vals = b.vals

theorem treeCount_of_all_gt (less : SItem → SItem → Bool) (z : SItem) (t : List SItem)
    (h : ∀ a ∈ t, less z a = true) : treeCount less z t = 0 := by
  cases t with
  | nil => rfl
  | cons a as => simp [treeCount, h a List.mem_cons_self]

theorem bump_mem (less : SItem → SItem → Bool) (x : SItem) (retr : Bool) (t : List SItem) (b : SItem)
    (hb : b ∈ bump less x retr t) : SameKV b x ∨ ∃ a ∈ t, SameKV b a := by
  induction t with
  | nil =>
    cases retr
    · simp only [bump, Bool.false_eq_true, ↓reduceIte, List.mem_singleton] at hb
      subst hb; exact Or.inl ⟨rfl, rfl⟩
    · simp [bump] at hb
  | cons y ys ih =>
    simp only [bump] at hb
    by_cases h1 : less x y = true
    · simp only [h1, ↓reduceIte] at hb
      cases retr
      · simp only [Bool.false_eq_true, ↓reduceIte] at hb
        rcases List.mem_cons.mp hb with h | h
        · subst h; exact Or.inl ⟨rfl, rfl⟩
        · exact Or.inr ⟨b, h, rfl, rfl⟩
      · simp only [↓reduceIte] at hb
        exact Or.inr ⟨b, hb, rfl, rfl⟩
    · simp only [h1, Bool.false_eq_true, ↓reduceIte] at hb
      by_cases h2 : less y x = true
      · simp only [h2, ↓reduceIte] at hb
        rcases List.mem_cons.mp hb with h | h
        · subst h; exact Or.inr ⟨b, List.mem_cons_self, rfl, rfl⟩
        · rcases ih h with h' | ⟨a, ha, hka⟩
          · exact Or.inl h'
          · exact Or.inr ⟨a, List.mem_cons_of_mem _ ha, hka⟩
      · simp only [h2, Bool.false_eq_true, ↓reduceIte] at hb
        by_cases h3 : y.count + delta retr > 0
        · simp only [h3, ↓reduceIte] at hb
          rcases List.mem_cons.mp hb with h | h
          · subst h; exact Or.inr ⟨y, List.mem_cons_self, rfl, rfl⟩
          · exact Or.inr ⟨b, List.mem_cons_of_mem _ h, rfl, rfl⟩
        · simp only [h3, ↓reduceIte] at hb
          exact Or.inr ⟨b, List.mem_cons_of_mem _ hb, rfl, rfl⟩

theorem bump_sorted (P : SItem → Prop) (less : SItem → SItem → Bool) (S : SWO P less) (x : SItem) (retr : Bool)
    (t : List SItem) (hx : P x) (hP : ∀ a ∈ t, P a)
    (hs : StrictSorted less t) : StrictSorted less (bump less x retr t) := by
  induction t with
  | nil => cases retr <;> simp [bump, StrictSorted]
  | cons y ys ih =>
    have hPy := hP y List.mem_cons_self
    have hPys : ∀ a ∈ ys, P a := fun a ha => hP a (List.mem_cons_of_mem _ ha)
    have ih := ih hPys
    have hs' := List.pairwise_cons.mp hs
    simp only [bump]
    by_cases h1 : less x y = true
    · simp only [h1, ↓reduceIte]
      cases retr
      · simp only [Bool.false_eq_true, ↓reduceIte]
        refine List.pairwise_cons.mpr ⟨?_, hs⟩
        intro b hb
        rw [S.ext_left ⟨x.key, x.vals, 1⟩ x b rfl rfl]
        rcases List.mem_cons.mp hb with h | h
        · rw [h]; exact h1
        · exact S.trans _ _ _ hx hPy (hPys b h) h1 (hs'.1 b h)
      · exact hs
    · simp only [h1, Bool.false_eq_true, ↓reduceIte]
      by_cases h2 : less y x = true
      · simp only [h2, ↓reduceIte]
        refine List.pairwise_cons.mpr ⟨?_, ih hs'.2⟩
        intro b hb
        rcases bump_mem less x retr ys b hb with hk | ⟨a, ha, hk⟩
        · rw [S.ext_right b x y hk.1 hk.2]; exact h2
        · rw [S.ext_right b a y hk.1 hk.2]; exact hs'.1 a ha
      · simp only [h2, Bool.false_eq_true, ↓reduceIte]
        by_cases h3 : y.count + delta retr > 0
        · simp only [h3, ↓reduceIte]
          refine List.pairwise_cons.mpr ⟨?_, hs'.2⟩
          intro b hb; rw [S.ext_left ⟨y.key, y.vals, y.count + delta retr⟩ y b rfl rfl]; exact hs'.1 b hb
        · simp only [h3, ↓reduceIte]; exact hs'.2

theorem bump_counts_pos (less : SItem → SItem → Bool) (x : SItem) (retr : Bool) (t : List SItem)
    (hp : ∀ a ∈ t, 0 < a.count) : ∀ a ∈ bump less x retr t, 0 < a.count := by
  induction t with
  | nil =>
    intro a ha
    cases retr
    · simp only [bump, Bool.false_eq_true, ↓reduceIte, List.mem_singleton] at ha; subst ha; simp
    · simp [bump] at ha
  | cons y ys ih =>
    have hy := hp y List.mem_cons_self
    have hys : ∀ a ∈ ys, 0 < a.count := fun a ha => hp a (List.mem_cons_of_mem _ ha)
    intro a ha
    simp only [bump] at ha
    by_cases h1 : less x y = true
    · simp only [h1, ↓reduceIte] at ha
      cases retr
      · simp only [Bool.false_eq_true, ↓reduceIte] at ha
        rcases List.mem_cons.mp ha with h | h
        · subst h; simp
        · exact hp a h
      · simp only [↓reduceIte] at ha; exact hp a ha
    · simp only [h1, Bool.false_eq_true, ↓reduceIte] at ha
      by_cases h2 : less y x = true
      · simp only [h2, ↓reduceIte] at ha
        rcases List.mem_cons.mp ha with h | h
        · subst h; exact hy
        · exact ih hys a h
      · simp only [h2, Bool.false_eq_true, ↓reduceIte] at ha
        by_cases h3 : y.count + delta retr > 0
        · simp only [h3, ↓reduceIte] at ha
          rcases List.mem_cons.mp ha with h | h
          · subst h; exact h3
          · exact hys a h
        · simp only [h3, ↓reduceIte] at ha; exact hys a ha

/-- `bump` changes the count of the class of `x` by ±1 and nothing else (a retraction needs the
    class to be present) -/
theorem treeCount_bump (P : SItem → Prop) (less : SItem → SItem → Bool) (S : SWO P less) (x : SItem) (retr : Bool)
    (t : List SItem) (hx : P x) (hP : ∀ a ∈ t, P a)
    (hs : StrictSorted less t) (hp : ∀ a ∈ t, 0 < a.count) (hr : retr = true → 0 < treeCount less x t)
    (z : SItem) (hz : P z) :
    treeCount less z (bump less x retr t) = treeCount less z t + (if eqv less z x then delta retr else 0) := by
  induction t with
  | nil =>
    cases retr
    · have e1 : less z { x with count := 1 } = less z x := S.ext_right _ x z rfl rfl
      have e2 : less { x with count := 1 } z = less x z := S.ext_left _ x z rfl rfl
      simp only [bump, Bool.false_eq_true, ↓reduceIte, treeCount, e1, e2, eqv, delta]
      cases less z x <;> cases less x z <;> simp
    · simp [treeCount] at hr
  | cons y ys ih =>
    have hPy := hP y List.mem_cons_self
    have hPys : ∀ a ∈ ys, P a := fun a ha => hP a (List.mem_cons_of_mem _ ha)
    have ih := ih hPys
    have hs' := List.pairwise_cons.mp hs
    have hys : ∀ a ∈ ys, 0 < a.count := fun a ha => hp a (List.mem_cons_of_mem _ ha)
    have hy := hp y List.mem_cons_self
    simp only [bump]
    by_cases h1 : less x y = true
    · -- x is below the whole tree
      simp only [h1, ↓reduceIte]
      cases retr
      · have e1 : less z { x with count := 1 } = less z x := S.ext_right _ x z rfl rfl
        have e2 : less { x with count := 1 } z = less x z := S.ext_left _ x z rfl rfl
        simp only [Bool.false_eq_true, ↓reduceIte, treeCount, e1, e2, eqv, delta]
        cases hzx : less z x
        · cases hxz : less x z
          · have : less z y = true := by rw [S.incomp_left z x y hz hx hPy hzx hxz]; exact h1
            simp [this]
          · simp
        · have : less z y = true := S.trans _ _ _ hz hx hPy hzx h1
          simp [this]
      · have := hr rfl; simp [treeCount, h1] at this
    · have h1' : less x y = false := by simpa using h1
      simp only [h1, Bool.false_eq_true, ↓reduceIte]
      by_cases h2 : less y x = true
      · -- x is above y: recurse
        simp only [h2, ↓reduceIte, treeCount]
        have hr' : retr = true → 0 < treeCount less x ys := by
          intro h; have := hr h; simpa [treeCount, h1', h2] using this
        have ih' := ih hs'.2 hys hr'
        by_cases hzy : less z y = true
        · have hzx : less z x = true := S.trans _ _ _ hz hPy hx hzy h2
          simp [hzy, eqv, hzx]
        · have hzy' : less z y = false := by simpa using hzy
          simp only [hzy', Bool.false_eq_true, ↓reduceIte]
          by_cases hyz : less y z = true
          · simp only [hyz, ↓reduceIte]; exact ih'
          · have hyz' : less y z = false := by simpa using hyz
            have hzx : less z x = true := by rw [S.incomp_left z y x hz hPy hx hzy' hyz']; exact h2
            simp [hyz', eqv, hzx]
      · -- x ~ y
        have h2' : less y x = false := by simpa using h2
        simp only [h2', Bool.false_eq_true, ↓reduceIte]
        have hzx_y : less z x = less z y := S.incomp_right x y z hx hPy hz h1' h2'
        have hxz_y : less x z = less y z := S.incomp_left x y z hx hPy hz h1' h2'
        by_cases h3 : y.count + delta retr > 0
        · have e1 : less z { y with count := y.count + delta retr } = less z y := S.ext_right _ y z rfl rfl
          have e2 : less { y with count := y.count + delta retr } z = less y z := S.ext_left _ y z rfl rfl
          simp only [h3, ↓reduceIte, treeCount, e1, e2, eqv, hzx_y, hxz_y]
          cases hzy : less z y
          · cases hyz : less y z <;> simp
          · simp
        · -- the item is deleted: its count was 1 and this is a retraction
          have hretr : retr = true := by
            cases retr
            · simp only [delta, Bool.false_eq_true, ↓reduceIte] at h3; omega
            · rfl
          subst hretr
          simp only [delta, ↓reduceIte] at h3
          have hy1 : y.count = 1 := by omega
          simp only [delta, h3, ↓reduceIte, treeCount, eqv, hzx_y, hxz_y]
          cases hzy : less z y
          · cases hyz : less y z
            · have : treeCount less z ys = 0 := by
                apply treeCount_of_all_gt less
                intro a ha
                rw [S.incomp_left z y a hz hPy (hPys a ha) hzy hyz]; exact hs'.1 a ha
              simp [this, hy1]
            · simp
          · have : treeCount less z ys = 0 := by
              apply treeCount_of_all_gt less
              intro a ha
              exact S.trans _ _ _ hz hPy (hPys a ha) hzy (hs'.1 a ha)
            simp [this]

theorem bump_P (P : SItem → Prop) (less : SItem → SItem → Bool) (S : SWO P less) (x : SItem) (retr : Bool)
    (t : List SItem) (hx : P x) (hP : ∀ a ∈ t, P a) : ∀ a ∈ bump less x retr t, P a := by
  intro a ha
  rcases bump_mem less x retr t a ha with h | ⟨b, hb, h⟩
  · exact S.ext_P x a h.1.symm h.2.symm hx
  · exact S.ext_P b a h.1.symm h.2.symm (hP b hb)

end Octo.Ops
