import Octo.Lemmas.PlanRules
import Octo.Lemmas.CmpLaws
/-!
  Soundness of `PushDownFilterPredicatesIntoStreamJoinKey`: an equality conjunct whose sides read one join input
  each is TRUE on a joined record exactly when the two key values are non-NULL and `Compare`-equal — what the
  stream join's key matching tests.
-/
namespace Octo.Plan
open Octo

/-- `a` (evaluated on the left record) `=` `b` (evaluated on the right record) is TRUE -/
def eqT (cxl cxr : Ctx) (a b : PExpr) : Bool :=
  match eval cxl a, eval cxr b with
  | some va, some vb => !isNull va && !isNull vb && cmp va vb == 0
  | _, _ => false

def keysTrue (cxl cxr : Ctx) : List KeyClass → Bool
  | [] => true
  | .stay _ :: r => keysTrue cxl cxr r
  | .key a b :: r => eqT cxl cxr a b && keysTrue cxl cxr r

theorem applyBin_eq (x y : Value) : Sql.applyBin .eq x y = some (.bool (cmp x y == 0)) := by
  cases x <;> cases y <;> rfl

theorem applyFn_eq (va vb : Value) :
    applyFn "=" [va, vb] = if isNull va || isNull vb then some .null else some (.bool (cmp va vb == 0)) := by
  have h1 : ("=" == "is null") = false := by decide
  have h2 : ("=" == "is not null") = false := by decide
  have h3 : ("=" == "not") = false := by decide
  have h4 : ("=" == "=") = true := by decide
  simp only [applyFn, h1, h2, h3, h4, Bool.false_eq_true, if_false, if_true, List.any_cons, List.any_nil,
    Bool.or_false, applyBin_eq]

/-- `Value.Equal` on the two sides of an `=` call is TRUE iff both are non-NULL and `Compare`-equal -/
theorem isTrue_eq_call (cx : Ctx) (a b : PExpr) :
    isTrueV (eval cx (.nary (.call "=") [a, b])) =
      match eval cx a, eval cx b with
      | some va, some vb => !isNull va && !isNull vb && cmp va vb == 0
      | _, _ => false := by
  simp only [eval, evalL, combineN]
  cases eval cx a with
  | none => simp [isTrueV, sequence]
  | some va =>
    cases eval cx b with
    | none => simp [isTrueV, sequence]
    | some vb =>
      simp only [sequence, applyFn_eq]
      cases hn : (isNull va || isNull vb)
      · simp only [Bool.or_eq_false_iff] at hn
        simp only [Bool.false_eq_true, if_false, hn.1, hn.2, Bool.not_false, Bool.true_and]
        cases hc : (cmp va vb == 0) <;> simp [isTrueV]
      · simp only [if_true, isTrueV]
        simp only [Bool.or_eq_true] at hn
        rcases hn with hn | hn <;> simp [hn]

theorem cmp_eq_zero_symm (a b : Value) : (cmp a b == 0) = (cmp b a == 0) := by
  have h := cmpWith_antisymm cmpFloatFixed_laws a b
  have h' : cmp a b = - cmp b a := h
  cases h1 : (cmp a b == 0) <;> cases h2 : (cmp b a == 0) <;> simp_all <;> omega

/-- one classified conjunct: its truth on the joined record is the truth of the key pair -/
theorem keep_of_key {ctx : Ctx} {lf rf : List String} {c a b : PExpr} {l r : Row}
    (hc : classifyKey lf rf c = some (.key a b)) (hs : HSafe c)
    (hl : Row.names l = lf) (hr : Row.names r = rf) :
    keep ctx c (l ++ r) = eqT (l :: ctx) (r :: ctx) a b := by
  unfold classifyKey at hc
  split at hc
  · rename_i fn args
    split at hc
    · cases hc
    · rename_i hfn
      have hfn' : fn = "=" := by simpa using hfn
      subst hfn'
      have har : args.length = 2 := hs.2.1 rfl
      match args, har with
      | [first, second], _ =>
        simp only at hc
        split at hc
        · rename_i hcond
          simp only [Option.some.injEq, KeyClass.key.injEq] at hc
          obtain ⟨rfl, rfl⟩ := hc
          simp only [Bool.and_eq_true, Bool.not_eq_true'] at hcond
          obtain ⟨⟨⟨_, hfR⟩, hsL⟩, _⟩ := hcond
          simp only [keep, isTrue_eq_call, eqT]
          rw [eval_append_left l r ctx first (fun x hx => by rw [hr]; exact not_mem_of_not_uses hfR x hx),
              eval_append_right l r ctx second (fun x hx => by rw [hl]; exact not_mem_of_not_uses hsL x hx)]
        · split at hc
          · rename_i hcond
            simp only [Option.some.injEq, KeyClass.key.injEq] at hc
            obtain ⟨rfl, rfl⟩ := hc
            simp only [Bool.and_eq_true, Bool.not_eq_true'] at hcond
            obtain ⟨⟨⟨hfL, _⟩, _⟩, hsR⟩ := hcond
            simp only [keep, isTrue_eq_call, eqT]
            rw [eval_append_right l r ctx first (fun x hx => by rw [hl]; exact not_mem_of_not_uses hfL x hx),
                eval_append_left l r ctx second (fun x hx => by rw [hr]; exact not_mem_of_not_uses hsR x hx)]
            cases eval (r :: ctx) first with
            | none => cases eval (l :: ctx) second <;> rfl
            | some va =>
              cases eval (l :: ctx) second with
              | none => rfl
              | some vb =>
                simp only
                rw [cmp_eq_zero_symm va vb, Bool.and_comm (!isNull va) (!isNull vb)]
          · cases hc
  · cases hc

theorem stay_of_classify {lf rf : List String} {c c' : PExpr}
    (hc : classifyKey lf rf c = some (.stay c')) : c' = c := by
  unfold classifyKey at hc
  split at hc
  · split at hc
    · simpa using hc.symm
    · split at hc
      · simp only at hc
        split at hc
        · cases hc
        · split at hc
          · cases hc
          · simpa using hc.symm
      · cases hc
  · simpa using hc.symm

/-- the whole predicate: TRUE iff the conjuncts that stay are TRUE and the extracted key pairs are equal -/
theorem all_keep_classify {ctx : Ctx} {lf rf : List String} {l r : Row}
    (hl : Row.names l = lf) (hr : Row.names r = rf) : ∀ {fp : List PExpr} {cls : List KeyClass},
    classifyKeys lf rf fp = some cls → (∀ c ∈ fp, HSafe c) →
    fp.all (fun c => keep ctx c (l ++ r)) =
      ((stays cls).all (fun c => keep ctx c (l ++ r)) && keysTrue (l :: ctx) (r :: ctx) cls)
  | [], cls, h, _ => by
    simp only [classifyKeys, Option.some.injEq] at h
    subst h
    simp [stays, keysTrue]
  | c :: fp, cls, h, hs => by
    simp only [classifyKeys] at h
    cases hk : classifyKey lf rf c with
    | none => simp [hk] at h
    | some k =>
      cases hks : classifyKeys lf rf fp with
      | none => simp [hk, hks] at h
      | some ks =>
        simp only [hk, hks, Option.some.injEq] at h
        subst h
        have ih := all_keep_classify (ctx := ctx) hl hr hks (fun x hx => hs x (by simp [hx]))
        cases k with
        | stay c' =>
          have := stay_of_classify hk
          subst this
          simp only [List.all_cons, stays, keysTrue, ih, Bool.and_assoc]
        | key a b =>
          simp only [List.all_cons, stays, keysTrue, ih, keep_of_key hk (hs c (by simp)) hl hr]
          cases eqT (l :: ctx) (r :: ctx) a b <;> cases (stays ks).all (fun c => keep ctx c (l ++ r)) <;> simp

theorem stays_mem {lf rf : List String} : ∀ {fp : List PExpr} {cls : List KeyClass},
    classifyKeys lf rf fp = some cls → ∀ c ∈ stays cls, c ∈ fp
  | [], cls, h, c, hc => by
    simp only [classifyKeys, Option.some.injEq] at h
    subst h
    simp [stays] at hc
  | c0 :: fp, cls, h, c, hc => by
    simp only [classifyKeys] at h
    cases hk : classifyKey lf rf c0 with
    | none => simp [hk] at h
    | some k =>
      cases hks : classifyKeys lf rf fp with
      | none => simp [hk, hks] at h
      | some ks =>
        simp only [hk, hks, Option.some.injEq] at h
        subst h
        cases k with
        | stay c' =>
          have := stay_of_classify hk
          subst this
          simp only [stays, List.mem_cons] at hc
          rcases hc with hc | hc
          · simp [hc]
          · exact List.mem_cons_of_mem _ (stays_mem hks c hc)
        | key a b =>
          simp only [stays] at hc
          exact List.mem_cons_of_mem _ (stays_mem hks c hc)

/-- the extracted key expressions are well-formed over their own side -/
theorem key_exprs_ok {lf rf outer : List String} {c a b : PExpr}
    (hc : classifyKey lf rf c = some (.key a b)) (hok : ExprOK ((lf ++ rf) ++ outer) c) :
    ExprOK (lf ++ outer) a ∧ ExprOK (rf ++ outer) b := by
  unfold classifyKey at hc
  split at hc
  · rename_i fn args
    split at hc
    · cases hc
    · rename_i hfn
      have hfn' : fn = "=" := by simpa using hfn
      subst hfn'
      have har : args.length = 2 := hok.safe.2.1 rfl
      match args, har with
      | [first, second], _ =>
        have hsafe := hok.safe.2.2
        simp only [HSafeL] at hsafe
        have hf : ExprOK ((lf ++ rf) ++ outer) first :=
          ⟨fun x hx => hok.inScope x (by simp [varsUsed, varsUsedL, hx]), hsafe.1⟩
        have hsn : ExprOK ((lf ++ rf) ++ outer) second :=
          ⟨fun x hx => hok.inScope x (by simp [varsUsed, varsUsedL, hx]), hsafe.2.1⟩
        simp only at hc
        split at hc
        · rename_i hcond
          simp only [Option.some.injEq, KeyClass.key.injEq] at hc
          obtain ⟨rfl, rfl⟩ := hc
          simp only [Bool.and_eq_true, Bool.not_eq_true'] at hcond
          obtain ⟨⟨⟨_, hfR⟩, hsL⟩, _⟩ := hcond
          exact ⟨scope_drop_right hf hfR, scope_drop_left hsn hsL⟩
        · split at hc
          · rename_i hcond
            simp only [Option.some.injEq, KeyClass.key.injEq] at hc
            obtain ⟨rfl, rfl⟩ := hc
            simp only [Bool.and_eq_true, Bool.not_eq_true'] at hcond
            obtain ⟨⟨⟨hfL, _⟩, _⟩, hsR⟩ := hcond
            exact ⟨scope_drop_right hsn hsR, scope_drop_left hf hfL⟩
          · cases hc
  · cases hc

theorem keys_ok {lf rf outer : List String} : ∀ {fp : List PExpr} {cls : List KeyClass},
    classifyKeys lf rf fp = some cls → (∀ c ∈ fp, ExprOK ((lf ++ rf) ++ outer) c) →
    ExprsOK (lf ++ outer) (leftKeys cls) ∧ ExprsOK (rf ++ outer) (rightKeys cls) ∧
      (leftKeys cls).length = (rightKeys cls).length
  | [], cls, h, _ => by
    simp only [classifyKeys, Option.some.injEq] at h
    subst h
    simp [leftKeys, rightKeys, ExprsOK]
  | c :: fp, cls, h, hs => by
    simp only [classifyKeys] at h
    cases hk : classifyKey lf rf c with
    | none => simp [hk] at h
    | some k =>
      cases hks : classifyKeys lf rf fp with
      | none => simp [hk, hks] at h
      | some ks =>
        simp only [hk, hks, Option.some.injEq] at h
        subst h
        obtain ⟨ih1, ih2, ih3⟩ := keys_ok (outer := outer) hks (fun x hx => hs x (by simp [hx]))
        cases k with
        | stay c' => exact ⟨ih1, ih2, ih3⟩
        | key a b =>
          obtain ⟨ha, hb⟩ := key_exprs_ok hk (hs c (by simp))
          refine ⟨?_, ?_, by simp [leftKeys, rightKeys, ih3]⟩
          · intro e he
            simp only [leftKeys, List.mem_cons] at he
            rcases he with rfl | he
            · exact ha
            · exact ih1 e he
          · intro e he
            simp only [rightKeys, List.mem_cons] at he
            rcases he with rfl | he
            · exact hb
            · exact ih2 e he

/-! ### key matching with the additional keys -/

theorem sequence_append : ∀ (a b : List (Option Value)),
    sequence (a ++ b) = match sequence a, sequence b with
      | some x, some y => some (x ++ y)
      | _, _ => none
  | [], b => by cases h : sequence b <;> simp [sequence, h]
  | none :: a, b => by simp [sequence]
  | some v :: a, b => by
    simp only [List.cons_append, sequence, sequence_append a b]
    cases sequence a <;> cases sequence b <;> simp

theorem sequence_length : ∀ {rs : List (Option Value)} {vs : List Value}, sequence rs = some vs → vs.length = rs.length
  | [], vs, h => by simp only [sequence, Option.some.injEq] at h; subst h; rfl
  | none :: _, vs, h => by simp [sequence] at h
  | some v :: rs, vs, h => by
    simp only [sequence] at h
    cases hs : sequence rs with
    | none => simp [hs] at h
    | some ws =>
      simp only [hs, Option.some.injEq] at h
      subst h
      simp [sequence_length hs]

theorem evalL_length (ctx : Ctx) : ∀ es : List PExpr, (evalL ctx es).length = es.length
  | [] => by simp [evalL]
  | e :: es => by simp [evalL, evalL_length ctx es]

theorem evalArgs_length {ctx : Ctx} {es : List PExpr} {vs : List Value} (h : evalArgs ctx es = some vs) :
    vs.length = es.length := by
  unfold evalArgs at h
  rw [sequence_length h, evalL_length]

theorem evalArgs_append (ctx : Ctx) (a b : List PExpr) :
    evalArgs ctx (a ++ b) = match evalArgs ctx a, evalArgs ctx b with
      | some x, some y => some (x ++ y)
      | _, _ => none := by
  simp only [evalArgs, evalL_append, sequence_append]

theorem cmpList_append : ∀ (kl kr a b : List Value), kl.length = kr.length →
    (cmpList (kl ++ a) (kr ++ b) == 0) = (cmpList kl kr == 0 && cmpList a b == 0)
  | [], [], a, b, _ => by simp [cmpList, cmpListWith]
  | [], _ :: _, _, _, h => by simp at h
  | _ :: _, [], _, _, h => by simp at h
  | x :: kl, y :: kr, a, b, h => by
    have ih := cmpList_append kl kr a b (by simpa using h)
    simp only [cmpList] at ih ⊢
    simp only [List.cons_append, cmpListWith]
    by_cases hc : cmpWith cmpFloatFixed x y = 0
    · simp [hc, ih]
    · simp [hc]

theorem hasNull_append (a b : List Value) : hasNull (a ++ b) = (hasNull a || hasNull b) := by
  simp [hasNull]

theorem keysTrue_eq (cxl cxr : Ctx) : ∀ cls : List KeyClass,
    keysTrue cxl cxr cls =
      match evalArgs cxl (leftKeys cls), evalArgs cxr (rightKeys cls) with
      | some a, some b => !hasNull a && !hasNull b && cmpList a b == 0
      | _, _ => false
  | [] => by simp [keysTrue, leftKeys, rightKeys, evalArgs, evalL, sequence, hasNull, cmpList, cmpListWith]
  | .stay _ :: r => by simp only [keysTrue, leftKeys, rightKeys, keysTrue_eq cxl cxr r]
  | .key a b :: r => by
    simp only [keysTrue, leftKeys, rightKeys, keysTrue_eq cxl cxr r, eqT, evalArgs, evalL]
    cases eval cxl a with
    | none => simp [sequence]
    | some va =>
      cases eval cxr b with
      | none => cases h : sequence (evalL cxl (leftKeys r)) <;> simp [sequence, h]
      | some vb =>
        cases h1 : sequence (evalL cxl (leftKeys r)) with
        | none => simp [sequence, h1]
        | some x =>
          cases h2 : sequence (evalL cxr (rightKeys r)) with
          | none => simp [sequence, h1, h2]
          | some y =>
            simp only [sequence, h1, h2, hasNull, List.any_cons, cmpList, cmpListWith, cmp]
            by_cases hc : cmpWith cmpFloatFixed va vb = 0
            · simp only [hc, bne_self_eq_false, Bool.false_eq_true, if_false, beq_self_eq_true, Bool.and_true]
              cases isNull va <;> cases isNull vb <;> cases x.any isNull <;> cases y.any isNull <;> simp
            · have hne : (cmpWith cmpFloatFixed va vb != 0) = true := by simpa using hc
              have hne' : (cmpWith cmpFloatFixed va vb == 0) = false := by simpa using hc
              simp only [hne, if_true, hne', Bool.and_false, Bool.false_and]

theorem keyMatch_append (ctx : Ctx) (lk rk : List PExpr) (cls : List KeyClass) (l r : Row)
    (hlen : lk.length = rk.length) :
    keyMatch ctx (lk ++ leftKeys cls) (rk ++ rightKeys cls) l r =
      (keyMatch ctx lk rk l r && keysTrue (l :: ctx) (r :: ctx) cls) := by
  simp only [keyMatch, evalArgs_append, keysTrue_eq]
  cases h1 : evalArgs (l :: ctx) lk with
  | none => simp
  | some kl =>
    cases h2 : evalArgs (r :: ctx) rk with
    | none => cases evalArgs (l :: ctx) (leftKeys cls) <;> simp
    | some kr =>
      cases h3 : evalArgs (l :: ctx) (leftKeys cls) with
      | none => simp
      | some a =>
        cases h4 : evalArgs (r :: ctx) (rightKeys cls) with
        | none => simp
        | some b =>
          have hl : kl.length = kr.length := by rw [evalArgs_length h1, evalArgs_length h2, hlen]
          simp only [hasNull_append, cmpList_append kl kr a b hl]
          cases hasNull kl <;> cases hasNull kr <;> cases hasNull a <;> cases hasNull b <;>
            cases (cmpList kl kr == 0) <;> cases (cmpList a b == 0) <;> rfl

/-! ### the rewrite -/

theorem join_filter_key (km km2 kt : Row → Row → Bool) (P kS : Row → Bool) (rs : List Row) : ∀ (ls : List Row),
    (∀ l ∈ ls, ∀ r ∈ rs, P (l ++ r) = (kS (l ++ r) && kt l r)) →
    (∀ l ∈ ls, ∀ r ∈ rs, km2 l r = (km l r && kt l r)) →
    (ls.flatMap fun l => (rs.filter (km l)).map fun r => l ++ r).filter P =
      (ls.flatMap fun l => (rs.filter (km2 l)).map fun r => l ++ r).filter kS
  | [], _, _ => by simp
  | l :: ls, hP, hk => by
    have ih := join_filter_key km km2 kt P kS rs ls (fun x hx => hP x (by simp [hx])) (fun x hx => hk x (by simp [hx]))
    rw [List.flatMap_cons, List.flatMap_cons, List.filter_append, List.filter_append, ih]
    congr 1
    rw [List.filter_map, List.filter_map, List.filter_filter, List.filter_filter]
    congr 1
    apply List.filter_congr
    intro r hr
    simp only [Function.comp, hP l (by simp) r hr, hk l (by simp) r hr]
    cases kS (l ++ r) <;> cases kt l r <;> cases km l r <;> rfl

theorem pushIntoStreamJoinKey_local (db : Db) : LocalOK db pushIntoStreamJoinKeyLocal := by
  intro outer q q' c hg h
  unfold pushIntoStreamJoinKeyLocal at h
  split at h
  · rename_i s e s2 lk rk l r
    simp only at h
    split at h
    · cases h
    · rename_i cls hcls
      split at h
      · simp only [Option.some.injEq, Prod.mk.injEq] at h
        obtain ⟨rfl, _⟩ := h
        exact StepOK.refl hg
      · simp only [Option.some.injEq, Prod.mk.injEq] at h
        obtain ⟨rfl, _⟩ := h
        simp only [Good, UnGood, BinGood, schema_bin] at hg
        obtain ⟨hnd, ⟨_, hgl, hgr, hs2, hlk, hrk, hlen⟩, hs, he⟩ := hg
        subst hs
        rw [hs2] at he
        have hfp : ∀ c ∈ splitByAnd e, ExprOK ((l.fields ++ r.fields) ++ outer) c := fun c hc => exprOK_conjunct he hc
        obtain ⟨hk1, hk2, hk3⟩ := keys_ok (outer := outer) hcls hfp
        have hlk' : ExprsOK (l.fields ++ outer) (lk ++ leftKeys cls) := by
          intro x hx
          rcases List.mem_append.mp hx with hx | hx
          · exact hlk x hx
          · exact hk1 x hx
        have hrk' : ExprsOK (r.fields ++ outer) (rk ++ rightKeys cls) := by
          intro x hx
          rcases List.mem_append.mp hx with hx | hx
          · exact hrk x hx
          · exact hk2 x hx
        have hgout : Good db (.bin s (.sjoin (lk ++ leftKeys cls) (rk ++ rightKeys cls)) l r) outer := by
          simp only [Good, BinGood]
          exact ⟨hnd, hgl, hgr, hs2, hlk', hrk', by simp [hlen, hk3]⟩
        have hst : ∀ c ∈ stays cls,
            ExprOK ((Plan.bin s (.sjoin (lk ++ leftKeys cls) (rk ++ rightKeys cls)) l r).fields ++ outer) c := by
          intro c hc
          simp only [fields_bin, hs2]
          exact hfp c (stays_mem hcls c hc)
        obtain ⟨ho1, ho2, ho3⟩ := optFilter_ok (cs := stays cls) hgout hst
        show StepOK db outer _ (optFilter (stays cls) (Plan.bin s (.sjoin (lk ++ leftKeys cls) (rk ++ rightKeys cls)) l r))
        refine ⟨ho1, ho2, ?_⟩
        intro ctx hb
        rw [ho3 ctx hb]
        simp only [denote, binRows, unRows]
        cases hdl : denote db l ctx with
        | none => rfl
        | some ls =>
          cases hdr : denote db r ctx with
          | none => rfl
          | some rs =>
            have hnl := denote_names hdl
            have hnr := denote_names hdr
            simp only
            rw [joinRows_good hnl hnr hb hlk' hrk', joinRows_good hnl hnr hb hlk hrk]
            have hnJ := names_of_join (m := keyMatch ctx lk rk) hnl hnr
            have hnJ' := names_of_join (m := keyMatch ctx (lk ++ leftKeys cls) (rk ++ rightKeys cls)) hnl hnr
            rw [checked_pass (by rw [hs2]; exact hnJ'), checked_pass (by rw [hs2]; exact hnJ)]
            simp only [Option.map_some]
            rw [filterRows_good (fs := l.fields ++ r.fields) hnJ hb he,
                checked_pass (by rw [hs2]; exact names_of_filter hnJ)]
            congr 1
            symm
            apply join_filter_key (keyMatch ctx lk rk) (keyMatch ctx (lk ++ leftKeys cls) (rk ++ rightKeys cls))
              (fun l r => keysTrue (l :: ctx) (r :: ctx) cls) (keep ctx e)
              (fun x => (stays cls).all fun c => keep ctx c x) rs ls
            · intro lrow hlrow rrow hrrow
              rw [keep_split]
              exact all_keep_classify (hnl lrow hlrow) (hnr rrow hrrow) hcls (fun c hc => (hfp c hc).safe)
            · intro lrow _ rrow _
              exact keyMatch_append ctx lk rk cls lrow rrow hlen
  · simp only [Option.some.injEq, Prod.mk.injEq] at h
    obtain ⟨rfl, _⟩ := h
    exact StepOK.refl hg

theorem pushIntoStreamJoinKey_ok (db : Db) : RuleOK db pushDownFilterPredicatesIntoStreamJoinKey :=
  rule_of_local (pushIntoStreamJoinKey_local db)

end Octo.Plan
