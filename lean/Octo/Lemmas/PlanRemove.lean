import Octo.Lemmas.PlanErase
/-!
  `RemoveUnusedMapFields`: one step (`removeMapField f` followed by `removeFieldFromPassers f`) computes `rmPlan f`,
  and `rmPlan f` erases the field `f` from every record the plan produces — when `f` is not used, names are unique
  and `f` does not reach an ORDER BY … LIMIT, a DISTINCT, an outer join or the source side of a lookup join
  (`Removable`).
-/
namespace Octo.Plan
open Octo

/-- what the two passes do to one schema -/
def rmSchema (f : String) (s : Schema) : Schema :=
  match lastIndexOf f s.fields with
  | none => s
  | some i => eraseSchemaField s i

/-- `removeMapField f` / `removeGroupByField f` / `removeUnusedDatasourceField f`, then `removeFieldFromPassers f`, in
    one pass (each rule only ever meets its own kind of node holding `f`: `NoMapHas` / `NoGroupByHas`) -/
def rmPlan (f : String) : Plan → Option Plan
  | .leaf s k => some (.leaf (rmSchema f s) k)
  | .un s k src =>
    match rmPlan f src with
    | none => none
    | some src' =>
      match k, lastIndexOf f s.fields with
      | .map es, some i =>
        match eraseAt es i with
        | some es' => some (.un (eraseSchemaField s i) (.map es') src')
        | none => none
      | .groupBy aggs aggExprs key kti trig, some i =>
        match eraseAt aggExprs ((i : Int) - key.length), eraseAt aggs ((i : Int) - key.length) with
        | some aggExprs', some aggs' => some (.un (eraseSchemaField s i) (.groupBy aggs' aggExprs' key kti trig) src')
        | _, _ => none
      | _, _ => some (.un (rmSchema f s) k src')
  | .bin s k l r =>
    match rmPlan f l, rmPlan f r with
    | some l', some r' => some (.bin (rmSchema f s) k l' r')
    | _, _ => none

theorem rmSchema_fields {f : String} {s : Schema} (hnd : s.fields.Nodup) :
    (rmSchema f s).fields = eraseField f s.fields := by
  unfold rmSchema
  by_cases hm : f ∈ s.fields
  · obtain ⟨j, h1, _, _, h4⟩ := lastIndexOf_some hnd hm
    simp only [h1, eraseSchemaField, h4]
  · simp only [lastIndexOf_none hm, eraseField_id hm]

theorem rmSchema_noRetr (f : String) (s : Schema) : (rmSchema f s).noRetr = s.noRetr := by
  unfold rmSchema
  cases lastIndexOf f s.fields <;> rfl

theorem rmSchema_id {f : String} {s : Schema} (h : f ∉ s.fields) : rmSchema f s = s := by
  unfold rmSchema
  rw [lastIndexOf_none h]

theorem lastIndexOf_erased {f : String} {s : Schema} {i : Nat} (hnd : s.fields.Nodup)
    (hi : lastIndexOf f s.fields = some i) : lastIndexOf f (eraseSchemaField s i).fields = none := by
  obtain ⟨j, h1, _, _, h4⟩ := lastIndexOf_some hnd (mem_of_lastIndexOf hi)
  rw [hi] at h1
  simp only [Option.some.injEq] at h1
  subst h1
  simp only [eraseSchemaField, h4]
  exact lastIndexOf_none (not_mem_eraseField f _)

theorem passersLocal_eq (f : String) (p : Plan) :
    removeFromPassersLocal f p = some (p.withSchema (rmSchema f p.schema)) := by
  unfold removeFromPassersLocal rmSchema
  cases lastIndexOf f p.fields with
  | none => cases p <;> rfl
  | some i => rfl

/-- the schemas of all nodes have unique names -/
def AllNodup : Plan → Prop
  | .leaf s _ => s.fields.Nodup
  | .un s _ src => s.fields.Nodup ∧ AllNodup src
  | .bin s _ l r => s.fields.Nodup ∧ AllNodup l ∧ AllNodup r

theorem Good.allNodup {db : Db} : ∀ {p : Plan} {outer : List String}, Good db p outer → AllNodup p
  | .leaf _ _, _, h => h.1
  | .un _ _ _, _, h => ⟨h.1, Good.allNodup h.2.1⟩
  | .bin _ .ljoin _ _, _, h => ⟨h.1, Good.allNodup h.2.1, Good.allNodup h.2.2.1⟩
  | .bin _ (.sjoin _ _) _ _, _, h => ⟨h.1, Good.allNodup h.2.1, Good.allNodup h.2.2.1⟩
  | .bin _ (.ojoin _ _ _ _) _ _, _, h => ⟨h.1, Good.allNodup h.2.1, Good.allNodup h.2.2.1⟩

/-- no group-by node declares the field -/
def NoGroupByHas (f : String) : Plan → Prop
  | .leaf _ _ => True
  | .un s (.groupBy _ _ _ _ _) src => f ∉ s.fields ∧ NoGroupByHas f src
  | .un _ _ src => NoGroupByHas f src
  | .bin _ _ l r => NoGroupByHas f l ∧ NoGroupByHas f r

/-- the two passes of one `RemoveUnusedMapFields` step are the single pass `rmPlan` -/
theorem twoPass (f : String) : ∀ (p : Plan), AllNodup p → NoGroupByHas f p →
    (match mapNodes (removeMapFieldLocal f) p with
     | some p1 => removeFieldFromPassers f p1
     | none => none) = rmPlan f p
  | .leaf s k, _, _ => by
    simp only [mapNodes, removeMapFieldLocal, removeFieldFromPassers, passersLocal_eq, rmPlan]
    rfl
  | .un s k src, h, hgb => by
    have hgbsrc : NoGroupByHas f src := by
      cases k <;> simp only [NoGroupByHas] at hgb <;> first | exact hgb.2 | exact hgb
    have ih := twoPass f src h.2 hgbsrc
    simp only [mapNodes, rmPlan]
    cases h1 : mapNodes (removeMapFieldLocal f) src with
    | none =>
      simp only [h1] at ih
      simp only [← ih]
    | some src1 =>
      simp only [h1] at ih
      simp only [removeFieldFromPassers] at ih
      cases hk : k with
      | map es =>
        simp only [removeMapFieldLocal]
        cases hi : lastIndexOf f s.fields with
        | none =>
          simp only [removeFieldFromPassers, mapNodes, ih]
          cases rmPlan f src with
          | none => rfl
          | some src' =>
            simp only [passersLocal_eq, schema_un, Plan.withSchema]
        | some i =>
          simp only
          cases he : eraseAt es i with
          | none =>
            simp only
            cases rmPlan f src <;> rfl
          | some es' =>
            simp only [removeFieldFromPassers, mapNodes, ih]
            cases rmPlan f src with
            | none => rfl
            | some src' =>
              simp only [passersLocal_eq, schema_un, Plan.withSchema]
              have : rmSchema f (eraseSchemaField s i) = eraseSchemaField s i := by
                unfold rmSchema
                rw [lastIndexOf_erased h.1 hi]
              rw [this]
      | distinct =>
        simp only [removeMapFieldLocal, removeFieldFromPassers, mapNodes, ih]
        cases rmPlan f src with
        | none => rfl
        | some src' => simp only [passersLocal_eq, schema_un, Plan.withSchema]
      | filter e =>
        simp only [removeMapFieldLocal, removeFieldFromPassers, mapNodes, ih]
        cases rmPlan f src with
        | none => rfl
        | some src' => simp only [passersLocal_eq, schema_un, Plan.withSchema]
      | groupBy a b c d e =>
        subst hk
        simp only [NoGroupByHas] at hgb
        have hi : lastIndexOf f s.fields = none := lastIndexOf_none hgb.1
        simp only [removeMapFieldLocal, removeFieldFromPassers, mapNodes, ih, hi]
        cases rmPlan f src with
        | none => rfl
        | some src' => simp only [passersLocal_eq, schema_un, Plan.withSchema]
      | unnest g =>
        simp only [removeMapFieldLocal, removeFieldFromPassers, mapNodes, ih]
        cases rmPlan f src with
        | none => rfl
        | some src' => simp only [passersLocal_eq, schema_un, Plan.withSchema]
      | ost a b c =>
        simp only [removeMapFieldLocal, removeFieldFromPassers, mapNodes, ih]
        cases rmPlan f src with
        | none => rfl
        | some src' => simp only [passersLocal_eq, schema_un, Plan.withSchema]
      | tvf a b c =>
        simp only [removeMapFieldLocal, removeFieldFromPassers, mapNodes, ih]
        cases rmPlan f src with
        | none => rfl
        | some src' => simp only [passersLocal_eq, schema_un, Plan.withSchema]
  | .bin s k l r, h, hgb => by
    simp only [NoGroupByHas] at hgb
    have ihl := twoPass f l h.2.1 hgb.1
    have ihr := twoPass f r h.2.2 hgb.2
    simp only [mapNodes, rmPlan]
    cases h1 : mapNodes (removeMapFieldLocal f) l with
    | none =>
      simp only [h1] at ihl
      simp only [← ihl]
    | some l1 =>
      simp only [h1] at ihl
      cases h2 : mapNodes (removeMapFieldLocal f) r with
      | none =>
        simp only [h2] at ihr
        simp only [← ihr]
        cases rmPlan f l <;> rfl
      | some r1 =>
        simp only [h2] at ihr
        simp only [removeFieldFromPassers] at ihl ihr
        simp only [removeMapFieldLocal, removeFieldFromPassers, mapNodes, ihl, ihr]
        cases rmPlan f l with
        | none => rfl
        | some l' =>
          cases rmPlan f r with
          | none => rfl
          | some r' => simp only [passersLocal_eq, schema_bin, Plan.withSchema]

end Octo.Plan
