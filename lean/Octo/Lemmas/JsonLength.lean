import Octo.Lemmas.JsonRoundtrip2
/-!
  Lemmas for C25, part 5: the text `ValueToJson` writes is at least as long as the value is big
  (so the fuel `Json.decode` derives from the length of a line is enough for what the line nests).
-/
namespace Octo.OutFmt
open Octo Octo.Spec

mutual
theorem encJson_len (L : Lib) (hL : FloatSyntax L) : ∀ (v : Value) (τ : Ty) (bs : Bytes),
    fits τ v = true → encJson L τ v = some bs → v.size ≤ bs.length
  | .list xs, τ, bs, hf, h => by
    obtain ⟨t, hp⟩ := fits_pick hf
    unfold fits at hf
    simp only [hp] at hf
    simp only [encJson, hp, Option.map_eq_some_iff] at h
    obtain ⟨b, hb, e⟩ := h
    subst e
    simp only [Value.size, List.length_cons, List.length_append, List.length_nil]
    cases he : elemTy t with
    | none =>
      simp only [he, List.isEmpty_iff] at hf
      subst hf; simp [Value.sizeList]
    | some e =>
      simp only [he] at hf hb
      have := encElems_len L hL xs e true b hf hb
      omega
  | .struct xs, τ, bs, hf, h => by
    obtain ⟨t, hp⟩ := fits_pick hf
    unfold fits at hf
    simp only [hp, Bool.and_eq_true] at hf
    simp only [encJson, hp, Option.map_eq_some_iff] at h
    obtain ⟨b, hb, e⟩ := h
    subst e
    simp only [Value.size, List.length_cons, List.length_append, List.length_nil]
    have := encFields_len L hL xs _ _ true b hf.2 hb
    omega
  | .tuple xs, τ, bs, hf, h => by
    obtain ⟨t, hp⟩ := fits_pick hf
    unfold fits at hf
    simp only [hp] at hf
    simp only [encJson, hp, Option.map_eq_some_iff] at h
    obtain ⟨b, hb, e⟩ := h
    subst e
    simp only [Value.size, List.length_cons, List.length_append, List.length_nil]
    have := encTuple_len L hL xs _ true b hf hb
    omega
  | .null, τ, bs, _, h | .int _, τ, bs, _, h | .float _, τ, bs, _, h | .bool _, τ, bs, _, h
  | .str _, τ, bs, _, h | .time _ _, τ, bs, _, h | .dur _, τ, bs, _, h => by
    obtain ⟨c, r, e, _⟩ := encJson_head L hL τ _ bs h
    subst e; simp [Value.size]
theorem encElems_len (L : Lib) (hL : FloatSyntax L) : ∀ (xs : List Value) (e : Ty) (first : Bool) (bs : Bytes),
    fitsAll e xs = true → encElems L (some e) first xs = some bs → Value.sizeList xs ≤ bs.length
  | [], _, _, _, _, _ => by simp [Value.sizeList]
  | x :: xs, e, first, bs, hf, h => by
    simp only [fitsAll, Bool.and_eq_true] at hf
    simp only [encElems] at h
    cases ha : encJson L e x with
    | none => simp [ha] at h
    | some a =>
      cases hb : encElems L (some e) false xs with
      | none => simp [ha, hb] at h
      | some b =>
        simp only [ha, hb, Option.some.injEq] at h
        subst h
        have h1 := encJson_len L hL x e a hf.1 ha
        have h2 := encElems_len L hL xs e false b hf.2 hb
        simp only [Value.sizeList, List.length_append]; omega
theorem encFields_len (L : Lib) (hL : FloatSyntax L) : ∀ (xs : List Value) (ns : List Name) (ts : List Ty) (first : Bool) (bs : Bytes),
    fitsEach ts xs = true → encFields L ns ts first xs = some bs → Value.sizeList xs ≤ bs.length
  | [], _, _, _, _, _, _ => by simp [Value.sizeList]
  | x :: xs, [], ts, _, _, _, h => by cases ts <;> simp [encFields] at h
  | x :: xs, _ :: _, [], _, _, _, h => by simp [encFields] at h
  | x :: xs, n :: ns, t :: ts, first, bs, hf, h => by
    simp only [fitsEach, Bool.and_eq_true] at hf
    simp only [encFields] at h
    cases ha : encJson L t x with
    | none => simp [ha] at h
    | some a =>
      cases hb : encFields L ns ts false xs with
      | none => simp [ha, hb] at h
      | some b =>
        simp only [ha, hb, Option.some.injEq] at h
        subst h
        have h1 := encJson_len L hL x t a hf.1 ha
        have h2 := encFields_len L hL xs ns ts false b hf.2 hb
        simp only [Value.sizeList, List.length_append, List.length_cons]; omega
theorem encTuple_len (L : Lib) (hL : FloatSyntax L) : ∀ (xs : List Value) (ts : List Ty) (first : Bool) (bs : Bytes),
    fitsEach ts xs = true → encTuple L ts first xs = some bs → Value.sizeList xs ≤ bs.length
  | [], _, _, _, _, _ => by simp [Value.sizeList]
  | x :: xs, [], _, _, _, h => by simp [encTuple] at h
  | x :: xs, t :: ts, first, bs, hf, h => by
    simp only [fitsEach, Bool.and_eq_true] at hf
    simp only [encTuple] at h
    cases ha : encJson L t x with
    | none => simp [ha] at h
    | some a =>
      cases hb : encTuple L ts false xs with
      | none => simp [ha, hb] at h
      | some b =>
        simp only [ha, hb, Option.some.injEq] at h
        subst h
        have h1 := encJson_len L hL x t a hf.1 ha
        have h2 := encTuple_len L hL xs ts false b hf.2 hb
        simp only [Value.sizeList, List.length_append]; omega
end

end Octo.OutFmt
