import Octo.Lemmas.TrigFires
import Octo.Model.TriggerGroupBy
/-!
  The group-by node around the triggers (`Octo.Model.TriggerGroupBy`): whatever the trigger does, the
  consolidated output of the node is, at the end of the stream, exactly the table it holds.

  Invariant (`Inv`): a key whose last sent row differs from the row currently derivable from the
  `aggregates` tree ("dirty") is pending in *every* primitive trigger; the output so far sums to the rows in
  `previouslySentValues`.  At end of stream every pending key is polled, so no key is dirty.
-/
namespace Octo.Trig
open Octo Octo.TMap

/-! ### rows -/
theorem rowEq_eq_keq (a b : Row) : rowEq a b = keq a b := rfl

theorem cmpList_append_right {a a' : List Value} (b : List Value) (h : cmpList a a' = 0) :
    cmpList (a ++ b) (a' ++ b) = 0 := by
  induction a generalizing a' with
  | nil =>
    cases a' with
    | nil => simpa using cmpList_refl b
    | cons y ys => simp [cmpListWith] at h
  | cons x xs ih =>
    cases a' with
    | nil => simp [cmpListWith] at h
    | cons y ys =>
      simp only [cmpListWith, List.cons_append] at h ⊢
      split at h
      · rename_i hc; simp at hc; omega
      · rename_i hc
        simp only [hc, if_false]
        exact ih h

theorem cmpList_take {a b row : List Value} (h : cmpList (a ++ b) row = 0) :
    cmpList a (row.take a.length) = 0 := by
  induction a generalizing row with
  | nil => simp [cmpListWith]
  | cons x xs ih =>
    cases row with
    | nil => simp [cmpListWith] at h
    | cons y ys =>
      simp only [cmpListWith, List.cons_append, List.length_cons, List.take_succ_cons] at h ⊢
      split at h
      · rename_i hc; simp at hc; omega
      · rename_i hc
        simp only [hc, if_false]
        exact ih h

theorem keq_take {k res row : List Value} {nk : Nat} (hl : k.length = nk) (h : keq (k ++ res) row = true) :
    keq k (row.take nk) = true := by
  rw [keq_iff] at *
  rw [← hl]; exact cmpList_take h

theorem keq_append_right {a a' : List Value} (b : List Value) (h : keq a a' = true) :
    keq (a ++ b) (a' ++ b) = true := by
  rw [keq_iff] at *; exact cmpList_append_right b h

/-- `keq` with a fixed right-hand side is invariant under `keq` on the left -/
theorem keq_congr_left {a a' : List Value} (h : keq a a' = true) (c : List Value) : keq a c = keq a' c := by
  cases h1 : keq a c <;> cases h2 : keq a' c <;> try rfl
  · rw [keq_trans h h2] at h1; cases h1
  · rw [keq_trans (keq_symm h) h1] at h2; cases h2

theorem find_key_congr {β : Type} {k k' : Key} (h : keq k k' = true) (m : List (Key × β)) :
    find keyLess k m = find keyLess k' m :=
  find_congr keyLaws (by rw [eqv_keyLess]; exact h) m

/-! ### bookkeeping functions of the proof -/
variable (C : GBConf) (nk : Nat)

/-- multiplicity of `row` among the rows in `previouslySentValues` (looked up by the row's own key part) -/
def sentOf (prev : Prev) (row : Row) : Int :=
  match find keyLess (row.take nk) prev with
  | some e => if rowEq e.2.1 row then 1 else 0
  | none => 0

/-- the last row sent for `k` is the row currently derivable for `k` (or neither exists) -/
def cleanB (aggs : List (Key × AggItem)) (prev : Prev) (k : Key) : Bool :=
  match find keyLess k prev, curRow C aggs k with
  | none, none => true
  | some e, some r => rowEq e.2.1 r
  | _, _ => false

/-- every entry of `previouslySentValues` holds a row that starts with the entry's key -/
def PrevWF (prev : Prev) : Prop := ∀ e ∈ prev, e.1.length = nk ∧ ∃ res, e.2.1 = e.1 ++ res

theorem curRow_eq (aggs : List (Key × AggItem)) (k : Key) :
    curRow C aggs k = (find keyLess k aggs).map fun ki => k ++ results C.aggs ki.2.cells := by
  simp only [curRow]; cases find keyLess k aggs <;> rfl

theorem cleanB_congr_prev {aggs : List (Key × AggItem)} {prev prev' : Prev} {k : Key}
    (h : find keyLess k prev' = find keyLess k prev) : cleanB C aggs prev' k = cleanB C aggs prev k := by
  simp only [cleanB, h]

theorem cleanB_congr_aggs {aggs aggs' : List (Key × AggItem)} {prev : Prev} {k : Key}
    (h : find keyLess k aggs' = find keyLess k aggs) : cleanB C aggs' prev k = cleanB C aggs prev k := by
  simp only [cleanB, curRow_eq, h]

/-- when no key is dirty the sent rows are the table -/
theorem sentOf_eq_tableOf {aggs : List (Key × AggItem)} {prev : Prev} (row : Row)
    (h : cleanB C aggs prev (row.take nk) = true) : sentOf nk prev row = tableOf C nk aggs row := by
  simp only [sentOf, tableOf, cleanB] at *
  cases hp : find keyLess (row.take nk) prev <;> cases hc : curRow C aggs (row.take nk) <;>
    simp only [hp, hc] at h ⊢
  · cases h
  · cases h
  · rename_i e r
    rw [rowEq_eq_keq] at h
    rw [rowEq_eq_keq, rowEq_eq_keq, keq_congr_left h]

/-! ### one polled key -/
section FireKey
variable {C nk}

theorem weight_eq (vals : Row) (retr : Bool) (et : Option Int) (row : Row) :
    (Rec.mk vals retr et).weight row = if rowEq vals row then (if retr then -1 else 1) else 0 := rfl

theorem fireKey_find_other (aggs : List (Key × AggItem)) (curEt : Int) (prev : Prev) (k k' : Key)
    (h : keq k k' = false) : find keyLess k' (fireKey C aggs curEt prev k).1 = find keyLess k' prev := by
  have he : eqv keyLess k k' = false := by rw [eqv_keyLess]; exact h
  simp only [fireKey]
  cases curRow C aggs k with
  | none => simp only []; rw [find_erase keyLaws, he]; simp
  | some row => simp only []; rw [find_insert keyLaws, he, find_erase keyLaws, he]; simp

theorem fireKey_clean (aggs : List (Key × AggItem)) (curEt : Int) (prev : Prev) (k k' : Key)
    (h : keq k k' = true) : cleanB C aggs (fireKey C aggs curEt prev k).1 k' = true := by
  have he : eqv keyLess k k' = true := by rw [eqv_keyLess]; exact h
  have hf : find keyLess k' aggs = find keyLess k aggs := (find_key_congr h aggs).symm
  simp only [cleanB, fireKey, curRow_eq, hf]
  cases hfa : find keyLess k aggs with
  | none => simp only [Option.map_none]; rw [find_erase keyLaws, he]; simp
  | some ki =>
    simp only [Option.map_some]; rw [find_insert keyLaws, he]
    simp only [if_true, rowEq_eq_keq]
    exact keq_append_right _ h

theorem fireKey_prevWF (aggs : List (Key × AggItem)) (curEt : Int) (prev : Prev) (k : Key)
    (hk : k.length = nk) (hp : PrevWF nk prev) : PrevWF nk (fireKey C aggs curEt prev k).1 := by
  simp only [fireKey, curRow_eq]
  cases find keyLess k aggs with
  | none =>
    simp only [Option.map_none]
    intro e he; exact hp e (mem_erase.mp he).1
  | some ki =>
    simp only [Option.map_some]
    intro e he
    rcases mem_insert.mp he with h1 | h1
    · rw [h1]; exact ⟨hk, _, rfl⟩
    · exact hp e (mem_erase.mp h1.1).1

theorem fireKey_net (aggs : List (Key × AggItem)) (curEt : Int) (prev : Prev) (k : Key)
    (hk : k.length = nk) (hp : PrevWF nk prev) (row : Row) :
    net (recs (fireKey C aggs curEt prev k).2) row =
      sentOf nk (fireKey C aggs curEt prev k).1 row - sentOf nk prev row := by
  by_cases hkr : keq k (row.take nk) = true
  · -- the row belongs to the polled key
    have he : eqv keyLess k (row.take nk) = true := by rw [eqv_keyLess]; exact hkr
    have hf : find keyLess (row.take nk) prev = find keyLess k prev := (find_key_congr hkr prev).symm
    simp only [sentOf, hf, fireKey, curRow_eq]
    cases hfa : find keyLess k aggs <;> cases hfp : find keyLess k prev <;>
      simp only [Option.map_none, Option.map_some, find_erase keyLaws, find_insert keyLaws, he, if_true,
        recs, net, List.nil_append, List.cons_append, weight_eq] <;>
      repeat' split
    all_goals first | omega | contradiction
  · -- another key: neither the retraction nor the new row is this row
    have hkr' : keq k (row.take nk) = false := by simpa using hkr
    have h1 : sentOf nk (fireKey C aggs curEt prev k).1 row = sentOf nk prev row := by
      simp only [sentOf, fireKey_find_other aggs curEt prev k _ hkr']
    rw [h1]
    have hnew : ∀ res, rowEq (k ++ res) row = false := by
      intro res
      cases hq : rowEq (k ++ res) row
      · rfl
      · rw [rowEq_eq_keq] at hq; rw [keq_take hk hq] at hkr'; cases hkr'
    have hold : ∀ e, find keyLess k prev = some e → rowEq e.2.1 row = false := by
      intro e hfe
      obtain ⟨hm, hq⟩ := find_some_mem hfe
      rw [eqv_keyLess] at hq
      obtain ⟨hl, res, hres⟩ := hp e hm
      cases hq2 : rowEq e.2.1 row
      · rfl
      · rw [hres, rowEq_eq_keq] at hq2
        have := keq_trans hq (keq_take hl hq2)
        rw [this] at hkr'; cases hkr'
    simp only [fireKey, curRow_eq]
    cases hfa : find keyLess k aggs <;> cases hfp : find keyLess k prev <;>
      simp only [Option.map_none, Option.map_some, recs, net, List.nil_append, List.cons_append, weight_eq]
    · omega
    · simp [hold _ hfp]
    · simp [hnew]
    · simp [hnew, hold _ hfp]

end FireKey

/-! ### a batch of polled keys -/
section FireKeys
variable {C nk}

theorem fireKeys_find_other (aggs : List (Key × AggItem)) (curEt : Int) (prev : Prev) (ks : List Key) (k' : Key)
    (h : ks.any (fun k => keq k k') = false) :
    find keyLess k' (fireKeys C aggs curEt prev ks).1 = find keyLess k' prev := by
  induction ks generalizing prev with
  | nil => rfl
  | cons k ks ih =>
    simp only [List.any_cons, Bool.or_eq_false_iff] at h
    simp only [fireKeys]
    rw [ih _ h.2, fireKey_find_other _ _ _ _ _ h.1]

theorem fireKeys_clean (aggs : List (Key × AggItem)) (curEt : Int) (prev : Prev) (ks : List Key) (k' : Key)
    (h : ks.any (fun k => keq k k') = true) : cleanB C aggs (fireKeys C aggs curEt prev ks).1 k' = true := by
  induction ks generalizing prev with
  | nil => simp at h
  | cons k ks ih =>
    simp only [fireKeys]
    by_cases h2 : ks.any (fun k => keq k k') = true
    · exact ih _ h2
    · have h2' : ks.any (fun k => keq k k') = false := by simpa using h2
      simp only [List.any_cons, h2', Bool.or_false] at h
      rw [cleanB_congr_prev C (fireKeys_find_other aggs curEt _ ks k' h2')]
      exact fireKey_clean aggs curEt prev k k' h

theorem fireKeys_prevWF (aggs : List (Key × AggItem)) (curEt : Int) (prev : Prev) (ks : List Key)
    (hk : ∀ k ∈ ks, k.length = nk) (hp : PrevWF nk prev) : PrevWF nk (fireKeys C aggs curEt prev ks).1 := by
  induction ks generalizing prev with
  | nil => exact hp
  | cons k ks ih =>
    simp only [fireKeys]
    exact ih _ (fun k' hk' => hk k' (by simp [hk'])) (fireKey_prevWF aggs curEt prev k (hk k (by simp)) hp)

theorem fireKeys_net (aggs : List (Key × AggItem)) (curEt : Int) (prev : Prev) (ks : List Key)
    (hk : ∀ k ∈ ks, k.length = nk) (hp : PrevWF nk prev) (row : Row) :
    net (recs (fireKeys C aggs curEt prev ks).2) row =
      sentOf nk (fireKeys C aggs curEt prev ks).1 row - sentOf nk prev row := by
  induction ks generalizing prev with
  | nil => simp [fireKeys, recs, net]
  | cons k ks ih =>
    simp only [fireKeys, recs_append, net_append]
    rw [fireKey_net aggs curEt prev k (hk k (by simp)) hp row,
      ih _ (fun k' hk' => hk k' (by simp [hk'])) (fireKey_prevWF aggs curEt prev k (hk k (by simp)) hp)]
    omega

end FireKeys

/-! ### the node invariant -/
variable (wl : WKey → WKey → Bool)

structure Inv (st : NState) : Prop where
  prevWF : PrevWF nk st.prev
  leafWF : ∀ l ∈ st.trig.leaves, l.wf ∧ l.allKeys (fun k => k.length = nk) ∧ l.sorted
  dirtyPending : ∀ k, cleanB C st.aggs st.prev k = false → ∀ l ∈ st.trig.leaves, l.pend wl k = true

variable {C nk wl}

theorem polled_len {t : TState} (h : ∀ l ∈ t.leaves, l.wf ∧ l.allKeys (fun k => k.length = nk) ∧ l.sorted) :
    ∀ k ∈ (t.poll wl).1, k.length = nk := by
  intro k hk
  rw [poll_fst, List.mem_flatMap] at hk
  obtain ⟨l, hl, hkl⟩ := hk
  exact (Leaf.allKeys_poll l (h l hl).2.1).2 k hkl

/-- `CustomTriggerGroupBy.trigger` keeps the invariant and its output is the change of the sent rows -/
theorem fire_inv (W : WLaws wl) (st : NState) (curEt : Int) (h : Inv C nk wl st) :
    Inv C nk wl (fire wl C st curEt).1 ∧
    (∀ row, net (recs (fire wl C st curEt).2) row =
      sentOf nk (fire wl C st curEt).1.prev row - sentOf nk st.prev row) ∧
    (fire wl C st curEt).1.aggs = st.aggs := by
  have hlen := polled_len (wl := wl) h.leafWF
  refine ⟨⟨?_, ?_, ?_⟩, ?_, rfl⟩
  · exact fireKeys_prevWF st.aggs curEt st.prev _ hlen h.prevWF
  · intro l' hl'
    simp only [fire, poll_snd, List.mem_map] at hl'
    obtain ⟨l, hl, rfl⟩ := hl'
    exact ⟨Leaf.wf_poll l (h.leafWF l hl).1, (Leaf.allKeys_poll l (h.leafWF l hl).2.1).1, Leaf.sorted_poll l (h.leafWF l hl).2.2⟩
  · intro k hk l' hl'
    simp only [fire] at hk
    simp only [fire, poll_snd, List.mem_map] at hl'
    obtain ⟨l, hl, rfl⟩ := hl'
    -- a key still dirty after firing was not polled …
    have hnp : (st.trig.poll wl).1.any (fun k0 => keq k0 k) = false := by
      cases hq : (st.trig.poll wl).1.any (fun k0 => keq k0 k)
      · rfl
      · rw [fireKeys_clean st.aggs curEt st.prev _ k hq] at hk; cases hk
    -- … so it was dirty before, hence pending in `l`, and `l`'s poll did not return it
    rw [cleanB_congr_prev C (fireKeys_find_other st.aggs curEt st.prev _ k hnp)] at hk
    have hp := h.dirtyPending k hk l hl
    rcases Leaf.pend_poll W l k hp with h1 | h1
    · rw [List.any_eq_true] at h1
      obtain ⟨k0, hk0, hq⟩ := h1
      have : (st.trig.poll wl).1.any (fun k0 => keq k0 k) = true := by
        rw [List.any_eq_true]
        refine ⟨k0, ?_, keq_symm hq⟩
        rw [poll_fst, List.mem_flatMap]; exact ⟨l, hl, hk0⟩
      rw [this] at hnp; cases hnp
    · exact h1
  · intro row
    exact fireKeys_net st.aggs curEt st.prev _ hlen h.prevWF row

/-- the `trigger` call after `EndOfStreamReached` leaves no key dirty (given at least one primitive trigger) -/
theorem fire_eos_clean (W : WLaws wl) (st : NState) (curEt : Int) (h : Inv C nk wl st)
    (hne : st.trig.leaves ≠ []) (hflag : ∀ l ∈ st.trig.leaves, l.eosFlag = true) (k : Key) :
    cleanB C (fire wl C st curEt).1.aggs (fire wl C st curEt).1.prev k = true := by
  cases hc : cleanB C (fire wl C st curEt).1.aggs (fire wl C st curEt).1.prev k
  · exfalso
    simp only [fire] at hc
    have hnp : (st.trig.poll wl).1.any (fun k0 => keq k0 k) = false := by
      cases hq : (st.trig.poll wl).1.any (fun k0 => keq k0 k)
      · rfl
      · rw [fireKeys_clean st.aggs curEt st.prev _ k hq] at hc; cases hc
    rw [cleanB_congr_prev C (fireKeys_find_other st.aggs curEt st.prev _ k hnp)] at hc
    obtain ⟨l, hl⟩ := List.exists_mem_of_ne_nil _ hne
    have hp := h.dirtyPending k hc l hl
    have h1 := Leaf.pend_poll_eos W l k (h.leafWF l hl).1 (hflag l hl) hp
    rw [List.any_eq_true] at h1
    obtain ⟨k0, hk0, hq⟩ := h1
    have : (st.trig.poll wl).1.any (fun k0 => keq k0 k) = true := by
      rw [List.any_eq_true]
      refine ⟨k0, ?_, keq_symm hq⟩
      rw [poll_fst, List.mem_flatMap]; exact ⟨l, hl, hk0⟩
    rw [this] at hnp; cases hnp
  · rfl

/-! ### the `aggregates` tree changes only at the record's key -/
theorem find_updAggs_other (r : Rec) (aggs : List (Key × AggItem)) (k' : Key)
    (h : keq (C.keyOf r.vals) k' = false) : find keyLess k' (updAggs C r aggs) = find keyLess k' aggs := by
  simp only [updAggs]
  rw [apply_ite (find keyLess k')]
  cases hf : find keyLess (C.keyOf r.vals) aggs with
  | none =>
    have he : eqv keyLess (C.keyOf r.vals) k' = false := by rw [eqv_keyLess]; exact h
    simp only []
    rw [find_erase keyLaws, find_insert keyLaws, he]; simp
  | some ki =>
    have hq := (find_some_mem hf).2
    rw [eqv_keyLess] at hq
    have he : eqv keyLess ki.1 k' = false := by
      rw [eqv_keyLess]
      cases hq2 : keq ki.1 k'
      · rfl
      · rw [keq_trans hq hq2] at h; cases h
    simp only []
    rw [find_erase keyLaws, find_insert keyLaws, he]; simp

/-- what the node needs of the key expressions: keys of one fixed length -/
def KeyLen (C : GBConf) (nk : Nat) : Prop := ∀ vals, (C.keyOf vals).length = nk

/-- the state handed to `trigger` after a record -/
theorem pre_inv_data (W : WLaws wl) (hK : KeyLen C nk) (st : NState) (r : Rec) (h : Inv C nk wl st) :
    Inv C nk wl ⟨updAggs C r st.aggs, st.prev, st.trig.keyReceived wl (C.keyOf r.vals)⟩ := by
  refine ⟨h.prevWF, ?_, ?_⟩
  · intro l' hl'
    simp only [leaves_keyReceived, List.mem_map] at hl'
    obtain ⟨l, hl, rfl⟩ := hl'
    exact ⟨Leaf.wf_keyReceived l _ (h.leafWF l hl).1,
      Leaf.allKeys_keyReceived l _ (hK r.vals) (h.leafWF l hl).2.1, Leaf.sorted_keyReceived W l _ (h.leafWF l hl).2.2⟩
  · intro k hk l' hl'
    simp only [leaves_keyReceived, List.mem_map] at hl'
    obtain ⟨l, hl, rfl⟩ := hl'
    simp only [] at hk
    by_cases hq : keq (C.keyOf r.vals) k = true
    · exact Leaf.pend_keyReceived_self W l _ k hq
    · have hq' : keq (C.keyOf r.vals) k = false := by simpa using hq
      rw [cleanB_congr_aggs C (find_updAggs_other r st.aggs k hq')] at hk
      exact Leaf.pend_keyReceived_mono W l _ k (h.dirtyPending k hk l hl)

/-- the state handed to `trigger` after a watermark -/
theorem pre_inv_wm (st : NState) (w : Int) (h : Inv C nk wl st) :
    Inv C nk wl ⟨st.aggs, st.prev, st.trig.watermarkReceived w⟩ := by
  refine ⟨h.prevWF, ?_, ?_⟩
  · intro l' hl'
    simp only [leaves_watermarkReceived, List.mem_map] at hl'
    obtain ⟨l, hl, rfl⟩ := hl'
    exact ⟨Leaf.wf_watermarkReceived l w (h.leafWF l hl).1,
      Leaf.allKeys_watermarkReceived l w (h.leafWF l hl).2.1, Leaf.sorted_watermarkReceived l w (h.leafWF l hl).2.2⟩
  · intro k hk l' hl'
    simp only [leaves_watermarkReceived, List.mem_map] at hl'
    obtain ⟨l, hl, rfl⟩ := hl'
    rw [Leaf.pend_watermarkReceived]
    exact h.dirtyPending k hk l hl

theorem step_inv (W : WLaws wl) (hK : KeyLen C nk) (st : NState) (m : Msg) (h : Inv C nk wl st) :
    Inv C nk wl (gbStep wl C st m).1 ∧
    (∀ row, net (recs (gbStep wl C st m).2) row =
      sentOf nk (gbStep wl C st m).1.prev row - sentOf nk st.prev row) := by
  cases m with
  | data r =>
    simp only [gbStep]
    have := fire_inv W _ (etNs r.et) (pre_inv_data W hK st r h)
    exact ⟨this.1, this.2.1⟩
  | wm w =>
    simp only [gbStep]
    have := fire_inv W _ w (pre_inv_wm st w h)
    refine ⟨this.1, fun row => ?_⟩
    rw [recs_append, net_append, this.2.1 row]
    simp [recs, net]

theorem step_aggs (st : NState) (m : Msg) :
    (gbStep wl C st m).1.aggs = match m with
      | .data r => updAggs C r st.aggs
      | .wm _ => st.aggs := by
  cases m <;> rfl

theorem fold_inv (W : WLaws wl) (hK : KeyLen C nk) (st : NState) (B : List Msg) (h : Inv C nk wl st) :
    Inv C nk wl (gbFold wl C st B).1 ∧
    (∀ row, net (recs (gbFold wl C st B).2) row =
      sentOf nk (gbFold wl C st B).1.prev row - sentOf nk st.prev row) ∧
    (gbFold wl C st B).1.aggs = (recs B).foldl (fun a r => updAggs C r a) st.aggs := by
  induction B generalizing st with
  | nil => exact ⟨h, fun row => by simp [gbFold, recs, net], rfl⟩
  | cons m ms ih =>
    have h1 := step_inv W hK st m h
    have h2 := ih _ h1.1
    refine ⟨h2.1, fun row => ?_, ?_⟩
    · simp only [gbFold, recs_append, net_append]
      rw [h1.2 row, h2.2.1 row]; omega
    · simp only [gbFold]
      rw [h2.2.2, step_aggs]
      cases m <;> simp [recs]

theorem init_inv : Inv C nk wl (gbInit C) := by
  refine ⟨?_, ?_, ?_⟩
  · intro e he; simp [gbInit] at he
  · intro l hl
    have := init_leaves C.cfg l hl
    exact ⟨Leaf.wf_init l this, Leaf.allKeys_init l this, Leaf.sorted_init l this⟩
  · intro k hk
    simp [gbInit, cleanB, curRow, find] at hk

/-- **the consolidated output of the node is the table it holds at the end of the stream**, for every
    trigger configuration with at least one primitive trigger and every message list -/
theorem out_eq_table (W : WLaws wl) (hK : KeyLen C nk) (hlive : C.cfg.live = true) (B : List Msg) (row : Row) :
    net (recs (gbRun wl C B)) row = tableOf C nk (aggsAfter C (recs B)) row := by
  have hf := fold_inv W hK (gbInit C) B (init_inv (C := C) (nk := nk) (wl := wl))
  have hleaves : (gbFold wl C (gbInit C) B).1.trig.leaves ≠ [] := by
    -- the number of primitive triggers never changes
    have : ∀ (s : NState) (B : List Msg), (gbFold wl C s B).1.trig.leaves = [] → s.trig.leaves = [] := by
      intro s B
      induction B generalizing s with
      | nil => exact id
      | cons m ms ih =>
        intro h0
        have := ih _ h0
        cases m with
        | data r =>
          simp only [gbStep, fire, poll_snd, leaves_keyReceived, List.map_eq_nil_iff] at this
          exact this
        | wm w =>
          simp only [gbStep, fire, poll_snd, leaves_watermarkReceived, List.map_eq_nil_iff] at this
          exact this
    intro h0
    exact live_leaves C.cfg hlive (this (gbInit C) B h0)
  simp only [gbRun, recs_append, net_append, gbEnd]
  generalize (gbFold wl C (gbInit C) B).1 = st at hf hleaves
  -- the state handed to the last `trigger` call
  have hpre : Inv C nk wl ⟨st.aggs, st.prev, st.trig.endOfStream⟩ := by
    refine ⟨hf.1.prevWF, ?_, ?_⟩
    · intro l' hl'
      simp only [leaves_endOfStream, List.mem_map] at hl'
      obtain ⟨l, hl, rfl⟩ := hl'
      exact ⟨Leaf.wf_endOfStream l (hf.1.leafWF l hl).1, Leaf.allKeys_endOfStream l (hf.1.leafWF l hl).2.1, Leaf.sorted_endOfStream l (hf.1.leafWF l hl).2.2⟩
    · intro k hk l' hl'
      simp only [leaves_endOfStream, List.mem_map] at hl'
      obtain ⟨l, hl, rfl⟩ := hl'
      rw [Leaf.pend_endOfStream]
      exact hf.1.dirtyPending k hk l hl
  have hfire := fire_inv W _ maxNs hpre
  have hne : (NState.mk st.aggs st.prev st.trig.endOfStream).trig.leaves ≠ [] := by
    simp only [leaves_endOfStream, ne_eq, List.map_eq_nil_iff]
    exact hleaves
  have hflag : ∀ l ∈ (NState.mk st.aggs st.prev st.trig.endOfStream).trig.leaves, l.eosFlag = true := by
    intro l' hl'
    simp only [leaves_endOfStream, List.mem_map] at hl'
    obtain ⟨l, _, rfl⟩ := hl'
    exact Leaf.eosFlag_endOfStream l
  have hclean := fire_eos_clean W _ maxNs hpre hne hflag (row.take nk)
  rw [hf.2.1 row, hfire.2.1 row]
  have h0 : sentOf nk (gbInit C).prev row = 0 := by simp [sentOf, gbInit, find]
  rw [h0]
  have := sentOf_eq_tableOf C nk row hclean
  rw [hfire.2.2] at this
  have hagg : aggsAfter C (recs B) = st.aggs := by
    rw [hf.2.2]; rfl
  rw [hagg]
  dsimp only at this ⊢
  omega

end Octo.Trig
