import Octo.Lemmas.OpsNet
/-!
  Octo.Lemmas.OpsLinear — stateless, record-by-record ("linear") operators: Filter, Map, Unnest,
  LookupJoin.  Each input record `r` is replaced by a block `B r` of output records whose net is
  `sgn r * k r.vals ·` for a row-level kernel `k`.  One pair of lemmas gives `net_commutes` and
  `valid_out` for all of them.
-/
namespace Octo.Ops
open Octo

/-! ### running a stateless node -/
theorem runFrom_stateless (op : Op Unit) (emit : Msg → List Msg) (hend : op.onEnd () = ([], none)) (ms : List Msg)
    (h : ∀ m ∈ ms, op.onMsg () m = ((), emit m, none)) :
    op.runFrom () ms false = (ms.flatMap emit, none) := by
  induction ms with
  | nil => simp [Op.runFrom, hend]
  | cons m ms ih =>
    have h1 := h m List.mem_cons_self
    have h2 := ih (fun q hq => h q (List.mem_cons_of_mem _ hq))
    simp [Op.runFrom, h1, h2]

theorem recs_flatMap (emit : Msg → List Msg) (B : Rec → List Rec)
    (hw : ∀ t, recs (emit (.wm t)) = []) (hd : ∀ r, recs (emit (.data r)) = B r) (ms : List Msg) :
    recs (ms.flatMap emit) = (recs ms).flatMap B := by
  induction ms with
  | nil => rfl
  | cons m ms ih =>
    cases m with
    | data r => simp [List.flatMap_cons, recs_append, recs, hd, ih]
    | wm t => simp [List.flatMap_cons, recs_append, recs, hw, ih]

theorem wms_flatMap (emit : Msg → List Msg)
    (hw : ∀ t, wms (emit (.wm t)) = [t]) (hd : ∀ r, wms (emit (.data r)) = []) (ms : List Msg) :
    wms (ms.flatMap emit) = wms ms := by
  induction ms with
  | nil => rfl
  | cons m ms ih =>
    cases m with
    | data r =>
      have : ∀ a b : List Msg, wms (a ++ b) = wms a ++ wms b := by
        intro a b; induction a with
        | nil => rfl
        | cons x xs ih => cases x <;> simp [wms, ih]
      simp [List.flatMap_cons, this, wms, hd, ih]
    | wm t =>
      have : ∀ a b : List Msg, wms (a ++ b) = wms a ++ wms b := by
        intro a b; induction a with
        | nil => rfl
        | cons x xs ih => cases x <;> simp [wms, ih]
      simp [List.flatMap_cons, this, wms, hw, ih]

/-! ### the linear-operator lemmas -/
structure Linear (B : Rec → List Rec) (k : Row → Row → Int) : Prop where
  net_block : ∀ r y, net (B r) y = sgn r * k r.vals y
  congr : ∀ y, Congr (fun x => k x y)
  nonneg : ∀ x y, 0 ≤ k x y
  adds : ∀ r, r.retr = false → ∀ j ∈ B r, j.retr = false
  retrs : ∀ r, r.retr = true → ∀ j ∈ B r, j.retr = true

theorem net_flatMap_blocks {B : Rec → List Rec} {k : Row → Row → Int}
    (hb : ∀ r y, net (B r) y = sgn r * k r.vals y) (log : List Rec) (y : Row) :
    net (log.flatMap B) y = wsum (fun x => k x y) log := by
  induction log with
  | nil => rfl
  | cons r rs ih => simp only [List.flatMap_cons, net_append, hb, ih, wsum]

/-- `net_commutes` for a linear operator: the consolidated output is the kernel summed over the
    consolidated input (no sign condition on the blocks is needed for this half) -/
theorem linear_net {B : Rec → List Rec} {k : Row → Row → Int}
    (hb : ∀ r y, net (B r) y = sgn r * k r.vals y) (hk : ∀ y, Congr (fun x => k x y))
    {rows : List Row} {log : List Rec} (h : Consolidates rows log) (y : Row) :
    net (log.flatMap B) y = sumOver (fun x => k x y) rows := by
  rw [net_flatMap_blocks hb, wsum_of_consolidates _ (hk y) h]

theorem net_take_of_retrs (l : List Rec) (h : ∀ r ∈ l, r.retr = true) (n : Nat) (y : Row) :
    net l y ≤ net (l.take n) y := by
  induction l generalizing n with
  | nil => simp [net]
  | cons r rs ih =>
    have hr : r.retr = true := h r (List.mem_cons_self)
    have ih' := ih (fun q hq => h q (List.mem_cons_of_mem _ hq))
    cases n with
    | zero =>
      have := ih' 0
      simp only [List.take_zero, net] at this ⊢
      simp only [weight_eq, sgn, hr]; split <;> simp <;> omega
    | succ n =>
      have := ih' n
      simp only [List.take_succ_cons, net, weight_eq, sgn, hr]; omega

theorem linear_validFrom {B : Rec → List Rec} {k : Row → Row → Int} (L : Linear B k) (log : List Rec) (hv : ValidLog log) :
    ∀ (rest done : List Rec), log = done ++ rest →
      ValidFrom (fun y => wsum (fun x => k x y) done) (rest.flatMap B) := by
  intro rest
  induction rest with
  | nil =>
    intro done hlog
    apply validFrom_nil
    intro y
    subst hlog
    exact wsum_nonneg_of_valid _ (L.congr y) (fun x => L.nonneg x y) (validLog_prefix hv)
  | cons r rs ih =>
    intro done hlog
    rw [List.flatMap_cons]
    have hdone : ValidLog done := validLog_prefix (hlog ▸ hv)
    have hdone' : ValidLog (done ++ [r]) := by
      apply validLog_prefix (b := rs)
      rw [List.append_assoc]; exact hlog ▸ hv
    have base_nn : ∀ y, 0 ≤ wsum (fun x => k x y) done := fun y =>
      wsum_nonneg_of_valid _ (L.congr y) (fun x => L.nonneg x y) hdone
    have after_nn : ∀ y, 0 ≤ wsum (fun x => k x y) done + net (B r) y := by
      intro y
      have := wsum_nonneg_of_valid _ (L.congr y) (fun x => L.nonneg x y) hdone'
      rw [wsum_append] at this
      simp only [wsum, Int.add_zero] at this
      rw [L.net_block]; exact this
    apply validFrom_append
    · cases hr : r.retr
      · exact validFrom_adds base_nn _ (L.adds r hr)
      · intro n y
        have h1 := net_take_of_retrs (B r) (L.retrs r hr) n y
        have h2 := after_nn y
        show 0 ≤ wsum (fun x => k x y) done + net (List.take n (B r)) y
        omega
    · have := ih (done ++ [r]) (by rw [List.append_assoc]; exact hlog)
      have e : (fun y => wsum (fun x => k x y) (done ++ [r])) =
          (fun y => wsum (fun x => k x y) done + net (B r) y) := by
        funext y; rw [wsum_append, L.net_block]; simp [wsum]
      rw [e] at this; exact this

/-- `valid_out` for a linear operator -/
theorem linear_valid {B : Rec → List Rec} {k : Row → Row → Int} (L : Linear B k) {log : List Rec} (hv : ValidLog log) :
    ValidLog (log.flatMap B) := by
  rw [validLog_iff_validFrom]
  have := linear_validFrom L log hv log [] rfl
  simpa [wsum] using this

end Octo.Ops
