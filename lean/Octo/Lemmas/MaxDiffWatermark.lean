import Octo.Model.MaxDiffWatermark
import Octo.Spec.MaxDiffWatermark
/-! Helper lemmas for C20: rounding, running maximum, and the invariant tying the state of
    `maxDifferenceWatermarkGenerator.Run` to the list of times seen so far. -/
set_option linter.unusedSimpArgs false
namespace Octo.MaxDiff
open Octo Octo.MaxDiffSpec

/-! ### rounding -/

theorem floorTo_le {res : Int} (h : 0 < res) (t : Int) : floorTo res t ≤ t := by
  have h1 := Int.mul_ediv_add_emod t res
  have h2 := Int.emod_nonneg t (Int.ne_of_gt h)
  unfold floorTo; omega

theorem lt_floorTo_add {res : Int} (h : 0 < res) (t : Int) : t < floorTo res t + res := by
  have h1 := Int.mul_ediv_add_emod t res
  have h2 := Int.emod_lt_of_pos t h
  unfold floorTo; omega

theorem floorTo_dvd (res t : Int) : res ∣ floorTo res t := ⟨t / res, rfl⟩

theorem floorTo_mono {res : Int} (h : 0 < res) {a b : Int} (hab : a ≤ b) : floorTo res a ≤ floorTo res b := by
  unfold floorTo
  exact Int.mul_le_mul_of_nonneg_left (Int.ediv_le_ediv h hab) (Int.le_of_lt h)

/-- `floorTo res t` is the only multiple of `res` in `(t − res, t]` -/
theorem floorTo_unique {res : Int} (h : 0 < res) {t x : Int} (hd : res ∣ x) (h1 : x ≤ t) (h2 : t < x + res) :
    x = floorTo res t := by
  obtain ⟨k, rfl⟩ := hd
  have e1 := Int.mul_ediv_add_emod t res
  have e2 := Int.emod_nonneg t (Int.ne_of_gt h)
  have e3 := Int.emod_lt_of_pos t h
  unfold floorTo
  -- res * k ≤ t < res * k + res  and  res * q ≤ t < res * q + res  ⇒  k = q
  have hk : k = t / res := by
    have a1 : res * k < res * (t / res + 1) := by rw [Int.mul_add]; omega
    have a2 : res * (t / res) < res * (k + 1) := by rw [Int.mul_add]; omega
    have b1 := Int.lt_of_mul_lt_mul_left a1 (Int.le_of_lt h)
    have b2 := Int.lt_of_mul_lt_mul_left a2 (Int.le_of_lt h)
    omega
  rw [hk]

/-- the repaired rounding is floor rounding -/
theorem roundFloor_eq {res : Int} (h : 0 < res) (ns : Int) : roundFloor res ns = some (floorTo res ns) := by
  have e1 := Int.mul_ediv_add_emod ns res
  have e2 := Int.emod_nonneg ns (Int.ne_of_gt h)
  have e3 := Int.emod_lt_of_pos ns h
  have hne : res ≠ 0 := Int.ne_of_gt h
  unfold roundFloor floorTo
  simp only [hne, if_false]
  rw [Int.tmod_eq_emod]
  have habs : (res.natAbs : Int) = res := by omega
  by_cases hc : 0 ≤ ns ∨ res ∣ ns
  · simp only [hc, if_true]
    have : ¬ (ns % res - ((0 : Nat) : Int) < 0) := by omega
    simp only [this, if_false]; congr 1; omega
  · simp only [hc, if_false, habs]
    have : ns % res - res < 0 := by omega
    simp only [this, if_true]; congr 1; omega

/-- the shipped rounding rounds *up* for negative off-grid times -/
theorem roundTrunc_neg_example : roundTrunc 10 (-15) = some (-10) := by decide

/-! ### running maximum -/

theorem maxOf_snoc (seen : List Int) (t : Int) :
    maxOf (seen ++ [t]) = match maxOf seen with
      | none => some t
      | some m => some (if m < t then t else m) := by
  induction seen with
  | nil => simp [maxOf]
  | cons x xs ih =>
    simp only [List.cons_append, maxOf, ih]
    cases hm : maxOf xs with
    | none => simp only []
    | some m =>
      simp only []
      by_cases h1 : m < t <;> by_cases h2 : x < m <;> by_cases h3 : x < t <;> simp [h1, h2, h3] <;> try omega

theorem maxOf_ge {seen : List Int} {m : Int} (h : maxOf seen = some m) : ∀ x ∈ seen, x ≤ m := by
  induction seen generalizing m with
  | nil => intro x hx; cases hx
  | cons y ys ih =>
    intro x hx
    simp only [maxOf] at h
    cases hm : maxOf ys with
    | none =>
      rw [hm] at h; simp only [Option.some.injEq] at h
      cases ys with
      | nil => simp at hx; omega
      | cons z zs => simp [maxOf] at hm; split at hm <;> simp at hm
    | some m' =>
      rw [hm] at h; simp only [Option.some.injEq] at h
      have := ih hm
      rcases List.mem_cons.mp hx with rfl | hx'
      · split at h <;> omega
      · have := this x hx'; split at h <;> omega

theorem maxOf_mem {seen : List Int} {m : Int} (h : maxOf seen = some m) : m ∈ seen := by
  induction seen generalizing m with
  | nil => simp [maxOf] at h
  | cons y ys ih =>
    simp only [maxOf] at h
    cases hm : maxOf ys with
    | none => rw [hm] at h; simp at h; simp [h]
    | some m' =>
      rw [hm] at h; simp only [Option.some.injEq] at h
      split at h
      · subst h; exact List.mem_cons_of_mem _ (ih hm)
      · subst h; exact List.mem_cons_self

theorem maxOf_eq_none {seen : List Int} : maxOf seen = none ↔ seen = [] := by
  cases seen with
  | nil => simp [maxOf]
  | cons y ys => simp only [maxOf]; split <;> simp

/-! ### the invariant -/

/-- the state of `Run` after the times `seen`: untouched before the first record, afterwards
    `maxValue = floor(max seen)` and `curWatermark = maxValue − maxDiff` -/
def Inv (res md : Int) (s : St) (seen : List Int) : Prop :=
  match maxOf seen with
  | none => s = St.init
  | some m => s.maxValue = floorTo res m ∧ s.curWm = floorTo res m - md

/-- the domain of the property: every record carries a Time in the time field, in the Int64-ns range -/
def InDomain (idx : Nat) (ms : List Msg) : Prop :=
  ∀ r ∈ recs ms, ∃ t, timeOf idx r = some t ∧ -(2:Int)^63 ≤ t ∧ t < (2:Int)^63

theorem inDomain_of_B {idx : Nat} {ms : List Msg} (h : inDomainB idx ms = true) : InDomain idx ms := by
  intro r hr
  unfold inDomainB at h
  have := List.all_eq_true.mp h r hr
  cases ht : timeOf idx r with
  | none => simp [ht] at this
  | some t => simp [ht] at this; exact ⟨t, rfl, this.1, this.2⟩

theorem timeAt_of_timeOf {idx : Nat} {r : Rec} {t : Int} (h : timeOf idx r = some t) : timeAt idx r = .ok t := by
  unfold timeOf at h; unfold timeAt
  split at h <;> simp_all

/-- `rnd` rounds the time fields of the records of `ms` down to the resolution -/
def RoundsDown (rnd : Int → Int → Option Int) (res : Int) (idx : Nat) (ms : List Msg) : Prop :=
  ∀ r ∈ recs ms, ∀ t, timeOf idx r = some t → rnd res t = some (floorTo res t)

theorem go_eq_spec {rnd : Int → Int → Option Int} {res md : Int} {idx : Nat} (hres : 0 < res) (hres2 : res < (2:Int)^63) :
    ∀ (ms : List Msg) (s : St) (seen : List Int), Inv res md s seen → InDomain idx ms → RoundsDown rnd res idx ms →
      go rnd md res idx s ms = .ok (specFrom res md idx seen ms) := by
  intro ms
  induction ms with
  | nil => intro s seen _ _ _; simp [go, specFrom]
  | cons m ms ih =>
    intro s seen hinv hdom hrnd
    cases m with
    | wm w =>
      simp only [go, specFrom]
      exact ih s seen hinv (fun r hr => hdom r (by simpa [recs] using hr)) (fun r hr => hrnd r (by simpa [recs] using hr))
    | data r =>
      obtain ⟨t, ht, hlo, _⟩ := hdom r (by simp [recs])
      have hdom' : InDomain idx ms := fun r' hr' => hdom r' (by simp [recs, hr'])
      have hrnd' : RoundsDown rnd res idx ms := fun r' hr' => hrnd r' (by simp [recs, hr'])
      have hrt : rnd res t = some (floorTo res t) := hrnd r (by simp [recs]) t ht
      have hfl := floorTo_le hres t
      have hfu := lt_floorTo_add hres t
      simp only [go, specFrom, ht, timeAt_of_timeOf ht, hrt]
      unfold Inv at hinv
      cases hm : maxOf seen with
      | none =>
        rw [hm] at hinv; subst hinv
        have hz : zeroTime = -62135596800000000000 := rfl
        have h1 : t > St.init.curWm := by show t > zeroTime; omega
        have h2 : floorTo res t > St.init.maxValue := by show floorTo res t > zeroTime; omega
        have hinv' : Inv res md ⟨floorTo res t, floorTo res t - md⟩ (seen ++ [t]) := by
          unfold Inv; rw [maxOf_snoc, hm]; exact ⟨rfl, rfl⟩
        rw [if_pos h2, ih _ _ hinv' hdom' hrnd']
        simp [wmAfter, maxOf_snoc, hm, dropped, increased, wmMsg, h1]
      | some m =>
        rw [hm] at hinv
        obtain ⟨hmv, hcw⟩ := hinv
        by_cases hgt : floorTo res t > s.maxValue
        · have hmt : m < t := by
            apply Decidable.byContradiction; intro hn
            have := floorTo_mono hres (show t ≤ m by omega); omega
          have hinv' : Inv res md ⟨floorTo res t, floorTo res t - md⟩ (seen ++ [t]) := by
            unfold Inv; rw [maxOf_snoc, hm]; simp [hmt]
          rw [if_pos hgt, ih _ _ hinv' hdom' hrnd']
          have hinc : floorTo res m - md < floorTo res t - md := by omega
          by_cases hd : t > s.curWm
          · have : ¬ t ≤ floorTo res m - md := by omega
            simp [wmAfter, maxOf_snoc, hm, dropped, increased, wmMsg, hmt, hd, hinc, this]
          · have : t ≤ floorTo res m - md := by omega
            simp [wmAfter, maxOf_snoc, hm, dropped, increased, wmMsg, hmt, hd, hinc, this]
        · have heq : floorTo res (if m < t then t else m) = floorTo res m := by
            by_cases hmt : m < t
            · have := floorTo_mono hres (show m ≤ t by omega); simp [hmt]; omega
            · simp [hmt]
          have hinv' : Inv res md s (seen ++ [t]) := by
            unfold Inv; rw [maxOf_snoc, hm]; simp only []; rw [heq]; exact ⟨hmv, hcw⟩
          rw [if_neg hgt, ih _ _ hinv' hdom' hrnd']
          by_cases hd : t > s.curWm
          · have : ¬ t ≤ floorTo res m - md := by omega
            simp [wmAfter, maxOf_snoc, hm, dropped, increased, wmMsg, hd, heq, this]
          · have : t ≤ floorTo res m - md := by omega
            simp [wmAfter, maxOf_snoc, hm, dropped, increased, wmMsg, hd, heq, this]

/-! ### structure of the prescribed output -/

theorem wms_append (a b : List Msg) : wms (a ++ b) = wms a ++ wms b := by
  induction a with
  | nil => rfl
  | cons m ms ih => cases m <;> simp [wms, ih]

theorem inDomain_append {idx : Nat} {a b : List Msg} : InDomain idx (a ++ b) ↔ InDomain idx a ∧ InDomain idx b := by
  unfold InDomain; simp only [recs_append, List.mem_append]
  constructor
  · intro h; exact ⟨fun r hr => h r (Or.inl hr), fun r hr => h r (Or.inr hr)⟩
  · rintro ⟨h1, h2⟩ r (hr | hr); exact h1 r hr; exact h2 r hr

theorem times_append (idx : Nat) (a b : List Msg) : times idx (a ++ b) = times idx a ++ times idx b := by
  simp [times, recs_append]

/-- the prescribed output is compositional: the output for a prefix is a prefix of the output -/
theorem specFrom_append {res md : Int} {idx : Nat} : ∀ (a b : List Msg) (seen : List Int), InDomain idx a →
    specFrom res md idx seen (a ++ b) = specFrom res md idx seen a ++ specFrom res md idx (seen ++ times idx a) b := by
  intro a
  induction a with
  | nil => intro b seen _; simp [specFrom, times, recs]
  | cons m ms ih =>
    intro b seen hd
    cases m with
    | wm w =>
      have hd' : InDomain idx ms := fun r hr => hd r (by simpa [recs] using hr)
      simp only [List.cons_append, specFrom, ih b seen hd']
      simp [times, recs]
    | data r =>
      obtain ⟨t, ht, _, _⟩ := hd r (by simp [recs])
      have hd' : InDomain idx ms := fun r' hr' => hd r' (by simp [recs, hr'])
      simp only [List.cons_append, specFrom, ht, ih b (seen ++ [t]) hd']
      simp [times, recs, ht, List.append_assoc]

/-- the prescribed watermark never moves down when a time is added -/
theorem wmAfter_snoc_mono {res md : Int} (hres : 0 < res) (seen : List Int) (t : Int) :
    match wmAfter res md seen, wmAfter res md (seen ++ [t]) with
    | none, some _ => True
    | some w, some w' => w ≤ w'
    | _, none => False := by
  unfold wmAfter
  rw [maxOf_snoc]
  cases hm : maxOf seen with
  | none => simp
  | some m =>
    simp only [Option.map]
    by_cases h : m < t
    · have := floorTo_mono hres (show m ≤ t by omega); simp [h]; omega
    · simp [h]

theorem lastWm_cons (d : Option Int) (w : Int) (ws : List Int) : lastWm d (w :: ws) = lastWm (some w) ws := rfl

/-- after any input, the last watermark emitted (the *current* watermark) is the prescribed value
    `floor(max of all times so far) − maxDiff` -/
theorem lastWm_specFrom {res md : Int} {idx : Nat} (hres : 0 < res) : ∀ (ms : List Msg) (seen : List Int), InDomain idx ms →
    lastWm (wmAfter res md seen) (wms (specFrom res md idx seen ms)) = wmAfter res md (seen ++ times idx ms) := by
  intro ms
  induction ms with
  | nil => intro seen _; simp [specFrom, wms, lastWm, times, recs]
  | cons m ms ih =>
    intro seen hd
    cases m with
    | wm w =>
      have hd' : InDomain idx ms := fun r hr => hd r (by simpa [recs] using hr)
      simp only [specFrom]; rw [ih seen hd']; simp [times, recs]
    | data r =>
      obtain ⟨t, ht, _, _⟩ := hd r (by simp [recs])
      have hd' : InDomain idx ms := fun r' hr' => hd r' (by simp [recs, hr'])
      have hmono := wmAfter_snoc_mono (md := md) hres seen t
      have htimes : seen ++ times idx (.data r :: ms) = (seen ++ [t]) ++ times idx ms := by
        simp [times, recs, ht]
      simp only [specFrom, ht, wms_append]
      rw [htimes, ← ih (seen ++ [t]) hd']
      cases hW : wmAfter res md seen <;> cases hW' : wmAfter res md (seen ++ [t]) <;>
        rw [hW, hW'] at hmono <;> simp only [] at hmono
      · by_cases hdr : dropped none t <;> simp [hdr, increased, wmMsg, wms, lastWm]
      · rename_i w w'
        by_cases hinc : w < w'
        · by_cases hdr : dropped (some w) t <;> simp [hdr, increased, wmMsg, hinc, wms, lastWm]
        · have : w = w' := by omega
          subst this
          by_cases hdr : dropped (some w) t <;> simp [hdr, increased, wmMsg, wms, lastWm]

/-- the prescribed watermarks are strictly increasing -/
theorem strictIncr_specFrom {res md : Int} {idx : Nat} (hres : 0 < res) : ∀ (ms : List Msg) (seen : List Int), InDomain idx ms →
    StrictIncrFrom (wmAfter res md seen) (wms (specFrom res md idx seen ms)) := by
  intro ms
  induction ms with
  | nil => intro seen _; simp [specFrom, wms, StrictIncrFrom]
  | cons m ms ih =>
    intro seen hd
    cases m with
    | wm w =>
      have hd' : InDomain idx ms := fun r hr => hd r (by simpa [recs] using hr)
      simp only [specFrom]; exact ih seen hd'
    | data r =>
      obtain ⟨t, ht, _, _⟩ := hd r (by simp [recs])
      have hd' : InDomain idx ms := fun r' hr' => hd r' (by simp [recs, hr'])
      have hmono := wmAfter_snoc_mono (md := md) hres seen t
      have ih' := ih (seen ++ [t]) hd'
      simp only [specFrom, ht, wms_append]
      cases hW : wmAfter res md seen <;> cases hW' : wmAfter res md (seen ++ [t]) <;>
        rw [hW, hW'] at hmono <;> simp only [] at hmono <;> rw [hW'] at ih'
      · by_cases hdr : dropped none t <;> simp [hdr, increased, wmMsg, wms, StrictIncrFrom, ih']
      · rename_i w w'
        by_cases hinc : w < w'
        · by_cases hdr : dropped (some w) t <;> simp [hdr, increased, wmMsg, hinc, wms, StrictIncrFrom, ih']
        · have : w = w' := by omega
          subst this
          by_cases hdr : dropped (some w) t <;> simp [hdr, increased, wmMsg, wms, ih']

/-- every prescribed record is an input record with its event time stamped, in the input order -/
theorem recs_specFrom_sublist {res md : Int} {idx : Nat} : ∀ (ms : List Msg) (seen : List Int),
    (recs (specFrom res md idx seen ms)).Sublist ((recs ms).map (stamped idx)) := by
  intro ms
  induction ms with
  | nil => intro seen; simp [specFrom, recs]
  | cons m ms ih =>
    intro seen
    cases m with
    | wm w => simp only [specFrom, recs]; exact ih seen
    | data r =>
      simp only [specFrom]
      cases ht : timeOf idx r with
      | none => simp [recs]
      | some t =>
        simp only [recs_append, recs, List.map_cons]
        have h2 : recs (wmMsg (wmAfter res md seen) (wmAfter res md (seen ++ [t]))) = [] := by
          unfold wmMsg
          split
          · split <;> simp [recs]
          · simp [recs]
        rw [h2, List.append_nil]
        have hst : stamped idx r = { r with et := some t } := by simp [stamped, ht]
        by_cases hdr : dropped (wmAfter res md seen) t
        · simp only [hdr, if_true, recs, List.nil_append]
          exact List.Sublist.cons _ (ih _)
        · rw [hst]
          simp only [hdr, recs, List.cons_append, List.nil_append]
          exact List.Sublist.cons_cons _ (ih _)

/-! ### which column is the time field -/

theorem schemaTimeField_spec (want : String) : ∀ (fields : List (String × Bool)) (o i : Nat),
    schemaTimeField want fields o = .ok i →
      o ≤ i ∧ materializeIndex want fields o = some i ∧ fields[i - o]? = some (want, true) ∧
      ∀ j, j < i - o → ∀ f, fields[j]? = some f → f.1 ≠ want
  | [], o, i, h => by simp [schemaTimeField] at h
  | (name, isTime) :: rest, o, i, h => by
    simp only [schemaTimeField] at h
    by_cases hn : want = name
    · subst hn
      cases isTime with
      | false => simp at h
      | true =>
        simp at h; subst h
        simp [materializeIndex]
    · simp only [ne_eq, hn, not_false_eq_true, if_true] at h
      obtain ⟨h1, h2, h3, h4⟩ := schemaTimeField_spec want rest (o + 1) i h
      have e : i - o = (i - (o + 1)) + 1 := by omega
      refine ⟨by omega, by simp [materializeIndex, hn, h2], by rw [e]; simpa using h3, ?_⟩
      intro j hj f hf
      cases j with
      | zero => simp at hf; subst hf; exact fun h => hn h.symm
      | succ j' => exact h4 j' (by omega) f (by simpa using hf)

end Octo.MaxDiff
