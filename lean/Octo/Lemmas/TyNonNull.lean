import Octo.Lemmas.TyIsLaws
/-! `NonNullable` -/
namespace Octo
namespace Ty

/-- the alternatives of a union are plain: no nested union, no `Any` (what `TypeSum` builds) -/
def flatAlts (alts : List Ty) : Prop := ∀ a ∈ alts, a.isUnion = false ∧ a.isAny = false

theorem nonNullable_of_not_union (t : Ty) (h : t.isUnion = false) : nonNullable t = t := by
  cases t <;> simp_all [nonNullable, isUnion]

/-- the result of `NonNullable` is contained in its argument (all types) -/
theorem nonNullable_is (t : Ty) : (nonNullable t).is t = .is := by
  by_cases hu : t.isUnion = true
  · obtain ⟨alts, rfl⟩ := eq_union_of_isUnion hu
    simp only [nonNullable]
    have hmem : ∀ a ∈ alts.filter (fun a => a.id ≠ 0), a.is (.union alts) = .is := by
      intro a ha
      exact is_into_union (is_refl a) (List.mem_filter.mp ha).1
    split
    · rename_i x hx
      exact hmem x (by rw [hx]; simp)
    · rw [is_union_l]; exact hmem
  · rw [nonNullable_of_not_union t (by simpa using hu)]; exact is_refl t

theorem conforms_null_iff {a : Ty} (hu : a.isUnion = false) (ha : a.isAny = false) :
    conforms a .null = true ↔ a.id = 0 := by
  cases a <;> simp [isUnion] at hu <;> simp [isAny] at ha <;> simp [conforms, Ty.id]

theorem conforms_id0 {a : Ty} (h : a.id = 0) (v : Value) : conforms a v = true ↔ v = .null := by
  cases a <;> simp [Ty.id] at h
  cases v <;> simp [conforms]

/-- `NonNullable` removes exactly NULL: a value matches the result iff it matches the argument and is not NULL
    (unions with plain alternatives). -/
theorem nonNullable_conforms (alts : List Ty) (hf : flatAlts alts) (v : Value) :
    conforms (nonNullable (.union alts)) v = true ↔ (conforms (.union alts) v = true ∧ v ≠ .null) := by
  have key : conformsAny (alts.filter (fun a => a.id ≠ 0)) v = true ↔ (conformsAny alts v = true ∧ v ≠ .null) := by
    simp only [conformsAny_iff]
    constructor
    · rintro ⟨a, ha, hv⟩
      have ⟨hm, hid⟩ := List.mem_filter.mp ha
      refine ⟨⟨a, hm, hv⟩, ?_⟩
      rintro rfl
      have := (conforms_null_iff (hf a hm).1 (hf a hm).2).mp hv
      simp [this] at hid
    · rintro ⟨⟨a, hm, hv⟩, hn⟩
      refine ⟨a, List.mem_filter.mpr ⟨hm, ?_⟩, hv⟩
      simp only [ne_eq, decide_not, Bool.not_eq_eq_eq_not, Bool.not_true, decide_eq_false_iff_not]
      intro h0
      exact hn ((conforms_id0 h0 v).mp hv)
  simp only [nonNullable, conforms_union]
  split
  · rename_i x hx
    rw [← key, hx]; simp [conformsAny]
  · rw [conforms_union]; exact key

end Ty
end Octo
