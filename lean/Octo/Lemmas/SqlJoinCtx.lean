import Octo.Lemmas.SqlJoinOpt
import Octo.Lemmas.JoinNet
/-!
  Relations as retraction-free changelogs (`asRecs`), the generic operators of `JoinNet` on them, the dependent
  join on changelogs (`glookup`), and: the relational reading of a plan does not distinguish equivalent variable
  contexts (`planBag_ctx_congr`) — needed because a LookupJoin re-runs its joined side under the *records* of its
  source, and two records that compare equal need not be identical (`0.0` / `-0.0`).
-/
namespace Octo.SqlJoin
open Octo Octo.Sql Octo.Join

def asRecs (B : List VRow) : List Rec := B.map mkRec

theorem asRecs_append (A B : List VRow) : asRecs (A ++ B) = asRecs A ++ asRecs B := by simp [asRecs]

/-! ### row-wise operators on relations -/
theorem rowOp_asRecs (h : VRow → Option VRow) (B : List VRow) : rowOp h (asRecs B) = asRecs (B.filterMap h) := by
  unfold rowOp asRecs
  induction B with
  | nil => rfl
  | cons b B ih =>
    simp only [List.map_cons, List.filterMap_cons]
    cases hb : h b with
    | none =>
      have e : h (mkRec b).vals = none := hb
      rw [e]; exact ih
    | some v =>
      have e : h (mkRec b).vals = some v := hb
      rw [e, Option.map_some, List.map_cons, ← ih]; rfl

theorem rowOp_pointwise {h h' : VRow → Option VRow} (hh : ∀ v, optRowEq (h v) (h' v)) (A : List Rec) :
    NetEq (rowOp h A) (rowOp h' A) := by
  intro row
  rw [net_rowOp, net_rowOp]
  apply wsum_congr
  intro r _
  congr 1
  unfold opInd
  have := hh r.vals
  cases h1 : h r.vals <;> cases h2 : h' r.vals <;> simp only [h1, h2, optRowEq] at this ⊢
  rw [rowEq_congr_left this row]

def filterH (p : SExpr) (ctx : VRow) : VRow → Option VRow := fun v => if isTrue (ctx ++ v) p then some v else none
def mapH (es : List SExpr) (ctx : VRow) : VRow → Option VRow := fun v => evalAll (ctx ++ v) es

theorem cmpList_ctx {ctx ctx' a b : VRow} (hc : cmpList ctx ctx' = 0) (h : cmpList a b = 0) :
    cmpList (ctx ++ a) (ctx' ++ b) = 0 := cmpList_append_eq a b hc h

theorem filterH_congr (p : SExpr) (ctx : VRow) : OpCongr (filterH p ctx) := by
  intro a b hab
  unfold filterH
  rw [isTrue_congr p (cmpList_ctx (cmpList_refl ctx) hab)]
  by_cases h : isTrue (ctx ++ b) p = true
  · simp only [h, ↓reduceIte]; exact hab
  · simp only [h, Bool.false_eq_true, ↓reduceIte]

theorem mapH_congr (es : List SExpr) (ctx : VRow) : OpCongr (mapH es ctx) := by
  intro a b hab
  unfold mapH
  have := evalAll_congr es (cmpList_ctx (cmpList_refl ctx) hab)
  cases h1 : evalAll (ctx ++ a) es <;> cases h2 : evalAll (ctx ++ b) es <;> simp only [h1, h2, optRowEq] at this ⊢
  exact this

theorem filter_eq_filterMap (p : SExpr) (ctx : VRow) (B : List VRow) :
    (B.filter fun r => isTrue (ctx ++ r) p) = B.filterMap (filterH p ctx) := by
  unfold filterH
  induction B with
  | nil => rfl
  | cons b B ih =>
    simp only [List.filter_cons, List.filterMap_cons]
    by_cases h : isTrue (ctx ++ b) p = true
    · simp [h, ih]
    · simp [h, ih]

/-! ### generic joins on relations -/
theorem pairRec_mkRec (a b : VRow) : pairRec (mkRec a) (mkRec b) = mkRec (a ++ b) := rfl

theorem gjoin_row_asRecs (m : VRow → VRow → Bool) (a : VRow) (BR : List VRow) :
    (((List.map mkRec BR).filter fun r => m (mkRec a).vals r.vals).map fun r => pairRec (mkRec a) r) =
      List.map mkRec ((BR.filter fun b => m a b).map fun b => a ++ b) := by
  induction BR with
  | nil => rfl
  | cons b BR ihb =>
    simp only [List.map_cons, List.filter_cons]
    have e : m (mkRec a).vals (mkRec b).vals = m a b := rfl
    rw [e]
    by_cases h : m a b = true
    · simp only [h, ↓reduceIte, List.map_cons, ihb]
      congr 1
    · simp only [h, Bool.false_eq_true, ↓reduceIte]
      exact ihb

theorem gjoin_asRecs (m : VRow → VRow → Bool) (BL BR : List VRow) :
    gjoin m (asRecs BL) (asRecs BR) = asRecs (relInner m BL BR) := by
  unfold gjoin relInner asRecs
  induction BL with
  | nil => rfl
  | cons a BL ih =>
    simp only [List.map_cons, List.flatMap_cons, List.map_append, ih, gjoin_row_asRecs]

theorem sgn_mkRec (v : VRow) : sgn (mkRec v) = 1 := rfl

theorem gpartL_asRecs_len (m : VRow → VRow → Bool) (a : VRow) (BR : List VRow) :
    gpartL m a (asRecs BR) = ((BR.filter fun b => m a b).length : Int) := by
  unfold gpartL asRecs
  induction BR with
  | nil => rfl
  | cons b BR ih =>
    simp only [List.map_cons, wsum_cons, ih, List.filter_cons]
    have e : m a (mkRec b).vals = m a b := rfl
    rw [e, sgn_mkRec]
    by_cases h : m a b = true
    · simp only [h, ↓reduceIte, List.length_cons]; push_cast; omega
    · simp only [h, Bool.false_eq_true, ↓reduceIte]; omega

theorem len_filter_zero (f : VRow → Bool) (B : List VRow) : (((B.filter f).length : Int) == 0) = !(B.any f) := by
  induction B with
  | nil => rfl
  | cons b B ih =>
    simp only [List.filter_cons, List.any_cons]
    by_cases h : f b = true
    · simp only [h, ↓reduceIte, List.length_cons, Bool.true_or, Bool.not_true]
      rw [beq_eq_false_iff_ne]
      have : (0 : Int) ≤ ((B.filter f).length : Int) := Int.natCast_nonneg _
      push_cast
      omega
    · simp only [h, Bool.false_eq_true, ↓reduceIte, Bool.false_or]
      exact ih

theorem gpartL_asRecs (m : VRow → VRow → Bool) (a : VRow) (BR : List VRow) :
    (gpartL m a (asRecs BR) == 0) = !(BR.any fun b => m a b) := by
  rw [gpartL_asRecs_len, len_filter_zero]

theorem gpartR_asRecs (m : VRow → VRow → Bool) (BL : List VRow) (b : VRow) :
    (gpartR m (asRecs BL) b == 0) = !(BL.any fun a => m a b) := by
  have := gpartL_asRecs (fun x y => m y x) b BL
  unfold gpartL at this
  unfold gpartR
  exact this

theorem gpadL_asRecs (m : VRow → VRow → Bool) (nR : Nat) (BL BR : List VRow) :
    gpadL m nR (asRecs BL) (asRecs BR) = asRecs (relPadL m nR BL BR) := by
  unfold gpadL relPadL
  induction BL with
  | nil => rfl
  | cons a BL ih =>
    simp only [asRecs, List.map_cons, List.filter_cons] at ih ⊢
    have e : (gpartL m (mkRec a).vals (List.map mkRec BR) == 0) = !(BR.any fun b => m a b) := gpartL_asRecs m a BR
    rw [e]
    by_cases h : (BR.any fun b => m a b) = true
    · simp only [h, Bool.not_true, Bool.false_eq_true, ↓reduceIte]; exact ih
    · simp only [h, Bool.not_false, ↓reduceIte, List.map_cons, ih]
      congr 1

theorem gpadR_asRecs (m : VRow → VRow → Bool) (nL : Nat) (BL BR : List VRow) :
    gpadR m nL (asRecs BL) (asRecs BR) = asRecs (relPadR m nL BL BR) := by
  unfold gpadR relPadR
  induction BR with
  | nil => rfl
  | cons b BR ih =>
    simp only [asRecs, List.map_cons, List.filter_cons] at ih ⊢
    have e : (gpartR m (List.map mkRec BL) (mkRec b).vals == 0) = !(BL.any fun a => m a b) := gpartR_asRecs m BL b
    rw [e]
    by_cases h : (BL.any fun a => m a b) = true
    · simp only [h, Bool.not_true, Bool.false_eq_true, ↓reduceIte]; exact ih
    · simp only [h, Bool.not_false, ↓reduceIte, List.map_cons, ih]
      congr 1

theorem gouter_asRecs (m : VRow → VRow → Bool) (oL oR : Bool) (nL nR : Nat) (BL BR : List VRow) :
    gouter m oL oR nL nR (asRecs BL) (asRecs BR) = asRecs (relOuter m oL oR nL nR BL BR) := by
  unfold gouter relOuter
  rw [asRecs_append, asRecs_append, gjoin_asRecs]
  congr 1
  · congr 1
    cases oL
    · rfl
    · exact gpadL_asRecs m nR BL BR
  · cases oR
    · rfl
    · exact gpadR_asRecs m nL BL BR

theorem keyMatch_congr (kl kr : List SExpr) {ctx ctx' : VRow} (hc : cmpList ctx ctx' = 0) {a a' b b' : VRow}
    (ha : cmpList a a' = 0) (hb : cmpList b b' = 0) : keyMatch kl kr ctx a b = keyMatch kl kr ctx' a' b' := by
  unfold keyMatch
  have h1 := evalAll_congr kl (cmpList_ctx hc ha)
  have h2 := evalAll_congr kr (cmpList_ctx hc hb)
  cases e1 : evalAll (ctx ++ a) kl <;> cases e1' : evalAll (ctx' ++ a') kl <;> simp only [e1, e1', optRowEq] at h1 ⊢
  cases e2 : evalAll (ctx ++ b) kr <;> cases e2' : evalAll (ctx' ++ b') kr <;> simp only [e2, e2', optRowEq] at h2 ⊢
  rw [hasNull_congr h1, rowEq_congr_left h1, rowEq_congr_right h2]

theorem keyMatch_mcongr (kl kr : List SExpr) (ctx : VRow) : MCongr (keyMatch kl kr ctx) :=
  fun _ _ _ _ ha hb => keyMatch_congr kl kr (cmpList_refl ctx) ha hb

/-! ### the dependent join on changelogs -/
def lookPair (l r : Rec) : Rec := { vals := l.vals ++ r.vals, retr := l.retr != r.retr, et := l.et }

def glookup (J : VRow → List Rec) (L : List Rec) : List Rec :=
  L.flatMap fun l => (J l.vals).map fun r => lookPair l r

def lookInd (row a b : VRow) : Int := if rowEq (a ++ b) row then 1 else 0

theorem net_lookPairs (l : Rec) (X : List Rec) (row : VRow) :
    net (X.map fun r => lookPair l r) row = sgn l * wsum (fun r => sgn r * lookInd row l.vals r.vals) X := by
  induction X with
  | nil => simp [net, wsum]
  | cons r X ih =>
    rw [List.map_cons, net_cons, ih, wsum_cons, Int.mul_add]
    congr 1
    unfold lookPair lookInd
    rw [weight_eq, sgn_eq, sgn_eq]
    cases l.retr <;> cases r.retr <;> cases rowEq (l.vals ++ r.vals) row <;> simp

theorem net_glookup (J : VRow → List Rec) (L : List Rec) (row : VRow) :
    net (glookup J L) row = wsum (fun l => sgn l * wsum (fun r => sgn r * lookInd row l.vals r.vals) (J l.vals)) L := by
  unfold glookup
  induction L with
  | nil => rfl
  | cons l L ih => rw [List.flatMap_cons, net_append, ih, wsum_cons, net_lookPairs]

theorem congr_lookInd (row a : VRow) : Congr (lookInd row a) := by
  intro b b' hb
  unfold lookInd
  rw [rowEq_congr_left (cmpList_append_eq b b' (cmpList_refl a) hb) row]

/-- replace the joined side record by record -/
theorem glookup_inner {J J' : VRow → List Rec} {L : List Rec} (h : ∀ l ∈ L, NetEq (J l.vals) (J' l.vals)) :
    NetEq (glookup J L) (glookup J' L) := by
  intro row
  rw [net_glookup, net_glookup]
  apply wsum_congr
  intro l hl
  rw [wsum_sameNet (h l hl) _ (congr_lookInd row l.vals)]

/-- replace the source changelog by a net-equal one (the joined side must not distinguish equivalent rows) -/
theorem glookup_outer {J : VRow → List Rec} (hJ : ∀ a a', cmpList a a' = 0 → NetEq (J a) (J a')) {L L' : List Rec}
    (hL : NetEq L L') : NetEq (glookup J L) (glookup J L') := by
  intro row
  rw [net_glookup, net_glookup]
  refine wsum_sameNet hL (fun a => wsum (fun r => sgn r * lookInd row a r.vals) (J a)) ?_
  intro a a' ha
  show wsum (fun r => sgn r * lookInd row a r.vals) (J a) = wsum (fun r => sgn r * lookInd row a' r.vals) (J a')
  rw [wsum_sameNet (hJ a a' ha) _ (congr_lookInd row a)]
  apply wsum_congr
  intro r _
  unfold lookInd
  rw [rowEq_congr_left (cmpList_append_eq r.vals r.vals ha (cmpList_refl _)) row]

theorem glookup_asRecs (J : VRow → List VRow) (BL : List VRow) :
    glookup (fun a => asRecs (J a)) (asRecs BL) = asRecs (relDep J BL) := by
  unfold glookup relDep asRecs
  induction BL with
  | nil => rfl
  | cons a BL ih =>
    simp only [List.map_cons, List.flatMap_cons, List.map_append, ih]
    congr 1
    simp only [mkRec, List.map_map]
    rfl

/-! ### equivalent contexts -/
theorem planBag_ctx_congr (db : Db) : ∀ (p : Plan) {ctx ctx' : VRow}, cmpList ctx ctx' = 0 →
    NetEq (asRecs (planBag db p ctx)) (asRecs (planBag db p ctx')) := by
  intro p
  induction p with
  | scan i => intro ctx ctx' _; exact NetEq.refl _
  | filter q s ih =>
    intro ctx ctx' hc
    simp only [planBag, filter_eq_filterMap, ← rowOp_asRecs]
    have e : filterH q ctx = filterH q ctx' := by
      funext v; unfold filterH; rw [isTrue_congr q (cmpList_ctx hc (cmpList_refl v))]
    rw [e]
    exact rowOp_netEq (filterH_congr q ctx') (ih hc)
  | map es s ih =>
    intro ctx ctx' hc
    simp only [planBag]
    show NetEq (asRecs (List.filterMap (mapH es ctx) _)) (asRecs (List.filterMap (mapH es ctx') _))
    rw [← rowOp_asRecs, ← rowOp_asRecs]
    exact NetEq.trans (rowOp_pointwise (fun v => evalAll_congr es (cmpList_ctx hc (cmpList_refl v))) _)
      (rowOp_netEq (mapH_congr es ctx') (ih hc))
  | streamJoin kl kr l r ihl ihr =>
    intro ctx ctx' hc
    simp only [planBag, ← gjoin_asRecs]
    have e : keyMatch kl kr ctx = keyMatch kl kr ctx' := by
      funext a b; exact keyMatch_congr kl kr hc (cmpList_refl a) (cmpList_refl b)
    rw [e]
    exact gjoin_netEq (keyMatch_mcongr kl kr ctx') (ihl hc) (ihr hc)
  | outerJoin isL isR kl kr l r ihl ihr =>
    intro ctx ctx' hc
    simp only [planBag, ← gouter_asRecs]
    have e : keyMatch kl kr ctx = keyMatch kl kr ctx' := by
      funext a b; exact keyMatch_congr kl kr hc (cmpList_refl a) (cmpList_refl b)
    rw [e]
    exact gouter_netEq (keyMatch_mcongr kl kr ctx') isL isR _ _ (ihl hc) (ihr hc)
  | lookupJoin s j ihs ihj =>
    intro ctx ctx' hc
    simp only [planBag, ← glookup_asRecs]
    refine NetEq.trans (glookup_inner (J' := fun a => asRecs (planBag db j (ctx' ++ a))) ?_) (glookup_outer ?_ (ihs hc))
    · intro l _
      exact ihj (cmpList_ctx hc (cmpList_refl _))
    · intro a a' ha
      exact ihj (cmpList_ctx (cmpList_refl ctx') ha)

end Octo.SqlJoin
