import Octo.Model.WireJson
/-! Lemmas for C26: `encoding/json` (as modelled) leaves JSON-safe values unchanged up to the location of times. -/
namespace Octo.Wire
open Octo

mutual
theorem json_value_ok : ∀ v, jsonSafe v = true → jsonValue v = .ok (normLoc v)
  | .null, _ => by rfl
  | .int _, _ => by rfl
  | .bool _, _ => by rfl
  | .dur _, _ => by rfl
  | .float f, h => by simp only [jsonSafe] at h; simp [jsonValue, h, normLoc]
  | .str s, h => by
    simp only [jsonSafe, Utf8.validUtf8, beq_iff_eq] at h
    simp [jsonValue, jsonStr, h, normLoc]
  | .time ns loc, h => by simp only [jsonSafe] at h; simp [jsonValue, h, normLoc]
  | .list xs, h => by simp only [jsonSafe] at h; simp [jsonValue, json_values_ok xs h, normLoc]
  | .struct xs, h => by simp only [jsonSafe] at h; simp [jsonValue, json_values_ok xs h, normLoc]
  | .tuple xs, h => by simp only [jsonSafe] at h; simp [jsonValue, json_values_ok xs h, normLoc]
theorem json_values_ok : ∀ xs, jsonSafes xs = true → jsonValues xs = .ok (normLocs xs)
  | [], _ => by rfl
  | x :: xs, h => by
    simp only [jsonSafes, Bool.and_eq_true] at h
    simp [jsonValues, json_value_ok x h.1, json_values_ok xs h.2, normLocs]
end


end Octo.Wire
