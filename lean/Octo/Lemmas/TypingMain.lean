import Octo.Lemmas.TypingCoalesce
/-! Octo.Lemmas.TypingMain — the induction over expressions that assembles the rule-by-rule lemmas. -/
namespace Octo.Tc
open Octo Octo.Ty

theorem var_sound {S : Sig} {Γ : Ctx} (hΓ : CtxWf Γ) {n : Nat} {t : Ty} (h : lookupVar n Γ = some t) : Sound S Γ (.var t n) := by
  refine ⟨lookupVar_wf n Γ t hΓ h, ?_⟩
  intro _ ρ v he hv
  simp only [eval] at hv
  exact evalVar_conforms n Γ ρ t v he h hv

mutual
/-- **soundness of the typing rules**, by induction on the expression -/
theorem typecheck_sound {S : Sig} {Γ : Ctx} (hS : SigOk S) (hΓ : CtxWf Γ) :
    ∀ (e : LExpr) (p : PExpr), constsOk e = true → typecheck S Γ e = .ok p → Sound S Γ p
  | .var n, p, _, h => by
    simp only [typecheck] at h
    cases hl : lookupVar n Γ with
    | none => simp [hl] at h
    | some t => simp only [hl, Except.ok.injEq] at h; subst h; exact var_sound hΓ hl
  | .const c, p, hc, h => by
    simp only [typecheck] at h
    simp only [constsOk] at hc
    cases ht : c.typeOf with
    | none => simp [ht] at h
    | some t => simp only [ht, Except.ok.injEq] at h; subst h; exact const_sound hc ht
  | .call name args, p, hc, h => by
    simp only [typecheck] at h
    simp only [constsOk] at hc
    cases hl : typecheckList S Γ args with
    | error e => simp [hl] at h
    | ok ps =>
      simp only [hl] at h
      exact call_sound hS name ps p (typecheckList_sound hS hΓ args ps hc hl) h
  | .and l r, p, hc, h => by
    simp only [typecheck] at h
    simp only [constsOk, Bool.and_eq_true] at hc
    cases hl : typecheck S Γ l with
    | error e => simp [hl] at h
    | ok pl =>
      simp only [hl] at h
      cases hcl : checkExpected boolNull pl with
      | error e => simp [hcl] at h
      | ok pl' =>
        simp only [hcl] at h
        cases hr : typecheck S Γ r with
        | error e => simp [hr] at h
        | ok pr =>
          simp only [hr] at h
          cases hcr : checkExpected boolNull pr with
          | error e => simp [hcr] at h
          | ok pr' =>
            simp only [hcr, Except.ok.injEq] at h
            subst h
            exact and_sound (checkExpected_bool (typecheck_sound hS hΓ l pl hc.1 hl) hcl)
              (checkExpected_bool (typecheck_sound hS hΓ r pr hc.2 hr) hcr)
  | .or l r, p, hc, h => by
    simp only [typecheck] at h
    simp only [constsOk, Bool.and_eq_true] at hc
    cases hl : typecheck S Γ l with
    | error e => simp [hl] at h
    | ok pl =>
      simp only [hl] at h
      cases hcl : checkExpected boolNull pl with
      | error e => simp [hcl] at h
      | ok pl' =>
        simp only [hcl] at h
        cases hr : typecheck S Γ r with
        | error e => simp [hr] at h
        | ok pr =>
          simp only [hr] at h
          cases hcr : checkExpected boolNull pr with
          | error e => simp [hcr] at h
          | ok pr' =>
            simp only [hcr, Except.ok.injEq] at h
            subst h
            exact or_sound (checkExpected_bool (typecheck_sound hS hΓ l pl hc.1 hl) hcl)
              (checkExpected_bool (typecheck_sound hS hΓ r pr hc.2 hr) hcr)
  | .coalesce args, p, hc, h => by
    simp only [constsOk] at hc
    cases args with
    | nil => simp [typecheck] at h
    | cons a as =>
      simp only [typecheck] at h
      cases hl : typecheckList S Γ (a :: as) with
      | error e => simp [hl] at h
      | ok ps =>
        simp only [hl] at h
        have hps := typecheckList_sound hS hΓ (a :: as) ps hc hl
        cases ps with
        | nil => simp at h
        | cons q qs =>
          simp only at h
          cases hct : coalesceTy q.ty qs with
          | error e => simp [hct] at h
          | ok T =>
            simp only [hct, Except.ok.injEq] at h
            subst h
            refine ⟨coalesceTy_wf qs q.ty T hct (hps q (by simp)).1 (fun a ha => (hps a (by simp [ha])).1), ?_⟩
            intro hp ρ v he hv
            simp only [coalesceOk, Bool.and_eq_true] at hp
            obtain ⟨hpl, hok⟩ := hp
            simp only [coalesceArgsOk, Bool.or_eq_true, Bool.and_eq_true, List.all_eq_true] at hok
            rcases hok with (hany | hplain) | ⟨nT, hcov⟩
            · have := eq_any_of_isAny hany
              subst this
              simp [PExpr.ty]
            · exact coalesce_sound_plain hps hct hpl hplain ρ v he hv
            · exact coalesce_sound_covered hps (by simp) hpl nT hcov ρ v he hv
  | .tuple args, p, hc, h => by
    simp only [typecheck] at h
    simp only [constsOk] at hc
    cases hl : typecheckList S Γ args with
    | error e => simp [hl] at h
    | ok ps =>
      simp only [hl, Except.ok.injEq] at h
      subst h
      exact tuple_sound ps (typecheckList_sound hS hΓ args ps hc hl)
  | .cast tid e, p, hc, h => by
    simp only [typecheck] at h
    simp only [constsOk] at hc
    cases hl : typecheck S Γ e with
    | error e => simp [hl] at h
    | ok q =>
      simp only [hl] at h
      exact cast_sound (typecheck_sound hS hΓ e q hc hl) h
  | .field name e, p, hc, h => by
    simp only [typecheck] at h
    simp only [constsOk] at hc
    cases hl : typecheck S Γ e with
    | error e => simp [hl] at h
    | ok q =>
      simp only [hl] at h
      cases ho : possiblyNullableStruct q with
      | error e => simp [ho] at h
      | ok obj =>
        simp only [ho] at h
        exact field_sound (possiblyNullableStruct_sound (typecheck_sound hS hΓ e q hc hl) ho) h
theorem typecheckList_sound {S : Sig} {Γ : Ctx} (hS : SigOk S) (hΓ : CtxWf Γ) :
    ∀ (es : List LExpr) (ps : List PExpr), constsOkList es = true → typecheckList S Γ es = .ok ps → ∀ a ∈ ps, Sound S Γ a
  | [], ps, _, h => by simp only [typecheckList, Except.ok.injEq] at h; subst h; simp
  | e :: es, ps, hc, h => by
    simp only [typecheckList] at h
    simp only [constsOkList, Bool.and_eq_true] at hc
    cases he : typecheck S Γ e with
    | error err => simp [he] at h
    | ok q =>
      simp only [he] at h
      cases hl : typecheckList S Γ es with
      | error err => simp [hl] at h
      | ok qs =>
        simp only [hl, Except.ok.injEq] at h
        subst h
        intro a ha
        simp only [List.mem_cons] at ha
        rcases ha with rfl | ha
        · exact typecheck_sound hS hΓ e a hc.1 he
        · exact typecheckList_sound hS hΓ es qs hc.2 hl a ha
end

end Octo.Tc
