import Octo.Lemmas.SqlOps
import Octo.Lemmas.SqlTree
import Octo.Spec.GroupSem
/-!
  Lemmas about the hash map of `SimpleGroupBy` (`Octo.Grp.gUpd` / `gFold`): after any input,
  * the stored keys are exactly one representative (the first one seen) per class of key tuples, in order of
    first occurrence (`run_keys`), pairwise inequivalent (`keyClasses_pairwise`);
  * the item found for a key holds, per aggregate, the non-NULL inputs of exactly the rows of that key's
    class, in arrival order (`findKey_run`, `applyIns_cells`, `foldl_addCells_get`).
-/
namespace Octo.Grp
open Octo Octo.Sql

theorem rowEq_comm (a b : Row) : rowEq a b = rowEq b a := by
  cases h1 : rowEq a b <;> cases h2 : rowEq b a <;> try rfl
  · have := rowEq_symm h2; simp_all
  · have := rowEq_symm h1; simp_all

def hasKey (k : Row) (st : List GItem) : Bool := st.any fun it => rowEq k it.key
def findKey (k : Row) (st : List GItem) : Option GItem := st.find? fun it => rowEq k it.key

/-- the item after one more record of its key: the updated item, or a fresh one -/
def bumpItem (n : Nat) (key ins : Row) : Option GItem → GItem
  | some it => { it with cells := addCells it.cells ins, count := it.count + 1 }
  | none => ⟨key, addCells (emptyCells n) ins, 1⟩

theorem gUpd_keys (n : Nat) (key ins : Row) (st : List GItem) :
    (gUpd n key ins st).map (·.key) = if hasKey key st then st.map (·.key) else st.map (·.key) ++ [key] := by
  induction st with
  | nil => simp [gUpd, hasKey]
  | cons it rest ih =>
    by_cases h : rowEq key it.key = true
    · simp [gUpd, hasKey, h]
    · have h' : rowEq key it.key = false := by simpa using h
      have e : hasKey key (it :: rest) = hasKey key rest := by simp [hasKey, h']
      rw [e]
      simp only [gUpd, h', Bool.false_eq_true, if_false, List.map_cons, ih]
      split <;> simp

theorem hasKey_gUpd (n : Nat) (k key ins : Row) (st : List GItem) :
    hasKey k (gUpd n key ins st) = (hasKey k st || (!hasKey key st && rowEq k key)) := by
  have h1 : ∀ s : List GItem, hasKey k s = (s.map (·.key)).any (rowEq k) := by
    intro s; simp [hasKey, List.any_map, Function.comp_def]
  rw [h1, gUpd_keys, h1 st]
  cases hasKey key st <;> simp

theorem findKey_gUpd (n : Nat) (k key ins : Row) (st : List GItem) :
    findKey k (gUpd n key ins st) =
      if rowEq k key then some (bumpItem n key ins (findKey k st)) else findKey k st := by
  induction st with
  | nil =>
    simp only [gUpd, findKey, List.find?_cons, List.find?_nil, bumpItem]
    cases rowEq k key <;> simp
  | cons it rest ih =>
    simp only [findKey] at ih
    simp only [gUpd, findKey]
    cases hki : rowEq key it.key
    · -- the new record is not of this item's key
      simp only [Bool.false_eq_true, if_false, List.find?_cons, ih]
      cases hk : rowEq k key
      · simp
      · have : rowEq k it.key = false := by
          cases h : rowEq k it.key
          · rfl
          · have := rowEq_trans (rowEq_symm hk) h; simp_all
        simp [this]
    · simp only [if_true, List.find?_cons]
      cases hk : rowEq k key
      · have : rowEq k it.key = false := by
          cases h : rowEq k it.key
          · rfl
          · have := rowEq_trans h (rowEq_symm hki); simp_all
        simp [this]
      · have : rowEq k it.key = true := rowEq_trans hk hki
        simp [this, bumpItem]

/-- the record handler over a list of (key, aggregate inputs) pairs -/
def runPairs (n : Nat) (st : List GItem) (kis : List (Row × Row)) : List GItem :=
  kis.foldl (fun s p => gUpd n p.1 p.2 s) st

/-- the inputs of the pairs whose key is in the class of `k`, applied in order -/
def applyIns (n : Nat) (k : Row) : Option GItem → List (Row × Row) → Option GItem
  | o, [] => o
  | o, p :: ps => if rowEq k p.1 then applyIns n k (some (bumpItem n p.1 p.2 o)) ps else applyIns n k o ps

theorem findKey_run (n : Nat) (k : Row) (kis : List (Row × Row)) (st : List GItem) :
    findKey k (runPairs n st kis) = applyIns n k (findKey k st) kis := by
  induction kis generalizing st with
  | nil => rfl
  | cons p ps ih =>
    simp only [runPairs, List.foldl_cons, applyIns] at *
    rw [ih, findKey_gUpd]
    split <;> rfl

def cellsOfOpt (n : Nat) : Option GItem → List (List Value)
  | some it => it.cells
  | none => emptyCells n

def matchIns (k : Row) (kis : List (Row × Row)) : List Row := (kis.filter fun p => rowEq k p.1).map (·.2)

theorem applyIns_cells (n : Nat) (k : Row) (kis : List (Row × Row)) (o : Option GItem)
    (h : o.isSome = true ∨ (kis.any fun p => rowEq k p.1) = true) :
    ∃ it, applyIns n k o kis = some it ∧ it.cells = (matchIns k kis).foldl addCells (cellsOfOpt n o) := by
  induction kis generalizing o with
  | nil =>
    cases o with
    | none => simp at h
    | some it => exact ⟨it, rfl, rfl⟩
  | cons p ps ih =>
    simp only [applyIns, matchIns, List.filter_cons]
    cases hk : rowEq k p.1
    · simp only [Bool.false_eq_true, if_false]
      apply ih
      simpa [hk] using h
    · simp only [if_true, List.map_cons, List.foldl_cons]
      obtain ⟨it, h1, h2⟩ := ih (some (bumpItem n p.1 p.2 o)) (Or.inl rfl)
      refine ⟨it, h1, ?_⟩
      rw [h2]
      cases o <;> rfl

/-! ### the keys -/

theorem hasKey_eq (k : Row) (s : List GItem) : hasKey k s = (s.map (·.key)).any (rowEq k) := by
  simp [hasKey, List.any_map, Function.comp_def]

theorem run_keys (n : Nat) (kis : List (Row × Row)) (st : List GItem) :
    (runPairs n st kis).map (·.key) =
      st.map (·.key) ++ (keyClasses (kis.map (·.1))).filter fun k => !hasKey k st := by
  induction kis generalizing st with
  | nil => simp [runPairs, keyClasses]
  | cons p ps ih =>
    simp only [runPairs, List.foldl_cons, List.map_cons, keyClasses] at *
    rw [ih, gUpd_keys]
    cases hp : hasKey p.1 st
    · -- a new key: appended
      simp only [Bool.false_eq_true, if_false, List.filter_cons, hp, Bool.not_false, if_true,
        List.append_assoc, List.singleton_append, List.filter_filter]
      congr 2
      apply List.filter_congr
      intro x _
      rw [hasKey_gUpd, hp]
      simp
    · -- a key already present: the state's keys are unchanged
      simp only [if_true, List.filter_cons, hp, Bool.not_true, Bool.false_eq_true, if_false, List.filter_filter]
      congr 1
      apply List.filter_congr
      intro x _
      rw [hasKey_gUpd, hp]
      simp only [Bool.not_true, Bool.false_and, Bool.or_false]
      cases hx : hasKey x st
      · -- x is not a key of the state, so it is not in the class of p.1 either
        have : rowEq x p.1 = false := by
          cases h : rowEq x p.1
          · rfl
          · exfalso
            rw [hasKey_eq, List.any_eq_true] at hp
            obtain ⟨y, hy, hy2⟩ := hp
            have : hasKey x st = true := by
              rw [hasKey_eq, List.any_eq_true]
              exact ⟨y, hy, rowEq_trans h hy2⟩
            simp_all
        simp [this]
      · simp

theorem run_keys_nil (n : Nat) (kis : List (Row × Row)) :
    (runPairs n [] kis).map (·.key) = keyClasses (kis.map (·.1)) := by
  rw [run_keys]; simp [hasKey]

theorem keyClasses_pairwise (ks : List Row) : (keyClasses ks).Pairwise fun a b => rowEq b a = false := by
  induction ks with
  | nil => simp [keyClasses]
  | cons k ks ih =>
    simp only [keyClasses]
    rw [List.pairwise_cons]
    refine ⟨?_, ih.sublist List.filter_sublist⟩
    intro b hb
    simpa using (List.mem_filter.mp hb).2

theorem mem_keyClasses {k : Row} {ks : List Row} (h : k ∈ keyClasses ks) : k ∈ ks := by
  induction ks with
  | nil => simp [keyClasses] at h
  | cons x xs ih =>
    simp only [keyClasses, List.mem_cons] at h ⊢
    rcases h with h | h
    · exact Or.inl h
    · exact Or.inr (ih (List.mem_filter.mp h).1)

theorem findKey_self {st : List GItem} (hp : (st.map (·.key)).Pairwise fun a b => rowEq b a = false)
    {it : GItem} (h : it ∈ st) : findKey it.key st = some it := by
  induction st with
  | nil => simp at h
  | cons x xs ih =>
    simp only [List.map_cons, List.pairwise_cons] at hp
    simp only [findKey, List.find?_cons]
    rcases List.mem_cons.mp h with h | h
    · subst h; simp [rowEq_refl]
    · have : rowEq it.key x.key = false := hp.1 it.key (List.mem_map_of_mem h)
      simp only [this]
      exact ih hp.2 h

/-! ### the cells -/

theorem addCells_length (cells : List (List Value)) (ins : Row) : (addCells cells ins).length = cells.length := by
  induction cells generalizing ins with
  | nil => cases ins <;> simp [addCells]
  | cons c cs ih => cases ins <;> simp [addCells, ih]

def addOne (c : List Value) : Option Value → List Value
  | some v => if isNullV v then c else c ++ [v]
  | none => c

theorem addCells_get (cells : List (List Value)) (ins : Row) (i : Nat) :
    (addCells cells ins)[i]? = cells[i]?.map fun c => addOne c ins[i]? := by
  induction cells generalizing ins i with
  | nil => cases ins <;> simp [addCells]
  | cons c cs ih =>
    cases ins with
    | nil => cases i <;> simp [addCells, addOne]
    | cons v vs =>
      cases i with
      | zero => simp [addCells, addOne]
      | succ j => simp [addCells, ih]

/-- column `i` of a list of input rows, without its NULLs -/
def colInputs (i : Nat) (inss : List Row) : List Value := (inss.filterMap (·[i]?)).filter fun v => !isNullV v

theorem foldl_addCells_get (inss : List Row) (cells : List (List Value)) (i : Nat) :
    (inss.foldl addCells cells)[i]? = cells[i]?.map fun c => c ++ colInputs i inss := by
  induction inss generalizing cells with
  | nil => simp [colInputs]
  | cons ins rest ih =>
    simp only [List.foldl_cons]
    rw [ih, addCells_get]
    cases cells[i]? with
    | none => rfl
    | some c =>
      simp only [Option.map_some, colInputs, List.filterMap_cons, addOne]
      cases hi : ins[i]? with
      | none => rfl
      | some v =>
        cases hv : isNullV v <;> simp [hv]

theorem emptyCells_get (n i : Nat) : (emptyCells n)[i]? = if i < n then some [] else none := by
  simp only [emptyCells]
  split
  · rename_i h; simp [h]
  · rename_i h; simp [h]

/-! ### from rows to pairs -/

def insOfRow (aggs : List PAgg) (r : Row) : Row := (evalArgs r aggs).getD []

theorem gFold_ok (keys : List SExpr) (aggs : List PAgg) (rows : List Row) (st : List GItem)
    (h : evalsOk keys aggs rows = true) :
    gFold keys aggs st rows =
      some (runPairs aggs.length st (rows.map fun r => (keyOfRow keys r, insOfRow aggs r))) := by
  induction rows generalizing st with
  | nil => rfl
  | cons r rs ih =>
    simp only [evalsOk, List.all_cons, Bool.and_eq_true] at h
    obtain ⟨⟨h1, h2⟩, h3⟩ := h
    obtain ⟨k, hk⟩ := Option.isSome_iff_exists.mp h1
    obtain ⟨ins, hins⟩ := Option.isSome_iff_exists.mp h2
    simp only [gFold, hk, hins, List.map_cons, runPairs, List.foldl_cons, keyOfRow, insOfRow, Option.getD_some]
    exact ih _ (by simpa [evalsOk] using h3)

theorem evalArgs_get (r : Row) (aggs : List PAgg) (ins : Row) (h : evalArgs r aggs = some ins) (i : Nat) :
    ins[i]? = aggs[i]?.bind fun p => evalArg r p := by
  induction aggs generalizing ins i with
  | nil => simp [evalArgs] at h; subst h; simp
  | cons p ps ih =>
    simp only [evalArgs] at h
    cases h1 : evalArg r p with
    | none => simp [h1] at h
    | some v =>
      cases h2 : evalArgs r ps with
      | none => simp [h1, h2] at h
      | some vs =>
        simp only [h1, h2, Option.some.injEq] at h
        subst h
        cases i with
        | zero => simp [h1]
        | succ j => simpa using ih vs h2 j

theorem evalArgs_length (r : Row) (aggs : List PAgg) (ins : Row) (h : evalArgs r aggs = some ins) :
    ins.length = aggs.length := by
  induction aggs generalizing ins with
  | nil => simp [evalArgs] at h; subst h; rfl
  | cons p ps ih =>
    simp only [evalArgs] at h
    cases h1 : evalArg r p with
    | none => simp [h1] at h
    | some v =>
      cases h2 : evalArgs r ps with
      | none => simp [h1, h2] at h
      | some vs =>
        simp only [h1, h2, Option.some.injEq] at h
        subst h
        simp [ih vs h2]

/-! ### outcomes -/

theorem Res.bind_ok {α β : Type} {r : Res α} {f : α → Res β} {b : β} (h : r.bind f = .ok b) :
    ∃ a, r = .ok a ∧ f a = .ok b := by
  cases r with
  | ok a => exact ⟨a, rfl, h⟩
  | err => simp [Res.bind] at h
  | panic => simp [Res.bind] at h

theorem Res.ofOption_ok {α : Type} {o : Option α} {a : α} (h : Res.ofOption o = .ok a) : o = some a := by
  cases o with
  | none => simp [Res.ofOption] at h
  | some x => simp only [Res.ofOption, Res.ok.injEq] at h; rw [h]

theorem evalsOk_of_gFold (keys : List SExpr) (aggs : List PAgg) (rows : List Row) (st items : List GItem)
    (h : gFold keys aggs st rows = some items) : evalsOk keys aggs rows = true := by
  induction rows generalizing st with
  | nil => rfl
  | cons r rs ih =>
    simp only [gFold] at h
    cases h1 : evalAll r keys with
    | none => simp [h1] at h
    | some k =>
      cases h2 : evalArgs r aggs with
      | none => simp [h1, h2] at h
      | some ins =>
        simp only [h1, h2] at h
        have := ih _ h
        simp only [evalsOk, List.all_cons, h1, h2, Option.isSome_some, Bool.and_self, Bool.true_and] at this ⊢
        exact this

theorem evalsOk_of_groupNode {keys : List SExpr} {aggs : List PAgg} {rows out : List Row}
    (h : groupNode keys aggs rows = .ok out) : evalsOk keys aggs rows = true := by
  simp only [groupNode] at h
  cases hg : gFold keys aggs [] rows with
  | none => simp [hg] at h
  | some items => exact evalsOk_of_gFold keys aggs rows [] items hg

theorem whereStep_spec {w : Option SExpr} {rows out : List Row} (h : whereStep w rows = some out) :
    out = specFilter w rows := by
  cases w with
  | none => simp [whereStep] at h; simp [specFilter, h]
  | some p => simp only [whereStep] at h; exact filterOp_spec p rows out h

theorem typecheckGroup_some {tys : List Ty} {src : Query} {g : GroupBlock} {aggs : List PAgg}
    (h : typecheckGroup tys src g = some aggs) :
    ∃ cols, queryTys tys src = some cols ∧ typecheckAggs cols g.aggs = some aggs := by
  simp only [typecheckGroup] at h
  cases hq : queryTys tys src with
  | none => simp [hq] at h
  | some cols => exact ⟨cols, rfl, by simpa [hq] using h⟩

/-- every key tuple has its class representative among `keyClasses` -/
theorem keyClasses_covers (ks : List Row) (k : Row) (h : k ∈ ks) : ∃ c ∈ keyClasses ks, rowEq k c = true := by
  induction ks with
  | nil => simp at h
  | cons x xs ih =>
    simp only [keyClasses]
    rcases List.mem_cons.mp h with h | h
    · subst h; exact ⟨k, List.mem_cons_self, rowEq_refl k⟩
    · obtain ⟨c, hc, hkc⟩ := ih h
      by_cases hx : rowEq c x = true
      · exact ⟨x, List.mem_cons_self, rowEq_trans hkc hx⟩
      · refine ⟨c, List.mem_cons_of_mem _ (List.mem_filter.mpr ⟨hc, ?_⟩), hkc⟩
        simpa using hx

end Octo.Grp
