import Octo.Lemmas.JsonPipeCons
import Octo.Lemmas.JsonPipeMeasure
/-! Progress: in a reachable state, a pipe that is not finished can always be advanced by a pool worker or by its
own reader / consumer — never by waiting for another pipe's consumer, and never only by the environment. -/
namespace Octo.JsonPipe

/-- actions of the pool workers -/
def Action.isWorker : Action → Bool
  | .wTake _ _ | .wSend _ | .wDrop _ => true
  | _ => false

/-- actions of the reader goroutine or of the consumer loop of pipe `p` (not the environment's `pCancel`) -/
def Action.ofPipe (p : Nat) : Action → Bool
  | .rTok q | .rStop q | .rSub q | .rWrite q | .rDone q => q = p
  | .cRecv q _ | .cTok q | .cProc q | .cDone q | .cCtx q | .cCancel q => q = p
  | _ => false

theorem busy_pos_exists {wk : Nat → Option Job} {n : Nat} (h : 0 < busy wk n) : ∃ w j, w < n ∧ wk w = some j := by
  induction n with
  | zero => simp [busy] at h
  | succ n ih =>
    simp only [busy] at h
    cases hx : wk n with
    | some j => exact ⟨n, j, by omega, hx⟩
    | none =>
      simp only [hx, someCnt] at h
      obtain ⟨w, j, hw, hj⟩ := ih (by omega)
      exact ⟨w, j, by omega, hj⟩

theorem worker_send_enabled {s : State} (h : Reachable s) {w : Nat} {j : Job} (hw : w < s.nw)
    (hj : s.worker w = some j) : (step s (.wSend w)).isSome = true := by
  have ht := reachable_tokInv h
  have hjp := ht.workersValid w j hj
  have h1 := ht.le j.pipe hjp
  have h2 := ht.cap j.pipe hjp
  have h3 : 0 < busyWith s.worker j.pipe s.nw := by
    have := busyWith_update s.worker j.pipe s.nw w none hw
    simp only [hj, jobCnt, if_true] at this
    omega
  have := tokCap_le_outCap
  simp only [inflight] at h1
  have hlen : (s.pipe j.pipe).out.length < outCap := by omega
  simp [step, hj, hw, hlen]

/-- the drained state "reader finished, every batch processed, consumer still waiting" does not exist -/
theorem drained_contradiction {s : State} (h : Reachable s) {p : Nat} (hp : p < s.np)
    (hsel : (s.pipe p).cpc = .sel) (hout : (s.pipe p).out = []) (hjobs : s.jobs = [])
    (hidle : ∀ w, w < s.nw → s.worker w = none) (hrx : (s.pipe p).rpc = .exit)
    (hrd : (s.pipe p).readerDone = true) (hpc : (s.pipe p).parentCancelled = false) : False := by
  have hpi := reachable_pinv h p hp
  have hq := reachable_qinv h p hp
  have hcons := reachable_consInv h p hp (Or.inl hsel) hpc
  have hqf := hq.queue (Or.inl hsel)
  have hchain := hq.chain
  simp only [subEnd, hrx] at hchain
  have hchain' : Chain 0 (s.pipe p).sub (s.pipe p).nextLine := by simpa using hchain
  -- every submitted batch has been processed
  have hall : ∀ j, j ∈ (s.pipe p).sub → j ∈ (s.pipe p).got := by
    intro j hj
    have := hcons j hj
    simp only [Located, hjobs, hout, hsel] at this
    rcases this with h1 | ⟨w, hw, h1⟩ | h1 | h1 | h1 | h1
    · simp at h1
    · rw [hidle w hw] at h1; contradiction
    · simp at h1
    · contradiction
    · contradiction
    · exact h1
  have hcheck := hpi.check hrd
  rw [hsel] at hcheck
  have hne : (s.pipe p).startIndex ≠ (s.pipe p).linesRead := by
    rcases hcheck with h1 | h1 | h1
    · contradiction
    · contradiction
    · exact h1
  rw [hpi.lr] at hne
  -- startIndex ≤ nextLine
  have hle : (s.pipe p).startIndex ≤ (s.pipe p).nextLine := by
    rcases hqf.boundary with h0 | ⟨e, he, h1⟩
    · omega
    · have := chain_mem_bounds hchain' (hq.gotSub e he); omega
  -- startIndex ≥ nextLine
  have hge : (s.pipe p).nextLine ≤ (s.pipe p).startIndex := by
    apply Nat.le_of_not_lt
    intro hlt
    obtain ⟨j, hj, h1, h2⟩ := chain_cover hchain' (Nat.zero_le _) hlt
    rcases hqf.emitted j (hall j hj) with h3 | h3
    · rcases hqf.ahead j h3 with h4 | h4 <;> omega
    · omega
  omega

theorem pool_never_wedged {s : State} (h : Reachable s) {p : Nat} (hp : p < s.np) (hnf : ¬ s.pipeFinal p) :
    ∃ a, (a.isWorker = true ∨ a.ofPipe p = true) ∧ (step s a).isSome = true := by
  have ht := reachable_tokInv h
  have hpi := reachable_pinv h p hp
  have hnw := reachable_nw h
  by_cases hb : 0 < busy s.worker s.nw
  · obtain ⟨w, j, hw, hj⟩ := busy_pos_exists hb
    exact ⟨.wSend w, Or.inl rfl, worker_send_enabled h hw hj⟩
  · have hb0 : busy s.worker s.nw = 0 := by omega
    have hidle := busy_zero_all_none hb0
    by_cases hjobs : s.jobs = []
    · -- nothing in the pool: look at the pipe itself
      have hbw : busyWith s.worker p s.nw = 0 := by have := busyWith_le_busy s.worker p s.nw; omega
      have hij : inJobs s.jobs p = 0 := by rw [hjobs]; rfl
      cases hc : (s.pipe p).cpc with
      | tok j =>
        have h1 := ht.le p hp
        simp only [inflight, hc, ctokCnt] at h1
        have : 0 < (s.pipe p).tokens := by omega
        exact ⟨.cTok p, Or.inr (by simp [Action.ofPipe]), by simp [step, hc, hp, this]⟩
      | proc j => exact ⟨.cProc p, Or.inr (by simp [Action.ofPipe]), by simp [step, hc, hp]⟩
      | ret => exact ⟨.cCancel p, Or.inr (by simp [Action.ofPipe]), by simp [step, hc, hp]⟩
      | sel =>
        by_cases hout : (s.pipe p).out = []
        · by_cases hpc : (s.pipe p).parentCancelled = true
          · exact ⟨.cCtx p, Or.inr (by simp [Action.ofPipe]), by simp [step, hc, hp, hpc]⟩
          · have hpc' : (s.pipe p).parentCancelled = false := by simpa using hpc
            have hlc : (s.pipe p).localCancelled = false := by
              cases hl : (s.pipe p).localCancelled with
              | false => rfl
              | true => have := hpi.exitLocal.mpr hl; rw [hc] at this; contradiction
            have hcan : (s.pipe p).cancelled = false := by simp [Pipe.cancelled, hpc', hlc]
            cases hr : (s.pipe p).rpc with
            | hold =>
              have : s.jobs.length < jobCap := by rw [hjobs]; exact jobCap_pos
              exact ⟨.rSub p, Or.inr (by simp [Action.ofPipe]), by simp [step, hr, hp, this]⟩
            | write => exact ⟨.rWrite p, Or.inr (by simp [Action.ofPipe]), by simp [step, hr, hp]⟩
            | fin => exact ⟨.rDone p, Or.inr (by simp [Action.ofPipe]), by simp [step, hr, hp]⟩
            | sel =>
              have h1 := ht.eq p hp hcan
              simp only [inflight, hc, hr, ctokCnt, holdCnt, hij, hbw, hout] at h1
              have : (s.pipe p).tokens < tokCap := by have := tokCap_pos; simp at h1; omega
              exact ⟨.rTok p, Or.inr (by simp [Action.ofPipe]), by simp [step, hr, hp, this]⟩
            | exit =>
              cases hdn : (s.pipe p).doneNil with
              | false =>
                rcases hpi.readerExit hr with h1 | h1 | h1
                · rw [hcan] at h1; contradiction
                · cases hd : (s.pipe p).done with
                  | none => rw [hd] at h1; simp at h1
                  | some e =>
                    refine ⟨.cDone p, Or.inr (by simp [Action.ofPipe]), ?_⟩
                    cases e <;> simp [step, hc, hp, hdn, hd]
                · rw [hdn] at h1; contradiction
              | true =>
                have hrd : (s.pipe p).readerDone = true := by
                  rcases hpi.nilLoop hdn with h1 | h1 | h1
                  · rw [hc] at h1; contradiction
                  · rw [hc] at h1; contradiction
                  · exact h1
                exact (drained_contradiction h hp hc hout hjobs hidle hr hrd hpc').elim
        · obtain ⟨x, r, hx⟩ := takeAt_zero_of_ne_nil hout
          exact ⟨.cRecv p 0, Or.inr (by simp [Action.ofPipe]), by simp [step, hc, hp, hx]⟩
      | exit =>
        have hlc := hpi.exitLocal.mp hc
        have hcan : (s.pipe p).cancelled = true := by simp [Pipe.cancelled, hlc]
        cases hr : (s.pipe p).rpc with
        | hold =>
          have : s.jobs.length < jobCap := by rw [hjobs]; exact jobCap_pos
          exact ⟨.rSub p, Or.inr (by simp [Action.ofPipe]), by simp [step, hr, hp, this]⟩
        | write => exact ⟨.rWrite p, Or.inr (by simp [Action.ofPipe]), by simp [step, hr, hp]⟩
        | fin => exact ⟨.rDone p, Or.inr (by simp [Action.ofPipe]), by simp [step, hr, hp]⟩
        | sel => exact ⟨.rStop p, Or.inr (by simp [Action.ofPipe]), by simp [step, hr, hp, hcan]⟩
        | exit => exact (hnf ⟨hc, hr, hij, hbw⟩).elim
    · -- a job is waiting and all workers are idle
      obtain ⟨x, r, hx⟩ := takeAt_zero_of_ne_nil hjobs
      have h0 : s.worker 0 = none := hidle 0 (by omega)
      have hlt : 0 < s.nw := by omega
      exact ⟨.wTake 0 0, Or.inl rfl, by simp [step, h0, hx, hlt]⟩

end Octo.JsonPipe

namespace Octo.JsonPipe

/-- once the reader goroutine has returned it stays returned and `linesRead` keeps its value -/
theorem pipeStep_exit_stable {p : Nat} {P P' : Pipe} (hs : PipeStep p P P') (h : P.rpc = .exit) :
    P'.rpc = .exit ∧ P'.linesRead = P.linesRead := by
  cases hs with
  | rTok a b => rw [h] at a; contradiction
  | rStop a b => rw [h] at a; contradiction
  | rSub a => rw [h] at a; contradiction
  | rWrite a => rw [h] at a; contradiction
  | rDone a => rw [h] at a; contradiction
  | wSend j a => exact ⟨h, rfl⟩
  | cRecv k j rest a b => exact ⟨h, rfl⟩
  | cTok j a b => exact ⟨h, rfl⟩
  | cProc j a => obtain ⟨fr, _⟩ := procBatch_frame P j; exact ⟨by rw [fr.rpc]; exact h, fr.linesRead⟩
  | cDoneErr a b c => exact ⟨h, rfl⟩
  | cDoneOk a b c => split <;> exact ⟨h, rfl⟩
  | cCtx a b => exact ⟨h, rfl⟩
  | cCancel a => exact ⟨h, rfl⟩
  | pCancel a => exact ⟨h, rfl⟩
  | rTrunc u a b c => rcases c with c | ⟨c | c, _⟩ <;> rw [h] at c <;> contradiction

theorem run_exit_stable {s t : State} {sched : List Action} {p : Nat} (hr : run s sched = some t)
    (h : (s.pipe p).rpc = .exit) : (t.pipe p).rpc = .exit ∧ (t.pipe p).linesRead = (s.pipe p).linesRead := by
  induction sched generalizing s with
  | nil => simp only [run, Option.some.injEq] at hr; subst hr; exact ⟨h, rfl⟩
  | cons a as ih =>
    simp only [run] at hr
    cases hsa : step s a with
    | none => simp [hsa] at hr
    | some s' =>
      simp only [hsa] at hr
      have h1 : (s'.pipe p).rpc = .exit ∧ (s'.pipe p).linesRead = (s.pipe p).linesRead := by
        rcases step_pipe hsa p with e | e
        · rw [e]; exact ⟨h, rfl⟩
        · exact pipeStep_exit_stable e h
      have h2 := ih hr h1.1
      exact ⟨h2.1, h2.2.trans h1.2⟩

end Octo.JsonPipe
