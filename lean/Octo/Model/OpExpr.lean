import Octo.Model.Changelog
/-!
  Octo.Model.OpExpr — the fragment of `execution/expressions.go` that the operator checks (C15, C18)
  materialise in front of the real nodes: `Variable`, `Constant`, `FunctionCall` of the strict
  functions `=`, `<`, `+` (Int overload) of `functions/functions.go`, `And`, `Or` (binary argument
  lists) and `TypeAssertion` to Int (the only expression here that can fail).

  Evaluation context = the chain of `VariableContext`s: `ctx[0]` is the record of the innermost
  node (level 0), `ctx[1]` its parent (level 1: the source record of a lookup join) …
-/
namespace Octo.Ops
open Octo

/-- error classes of the line protocol. `limit` is the Limit node's private sentinel error
    ("limit <ulid> reached"); `panic` totalises Go panics (index out of range, nil dereference). -/
inductive Err where
  | injected | runtime | limit | panic
  deriving DecidableEq, Repr, Inhabited

inductive Expr where
  | var (level index : Nat)
  | const (v : Value)
  | eq (a b : Expr)
  | lt (a b : Expr)
  | add (a b : Expr)
  | and (a b : Expr)
  | or (a b : Expr)
  | assertInt (e : Expr)
  deriving Repr, Inhabited

def isNull : Value → Bool
  | .null => true
  | _ => false
/-- the `Boolean` field of an `octosql.Value` (false unless the value is a Boolean) -/
def boolOf : Value → Bool
  | .bool b => b
  | _ => false
/-- the `Int` field of an `octosql.Value` (0 unless the value is an Int) -/
def intOf : Value → Int
  | .int i => i
  | _ => 0

def Expr.eval (ctx : List Row) : Expr → Except Err Value
  | .var l i =>
    match ctx[l]? with
    | none => .error .panic                 -- nil VariableContext dereference
    | some row =>
      match row[i]? with
      | none => .error .panic               -- index out of range
      | some v => .ok v
  | .const v => .ok v
  | .eq a b => do
    let x ← a.eval ctx
    let y ← b.eval ctx
    if isNull x || isNull y then pure .null else pure (.bool (x.equal y))
  | .lt a b => do
    let x ← a.eval ctx
    let y ← b.eval ctx
    if isNull x || isNull y then pure .null else pure (.bool (decide (cmp x y < 0)))
  | .add a b => do
    let x ← a.eval ctx
    let y ← b.eval ctx
    if isNull x || isNull y then pure .null else pure (.int (intOf x + intOf y))
  | .and a b => do
    let x ← a.eval ctx
    if isNull x then
      let y ← b.eval ctx
      if isNull y then pure .null else if !boolOf y then pure y else pure .null
    else if !boolOf x then pure x
    else
      let y ← b.eval ctx
      if isNull y then pure .null else if !boolOf y then pure y else pure (.bool true)
  | .or a b => do
    let x ← a.eval ctx
    if boolOf x then pure x
    else
      let y ← b.eval ctx
      if boolOf y then pure y
      else if isNull x || isNull y then pure .null else pure (.bool false)
  | .assertInt e => do
    let x ← e.eval ctx
    match x with
    | .int _ => pure x
    | _ => .error .runtime

/-- evaluate a list of expressions left to right, first error wins (the `for i, expr := range` loops) -/
def evalAll (ctx : List Row) : List Expr → Except Err Row
  | [] => .ok []
  | e :: es => do
    let v ← e.eval ctx
    let vs ← evalAll ctx es
    pure (v :: vs)

end Octo.Ops
