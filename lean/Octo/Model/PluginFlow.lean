/-!
  Octo.Model.PluginFlow — the bookkeeping of `PushDownPredicates` on both sides of the plugin boundary
  (`plugins/executor/executor.go` `PhysicalDatasource.PushDownPredicates`, `plugins/plugins.go`
  `physicalServer.PushDownPredicates`), over abstract predicates.

  Only what decides where a predicate ends up is kept of a predicate: whether it contains a subquery (then it cannot
  be serialised and stays with octosql) and whether the plugin recognises all its functions
  (`RepopulatePhysicalExpressionFunctions` returns ok).
-/
namespace Octo.Wire

structure Pred where
  id : Nat
  /-- `containsSubquery(expr)` -/
  hasSubquery : Bool
  /-- `RepopulatePhysicalExpressionFunctions(expr)` succeeds on the plugin side -/
  known : Bool
  deriving DecidableEq, Repr, Inhabited

/-- a datasource implementation's `PushDownPredicates(newPredicates, pushedDownPredicates)`:
    `(rejected, pushedDown, changed)` -/
abbrev PushImpl := List Pred → List Pred → List Pred × List Pred × Bool

/-- `physicalServer.PushDownPredicates`: predicates with functions the plugin does not know are kept away from the
    implementation and appended to what it rejects -/
def serverPushDown (impl : PushImpl) (newPreds pushed : List Pred) : List Pred × List Pred × Bool :=
  let known := newPreds.filter (·.known)
  let unknown := newPreds.filter (fun p => !p.known)
  let r := impl known pushed
  (r.1 ++ unknown, r.2.1, r.2.2)

/-- `PhysicalDatasource.PushDownPredicates`: predicates with subqueries are not sent and are appended to the rejected ones -/
def clientPushDown (impl : PushImpl) (newPreds pushed : List Pred) : List Pred × List Pred × Bool :=
  let ser := newPreds.filter (fun p => !p.hasSubquery)
  let nser := newPreds.filter (·.hasSubquery)
  let r := serverPushDown impl ser pushed
  (r.1 ++ nser, r.2.1, r.2.2)

end Octo.Wire
