import Octo.Model.TyAlgebra
import Octo.Model.Coalesce
import Octo.Model.Typing
/-!
  Octo.Model.TypingCovers — two decidable predicates on static types used as the side condition of the COALESCE rule
  in C08 (`Octo.Lemmas.TypingCoalesce` proves them sound for the relations `NormTy` of C13 and `Covers`):

  * `normB t`      — `t` is in the normal form `TypeSum` produces: unions have concrete alternatives in strictly ascending
                     TypeID order, object field names are distinct and as many as the field types, no `Any`;
  * `coversB t s`  — the target type `t` hosts every value of the source type `s` after `ObjectLayoutFixer` re-laid it out:
                     same scalar; object fields by name, a field the source lacks must admit NULL in the target; tuples
                     position by position, extra target positions must admit NULL; through lists and unions.
-/
namespace Octo.Tc
open Octo Octo.Ty Octo.Coal

def isConcrete (t : Ty) : Bool := !t.isUnion && !t.isAny

/-- ascending TypeIDs -/
def idsAscending : List Ty → Bool
  | [] => true
  | [_] => true
  | a :: b :: rest => decide (a.id < b.id) && idsAscending (b :: rest)

def namesNodup : List Name → Bool
  | [] => true
  | n :: ns => !ns.contains n && namesNodup ns

mutual
def normB : Ty → Bool
  | .null | .int | .float | .bool | .str | .time | .dur | .listNil => true
  | .any => false
  | .list e => normB e
  | .struct ns ts => namesNodup ns && ns.length == ts.length && normBList ts
  | .tuple ts => normBList ts
  | .union alts => alts.all isConcrete && idsAscending alts && normBList alts
def normBList : List Ty → Bool
  | [] => true
  | t :: ts => normB t && normBList ts
end

/-- the element loop of the tuple case -/
def coversTuple (f : Ty → Ty → Bool) : List Ty → List Ty → Bool
  | [], _ => true
  | ft :: te, [] => conforms ft .null && coversTuple f te []
  | ft :: te, sj :: se => f ft sj && coversTuple f te se

/-- one target field of the object case -/
def coversField (f : Ty → Ty → Bool) (sn : List Name) (st : List Ty) (p : Name × Ty) : Bool :=
  match lastIndexOf sn p.1 with
  | some j => (match st[j]? with
    | some sj => f p.2 sj
    | none => true)
  | none => conforms p.2 .null

/-- `Covers` with fuel (`Ty.size t + Ty.size s` suffices) -/
def coversF : Nat → Ty → Ty → Bool
  | 0, _, _ => false
  | n + 1, t, .union alts => alts.all (fun a => coversF n t a)
  | n + 1, .union talts, s =>
    isConcrete s && (match findAlt s.id talts with
      | some ta => coversF n ta s
      | none => false)
  | n + 1, .struct tn tt, .struct sn st => (tn.zip tt).all (coversField (coversF n) sn st)
  | _ + 1, .list _, .listNil => true
  | _ + 1, .listNil, .listNil => true
  | n + 1, .list te, .list se => coversF n te se
  | n + 1, .tuple te, .tuple se => decide (se.length ≤ te.length) && coversTuple (coversF n) te se
  | _ + 1, .null, .null | _ + 1, .int, .int | _ + 1, .float, .float | _ + 1, .bool, .bool | _ + 1, .str, .str
  | _ + 1, .time, .time | _ + 1, .dur, .dur => true
  | _ + 1, _, _ => false

def coversB (t s : Ty) : Bool := coversF (t.size + s.size + 1) t s

mutual
/-- struct-, tuple- and `Any`-free types: scalars, NULL, lists and unions of those -/
def plainData : Ty → Bool
  | .list e => plainData e
  | .union alts => plainDataList alts
  | .null | .int | .float | .bool | .str | .time | .dur | .listNil => true
  | .struct _ _ | .tuple _ | .any => false
def plainDataList : List Ty → Bool
  | [] => true
  | t :: ts => plainData t && plainDataList ts
end

/-- the decidable side condition of the COALESCE rule: either the result type is `Any` (every value matches it), or all argument types are struct-, tuple- and `Any`-free (then
    `ObjectLayoutFixer` is the identity), or the result type and the argument types are in `TypeSum`'s normal form and the result
    type `Covers` every argument type (objects by field name with NULL for missing fields, tuples padded with NULL, …) -/
def coalesceArgsOk (T : Ty) (args : List PExpr) : Bool :=
  T.isAny || args.all (fun a => plainData a.ty) || (normB T && args.all (fun a => normB a.ty && coversB T a.ty))

mutual
/-- every COALESCE in the typed expression satisfies `coalesceArgsOk` -/
def coalesceOk : PExpr → Bool
  | .var _ _ => true
  | .const _ _ => true
  | .call _ _ _ _ args => coalesceOkList args
  | .and _ args => coalesceOkList args
  | .or _ args => coalesceOkList args
  | .coalesce T args => coalesceOkList args && coalesceArgsOk T args
  | .tuple _ args => coalesceOkList args
  | .assert _ _ e => coalesceOk e
  | .cast _ _ e => coalesceOk e
  | .field _ _ e => coalesceOk e
def coalesceOkList : List PExpr → Bool
  | [] => true
  | p :: ps => coalesceOk p && coalesceOkList ps
end

end Octo.Tc
