import Octo.Model.Coalesce
/-!
  Octo.Model.Overload — `logical/function.go` (`FunctionExpression.Typecheck`): which descriptor of a function is
  chosen for given static argument types, which arguments get a run-time `TypeAssertion`, and how the call then
  evaluates (`physical.Expression.Materialize` → `execution.FunctionCall` with its strict NULL check).

  Needs the fragment of the type algebra of `octosql/types.go` that the resolution uses: `Type.Is`, `NonNullable`,
  `TypeSum(t, Null)`.  (`TypeIntersection`, used only for the static type of the inserted assertion, is not modelled;
  the driver therefore reports the result type only for calls resolved without assertions.)

  The descriptor table `descrs` mirrors the `FunctionMap()` literal for the functions of C13; it is compared with
  the real table on every run (`table` op of the C13 driver).
-/
namespace Octo.Ovl
open Octo Octo.Num Octo.Coal

/-- `TypeRelation`: Isnt < Maybe < Is -/
inductive Rel where | isnt | maybe | is
  deriving Repr, DecidableEq, Inhabited

def Rel.toNat : Rel → Nat | .isnt => 0 | .maybe => 1 | .is => 2
def Rel.max (a b : Rel) : Rel := if a.toNat < b.toNat then b else a

/-- `t.Is(other)`; `fuel ≥ Ty.size t + Ty.size other` -/
def isRel : Nat → Ty → Ty → Rel
  | 0, _, _ => .isnt
  | fuel + 1, t, other =>
    match other with
    | .any => .is
    | _ =>
      match t with
      | .union alts =>
        -- anyFits / allFit over the alternatives
        let rels := alts.map fun a => isRel fuel a other
        if rels.all (· == .is) then .is
        else if rels.any (fun r => r == .is || r == .maybe) then .maybe
        else .isnt
      | _ =>
        match other with
        | .union oalts => oalts.foldl (fun out a => Rel.max out (isRel fuel t a)) .isnt
        | _ =>
          match t, other with
          | .listNil, .listNil => .is
          | .listNil, .list _ => .is
          | .list _, .listNil => .isnt
          | .list te, .list oe => if isRel fuel te oe == .is then .is else .isnt
          | .listNil, _ => .isnt
          | .list _, _ => .isnt
          | .struct tn tt, .struct on ot =>
            if tn.length != on.length then .isnt
            else if (tn.zip on).all (fun p => p.1 == p.2) && (tt.zip ot).all (fun p => isRel fuel p.1 p.2 == .is) then .is
            else .isnt
          | .struct _ _, _ => .isnt
          | .tuple tt, .tuple ot =>
            if tt.length != ot.length then .isnt
            else if (tt.zip ot).all (fun p => isRel fuel p.1 p.2 == .is) then .is else .isnt
          | .tuple _, _ => .isnt
          | a, b => if a.id == b.id then .is else .isnt

def tyIs (t other : Ty) : Rel := isRel (Ty.size t + Ty.size other + 1) t other

/-- `NonNullable(t)` -/
def nonNullable : Ty → Ty
  | .union alts =>
    match alts.filter (fun a => a.id != 0) with
    | [a] => a
    | as => .union as
  | t => t

/-- `Null.Is(t) == TypeRelationIs` -/
def nullable (t : Ty) : Bool := tyIs .null t == .is

/-- insertion of `x` into a list of alternatives sorted by TypeID (what `sort.Slice` yields, TypeIDs being distinct) -/
def insertById (x : Ty) : List Ty → List Ty
  | [] => [x]
  | a :: as => if x.id < a.id then x :: a :: as else a :: insertById x as

/-- `TypeSum(t, Null)` -/
def addNull (t : Ty) : Ty :=
  if tyIs t .null == .is then .null
  else if tyIs .null t == .is then t
  else match t with
    | .union alts => .union (insertById .null alts)
    | t => .union [.null, t]

inductive TyFn where
  /-- one argument whose TypeID is `tid`; result Int -/
  | lenOf (tid : Nat)
  /-- (List, Int) → Null | element -/
  | index
  /-- two arguments, the second with TypeID `tid`; result Boolean -/
  | memberOf (tid : Nat)
  deriving Repr

structure Descr where
  args : List Ty
  out : Ty
  strict : Bool
  typeFn : Option TyFn
  deriving Repr

/-- `TypeSum(Null, el)` for the index operator's element type -/
def applyTypeFn : TyFn → List Ty → Option Ty
  | .lenOf tid, [t] => if t.id == tid then some .int else none
  | .index, [l, i] =>
    if l.id != 7 then none else if i.id != 1 then none
    else match l with
      | .list e => some (addNull e)
      | _ => some .null
  | .memberOf tid, [_, c] => if c.id == tid then some .bool else none
  | _, _ => none

def plain (args : List Ty) (out : Ty) : Descr := { args := args, out := out, strict := true, typeFn := none }
def byFn (f : TyFn) : Descr := { args := [], out := .null, strict := true, typeFn := some f }

/-- the descriptors of `FunctionMap()`, in source order -/
def descrs (name : String) : List Descr :=
  if name = "add" then [plain [.int, .int] .int, plain [.float, .float] .float, plain [.dur, .dur] .dur,
    plain [.time, .dur] .time, plain [.dur, .time] .time, plain [.str, .str] .str]
  else if name = "sub" then [plain [.int, .int] .int, plain [.int] .int, plain [.float, .float] .float, plain [.float] .float,
    plain [.dur, .dur] .dur, plain [.dur] .dur, plain [.time, .dur] .time]
  else if name = "mul" then [plain [.int, .int] .int, plain [.float, .float] .float, plain [.dur, .int] .dur,
    plain [.int, .dur] .dur, plain [.str, .int] .str, plain [.int, .str] .str]
  else if name = "div" then [plain [.int, .int] .int, plain [.float, .float] .float, plain [.dur, .int] .dur,
    plain [.dur, .dur] .float]
  else if name = "abs" then [plain [.int] .int, plain [.float] .float]
  else if name = "sqrt" ∨ name = "ceil" ∨ name = "floor" ∨ name = "log2" ∨ name = "log" ∨ name = "log10" then
    [plain [.float] .float]
  else if name = "pow" then [plain [.float, .float] .float]
  else if name = "len" then [plain [.str] .int, byFn (.lenOf 7), byFn (.lenOf 8), byFn (.lenOf 9)]
  else if name = "tfu" then [plain [.int] .time, plain [.float] .time]
  else if name = "ttu" then [plain [.time] .int]
  else if name = "int" then [plain [.int] .int, plain [.bool] .int, plain [.float] .int,
    plain [.str] (.union [.null, .int]), plain [.dur] .int]
  else if name = "float" then [plain [.float] .float, plain [.int] .float, plain [.str] (.union [.null, .float]),
    plain [.dur] .float]
  else if name = "string" then [{ args := [.any], out := .str, strict := false, typeFn := none }]
  else if name = "idx" then [byFn .index]
  else if name = "in" then [byFn (.memberOf 7), byFn (.memberOf 9)]
  else if name = "notin" then [byFn (.memberOf 7), byFn (.memberOf 9)]
  else []

/-- result of the resolution -/
structure Resolved where
  idx : Nat
  descr : Descr
  /-- declared result type of the chosen descriptor (before the nullable adjustment) -/
  out : Ty
  /-- per argument: the target type of the inserted `TypeAssertion`s, innermost first (at most one after the repair) -/
  asserts : List (List Ty)
  deriving Repr

/-- the argument types a descriptor is matched against -/
def viewArgs (d : Descr) (argTys : List Ty) : List Ty := if d.strict then argTys.map nonNullable else argTys

/-- first pass: a descriptor whose parameter types the arguments certainly have (the loop has no `break`: the LAST one wins) -/
def exactPass (ds : List Descr) (argTys : List Ty) : Option Resolved :=
  (ds.zipIdx.foldl (fun (acc : Option Resolved) (di : Descr × Nat) =>
    let d := di.1
    let ats := viewArgs d argTys
    match d.typeFn with
    | some f =>
      match applyTypeFn f ats with
      | some o => some { idx := di.2, descr := d, out := o, asserts := argTys.map fun _ => [] }
      | none => acc
    | none =>
      if ats.length != d.args.length then acc
      else if (ats.zip d.args).all (fun p => tyIs p.1 p.2 == .is) then
        some { idx := di.2, descr := d, out := d.out, asserts := argTys.map fun _ => [] }
      else acc) none)

/-- the target type of the assertion for parameter type `p` -/
def assertTarget (d : Descr) (p : Ty) : Ty := if d.strict then addNull p else p

/-- does descriptor `d` possibly fit? then the per-argument assertion targets (`none` = certainly fits, no assertion) -/
def maybeFit (d : Descr) (argTys : List Ty) : Option (List (Option Ty)) :=
  let ats := viewArgs d argTys
  -- (after `fix: overloads with a type function never match in the second resolution pass`)
  if d.typeFn.isSome then none
  else if ats.length != d.args.length then none
  else
    let rels := (ats.zip d.args).map fun p => tyIs p.1 p.2
    if rels.any (· == .isnt) then none
    else some ((rels.zip d.args).map fun rp => if rp.1 == .maybe then some (assertTarget d rp.2) else none)

/-- second pass (repaired): the FIRST descriptor that may fit; arguments that only may fit are asserted -/
def maybePass : List (Descr × Nat) → List Ty → Option Resolved
  | [], _ => none
  | (d, i) :: rest, argTys =>
    match maybeFit d argTys with
    | some targets =>
      some { idx := i, descr := d, out := d.out, asserts := targets.map fun t => match t with | some ty => [ty] | none => [] }
    | none => maybePass rest argTys

/-- second pass as shipped: every descriptor that may fit wraps the (already wrapped) arguments again; the last one is called -/
def maybePassRaw (ds : List (Descr × Nat)) (argTys : List Ty) : Option Resolved :=
  ds.foldl (fun (acc : Option Resolved) (di : Descr × Nat) =>
    match maybeFit di.1 argTys with
    | some targets =>
      let prev : List (List Ty) := match acc with | some r => r.asserts | none => argTys.map fun _ => []
      some { idx := di.2, descr := di.1, out := di.1.out,
             asserts := (prev.zip targets).map fun pt => match pt.2 with | some ty => pt.1 ++ [ty] | none => pt.1 }
    | none => acc) none

/-- `FunctionExpression.Typecheck`: `none` = panic "unknown function" -/
def resolve (name : String) (argTys : List Ty) : Option Resolved :=
  match exactPass (descrs name) argTys with
  | some r => some r
  | none => maybePass (descrs name).zipIdx argTys

def resolveRaw (name : String) (argTys : List Ty) : Option Resolved :=
  match exactPass (descrs name) argTys with
  | some r => some r
  | none => maybePassRaw (descrs name).zipIdx argTys

/-- the static type of the call: nullable when the descriptor is strict and an argument is nullable
    (only for calls resolved without assertions: the argument types are then the given ones) -/
def callType (r : Resolved) (argTys : List Ty) : Ty :=
  if r.descr.strict then argTys.foldl (fun o a => if nullable a then addNull o else o) r.out else r.out

/-- `TypeAssertion.Evaluate` with the TypeIDs of a (possibly union) target type -/
def targetIds : Ty → List Nat
  | .union alts => alts.map Ty.id
  | t => [t.id]

/-- run time: assertions, then the strict NULL check of `FunctionCall.Evaluate`, then the function.
    The NULL check covers the arguments whose static type is nullable. -/
def evalCall (name : String) (r : Resolved) (argTys : List Ty) (vals : List Value) : Outcome :=
  -- arguments are evaluated first (assertions may fail)
  let asserted : Option Unit := ((r.asserts.zip vals).mapM fun (av : List Ty × Value) =>
    if av.1.all (fun t => (targetIds t).contains av.2.rank) then some () else none).map fun _ => ()
  match asserted with
  | none => .err
  | some _ =>
    if r.descr.strict && (argTys.zip vals).any (fun tv => nullable tv.1 && tv.2.rank == 0) then .val .null
    else callFn name r.idx vals

end Octo.Ovl
