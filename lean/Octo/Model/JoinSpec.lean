import Octo.Model.Join
/-!
  Octo.Model.JoinSpec — what C19 / C02 say a join's output must be: the SQL join of the two
  inputs read as changelogs.  Deliberately naive: a nested loop over the two record lists.

  * `sqlMatch`: the ON condition `l.k1 = r.k1 AND …` is TRUE — the keys are pointwise equal and
    contain no NULL (an equality with NULL is never TRUE);
  * `joinRecs`: one joined record per matching pair, a retraction iff exactly one side is one;
  * `outerRecs`: the inner part, plus every record of an outer side whose key currently has no
    partner (net count of matching records on the other side is 0), padded with NULLs;
  * `upTo W`: the records with event time at or below `W` (records without event time count as
    "always there": they are processed on arrival).
  "Consolidated output equals the join" is `∀ row, net (recs out) row = net (joinRecs … ) row`.
-/
namespace Octo.Join
open Octo

def sgn (r : Rec) : Int := if r.retr then -1 else 1

/-- the equality predicate of the join is TRUE for this pair -/
def sqlMatch (cfg : Cfg) (l r : Rec) : Bool :=
  match keyOf cfg.keysL l.vals, keyOf cfg.keysR r.vals with
  | some kl, some kr => !hasNull kl && rowEq kl kr
  | _, _ => false

def pairRec (l r : Rec) : Rec := { vals := l.vals ++ r.vals, retr := l.retr != r.retr, et := maxT l.et r.et }

/-- inner join of two changelogs -/
def joinRecs (cfg : Cfg) (L R : List Rec) : List Rec :=
  L.flatMap fun l => (R.filter fun r => sqlMatch cfg l r).map fun r => pairRec l r

/-- signed number of records of `R` matching `l` -/
def partnersL (cfg : Cfg) (l : Rec) (R : List Rec) : Int :=
  (R.filter fun r => sqlMatch cfg l r).foldr (fun r acc => sgn r + acc) 0
/-- signed number of records of `L` matching `r` -/
def partnersR (cfg : Cfg) (L : List Rec) (r : Rec) : Int :=
  (L.filter fun l => sqlMatch cfg l r).foldr (fun l acc => sgn l + acc) 0

def nulls (n : Nat) : Row := List.replicate n Value.null

/-- unmatched left records, NULL-padded on the right -/
def padLeftRecs (cfg : Cfg) (L R : List Rec) : List Rec :=
  (L.filter fun l => partnersL cfg l R == 0).map fun l => { l with vals := l.vals ++ nulls cfg.nR }
/-- unmatched right records, NULL-padded on the left -/
def padRightRecs (cfg : Cfg) (L R : List Rec) : List Rec :=
  (R.filter fun r => partnersR cfg L r == 0).map fun r => { r with vals := nulls cfg.nL ++ r.vals }

/-- LEFT / RIGHT / FULL OUTER join of two changelogs -/
def outerRecs (cfg : Cfg) (L R : List Rec) : List Rec :=
  joinRecs cfg L R ++ (if cfg.outerL then padLeftRecs cfg L R else []) ++ (if cfg.outerR then padRightRecs cfg L R else [])

/-- what the node of `cfg` must compute -/
def specRecs (cfg : Cfg) (L R : List Rec) : List Rec :=
  if cfg.outer then outerRecs cfg L R else joinRecs cfg L R

/-- event time at or below W (no event time: always) -/
def etLe (W : Int) (r : Rec) : Bool :=
  match r.et with
  | none => true
  | some t => decide (t ≤ W)

def upTo (W : Int) (rs : List Rec) : List Rec := rs.filter (etLe W)

end Octo.Join
