import Octo.Model.Value
import Octo.Model.Ty
import Octo.Model.Changelog
/-!
  Octo.Model.Logic — expression evaluation with three-valued logic and NULL propagation.

  Mirrors, construct by construct:
  * `execution/expressions.go`: `Variable.Evaluate`, `Constant.Evaluate`, `FunctionCall.Evaluate`
    (all arguments are evaluated first, then `nullCheckIndices`, then the body), `And.Evaluate`, `Or.Evaluate`
    (short-circuit loops with `nullEncountered`);
  * `physical/expression.go`: `Expression.Materialize` for Variable / Constant / FunctionCall / And / Or — in
    particular how `nullCheckIndices` is computed: only for `Strict` descriptors, and only the argument positions
    whose *static type* admits NULL (`octosql.Null.Is(arg.Type) == TypeRelationIs`);
  * `octosql/types.go`: `Type.Is` specialised to the receiver `octosql.Null`;
  * `functions/functions.go`: the bodies of `not`, `is null`, `is not null`, `<`, `<=`, `=`, `!=`, `>=`, `>`, `panic`;
  * `execution/nodes/filter.go`: `Filter.Run`.

  Where Go would panic (index out of range, nil dereference) the model returns `Res.panic`.
  An error value carries the chain of wrapping frames (`couldn't evaluate 1 AND argument: …`) and the payload of the
  `panic(...)` SQL function that raised it, so that the correspondence run compares *which* error surfaced.
-/
namespace Octo.Logic
open Octo

/-! ### `octosql.Null.Is(t)` -/

/-- `TypeRelation` as its iota value: 0 = Isnt, 1 = Maybe, 2 = Is -/
abbrev Rel := Nat  -- (definitions below are stated over `Nat` directly so that `omega` sees them)
abbrev Rel.isnt : Nat := 0
abbrev Rel.maybe : Nat := 1
abbrev Rel.is : Nat := 2

mutual
/-- `octosql.Null.Is(other)` (`Type.Is` with the receiver fixed to the primitive type NULL):
    `other == Any` ⇒ Is; the receiver is not a union; `other` a union ⇒ the maximum over its alternatives;
    the receiver is not a list/struct/tuple; finally `t.TypeID == other.TypeID`. -/
def nullRel : Ty → Nat
  | .any => Rel.is
  | .union alts => nullRelMax Rel.isnt alts
  | .null => Rel.is
  | _ => Rel.isnt
/-- the loop `out := Isnt; for alt { rel := t.Is(alt); if rel > out { out = rel } }` -/
def nullRelMax (out : Nat) : List Ty → Nat
  | [] => out
  | t :: ts => nullRelMax (if nullRel t > out then nullRel t else out) ts
end

/-- `octosql.Null.Is(t) == octosql.TypeRelationIs` — "the static type `t` admits NULL" as the code decides it -/
def nullIs (t : Ty) : Bool := nullRel t == Rel.is

/-! ### Evaluation outcomes -/

/-- one `fmt.Errorf("couldn't evaluate …: %w", err)` wrapper -/
inductive Frame where
  | andArg (i : Nat)     -- "couldn't evaluate %d AND argument"
  | orArg (i : Nat)      -- "couldn't evaluate %d OR argument"
  | fnArg (i : Nat)      -- "couldn't evaluate %d argument"
  | fnBody               -- "couldn't evaluate function"
  deriving Repr, DecidableEq, Inhabited

/-- an error value: the wrappers (outermost first) and the payload of the function that failed -/
structure Err where
  path : List Frame
  tag : List UInt8
  deriving Repr, DecidableEq, Inhabited

def Err.wrap (f : Frame) (e : Err) : Err := { e with path := f :: e.path }

/-- `(octosql.Value, error)` or a Go panic -/
inductive Res where
  | val (v : Value)
  | err (e : Err)
  | panic
  deriving Repr, Inhabited

/-- the `Boolean` field of `octosql.Value` (false for every value that is not a Boolean) -/
def boolField : Value → Bool
  | .bool b => b
  | _ => false

def isNull : Value → Bool
  | .null => true
  | _ => false

/-! ### `execution.Expression` -/

inductive Expr where
  | var (level index : Nat)
  | const (v : Value)
  | call (fn : List Value → Res) (nullChecks : List Nat) (args : List Expr)
  | and (args : List Expr)
  | or (args : List Expr)
  | assert (expectedTypeIDs : List Nat) (e : Expr)      -- `execution.TypeAssertion`
  deriving Inhabited

/-- the payload the model gives the error of a failed `TypeAssertion` ("invalid type: …, expected: …") -/
def invalidTypeTag : List UInt8 := "invalid-type".toUTF8.toList

/-- `Variable.Evaluate`: walk `level` parents (nil dereference ⇒ panic), then `Values[index]` -/
def lookupVar : List (List Value) → Nat → Nat → Res
  | [], _, _ => .panic
  | frame :: _, 0, index =>
    match frame[index]? with
    | some v => .val v
    | none => .panic
  | _ :: parents, level + 1, index => lookupVar parents level index

/-- the loop `for _, index := range nullCheckIndices { if argValues[index].TypeID == Null { return NULL } }`;
    `none` = no checked argument is NULL, go on to the body -/
def nullCheck (argValues : List Value) : List Nat → Option Res
  | [] => none
  | index :: rest =>
    match argValues[index]? with
    | none => some .panic
    | some v => if isNull v then some (.val .null) else nullCheck argValues rest

/-- `value, err := c.function(argValues); if err != nil { return ZeroValue, fmt.Errorf("couldn't evaluate function: %w", err) }` -/
def wrapBody : Res → Res
  | .val v => .val v
  | .err e => .err (e.wrap .fnBody)
  | .panic => .panic

/-- the part of `FunctionCall.Evaluate` after all arguments have been evaluated -/
def applyFn (fn : List Value → Res) (nullChecks : List Nat) (argValues : List Value) : Res :=
  match nullCheck argValues nullChecks with
  | some r => r
  | none => wrapBody (fn argValues)

/-- the argument loop of `FunctionCall.Evaluate` over already known argument outcomes
    (evaluation is pure, so evaluating lazily and mapping first agree — `evalArgs_eq`) -/
def argLoop (i : Nat) : List Res → Except Res (List Value)
  | [] => .ok []
  | .val v :: rest =>
    match argLoop (i + 1) rest with
    | .ok vs => .ok (v :: vs)
    | .error r => .error r
  | .err e :: _ => .error (.err (e.wrap (.fnArg i)))
  | .panic :: _ => .error .panic

/-- `And.Evaluate`'s loop over argument outcomes, from index `i` with the current `nullEncountered` -/
def andLoop (i : Nat) (nullEncountered : Bool) : List Res → Res
  | [] => if nullEncountered then .val .null else .val (.bool true)
  | .val v :: rest =>
    if isNull v then andLoop (i + 1) true rest
    else if !boolField v then .val v
    else andLoop (i + 1) nullEncountered rest
  | .err e :: _ => .err (e.wrap (.andArg i))
  | .panic :: _ => .panic

/-- `Or.Evaluate`'s loop -/
def orLoop (i : Nat) (nullEncountered : Bool) : List Res → Res
  | [] => if nullEncountered then .val .null else .val (.bool false)
  | .val v :: rest =>
    if boolField v then .val v
    else orLoop (i + 1) (nullEncountered || isNull v) rest
  | .err e :: _ => .err (e.wrap (.orArg i))
  | .panic :: _ => .panic

mutual
/-- `Expression.Evaluate(ctx)`; `env` is the chain `ctx.VariableContext`, innermost frame first -/
def eval (env : List (List Value)) : Expr → Res
  | .var level index => lookupVar env level index
  | .const v => .val v
  | .call fn nullChecks args =>
    match evalArgs env 0 args with
    | .ok argValues => applyFn fn nullChecks argValues
    | .error r => r
  | .and args => evalAnd env 0 false args
  | .or args => evalOr env 0 false args
  | .assert ids e =>
    -- `TypeAssertion.Evaluate`: an error of the operand is returned unwrapped; the value passes iff its TypeID is expected
    match eval env e with
    | .val v => if ids.contains v.rank then .val v else .err { path := [], tag := invalidTypeTag }
    | .err err => .err err
    | .panic => .panic
/-- `for i := range c.args { value, err := c.args[i].Evaluate(ctx); if err != nil { return … } argValues[i] = value }` -/
def evalArgs (env : List (List Value)) (i : Nat) : List Expr → Except Res (List Value)
  | [] => .ok []
  | a :: rest =>
    match eval env a with
    | .val v =>
      match evalArgs env (i + 1) rest with
      | .ok vs => .ok (v :: vs)
      | .error r => .error r
    | .err e => .error (.err (e.wrap (.fnArg i)))
    | .panic => .error .panic
/-- `And.Evaluate`: NULL sets `nullEncountered` and continues; the first value whose `Boolean` field is false is
    returned as it is; at the end NULL if a NULL was seen, else TRUE -/
def evalAnd (env : List (List Value)) (i : Nat) (nullEncountered : Bool) : List Expr → Res
  | [] => if nullEncountered then .val .null else .val (.bool true)
  | a :: rest =>
    match eval env a with
    | .val v =>
      if isNull v then evalAnd env (i + 1) true rest
      else if !boolField v then .val v
      else evalAnd env (i + 1) nullEncountered rest
    | .err e => .err (e.wrap (.andArg i))
    | .panic => .panic
/-- `Or.Evaluate`: the first value whose `Boolean` field is true is returned; NULL sets `nullEncountered` -/
def evalOr (env : List (List Value)) (i : Nat) (nullEncountered : Bool) : List Expr → Res
  | [] => if nullEncountered then .val .null else .val (.bool false)
  | a :: rest =>
    match eval env a with
    | .val v =>
      if boolField v then .val v
      else evalOr env (i + 1) (nullEncountered || isNull v) rest
    | .err e => .err (e.wrap (.orArg i))
    | .panic => .panic
end

/-- `eval` over a list, for statements -/
def evalList (env : List (List Value)) : List Expr → List Res
  | [] => []
  | a :: rest => eval env a :: evalList env rest

/-! ### `physical.Expression` and `Materialize` -/

/-- the two fields of `physical.FunctionDescriptor` that evaluation uses -/
structure Desc where
  strict : Bool
  fn : List Value → Res

inductive PExpr where
  | var (ty : Ty) (name : Nat)
  | const (ty : Ty) (v : Value)
  | call (ty : Ty) (d : Desc) (args : List PExpr)
  | and (ty : Ty) (args : List PExpr)
  | or (ty : Ty) (args : List PExpr)
  | assert (ty : Ty) (target : Ty) (e : PExpr)         -- `physical.TypeAssertion{Expression, TargetType}`

/-- `expr.Type` -/
def PExpr.ty : PExpr → Ty
  | .var t _ => t | .const t _ => t | .call t _ _ => t | .and t _ => t | .or t _ => t | .assert t _ _ => t

/-- `expectedTypeIDs` of the TypeAssertion case of `Materialize`: the target's TypeID, or its alternatives' TypeIDs -/
def expectedIds : Ty → List Nat
  | .union alts => alts.map Ty.id
  | t => [t.id]

/-- `for i, field := range varCtx.Fields { if field.Name == name { index = i; break ctxLoop } }` -/
def findField (name : Nat) (i : Nat) : List Nat → Option Nat
  | [] => none
  | f :: fs => if f == name then some i else findField name (i + 1) fs

/-- the `ctxLoop` of the Variable case: the frame and position of the first field with that name; when no frame
    has it, `level` = number of frames and `index` = 0 (which dereferences nil at run time) -/
def resolveVar (name : Nat) (level : Nat) : List (List Nat) → Nat × Nat
  | [] => (level, 0)
  | fields :: parents =>
    match findField name 0 fields with
    | some i => (level, i)
    | none => resolveVar name (level + 1) parents

/-- `if descriptor.Strict { for i := range args { if Null.Is(args[i].Type) == Is { append i } } }` -/
def nullCheckIdx (i : Nat) : List PExpr → List Nat
  | [] => []
  | a :: rest => if nullIs a.ty then i :: nullCheckIdx (i + 1) rest else nullCheckIdx (i + 1) rest

def nullCheckIndices (d : Desc) (args : List PExpr) : List Nat :=
  if d.strict then nullCheckIdx 0 args else []

mutual
/-- `Expression.Materialize(ctx, env)`; `schema` is `env.VariableContext` (field names per frame) -/
def materialize (schema : List (List Nat)) : PExpr → Expr
  | .var _ name => let (level, index) := resolveVar name 0 schema; .var level index
  | .const _ v => .const v
  | .call _ d args => .call d.fn (nullCheckIndices d args) (materializeList schema args)
  | .and _ args => .and (materializeList schema args)
  | .or _ args => .or (materializeList schema args)
  | .assert _ target e => .assert (expectedIds target) (materialize schema e)
def materializeList (schema : List (List Nat)) : List PExpr → List Expr
  | [] => []
  | a :: rest => materialize schema a :: materializeList schema rest
end

/-! ### Function bodies (`functions/functions.go`) -/

/-- `not`: `NewBoolean(!values[0].Boolean)` -/
def fnNot : List Value → Res
  | v :: _ => .val (.bool (!boolField v))
  | [] => .panic
/-- `is null` -/
def fnIsNull : List Value → Res
  | v :: _ => if isNull v then .val (.bool true) else .val (.bool false)
  | [] => .panic
/-- `is not null` -/
def fnIsNotNull : List Value → Res
  | v :: _ => if isNull v then .val (.bool false) else .val (.bool true)
  | [] => .panic
/-- `<`, `<=`, `>=`, `>`: `NewBoolean(values[0].Compare(values[1]) ⋈ 0)` -/
def fnCmp (test : Int → Bool) : List Value → Res
  | a :: b :: _ => .val (.bool (test (cmp a b)))
  | _ => .panic
def fnLt := fnCmp (fun c => decide (c < 0))
def fnLe := fnCmp (fun c => decide (c ≤ 0))
def fnGe := fnCmp (fun c => decide (c ≥ 0))
def fnGt := fnCmp (fun c => decide (c > 0))
/-- `=`: `NewBoolean(values[0].Equal(values[1]))` -/
def fnEq : List Value → Res
  | a :: b :: _ => .val (.bool (a.equal b))
  | _ => .panic
/-- `!=` -/
def fnNe : List Value → Res
  | a :: b :: _ => .val (.bool (!a.equal b))
  | _ => .panic
/-- `panic`: `return ZeroValue, fmt.Errorf("panic: %s", values[0].String())`; the payload is kept for string arguments -/
def fnPanic : List Value → Res
  | .str s :: _ => .err { path := [], tag := s }
  | _ :: _ => .err { path := [], tag := [] }
  | [] => .panic

/-! ### `nodes.Filter.Run` -/

inductive RunStatus where
  | ok
  | err (e : Err)     -- "couldn't run source: couldn't evaluate condition: …"
  | panic
  deriving Repr, Inhabited

/-- `ok.TypeID == octosql.TypeIDBoolean && ok.Boolean` -/
def isTrueRes : Res → Bool
  | .val (.bool true) => true
  | _ => false

/-- `Filter.Run` over the source's message sequence: a record is evaluated in the context extended by the record
    (`ctx.WithRecord(record)`) and produced unchanged iff the predicate is the Boolean TRUE; metadata (watermarks)
    is forwarded by passing `metaSend` straight to the source; an evaluation error ends the run. -/
def filterRun (pred : Expr) (outer : List (List Value)) : List Msg → List Msg × RunStatus
  | [] => ([], .ok)
  | .wm t :: rest =>
    let (out, st) := filterRun pred outer rest
    (.wm t :: out, st)
  | .data r :: rest =>
    match eval (r.vals :: outer) pred with
    | .err e => ([], .err e)
    | .panic => ([], .panic)
    | .val (.bool true) =>
      let (out, st) := filterRun pred outer rest
      (.data r :: out, st)
    | .val _ =>
      filterRun pred outer rest

end Octo.Logic
