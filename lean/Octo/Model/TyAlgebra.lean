import Octo.Model.Ty
/-!
  Octo.Model.TyAlgebra — the type algebra of `octosql/types.go` and `Value.Type` of `octosql/values.go`,
  mirrored construct by construct over the shared `Octo.Ty`.

  Go function                      | model
  ---------------------------------|---------------------------------------------
  `Type.Is`                        | `Ty.isF` (fuel) / `Ty.is`
  `Type.Equals`                    | `Ty.equals`
  `TypeSum`                        | `Ty.typeSumF` (fuel) / `Ty.typeSum`
  `Type.possiblePrimitiveTypes`    | `Ty.prims`
  `TypeIntersection`               | `Ty.typeInter` (code after `fix:`), `Ty.typeInterRaw` (go 1.18 aliasing, before)
  `NonNullable`                    | `Ty.nonNullable`
  `Value.Type`                     | `Value.typeOf` (after `fix:`), `Value.typeOfRaw` (before)
  — (Spec: "value matches type")   | `conforms`

  Recursion.  `Is` recurses on the left argument (left union), on the right argument (right union) or on
  both (containers), `TypeSum` additionally recurses on *accumulators* (`out = TypeSum(out, alternative)`), so
  neither is structural.  Both are written with an explicit fuel argument (structural recursion on the fuel,
  so that closed terms reduce under `decide`).  For `Is` the fuel `size t + size other` is enough and
  `Octo.Lemmas.TyIs` proves the result fuel-independent from there on.  `TypeSum` returns `none` when the fuel
  runs out; every theorem about it is stated for **every** fuel (`typeSumF n a b = some c → …`), more fuel
  never changes a result (`typeSumF_mono`), on well-formed types fuel `2·(size a + size b)` is proved sufficient
  (`Octo.Lemmas.TySumTotal`), and the driver prints `fuel` should the default ever be too small on a malformed
  type literal (which would show up as a correspondence mismatch; never observed).

  Go maps (`TypeSum` on structs): a `map[string]Type` built by a loop is "last binding wins"
  (`lookupLast`); the output is sorted by field name and the keys are unique, so the nondeterministic map
  iteration order is not observable.  `sort.Slice` by `TypeID` (unions): `sort.Slice` is pdqsort, which for
  slices of at most 12 elements is a plain (stable) insertion sort; the model is a stable insertion sort and
  the generators never build unions of more than 12 alternatives (well-formed unions have one alternative per
  `TypeID`, hence at most 10, and then stability does not matter at all).
-/
namespace Octo

/-- `TypeRelation` -/
inductive Rel where
  | isnt | maybe | is
  deriving DecidableEq, Repr, Inhabited

namespace Rel
def toNat : Rel → Nat | .isnt => 0 | .maybe => 1 | .is => 2
/-- `if rel > out { out = rel }` -/
def max (out rel : Rel) : Rel := if rel.toNat > out.toNat then rel else out
end Rel

namespace Ty

def isUnion : Ty → Bool | .union _ => true | _ => false
def isAny : Ty → Bool | .any => true | _ => false

/-- one iteration of the left-union loop of `Is`; the state is `(anyFits, allFit)` -/
def unionStep (st : Bool × Bool) (r : Rel) : Bool × Bool :=
  match r with
  | .is => (true, st.2)
  | .maybe => (true, false)
  | .isnt => (st.1, false)

def unionResult (st : Bool × Bool) : Rel :=
  if st.2 then .is else if st.1 then .maybe else .isnt

/-- the field loop of the Struct case of `Is` (lengths already known to be equal).  `Ty.struct` keeps names and
    types in two lists; should there be fewer names than types (never produced by the codec or by the model)
    the missing names read as "no name" on both sides. -/
def structLoop (f : Ty → Ty → Rel) : List Name → List Ty → List Name → List Ty → Rel
  | ns, t :: ts, ns', t' :: ts' =>
    if ns.head? ≠ ns'.head? then .isnt
    else if (f t t').toNat < 2 then .isnt
    else structLoop f ns.tail ts ns'.tail ts'
  | _, _, _, _ => .is

/-- the element loop of the Tuple case of `Is` -/
def tupleLoop (f : Ty → Ty → Rel) : List Ty → List Ty → Rel
  | t :: ts, t' :: ts' => if (f t t').toNat < 2 then .isnt else tupleLoop f ts ts'
  | _, _ => .is

/-- the body of `Type.Is`; `self` stands for the recursive calls. -/
def isStep (self : Ty → Ty → Rel) (t other : Ty) : Rel :=
  if other.isAny then .is
  else match t with
    | .union alts =>
      unionResult (alts.foldl (fun st a => unionStep st (self a other)) (false, true))
    | _ =>
      match other with
      | .union oalts => oalts.foldl (fun out a => Rel.max out (self t a)) .isnt
      | _ =>
        match t, other with
        | .listNil, .listNil => .is
        | .listNil, .list _ => .is
        | .list _, .listNil => .isnt
        | .list e, .list e' => if (self e e').toNat < 2 then .isnt else .is
        | .listNil, _ => .isnt
        | .list _, _ => .isnt
        | .struct ns ts, .struct ns' ts' =>
          if ts.length ≠ ts'.length then .isnt else structLoop self ns ts ns' ts'
        | .struct _ _, _ => .isnt
        | .tuple ts, .tuple ts' =>
          if ts.length ≠ ts'.length then .isnt else tupleLoop self ts ts'
        | .tuple _, _ => .isnt
        | a, b => if a.id = b.id then .is else .isnt

/-- `Type.Is` with fuel (structural recursion on the fuel, so that closed terms reduce in the kernel). -/
def isF : Nat → Ty → Ty → Rel
  | 0, _, _ => .isnt
  | n + 1, t, other => isStep (isF n) t other

/-- `Type.Is` -/
def is (t other : Ty) : Rel := isF (t.size + other.size) t other

/-- `Type.Equals` -/
def equals (t other : Ty) : Bool := t.is other == .is && other.is t == .is

/-! ### TypeSum -/

/-- a Go map filled by a loop over the fields: the last binding of a name wins -/
def lookupLast (k : Name) : List Name → List Ty → Option Ty
  | n :: ns, t :: ts =>
    match lookupLast k ns ts with
    | some r => some r
    | none => if n = k then some t else none
  | _, _ => none

/-- insertion into a list sorted by `cmpName`, dropping duplicates (the key set of a map, sorted) -/
def insertName (x : Name) : List Name → List Name
  | [] => [x]
  | y :: ys =>
    if cmpName x y < 0 then x :: y :: ys
    else if cmpName x y = 0 then y :: ys
    else y :: insertName x ys

def sortNames (l : List Name) : List Name := l.foldr insertName []

/-- stable insertion by `TypeID` (what `sort.Slice` does on short slices) -/
def insertById (x : Ty) : List Ty → List Ty
  | [] => [x]
  | y :: ys => if x.id < y.id then x :: y :: ys else y :: insertById x ys

def sortById (l : List Ty) : List Ty := l.foldl (fun acc x => insertById x acc) []

def optMap {α β} (f : α → Option β) : List α → Option (List β)
  | [] => some []
  | x :: xs =>
    match f x, optMap f xs with
    | some y, some ys => some (y :: ys)
    | _, _ => none

def optFoldl {α β} (f : β → α → Option β) : β → List α → Option β
  | b, [] => some b
  | b, x :: xs =>
    match f b x with
    | some b' => optFoldl f b' xs
    | none => none

/-- the Tuple case of `TypeSum`: `elements[i] = TypeSum(longer[i], shorter[i])`, then `TypeSum(longer[i], Null)` -/
def tupleMerge (f : Ty → Ty → Option Ty) : List Ty → List Ty → Option (List Ty)
  | [], _ => some []
  | l :: ls, [] =>
    match f l .null, tupleMerge f ls [] with
    | some y, some ys => some (y :: ys)
    | _, _ => none
  | l :: ls, s :: ss =>
    match f l s, tupleMerge f ls ss with
    | some y, some ys => some (y :: ys)
    | _, _ => none

/-- the "we only want each TypeID once" loop: replace the first alternative with `TypeID = k` -/
def mergeFirst (f : Ty → Option Ty) (k : Nat) : List Ty → Option (List Ty)
  | [] => some []
  | a :: as =>
    if a.id = k then (f a).map (· :: as)
    else (mergeFirst f k as).map (a :: ·)

/-- one output field of the Struct case of `TypeSum` -/
def structField (f : Ty → Ty → Option Ty) (ns1 : List Name) (ts1 : List Ty) (ns2 : List Name) (ts2 : List Ty)
    (name : Name) : Option Ty :=
  match lookupLast name ns1 ts1, lookupLast name ns2 ts2 with
  | some a, some b => f a b
  | some a, none => f a .null
  | none, some b => f b .null
  | none, none => none   -- unreachable: `name` comes from one of the two key sets

/-- the body of `TypeSum`; `self` stands for the recursive calls (`none` = out of fuel). -/
def typeSumStep (self : Ty → Ty → Option Ty) (t1 t2 : Ty) : Option Ty :=
  if t1.is t2 = .is then some t2
  else if t2.is t1 = .is then some t1
  else match t1, t2 with
    | .struct ns1 ts1, .struct ns2 ts2 =>
      let names := sortNames (ns1 ++ ns2)
      (optMap (structField self ns1 ts1 ns2 ts2) names).map (fun tys => .struct names tys)
    | .listNil, .listNil => some .listNil        -- unreachable (Is)
    | .listNil, .list e => some (.list e)        -- unreachable (Is)
    | .list e, .listNil => some (.list e)        -- unreachable (Is)
    | .list e1, .list e2 => (self e1 e2).map .list
    | .tuple ts1, .tuple ts2 =>
      (if ts1.length > ts2.length then tupleMerge self ts1 ts2
       else tupleMerge self ts2 ts1).map .tuple
    | .union alts1, .union alts2 => optFoldl self (.union alts1) alts2
    | t1, .union alts2 => self (.union alts2) t1
    | .union alts, t2 =>
      if alts.any (fun a => a.id = t2.id) then
        (mergeFirst (fun a => self a t2) t2.id alts).map .union
      else some (.union (sortById (alts ++ [t2])))
    | t1, t2 => some (.union (sortById [t1, t2]))

/-- `TypeSum` with fuel; `none` = fuel exhausted. -/
def typeSumF : Nat → Ty → Ty → Option Ty
  | 0, _, _ => none
  | n + 1, t1, t2 => typeSumStep (typeSumF n) t1 t2

/-- default fuel: the recursion of `TypeSum` descends in both arguments at once (with at most one
    argument swap and one `…, Null` call per level). -/
def sumFuel (a b : Ty) : Nat := 2 * (a.size + b.size) + 8

/-- `TypeSum` -/
def typeSum (a b : Ty) : Option Ty := typeSumF (sumFuel a b) a b

/-! ### ShapeCompatible: the sum never merges two structs with different field lists or two tuples of different length -/

/-- the union/union loop `out = TypeSum(out, alternative)`: every step is shape compatible -/
def foldOk (sum : Ty → Ty → Option Ty) (ok : Ty → Ty → Bool) : Ty → List Ty → Bool
  | _, [] => true
  | out, alt :: alts =>
    ok out alt && (match sum out alt with
      | some out' => foldOk sum ok out' alts
      | none => false)

def strictSortedNames : List Name → Bool
  | [] => true
  | [_] => true
  | a :: b :: rest => decide (cmpName a b < 0) && strictSortedNames (b :: rest)

def all2 {α} (f : α → α → Bool) : List α → List α → Bool
  | a :: as, b :: bs => f a b && all2 f as bs
  | _, _ => true

/-- the body of `shapeOkF`, following `typeSumStep` case by case -/
def shapeOkStep (sum : Ty → Ty → Option Ty) (self : Ty → Ty → Bool) (t1 t2 : Ty) : Bool :=
  if t1.is t2 = .is then true
  else if t2.is t1 = .is then true
  else match t1, t2 with
    | .struct ns1 ts1, .struct ns2 ts2 =>
      decide (ns1 = ns2) && strictSortedNames ns1 && decide (ns1.length = ts1.length) && decide (ns2.length = ts2.length)
        && all2 self ts1 ts2
    | .listNil, .listNil => true
    | .listNil, .list _ => true
    | .list _, .listNil => true
    | .list e1, .list e2 => self e1 e2
    | .tuple ts1, .tuple ts2 => decide (ts1.length = ts2.length) && all2 self ts2 ts1
    | .union alts1, .union alts2 => foldOk sum self (.union alts1) alts2
    | t1, .union alts2 => self (.union alts2) t1
    | .union alts, t2 =>
      match alts.find? (fun a => a.id = t2.id) with
      | some a => self a t2
      | none => true
    | _, _ => true

/-- `shapeOkF n a b`: while computing `typeSumF n a b` every struct/struct merge is between structs with the
    same, strictly sorted field-name list and every tuple/tuple merge is between tuples of the same length. -/
def shapeOkF : Nat → Ty → Ty → Bool
  | 0, _, _ => false
  | n + 1, t1, t2 => shapeOkStep (typeSumF n) (shapeOkF n) t1 t2

def shapeOk (a b : Ty) : Bool := shapeOkF (sumFuel a b) a b

/-! ### Well-formed types

`wf t`: hereditarily, every union has plain alternatives (no nested union, no `Any`) with pairwise different
`TypeID`s, and every struct has strictly sorted field names (one type per name).  This is the shape of every
type that `TypeSum` builds from the type constants (`sum_wf`); the union laws that are false for arbitrary
`Type` literals (e.g. `Union[List Int, List Str]`) are stated for well-formed types. -/

def altsPlain : List Ty → Bool
  | [] => true
  | a :: as => !a.isUnion && !a.isAny && altsPlain as

def distinctIds : List Ty → Bool
  | [] => true
  | a :: as => as.all (fun b => a.id != b.id) && distinctIds as

mutual
def wf : Ty → Bool
  | .list e => wf e
  | .struct ns ts => strictSortedNames ns && ns.length == ts.length && wfList ts
  | .tuple ts => wfList ts
  | .union alts => altsPlain alts && distinctIds alts && wfList alts
  | .null | .int | .float | .bool | .str | .time | .dur | .listNil | .any => true
def wfList : List Ty → Bool
  | [] => true
  | t :: ts => wf t && wfList ts
end

/-! ### possiblePrimitiveTypes, TypeIntersection, NonNullable -/

mutual
/-- `Type.possiblePrimitiveTypes` -/
def prims : Ty → List Ty
  | .union alts => primsList alts
  | .null => [.null] | .int => [.int] | .float => [.float] | .bool => [.bool] | .str => [.str]
  | .time => [.time] | .dur => [.dur] | .listNil => [.listNil] | .list e => [.list e]
  | .struct ns ts => [.struct ns ts] | .tuple ts => [.tuple ts] | .any => [.any]
def primsList : List Ty → List Ty
  | [] => []
  | a :: as => prims a ++ primsList as
end

/-- one of the two loops of `TypeIntersection` **after** the repair (`t := t` copies the loop variable):
    `out` is `nil` or points to a value that only the `TypeSum` line changes.
    Outer `none` = `TypeSum` ran out of fuel. -/
def interLoop (target : Ty) : Option Ty → List Ty → Option (Option Ty)
  | out, [] => some out
  | out, t :: ts =>
    if t.is target = .is then
      match out with
      | none => interLoop target (some t) ts
      | some o =>
        match typeSum o t with
        | some s => interLoop target (some s) ts
        | none => none
    else interLoop target out ts

/-- `TypeIntersection` (repaired code) -/
def typeInter (t1 t2 : Ty) : Option (Option Ty) :=
  match interLoop t2 none (prims t1) with
  | some out => interLoop t1 out (prims t2)
  | none => none

/-- one loop of `TypeIntersection` as compiled under `go 1.18` **before** the repair: `outputType = &t`
    stores the address of the loop variable shared by all iterations of *this* loop, so while the pointer
    aliases it (`aliased = true`) every iteration first overwrites `*outputType` with the current element.
    A pointer set by the *first* loop is not aliased by the second loop's variable. -/
def interLoopRaw (target : Ty) : Option Ty → Bool → List Ty → Option (Option Ty)
  | out, _, [] => some out
  | out, aliased, t :: ts =>
    let out := if aliased then some t else out      -- `t = next element` writes through the pointer
    if t.is target = .is then
      match out with
      | none => interLoopRaw target (some t) true ts
      | some o =>
        match typeSum o t with
        | some s => interLoopRaw target (some s) aliased ts
        | none => none
    else interLoopRaw target out aliased ts

def typeInterRaw (t1 t2 : Ty) : Option (Option Ty) :=
  match interLoopRaw t2 none false (prims t1) with
  | some out => interLoopRaw t1 out false (prims t2)
  | none => none

/-- `NonNullable` -/
def nonNullable : Ty → Ty
  | .union alts =>
    match alts.filter (fun a => a.id ≠ 0) with
    | [x] => x
    | out => .union out
  | t => t

end Ty

/-! ### Value.Type -/

/-- the List case of `Value.Type`: `element = nil`, then `TypeSum(*element, type of next)` -/
def Ty.elemFold : List Ty → Option Ty
  | [] => some .listNil
  | t :: ts => (Ty.optFoldl Ty.typeSum t ts).map .list

mutual
/-- `Value.Type` after the repair (the Struct case ranges over `value.Struct`).  Struct values carry no
    field names, so the reported struct type has empty names. `none` = `TypeSum` ran out of fuel. -/
def Value.typeOf : Value → Option Ty
  | .null => some .null | .int _ => some .int | .float _ => some .float | .bool _ => some .bool
  | .str _ => some .str | .time _ _ => some .time | .dur _ => some .dur
  | .list xs => match Value.typeOfMany xs with
    | some ts => Ty.elemFold ts
    | none => none
  | .struct xs => (Value.typeOfMany xs).map fun ts => .struct (ts.map fun _ => []) ts
  | .tuple xs => (Value.typeOfMany xs).map .tuple
def Value.typeOfMany : List Value → Option (List Ty)
  | [] => some []
  | x :: xs => match Value.typeOf x, Value.typeOfMany xs with
    | some t, some ts => some (t :: ts)
    | _, _ => none
end

mutual
/-- `Value.Type` before the repair: the Struct case ranges over `value.Tuple` (empty for a struct), so every
    field keeps the zero `Type{}`, which is `Null`. -/
def Value.typeOfRaw : Value → Option Ty
  | .null => some .null | .int _ => some .int | .float _ => some .float | .bool _ => some .bool
  | .str _ => some .str | .time _ _ => some .time | .dur _ => some .dur
  | .list xs => match Value.typeOfRawMany xs with
    | some ts => Ty.elemFold ts
    | none => none
  | .struct xs => some (.struct (xs.map fun _ => []) (xs.map fun _ => .null))
  | .tuple xs => (Value.typeOfRawMany xs).map .tuple
def Value.typeOfRawMany : List Value → Option (List Ty)
  | [] => some []
  | x :: xs => match Value.typeOfRaw x, Value.typeOfRawMany xs with
    | some t, some ts => some (t :: ts)
    | _, _ => none
end

/-- `ShapeCompatible` along the element chain of the List case of `Value.Type`:
    every `TypeSum(*element, next)` of the loop is shape compatible. -/
def Ty.elemFoldOk (acc : Ty) (ts : List Ty) : Bool := Ty.foldOk Ty.typeSum Ty.shapeOk acc ts

mutual
/-- no `TypeSum` performed by `Value.Type` (one per list element, at any depth) merges structs with
    different or unsorted field lists (a struct value has only the empty field name, so two differing structs
    with two or more fields already do) or tuples of different lengths. -/
def Value.typeOfShapeOk : Value → Bool
  | .list xs => Value.typeOfShapeOkMany xs && (match Value.typeOfMany xs with
    | some (t :: ts) => Ty.elemFoldOk t ts
    | _ => true)
  | .struct xs => Value.typeOfShapeOkMany xs
  | .tuple xs => Value.typeOfShapeOkMany xs
  | _ => true
def Value.typeOfShapeOkMany : List Value → Bool
  | [] => true
  | x :: xs => Value.typeOfShapeOk x && Value.typeOfShapeOkMany xs
end

/-! ### Spec: a value matches a type -/
mutual
/-- `conforms t v`: the value `v` is one of the values the type `t` describes.  Struct values are
    positional (they carry no names), so only the field count and the field types matter. -/
def conforms : Ty → Value → Bool
  | .any, _ => true
  | .union alts, v => conformsAny alts v
  | .null, .null => true
  | .int, .int _ => true
  | .float, .float _ => true
  | .bool, .bool _ => true
  | .str, .str _ => true
  | .time, .time _ _ => true
  | .dur, .dur _ => true
  | .listNil, .list xs => xs.isEmpty
  | .list e, .list xs => xs.all (fun x => conforms e x)
  | .struct _ ts, .struct xs => conformsZip ts xs
  | .tuple ts, .tuple xs => conformsZip ts xs
  | _, _ => false
def conformsAny : List Ty → Value → Bool
  | [], _ => false
  | a :: as, v => conforms a v || conformsAny as v
def conformsZip : List Ty → List Value → Bool
  | [], [] => true
  | t :: ts, x :: xs => conforms t x && conformsZip ts xs
  | _, _ => false
end

end Octo
