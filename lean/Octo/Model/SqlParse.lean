import Octo.Model.Sql
/-!
# A hand-written parser for the fragment (C30)

`parseStmt : List Tok → Option Sel` models `sqlparser.Parse` (the goyacc LALR(1) parser generated from `sql.y`) on the
modelled fragment: recursive descent with one function per precedence level of the grammar's `%left/%right`
declarations (OR < AND < NOT < IS/comparison < `|` < `&` < shifts < `+ -` < `* / div % mod` < `^` < unary < postfix `->`, `::`, `[ ]`),
the grammar's resolution of its conflicts (a dangling ON goes to the innermost join, the right operand of an outer
join is a whole table reference, `-`/`+` fold into integer literals, …) and the tree-building actions of `sql.y`.
It is tied to the real parser only by the correspondence run (the LALR tables are not translated).

Recursion: the functions for one nesting level are built from the parsers of the previous level (`Parsers`),
`parsers (n+1)` from `parsers n`; loops carry their own fuel (the number of remaining tokens).  Core Lean only.
-/
namespace Octo.Sql

abbrev P (α : Type) := List Tok → Option (α × List Tok)

/-- `sql_id` / `table_id`: an `ID` token or a non-reserved keyword the fragment does not use as a keyword -/
def identOf : Tok → Option String
  | .id s => some s
  | .nrkw v => some v
  | _ => none

/-! ## Generic combinators -/

/-- `acc (op next)*` for a left-associative binary level -/
def binLoop {Op : Type} (next : P Expr) (opOf : Tok → Option Op) (mk : Op → Expr → Expr → Expr) :
    Nat → Expr → List Tok → Option (Expr × List Tok)
  | 0, _, _ => none
  | _ + 1, acc, [] => some (acc, [])
  | m + 1, acc, t :: ts =>
    match opOf t with
    | none => some (acc, t :: ts)
    | some op =>
      match next ts with
      | none => none
      | some (r, ts') => binLoop next opOf mk m (mk op acc r) ts'

def binLevel {Op : Type} (next : P Expr) (opOf : Tok → Option Op) (mk : Op → Expr → Expr → Expr) : P Expr := fun ts =>
  match next ts with
  | none => none
  | some (l, ts') => binLoop next opOf mk (ts'.length + 1) l ts'

/-- `(, item)*` -/
def sepTail {α : Type} (item : P α) : Nat → List Tok → Option (List α × List Tok)
  | 0, _ => none
  | m + 1, .kw .COMMA :: ts =>
    match item ts with
    | none => none
    | some (x, ts') =>
      match sepTail item m ts' with
      | none => none
      | some (xs, ts'') => some (x :: xs, ts'')
  | _ + 1, ts => some ([], ts)

/-- `item (, item)*` -/
def sepBy1 {α : Type} (item : P α) : P (List α) := fun ts =>
  match item ts with
  | none => none
  | some (x, ts') =>
    match sepTail item (ts'.length + 1) ts' with
    | none => none
    | some (xs, ts'') => some (x :: xs, ts'')

/-! ## Small token-level pieces -/

def cmpOpOf : Tok → Option CmpOp
  | .kw .EQ => some .eq | .kw .LT => some .lt | .kw .GT => some .gt | .kw .LE => some .le | .kw .GE => some .ge
  | .kw .NE => some .ne | .kw .NULL_SAFE_EQUAL => some .nse
  | _ => none

def orOpOf : Tok → Option Unit
  | .kw .OR => some () | _ => none
def andOpOf : Tok → Option Unit
  | .kw .AND => some () | _ => none
def opsL6 : Tok → Option BinOp
  | .kw .PIPE => some .bitOr | _ => none
def opsL7 : Tok → Option BinOp
  | .kw .AMP => some .bitAnd | _ => none
def opsL8 : Tok → Option BinOp
  | .kw .SHIFT_LEFT => some .shl | .kw .SHIFT_RIGHT => some .shr | _ => none
def opsL9 : Tok → Option BinOp
  | .kw .PLUS => some .plus | .kw .MINUS => some .minus | _ => none
def opsL10 : Tok → Option BinOp
  | .kw .STAR => some .mult | .kw .SLASH => some .div | .kw .DIV => some .intDiv | .kw .PERCENT => some .mod
  | .kw .MOD => some .mod | _ => none
def opsL11 : Tok → Option BinOp
  | .kw .CARET => some .bitXor | _ => none

/-- `is_suffix` -/
def parseIsSuffix : P IsOp
  | .kw .NULL :: ts => some (.null, ts)
  | .kw .NOT :: .kw .NULL :: ts => some (.notNull, ts)
  | .kw .TRUE :: ts => some (.true_, ts)
  | .kw .NOT :: .kw .TRUE :: ts => some (.notTrue, ts)
  | .kw .FALSE :: ts => some (.false_, ts)
  | .kw .NOT :: .kw .FALSE :: ts => some (.notFalse, ts)
  | _ => none

/-- `convert_type` -/
def parseConvTy : P ConvTy
  | .id s :: ts => some (.simple s, ts)
  | .nrkw v :: ts => some (.simple v, ts)
  | .kw .LIST_TYPE :: ts => some (.list, ts)
  | .kw .OBJECT_TYPE :: ts => some (.object, ts)
  | _ => none

/-- `as_ci_opt` / `as_opt_id` with a string allowed: `[AS] (sql_id | STRING)` or nothing -/
def parseAliasOpt : P String
  | .kw .AS :: .id s :: ts => some (s, ts)
  | .kw .AS :: .nrkw s :: ts => some (s, ts)
  | .kw .AS :: .str s :: ts => some (s, ts)
  | .kw .AS :: _ => none
  | .id s :: ts => some (s, ts)
  | .nrkw s :: ts => some (s, ts)
  | .str s :: ts => some (s, ts)
  | ts => some ("", ts)

/-- `as_opt table_id` (mandatory alias of a derived table / table valued function) -/
def parseAliasMust : P String
  | .kw .AS :: .id s :: ts => some (s, ts)
  | .kw .AS :: .nrkw s :: ts => some (s, ts)
  | .id s :: ts => some (s, ts)
  | .nrkw s :: ts => some (s, ts)
  | _ => none

/-- `column_name` (for DESCRIPTOR(...)) as (q2, q1, name) -/
def parseColumnName : P (String × String × String) := fun ts =>
  match ts with
  | t1 :: .kw .DOT :: t2 :: .kw .DOT :: t3 :: rest =>
    match identOf t1, identOf t2, identOf t3 with
    | some a, some b, some c => some ((a, b, c), rest)
    | _, _, _ => none
  | t1 :: .kw .DOT :: t2 :: rest =>
    match identOf t1, identOf t2 with
    | some a, some b => some (("", a, b), rest)
    | _, _ => none
  | t1 :: rest =>
    match identOf t1 with
    | some a => some (("", "", a), rest)
    | none => none
  | [] => none

/-- the action of `'-' value_expression`: integer literals absorb the sign -/
def mkNeg : Expr → Expr
  | .val .int neg s => .val .int (!neg) s
  | e => .un .minus e
/-- the action of `'+' value_expression` -/
def mkPos : Expr → Expr
  | .val .int neg s => .val .int neg s
  | e => .un .plus e

/-- produced by a `value_expression` rule (as opposed to `condition`, AND, OR, NOT, IS)? -/
def Expr.isValue : Expr → Bool
  | .and _ _ => false | .or _ _ => false | .not _ => false | .cmp _ _ _ => false | .is _ _ => false
  | .exists_ _ => false
  | .star _ _ => false | .aliased _ _ => false | .explode _ => false
  | .trigCount _ => false | .trigWm => false | .trigEos => false | .trigDelay _ => false | .order _ _ => false
  | _ => true

/-! ## One nesting level, given the parsers of the previous level -/

structure Parsers where
  expr : P Expr      -- `expression`
  val : P Expr       -- `value_expression`
  sel : P Sel        -- `select_statement`
  tbl : P Tbl        -- `table_reference`

def Parsers.fail : Parsers := ⟨fun _ => Option.none, fun _ => Option.none, fun _ => Option.none, fun _ => Option.none⟩

section level
variable (prev : Parsers)

/-- `select_expression` (also the arguments of a function call), with `expr` the expression parser to use -/
def parseItemWith (expr : P Expr) : P Expr := fun ts =>
  match ts with
  | .kw .STAR :: rest => some (.star "" "", rest)
  | _ =>
    let starForm : Option (Expr × List Tok) :=
      match ts with
      | t1 :: .kw .DOT :: .kw .STAR :: rest =>
        match identOf t1 with
        | some a => some (.star "" a, rest)
        | none => none
      | t1 :: .kw .DOT :: t2 :: .kw .DOT :: .kw .STAR :: rest =>
        match identOf t1, identOf t2 with
        | some a, some b => some (.star a b, rest)
        | _, _ => none
      | _ => none
    match starForm with
    | some r => some r
    | none =>
      match expr ts with
      | none => none
      | some (e, .kw .JSON_EXPLODE_OP :: rest) => if e.isValue then some (.explode e, rest) else none
      | some (e, rest) =>
        match parseAliasOpt rest with
        | none => none
        | some (a, rest') => some (.aliased e a, rest')

/-- `openb select_statement closeb` after the `(` has been seen to be followed by SELECT / WITH -/
def parseSubqueryBody : P Sel := fun ts =>
  match prev.sel ts with
  | some (s, .kw .RPAREN :: rest) => some (s, rest)
  | _ => none

def startsSelect : List Tok → Bool
  | .kw .SELECT :: _ => true
  | .kw .WITH :: _ => true
  | _ => false

/-- atoms of `value_expression` -/
def parseAtom : P Expr := fun ts =>
  match ts with
  | .str s :: rest => some (.val .str false s, rest)
  | .int s :: rest => some (.val .int false s, rest)
  | .float s :: rest => some (.val .float false s, rest)
  | .hexnum s :: rest => some (.val .hexnum false s, rest)
  | .hex s :: rest => some (.val .hex false s, rest)
  | .bit s :: rest => some (.val .bit false s, rest)
  | .kw .NULL :: rest => some (.null, rest)
  | .kw .TRUE :: rest => some (.bool true, rest)
  | .kw .FALSE :: rest => some (.bool false, rest)
  | .kw .LPAREN :: rest =>
    if startsSelect rest then
      match parseSubqueryBody prev rest with
      | some (s, rest') => some (.subq s, rest')
      | none => none
    else
      match sepBy1 prev.expr rest with
      | some ([e], .kw .RPAREN :: rest') => some (.paren e, rest')
      | some (es, .kw .RPAREN :: rest') => some (.tuple es, rest')
      | _ => none
  | .kw .INTERVAL :: rest =>
    match prev.val rest with
    | some (e, u :: rest') =>
      match identOf u with
      | some unit => some (.interval e unit, rest')
      | none => none
    | _ => none
  | .kw .CONVERT :: .kw .LPAREN :: rest =>
    match prev.expr rest with
    | some (e, .kw .COMMA :: rest') =>
      match parseConvTy rest' with
      | some (t, .kw .RPAREN :: rest'') => some (.convert e t, rest'')
      | _ => none
    | _ => none
  | .kw .CAST :: .kw .LPAREN :: rest =>
    match prev.expr rest with
    | some (e, .kw .AS :: rest') =>
      match parseConvTy rest' with
      | some (t, .kw .RPAREN :: rest'') => some (.convert e t, rest'')
      | _ => none
    | _ => none
  | t1 :: rest =>
    match identOf t1 with
    | none => none
    | some a =>
      match rest with
      | .kw .LPAREN :: .kw .RPAREN :: rest' => some (.func "" a false [], rest')
      | .kw .LPAREN :: .kw .DISTINCT :: rest' =>
        match sepBy1 (parseItemWith prev.expr) rest' with
        | some (args, .kw .RPAREN :: rest'') => some (.func "" a true args, rest'')
        | _ => none
      | .kw .LPAREN :: rest' =>
        match sepBy1 (parseItemWith prev.expr) rest' with
        | some (args, .kw .RPAREN :: rest'') => some (.func "" a false args, rest'')
        | _ => none
      | .kw .DOT :: t2 :: rest' =>
        match identOf t2 with
        | none => none
        | some b =>
          match rest' with
          | .kw .LPAREN :: .kw .RPAREN :: rest'' => some (.func a b false [], rest'')
          | .kw .LPAREN :: rest'' =>
            match sepBy1 (parseItemWith prev.expr) rest'' with
            | some (args, .kw .RPAREN :: rest3) => some (.func a b false args, rest3)
            | _ => none
          | .kw .DOT :: t3 :: rest'' =>
            match identOf t3 with
            | some c => some (.col a b c, rest'')
            | none => none
          | _ => some (.col "" a b, rest')
      | _ => some (.col "" "" a, rest)
  | [] => none

/-- the postfix operators `-> field`, `:: type`, `[ index ]` (they have no precedence: always shifted) -/
def postfixLoop : Nat → Expr → List Tok → Option (Expr × List Tok)
  | 0, _, _ => none
  | m + 1, acc, .kw .JSON_EXTRACT_OP :: t :: rest =>
    match identOf t with
    | some f => postfixLoop m (.field acc f) rest
    | none => none
  | _ + 1, _, .kw .JSON_EXTRACT_OP :: [] => none
  | m + 1, acc, .kw .LIST_ARG :: rest =>
    match parseConvTy rest with
    | some (t, rest') => postfixLoop m (.convert acc t) rest'
    | none => none
  | m + 1, acc, .kw .LBRACK :: rest =>
    match prev.val rest with
    | some (i, .kw .RBRACK :: rest') => postfixLoop m (.index acc i) rest'
    | _ => none
  | _ + 1, acc, ts => some (acc, ts)

def parsePostfix : P Expr := fun ts =>
  match parseAtom prev ts with
  | none => none
  | some (a, rest) => postfixLoop prev (rest.length + 1) a rest

/-- unary `- + ! ~` (right associative, binds tighter than every binary operator) -/
def parseUnary : P Expr
  | .kw .MINUS :: ts =>
    match parseUnary ts with
    | some (e, rest) => some (mkNeg e, rest)
    | none => none
  | .kw .PLUS :: ts =>
    match parseUnary ts with
    | some (e, rest) => some (mkPos e, rest)
    | none => none
  | .kw .BANG :: ts =>
    match parseUnary ts with
    | some (e, rest) => some (.un .bang e, rest)
    | none => none
  | .kw .TILDE :: ts =>
    match parseUnary ts with
    | some (e, rest) => some (.un .tilde e, rest)
    | none => none
  | ts => parsePostfix prev ts

def parseL11 : P Expr := binLevel (parseUnary prev) opsL11 Expr.bin
def parseL10 : P Expr := binLevel (parseL11 prev) opsL10 Expr.bin
def parseL9 : P Expr := binLevel (parseL10 prev) opsL9 Expr.bin
def parseL8 : P Expr := binLevel (parseL9 prev) opsL8 Expr.bin
def parseL7 : P Expr := binLevel (parseL8 prev) opsL7 Expr.bin
/-- `value_expression` -/
def parseVal : P Expr := binLevel (parseL7 prev) opsL6 Expr.bin

/-- `col_tuple`: `( expression_list )` or a subquery -/
def parseColTuple : P Expr := fun ts =>
  match ts with
  | .kw .LPAREN :: rest =>
    if startsSelect rest then
      match parseSubqueryBody prev rest with
      | some (s, rest') => some (.subq s, rest')
      | none => none
    else
      match sepBy1 prev.expr rest with
      | some (es, .kw .RPAREN :: rest') => some (.tuple es, rest')
      | _ => none
  | _ => none

/-- `condition` or a bare `value_expression` -/
def parseCond : P Expr := fun ts =>
  match ts with
  | .kw .EXISTS :: .kw .LPAREN :: rest =>
    if startsSelect rest then
      match parseSubqueryBody prev rest with
      | some (s, rest') => some (.exists_ s, rest')
      | none => none
    else none
  | _ =>
    match parseVal prev ts with
    | none => none
    | some (l, rest) =>
      match rest with
      | .kw .IN :: rest' =>
        match parseColTuple prev rest' with
        | some (r, rest'') => some (.cmp .in_ l r, rest'')
        | none => none
      | .kw .NOT :: .kw .IN :: rest' =>
        match parseColTuple prev rest' with
        | some (r, rest'') => some (.cmp .notIn l r, rest'')
        | none => none
      | .kw .LIKE :: rest' =>
        match parseVal prev rest' with
        | some (r, rest'') => some (.cmp .like l r, rest'')
        | none => none
      | .kw .NOT :: .kw .LIKE :: rest' =>
        match parseVal prev rest' with
        | some (r, rest'') => some (.cmp .notLike l r, rest'')
        | none => none
      | .kw .REGEXP :: rest' =>
        match parseVal prev rest' with
        | some (r, rest'') => some (.cmp .regexp l r, rest'')
        | none => none
      | .kw .NOT :: .kw .REGEXP :: rest' =>
        match parseVal prev rest' with
        | some (r, rest'') => some (.cmp .notRegexp l r, rest'')
        | none => none
      | .kw .NOT :: _ => none
      | t :: rest' =>
        match cmpOpOf t with
        | some op =>
          match parseVal prev rest' with
          | some (r, rest'') => some (.cmp op l r, rest'')
          | none => none
        | none => some (l, rest)
      | [] => some (l, [])

/-- `expression IS is_suffix` (postfix, binds tighter than NOT) -/
def isLoop : Nat → Expr → List Tok → Option (Expr × List Tok)
  | 0, _, _ => none
  | m + 1, acc, .kw .IS :: rest =>
    match parseIsSuffix rest with
    | some (op, rest') => isLoop m (.is op acc) rest'
    | none => none
  | _ + 1, acc, ts => some (acc, ts)

def parseIs : P Expr := fun ts =>
  match parseCond prev ts with
  | none => none
  | some (e, rest) => isLoop (rest.length + 1) e rest

def parseNot : P Expr
  | .kw .NOT :: ts =>
    match parseNot ts with
    | some (e, rest) => some (.not e, rest)
    | none => none
  | ts => parseIs prev ts

def parseAnd : P Expr := binLevel (parseNot prev) andOpOf (fun _ l r => Expr.and l r)
/-- `expression` -/
def parseExpr : P Expr := binLevel (parseAnd prev) orOpOf (fun _ l r => Expr.or l r)

/-! ### table expressions -/

/-- one `table_valued_function_argument` -/
def parseTvfArg : P Tbl := fun ts =>
  match ts with
  | t :: .kw .RIGHTARROW :: rest =>
    match identOf t with
    | none => none
    | some name =>
      match rest with
      | .kw .TABLE :: .kw .LPAREN :: rest' =>
        match prev.tbl rest' with
        | some (tb, .kw .RPAREN :: rest'') => some (.argT name tb, rest'')
        | _ => none
      | .kw .DESCRIPTOR :: .kw .LPAREN :: rest' =>
        match parseColumnName rest' with
        | some ((q2, q1, c), .kw .RPAREN :: rest'') => some (.argD name q2 q1 c, rest'')
        | _ => none
      | _ =>
        match prev.expr rest with
        | some (e, rest') => some (.argE name e, rest')
        | none => none
  | _ => none

/-- `table_factor` -/
def parseTableFactor : P Tbl := fun ts =>
  match ts with
  | .kw .LPAREN :: rest =>
    if startsSelect rest then
      match parseSubqueryBody prev rest with
      | some (s, rest') =>
        match parseAliasMust rest' with
        | some (a, rest'') => some (.sub s a, rest'')
        | none => none
      | none => none
    else
      match sepBy1 prev.tbl rest with
      | some (tbs, .kw .RPAREN :: rest') => some (.paren tbs, rest')
      | _ => none
  | .id f :: .kw .LPAREN :: .kw .RPAREN :: rest =>
    match parseAliasMust rest with
    | some (a, rest') => some (.tvf f [] a, rest')
    | none => none
  | .id f :: .kw .LPAREN :: rest =>
    match sepBy1 (parseTvfArg prev) rest with
    | some (args, .kw .RPAREN :: rest') =>
      match parseAliasMust rest' with
      | some (a, rest'') => some (.tvf f args a, rest'')
      | none => none
    | _ => none
  | t1 :: .kw .DOT :: t2 :: rest =>
    match identOf t1, identOf t2 with
    | some q, some n =>
      match parseAliasOpt rest with
      | some (a, rest') => some (.table q n a, rest')
      | none => none
    | _, _ => none
  | t1 :: rest =>
    match identOf t1 with
    | some n =>
      match parseAliasOpt rest with
      | some (a, rest') => some (.table "" n a, rest')
      | none => none
    | none => none
  | [] => none

/-- `join_condition_opt` : ON expression | USING ( column_list ) | nothing -/
def parseJoinCondOpt : P (Option Expr × List String) := fun ts =>
  match ts with
  | .kw .ON :: rest =>
    match parseExpr prev rest with
    | some (e, rest') => some ((some e, []), rest')
    | none => none
  | .kw .USING :: .kw .LPAREN :: rest =>
    match sepBy1 (fun ts => match ts with
        | t :: r => match identOf t with
          | some c => some (c, r)
          | none => none
        | [] => none) rest with
    | some (cols, .kw .RPAREN :: rest') => some ((none, cols), rest')
    | _ => none
  | _ => some ((none, []), ts)

/-- the join keyword(s) at the head of the token list: strategy, kind, remaining tokens -/
def parseJoinOp : List Tok → Option (Strategy × JoinKind × List Tok)
  | .kw .JOIN :: ts => some (.undefined, .join, ts)
  | .kw .INNER :: .kw .JOIN :: ts => some (.undefined, .join, ts)
  | .kw .CROSS :: .kw .JOIN :: ts => some (.undefined, .join, ts)
  | .kw .LOOKUP :: .kw .JOIN :: ts => some (.lookup, .join, ts)
  | .kw .LOOKUP :: .kw .INNER :: .kw .JOIN :: ts => some (.lookup, .join, ts)
  | .kw .LOOKUP :: .kw .CROSS :: .kw .JOIN :: ts => some (.lookup, .join, ts)
  | .kw .STREAM :: .kw .JOIN :: ts => some (.stream, .join, ts)
  | .kw .STREAM :: .kw .INNER :: .kw .JOIN :: ts => some (.stream, .join, ts)
  | .kw .STREAM :: .kw .CROSS :: .kw .JOIN :: ts => some (.stream, .join, ts)
  | .kw .LEFT :: .kw .JOIN :: ts => some (.none_, .left, ts)
  | .kw .LEFT :: .kw .OUTER :: .kw .JOIN :: ts => some (.none_, .left, ts)
  | .kw .RIGHT :: .kw .JOIN :: ts => some (.none_, .right, ts)
  | .kw .RIGHT :: .kw .OUTER :: .kw .JOIN :: ts => some (.none_, .right, ts)
  | .kw .OUTER :: .kw .JOIN :: ts => some (.none_, .outer, ts)
  | .kw .NATURAL :: .kw .JOIN :: ts => some (.none_, .natural, ts)
  | .kw .NATURAL :: .kw .LEFT :: .kw .JOIN :: ts => some (.none_, .naturalLeft, ts)
  | .kw .NATURAL :: .kw .LEFT :: .kw .OUTER :: .kw .JOIN :: ts => some (.none_, .naturalLeft, ts)
  | .kw .NATURAL :: .kw .RIGHT :: .kw .JOIN :: ts => some (.none_, .naturalRight, ts)
  | .kw .NATURAL :: .kw .RIGHT :: .kw .OUTER :: .kw .JOIN :: ts => some (.none_, .naturalRight, ts)
  | .kw .NATURAL :: .kw .OUTER :: .kw .JOIN :: ts => some (.none_, .naturalRight, ts)
  | _ => none

def startsJoin : List Tok → Bool
  | .kw .JOIN :: _ => true | .kw .INNER :: _ => true | .kw .CROSS :: _ => true | .kw .LOOKUP :: _ => true
  | .kw .STREAM :: _ => true | .kw .LEFT :: _ => true | .kw .RIGHT :: _ => true | .kw .OUTER :: _ => true
  | .kw .NATURAL :: _ => true
  | _ => false

/-- `join_table` is left recursive: `acc (join …)*` -/
def joinLoop : Nat → Tbl → List Tok → Option (Tbl × List Tok)
  | 0, _, _ => none
  | m + 1, acc, ts =>
    if startsJoin ts then
      match parseJoinOp ts with
      | none => none
      | some (strat, kind, rest) =>
        match kind with
        | .join =>
          match parseTableFactor prev rest with
          | none => none
          | some (r, rest') =>
            match parseJoinCondOpt prev rest' with
            | none => none
            | some ((on, us), rest'') => joinLoop m (.join acc strat kind r on us) rest''
        | .natural | .naturalLeft | .naturalRight =>
          match parseTableFactor prev rest with
          | none => none
          | some (r, rest') => joinLoop m (.join acc strat kind r none []) rest'
        | .left | .right | .outer =>
          match prev.tbl rest with
          | none => none
          | some (r, rest') =>
            match parseJoinCondOpt prev rest' with
            | some ((some e, us), rest'') => joinLoop m (.join acc strat kind r (some e) us) rest''
            | some ((none, c :: cs), rest'') => joinLoop m (.join acc strat kind r none (c :: cs)) rest''
            | _ => none
    else some (acc, ts)

/-- `table_reference` -/
def parseTableRef : P Tbl := fun ts =>
  match parseTableFactor prev ts with
  | none => none
  | some (t, rest) => joinLoop prev (rest.length + 1) t rest

/-! ### select statements -/

def parseTrigger : P Expr := fun ts =>
  match ts with
  | .kw .ON :: .kw .WATERMARK :: rest => some (.trigWm, rest)
  | .kw .ON :: .kw .END :: .kw .OF :: .kw .STREAM :: rest => some (.trigEos, rest)
  | .kw .AFTER :: .kw .DELAY :: rest =>
    match parseExpr prev rest with
    | some (e, rest') => some (.trigDelay e, rest')
    | none => none
  | .kw .COUNTING :: rest =>
    match parseExpr prev rest with
    | some (e, rest') => some (.trigCount e, rest')
    | none => none
  | _ => none

def parseOrder : P Expr := fun ts =>
  match parseExpr prev ts with
  | some (e, .kw .ASC :: rest) => some (.order e false, rest)
  | some (e, .kw .DESC :: rest) => some (.order e true, rest)
  | some (e, rest) => some (.order e false, rest)
  | none => none

def parseWhereOpt (kw : Kw) : P (Option Expr) := fun ts =>
  match ts with
  | .kw k :: rest =>
    if k = kw then
      match parseExpr prev rest with
      | some (e, rest') => some (some e, rest')
      | none => none
    else some (none, ts)
  | _ => some (none, ts)

def parseGroupByOpt : P (List Expr) := fun ts =>
  match ts with
  | .kw .GROUP :: .kw .BY :: rest => sepBy1 (parseExpr prev) rest
  | _ => some ([], ts)

def parseTriggerOpt : P (List Expr) := fun ts =>
  match ts with
  | .kw .TRIGGER :: rest => sepBy1 (parseTrigger prev) rest
  | _ => some ([], ts)

def parseOrderByOpt : P (List Expr) := fun ts =>
  match ts with
  | .kw .ORDER :: .kw .BY :: rest => sepBy1 (parseOrder prev) rest
  | _ => some ([], ts)

/-- `limit_opt` as (offset, rowcount) -/
def parseLimitOpt : P (Option Expr × Option Expr) := fun ts =>
  match ts with
  | .kw .LIMIT :: rest =>
    match parseExpr prev rest with
    | some (a, .kw .COMMA :: rest') =>
      match parseExpr prev rest' with
      | some (b, rest'') => some ((some a, some b), rest'')
      | none => none
    | some (a, .kw .OFFSET :: rest') =>
      match parseExpr prev rest' with
      | some (b, rest'') => some ((some b, some a), rest'')
      | none => none
    | some (a, rest') => some ((none, some a), rest')
    | none => none
  | _ => some ((none, none), ts)

def parseFromOpt : P (List Tbl) := fun ts =>
  match ts with
  | .kw .FROM :: rest => sepBy1 (parseTableRef prev) rest
  | _ => some ([.table "" "dual" ""], ts)

/-- `base_select order_by_opt limit_opt` -/
def parseSelect : P Sel := fun ts =>
  match ts with
  | .kw .SELECT :: rest =>
    let (distinct, rest) := match rest with
      | .kw .DISTINCT :: r => (true, r)
      | r => (false, r)
    match sepBy1 (parseItemWith (parseExpr prev)) rest with
    | none => none
    | some (items, rest) =>
    match parseFromOpt prev rest with
    | none => none
    | some (from_, rest) =>
    match parseWhereOpt prev .WHERE rest with
    | none => none
    | some (where_, rest) =>
    match parseGroupByOpt prev rest with
    | none => none
    | some (groupBy, rest) =>
    match parseWhereOpt prev .HAVING rest with
    | none => none
    | some (having, rest) =>
    match parseTriggerOpt prev rest with
    | none => none
    | some (trig, rest) =>
    match parseOrderByOpt prev rest with
    | none => none
    | some (orderBy, rest) =>
    match parseLimitOpt prev rest with
    | none => none
    | some ((limOff, limCnt), rest) =>
      some (.select distinct items from_ where_ groupBy having trig orderBy limOff limCnt, rest)
  | _ => none

/-- `cte`: `table_alias AS ( select_statement )` -/
def parseCte : P Sel := fun ts =>
  match ts with
  | t :: .kw .AS :: .kw .LPAREN :: rest =>
    let name : Option String := match t with
      | .str s => some s
      | t => identOf t
    match name with
    | none => none
    | some n =>
      match prev.sel rest with
      | some (s, .kw .RPAREN :: rest') => some (.cte n s, rest')
      | _ => none
  | _ => none

/-- `(, cte)*` then `comma_opt`: a comma followed by something that is not a cte start is the optional comma -/
def cteTail : Nat → List Tok → Option (List Sel × List Tok)
  | 0, _ => none
  | m + 1, .kw .COMMA :: ts =>
    if startsSelect ts then some ([], ts)
    else
      match parseCte prev ts with
      | none => none
      | some (c, ts') =>
        match cteTail m ts' with
        | none => none
        | some (cs, ts'') => some (c :: cs, ts'')
  | _ + 1, ts => some ([], ts)

/-- `select_statement` -/
def parseSelStmt : P Sel := fun ts =>
  match ts with
  | .kw .WITH :: rest =>
    match parseCte prev rest with
    | none => none
    | some (c, rest') =>
      match cteTail prev (rest'.length + 1) rest' with
      | none => none
      | some (cs, rest'') =>
        match prev.sel rest'' with
        | some (s, rest3) => some (.with_ (c :: cs) s, rest3)
        | none => none
  | _ => parseSelect prev ts

end level

/-- the parsers of nesting depth `n` -/
def parsers : Nat → Parsers
  | 0 => Parsers.fail
  | n + 1 =>
    let prev := parsers n
    ⟨parseExpr prev, parseVal prev, parseSelStmt prev, parseTableRef prev⟩

/-- `any_command: command semicolon_opt` restricted to select statements, with nesting fuel `n` -/
def parseStmtFuel (n : Nat) (ts : List Tok) : Option Sel :=
  match (parsers n).sel ts with
  | some (s, []) => some s
  | some (s, [.kw .SEMI]) => some s
  | _ => none

/-- `sqlparser.Parse` on the fragment -/
def parseStmt (ts : List Tok) : Option Sel := parseStmtFuel (ts.length + 1) ts

end Octo.Sql
