import Octo.Model.SqlAst
/-!
# A hand-written parser for the fragment (C30)

`parseStmt : List Tok → Option Sel` models `sqlparser.Parse` (the goyacc LALR(1) parser generated from `sql.y`) on the
modelled fragment: recursive descent with one function per precedence level of the grammar's `%left/%right`
declarations (OR < AND < NOT < IS/comparison < `|` < `&` < shifts < `+ -` < `* / div % mod` < `^` < unary < postfix `->`, `::`, `[ ]`),
the grammar's resolution of its conflicts (a dangling ON goes to the innermost join, the right operand of an outer
join is a whole table reference, `-`/`+` fold into integer literals, …) and the tree-building actions of `sql.y`.
It is tied to the real parser only by the correspondence run (the LALR tables are not translated).

Recursion: the functions for one nesting level are built from the parsers of the previous level (`Parsers`),
`parsers (n+1)` from `parsers n`; loops carry their own fuel (the number of tokens at the entry of the level).
Core Lean only.
-/
namespace Octo.SqlSyn

abbrev P (α : Type) := List Tok → Option (α × List Tok)

/-- `sql_id` / `table_id`: an `ID` token or a non-reserved keyword the fragment does not use as a keyword -/
def identOf : Tok → Option String
  | .id s => some s
  | .nrkw v => some v
  | _ => none

/-- is the next token the keyword `k`? -/
def headIs (k : Kw) : List Tok → Bool
  | t :: _ => t == Tok.kw k
  | [] => false

/-! ## Generic combinators -/

/-- `acc (op next)*` for a left-associative binary level -/
def binLoop {Op : Type} (next : P Expr) (opOf : Tok → Option Op) (mk : Op → Expr → Expr → Expr) :
    Nat → Expr → List Tok → Option (Expr × List Tok)
  | 0, _, _ => none
  | _ + 1, acc, [] => some (acc, [])
  | m + 1, acc, t :: ts =>
    match opOf t with
    | none => some (acc, t :: ts)
    | some op =>
      match next ts with
      | none => none
      | some (r, ts') => binLoop next opOf mk m (mk op acc r) ts'

def binLevel {Op : Type} (next : P Expr) (opOf : Tok → Option Op) (mk : Op → Expr → Expr → Expr) : P Expr := fun ts =>
  match next ts with
  | none => none
  | some (l, ts') => binLoop next opOf mk (ts.length + 1) l ts'

/-- `(, item)*` -/
def sepTail {α : Type} (item : P α) : Nat → List Tok → Option (List α × List Tok)
  | 0, _ => none
  | _ + 1, [] => some ([], [])
  | m + 1, t :: ts =>
    if t = Tok.kw .COMMA then
      match item ts with
      | none => none
      | some (x, ts') =>
        match sepTail item m ts' with
        | none => none
        | some (xs, ts'') => some (x :: xs, ts'')
    else some ([], t :: ts)

/-- `item (, item)*` -/
def sepBy1 {α : Type} (item : P α) : P (List α) := fun ts =>
  match item ts with
  | none => none
  | some (x, ts') =>
    match sepTail item (ts.length + 1) ts' with
    | none => none
    | some (xs, ts'') => some (x :: xs, ts'')

/-! ## Small token-level pieces -/

def cmpOpOf : Tok → Option CmpOp
  | .kw .EQ => some .eq | .kw .LT => some .lt | .kw .GT => some .gt | .kw .LE => some .le | .kw .GE => some .ge
  | .kw .NE => some .ne | .kw .NULL_SAFE_EQUAL => some .nse
  | _ => none

def orOpOf : Tok → Option Unit
  | .kw .OR => some () | _ => none
def andOpOf : Tok → Option Unit
  | .kw .AND => some () | _ => none
def opsL6 : Tok → Option BinOp
  | .kw .PIPE => some .bitOr | _ => none
def opsL7 : Tok → Option BinOp
  | .kw .AMP => some .bitAnd | _ => none
def opsL8 : Tok → Option BinOp
  | .kw .SHIFT_LEFT => some .shl | .kw .SHIFT_RIGHT => some .shr | _ => none
def opsL9 : Tok → Option BinOp
  | .kw .PLUS => some .plus | .kw .MINUS => some .minus | _ => none
def opsL10 : Tok → Option BinOp
  | .kw .STAR => some .mult | .kw .SLASH => some .div | .kw .DIV => some .intDiv | .kw .PERCENT => some .mod
  | .kw .MOD => some .mod | _ => none
def opsL11 : Tok → Option BinOp
  | .kw .CARET => some .bitXor | _ => none

/-- `is_suffix` -/
def parseIsSuffix : P IsOp
  | .kw .NULL :: ts => some (.null, ts)
  | .kw .NOT :: .kw .NULL :: ts => some (.notNull, ts)
  | .kw .TRUE :: ts => some (.true_, ts)
  | .kw .NOT :: .kw .TRUE :: ts => some (.notTrue, ts)
  | .kw .FALSE :: ts => some (.false_, ts)
  | .kw .NOT :: .kw .FALSE :: ts => some (.notFalse, ts)
  | _ => none

/-- `convert_type` -/
def parseConvTy : P ConvTy
  | .id s :: ts => some (.simple s, ts)
  | .nrkw v :: ts => some (.simple v, ts)
  | .kw .LIST_TYPE :: ts => some (.list, ts)
  | .kw .OBJECT_TYPE :: ts => some (.object, ts)
  | _ => none

/-- an alias token: `sql_id | STRING` -/
def aliasOf : Tok → Option String
  | .id s => some s
  | .nrkw v => some v
  | .str s => some s
  | _ => none

/-- `as_ci_opt` / `as_opt_id`: `[AS] (sql_id | STRING)` or nothing -/
def parseAliasOpt : P String
  | [] => some ("", [])
  | t :: rest =>
    if t = Tok.kw .AS then
      match rest with
      | a :: rest' =>
        match aliasOf a with
        | some s => some (s, rest')
        | none => none
      | [] => none
    else
      match aliasOf t with
      | some s => some (s, rest)
      | none => some ("", t :: rest)

/-- `as_opt table_id` (mandatory alias of a derived table / table valued function) -/
def parseAliasMust : P String
  | [] => none
  | t :: rest =>
    if t = Tok.kw .AS then
      match rest with
      | a :: rest' =>
        match identOf a with
        | some s => some (s, rest')
        | none => none
      | [] => none
    else
      match identOf t with
      | some s => some (s, rest)
      | none => none

/-- `column_name` (for DESCRIPTOR(...)) as (q2, q1, name) -/
def parseColumnName : P (String × String × String) := fun ts =>
  match ts with
  | t1 :: .kw .DOT :: t2 :: .kw .DOT :: t3 :: rest =>
    match identOf t1, identOf t2, identOf t3 with
    | some a, some b, some c => some ((a, b, c), rest)
    | _, _, _ => none
  | t1 :: .kw .DOT :: t2 :: rest =>
    match identOf t1, identOf t2 with
    | some a, some b => some (("", a, b), rest)
    | _, _ => none
  | t1 :: rest =>
    match identOf t1 with
    | some a => some (("", "", a), rest)
    | none => none
  | [] => none

/-- the action of `'-' value_expression`: integer literals absorb the sign -/
def mkNeg : Expr → Expr
  | .val .int neg s => .val .int (!neg) s
  | e => .un .minus e
/-- the action of `'+' value_expression` -/
def mkPos : Expr → Expr
  | .val .int neg s => .val .int neg s
  | e => .un .plus e

/-- produced by a `value_expression` rule (as opposed to `condition`, AND, OR, NOT, IS)? -/
def Expr.isValue : Expr → Bool
  | .and _ _ => false | .or _ _ => false | .not _ => false | .cmp _ _ _ => false | .is _ _ => false
  | .exists_ _ => false
  | .star _ _ => false | .aliased _ _ => false | .explode _ => false
  | .trigCount _ => false | .trigWm => false | .trigEos => false | .trigDelay _ => false | .order _ _ => false
  | _ => true

def CmpOp.isIn : CmpOp → Bool
  | .in_ => true | .notIn => true | _ => false

def JoinKind.isInner : JoinKind → Bool
  | .join => true | _ => false
def JoinKind.isOuter : JoinKind → Bool
  | .left => true | .right => true | .outer => true | _ => false

def startsSelect : List Tok → Bool
  | t :: _ => t == Tok.kw .SELECT || t == Tok.kw .WITH
  | [] => false

/-- `table_id '.' '*'` and `table_id '.' reserved_table_id '.' '*'` -/
def parseStarForm : P Expr := fun ts =>
  match ts with
  | t1 :: .kw .DOT :: .kw .STAR :: rest =>
    match identOf t1 with
    | some a => some (.star "" a, rest)
    | none => none
  | t1 :: .kw .DOT :: t2 :: .kw .DOT :: .kw .STAR :: rest =>
    match identOf t1, identOf t2 with
    | some a, some b => some (.star a b, rest)
    | _, _ => none
  | _ => none

/-- `select_expression` (also the arguments of a function call), with `expr` the expression parser to use.
    (`t.*` is recognised where the expression parser gives up: `.` `*` cannot continue an expression.) -/
def parseItemWith (expr : P Expr) : P Expr := fun ts =>
  if headIs .STAR ts then some (.star "" "", ts.tail)
  else
    match expr ts with
    | none => parseStarForm ts
    | some (e, rest) =>
      if headIs .JSON_EXPLODE_OP rest then
        (if e.isValue then some (.explode e, rest.tail) else none)
      else
        match parseAliasOpt rest with
        | none => none
        | some (a, rest') => some (.aliased e a, rest')

/-! ## One nesting level, given the parsers of the previous level -/

structure Parsers where
  expr : P Expr      -- `expression`
  val : P Expr       -- `value_expression`
  sel : P Sel        -- `select_statement`
  tbl : P Tbl        -- `table_reference`

def Parsers.fail : Parsers := ⟨fun _ => Option.none, fun _ => Option.none, fun _ => Option.none, fun _ => Option.none⟩

section level
variable (prev : Parsers)

/-- `select_statement closeb` -/
def parseSubqueryBody : P Sel := fun ts =>
  match prev.sel ts with
  | some (s, t :: rest) => if t = Tok.kw .RPAREN then some (s, rest) else none
  | _ => none

/-- `expression_list closeb` -/
def parseExprListClose : P (List Expr) := fun ts =>
  match sepBy1 prev.expr ts with
  | some (es, t :: rest) => if t = Tok.kw .RPAREN then some (es, rest) else none
  | _ => none

/-- `select_expression_list closeb` (function arguments) -/
def parseArgsClose : P (List Expr) := fun ts =>
  match sepBy1 (parseItemWith prev.expr) ts with
  | some (es, t :: rest) => if t = Tok.kw .RPAREN then some (es, rest) else none
  | _ => none

/-- `convert_type closeb` -/
def parseConvTyClose : P ConvTy := fun ts =>
  match parseConvTy ts with
  | some (t, c :: rest) => if c = Tok.kw .RPAREN then some (t, rest) else none
  | _ => none

/-- after `sql_id openb` / `table_id . reserved_sql_id openb`: the argument list of a function call -/
def parseCallRest (qual name : String) (allowDistinct : Bool) : P Expr := fun ts =>
  if headIs .RPAREN ts then some (.func qual name false [], ts.tail)
  else if headIs .DISTINCT ts then
    (if allowDistinct then
      match parseArgsClose prev ts.tail with
      | some (args, rest) => some (.func qual name true args, rest)
      | none => none
     else none)
  else
    match parseArgsClose prev ts with
    | some (args, rest) => some (.func qual name false args, rest)
    | none => none

/-- after an identifier `a` in expression position: call, qualified call, qualified column, or column -/
def parseIdentRest (a : String) : P Expr := fun rest =>
  if headIs .LPAREN rest then parseCallRest prev "" a true rest.tail
  else if headIs .DOT rest then
    match rest.tail with
    | t2 :: rest' =>
      match identOf t2 with
      | none => none
      | some b =>
        if headIs .LPAREN rest' then parseCallRest prev a b false rest'.tail
        else if headIs .DOT rest' then
          match rest'.tail with
          | t3 :: rest'' =>
            match identOf t3 with
            | some c => some (.col a b c, rest'')
            | none => none
          | [] => none
        else some (.col "" a b, rest')
    | [] => none
  else some (.col "" "" a, rest)

/-- after `(` in expression position: subquery, parenthesised expression or tuple -/
def parseParenRest : P Expr := fun rest =>
  if startsSelect rest then
    match parseSubqueryBody prev rest with
    | some (s, rest') => some (.subq s, rest')
    | none => none
  else
    match parseExprListClose prev rest with
    | some ([e], rest') => some (.paren e, rest')
    | some (es, rest') => some (.tuple es, rest')
    | none => none

/-- after `CONVERT (` (sep = `,`) or `CAST (` (sep = AS) -/
def parseConvertRest (sep : Kw) : P Expr := fun rest =>
  match prev.expr rest with
  | some (e, t :: rest') =>
    if t = Tok.kw sep then
      match parseConvTyClose rest' with
      | some (ty, rest'') => some (.convert e ty, rest'')
      | none => none
    else none
  | _ => none

/-- after INTERVAL -/
def parseIntervalRest : P Expr := fun rest =>
  match prev.val rest with
  | some (e, u :: rest') =>
    match identOf u with
    | some unit => some (.interval e unit, rest')
    | none => none
  | _ => none

/-- atoms of `value_expression` -/
def parseAtom : P Expr := fun ts =>
  match ts with
  | [] => none
  | .str s :: rest => some (.val .str false s, rest)
  | .int s :: rest => some (.val .int false s, rest)
  | .float s :: rest => some (.val .float false s, rest)
  | .hexnum s :: rest => some (.val .hexnum false s, rest)
  | .hex s :: rest => some (.val .hex false s, rest)
  | .bit s :: rest => some (.val .bit false s, rest)
  | .id a :: rest => parseIdentRest prev a rest
  | .nrkw a :: rest => parseIdentRest prev a rest
  | .kw k :: rest =>
    match k with
    | .NULL => some (.null, rest)
    | .TRUE => some (.bool true, rest)
    | .FALSE => some (.bool false, rest)
    | .LPAREN => parseParenRest prev rest
    | .INTERVAL => parseIntervalRest prev rest
    | .CONVERT => if headIs .LPAREN rest then parseConvertRest prev .COMMA rest.tail else none
    | .CAST => if headIs .LPAREN rest then parseConvertRest prev .AS rest.tail else none
    | _ => none
  | _ => none

/-- the postfix operators `-> field`, `:: type`, `[ index ]` (they have no precedence: always shifted) -/
def postfixLoop : Nat → Expr → List Tok → Option (Expr × List Tok)
  | 0, _, _ => none
  | _ + 1, acc, [] => some (acc, [])
  | m + 1, acc, t :: rest =>
    if t = Tok.kw .JSON_EXTRACT_OP then
      match rest with
      | f :: rest' =>
        match identOf f with
        | some name => postfixLoop m (.field acc name) rest'
        | none => none
      | [] => none
    else if t = Tok.kw .LIST_ARG then
      match parseConvTy rest with
      | some (ty, rest') => postfixLoop m (.convert acc ty) rest'
      | none => none
    else if t = Tok.kw .LBRACK then
      match prev.val rest with
      | some (i, c :: rest') => if c = Tok.kw .RBRACK then postfixLoop m (.index acc i) rest' else none
      | _ => none
    else some (acc, t :: rest)

def parsePostfix : P Expr := fun ts =>
  match parseAtom prev ts with
  | none => none
  | some (a, rest) => postfixLoop prev (ts.length + 1) a rest

/-- unary `- + ! ~` (right associative, binds tighter than every binary operator) -/
def parseUnary : P Expr
  | [] => none
  | t :: ts =>
    if t = Tok.kw .MINUS then
      match parseUnary ts with
      | some (e, rest) => some (mkNeg e, rest)
      | none => none
    else if t = Tok.kw .PLUS then
      match parseUnary ts with
      | some (e, rest) => some (mkPos e, rest)
      | none => none
    else if t = Tok.kw .BANG then
      match parseUnary ts with
      | some (e, rest) => some (.un .bang e, rest)
      | none => none
    else if t = Tok.kw .TILDE then
      match parseUnary ts with
      | some (e, rest) => some (.un .tilde e, rest)
      | none => none
    else parsePostfix prev (t :: ts)

def parseL11 : P Expr := binLevel (parseUnary prev) opsL11 Expr.bin
def parseL10 : P Expr := binLevel (parseL11 prev) opsL10 Expr.bin
def parseL9 : P Expr := binLevel (parseL10 prev) opsL9 Expr.bin
def parseL8 : P Expr := binLevel (parseL9 prev) opsL8 Expr.bin
def parseL7 : P Expr := binLevel (parseL8 prev) opsL7 Expr.bin
/-- `value_expression` -/
def parseVal : P Expr := binLevel (parseL7 prev) opsL6 Expr.bin

/-- `col_tuple`: `( expression_list )` or a subquery -/
def parseColTuple : P Expr := fun ts =>
  if headIs .LPAREN ts then
    (if startsSelect ts.tail then
      match parseSubqueryBody prev ts.tail with
      | some (s, rest') => some (.subq s, rest')
      | none => none
     else
      match parseExprListClose prev ts.tail with
      | some (es, rest') => some (.tuple es, rest')
      | none => none)
  else none

/-- the right operand of a comparison-like operator -/
def parseCmpRhs (op : CmpOp) (l : Expr) : P Expr := fun ts =>
  match (if op.isIn then parseColTuple prev ts else parseVal prev ts) with
  | some (r, rest) => some (.cmp op l r, rest)
  | none => none

/-- what follows the left operand `l` of a `condition` -/
def parseCondRest (l : Expr) : P Expr := fun rest =>
  match rest with
  | [] => some (l, [])
  | t :: rest' =>
    if t = Tok.kw .IN then parseCmpRhs prev .in_ l rest'
    else if t = Tok.kw .LIKE then parseCmpRhs prev .like l rest'
    else if t = Tok.kw .REGEXP then parseCmpRhs prev .regexp l rest'
    else if t = Tok.kw .NOT then
      (if headIs .IN rest' then parseCmpRhs prev .notIn l rest'.tail
       else if headIs .LIKE rest' then parseCmpRhs prev .notLike l rest'.tail
       else if headIs .REGEXP rest' then parseCmpRhs prev .notRegexp l rest'.tail
       else none)
    else
      match cmpOpOf t with
      | some op => parseCmpRhs prev op l rest'
      | none => some (l, t :: rest')

/-- `condition` or a bare `value_expression` -/
def parseCond : P Expr := fun ts =>
  if headIs .EXISTS ts then
    (if headIs .LPAREN ts.tail ∧ startsSelect ts.tail.tail then
      match parseSubqueryBody prev ts.tail.tail with
      | some (s, rest') => some (.exists_ s, rest')
      | none => none
     else none)
  else
    match parseVal prev ts with
    | none => none
    | some (l, rest) => parseCondRest prev l rest

/-- `expression IS is_suffix` (postfix, binds tighter than NOT) -/
def isLoop : Nat → Expr → List Tok → Option (Expr × List Tok)
  | 0, _, _ => none
  | _ + 1, acc, [] => some (acc, [])
  | m + 1, acc, t :: rest =>
    if t = Tok.kw .IS then
      match parseIsSuffix rest with
      | some (op, rest') => isLoop m (.is op acc) rest'
      | none => none
    else some (acc, t :: rest)

def parseIs : P Expr := fun ts =>
  match parseCond prev ts with
  | none => none
  | some (e, rest) => isLoop (ts.length + 1) e rest

def parseNot : P Expr
  | [] => none
  | t :: ts =>
    if t = Tok.kw .NOT then
      match parseNot ts with
      | some (e, rest) => some (.not e, rest)
      | none => none
    else parseIs prev (t :: ts)

def parseAnd : P Expr := binLevel (parseNot prev) andOpOf (fun _ l r => Expr.and l r)
/-- `expression` -/
def parseExpr : P Expr := binLevel (parseAnd prev) orOpOf (fun _ l r => Expr.or l r)

/-! ### table expressions -/

/-- one `table_valued_function_argument` -/
def parseTvfArg : P Tbl := fun ts =>
  match ts with
  | t :: a :: rest =>
    match identOf t with
    | none => none
    | some name =>
      if a = Tok.kw .RIGHTARROW then
        (if headIs .TABLE rest then
          (if headIs .LPAREN rest.tail then
            match prev.tbl rest.tail.tail with
            | some (tb, c :: rest') => if c = Tok.kw .RPAREN then some (.argT name tb, rest') else none
            | _ => none
           else none)
         else if headIs .DESCRIPTOR rest then
          (if headIs .LPAREN rest.tail then
            match parseColumnName rest.tail.tail with
            | some ((q2, q1, c), cl :: rest') => if cl = Tok.kw .RPAREN then some (.argD name q2 q1 c, rest') else none
            | _ => none
           else none)
         else
          match prev.expr rest with
          | some (e, rest') => some (.argE name e, rest')
          | none => none)
      else none
  | _ => none

/-- `table_valued_function_arguments_opt closeb as_opt table_id` -/
def parseTvfRest (f : String) : P Tbl := fun ts =>
  if headIs .RPAREN ts then
    match parseAliasMust ts.tail with
    | some (a, rest) => some (.tvf f [] a, rest)
    | none => none
  else
    match sepBy1 (parseTvfArg prev) ts with
    | some (args, c :: rest) =>
      if c = Tok.kw .RPAREN then
        match parseAliasMust rest with
        | some (a, rest') => some (.tvf f args a, rest')
        | none => none
      else none
    | _ => none

/-- after `(` in table position: derived table or parenthesised table references -/
def parseTableParenRest : P Tbl := fun rest =>
  if startsSelect rest then
    match parseSubqueryBody prev rest with
    | some (s, rest') =>
      match parseAliasMust rest' with
      | some (a, rest'') => some (.sub s a, rest'')
      | none => none
    | none => none
  else
    match sepBy1 prev.tbl rest with
    | some (tbs, c :: rest') => if c = Tok.kw .RPAREN then some (.paren tbs, rest') else none
    | _ => none

/-- `table_name as_opt_id` after the first identifier `n` -/
def parseTableNameRest (n : String) : P Tbl := fun rest =>
  if headIs .DOT rest then
    match rest.tail with
    | t2 :: rest' =>
      match identOf t2 with
      | some n2 =>
        match parseAliasOpt rest' with
        | some (a, rest'') => some (.table n n2 a, rest'')
        | none => none
      | none => none
    | [] => none
  else
    match parseAliasOpt rest with
    | some (a, rest') => some (.table "" n a, rest')
    | none => none

/-- `table_factor` -/
def parseTableFactor : P Tbl := fun ts =>
  match ts with
  | [] => none
  | .kw k :: rest => if k = .LPAREN then parseTableParenRest prev rest else none
  | .id f :: rest => if headIs .LPAREN rest then parseTvfRest prev f rest.tail else parseTableNameRest f rest
  | .nrkw f :: rest => parseTableNameRest f rest
  | _ => none

def parseColIdent : P String := fun ts =>
  match ts with
  | t :: r =>
    match identOf t with
    | some c => some (c, r)
    | none => none
  | [] => none

/-- `join_condition_opt` : ON expression | USING ( column_list ) | nothing -/
def parseJoinCondOpt : P (Option Expr × List String) := fun ts =>
  if headIs .ON ts then
    match parseExpr prev ts.tail with
    | some (e, rest') => some ((some e, []), rest')
    | none => none
  else if headIs .USING ts then
    (if headIs .LPAREN ts.tail then
      match sepBy1 parseColIdent ts.tail.tail with
      | some (cols, c :: rest') => if c = Tok.kw .RPAREN then some ((none, cols), rest') else none
      | _ => none
     else none)
  else some ((none, []), ts)

/-- the join keyword(s) at the head of the token list: strategy, kind, remaining tokens -/
def parseJoinOp : List Tok → Option (Strategy × JoinKind × List Tok)
  | .kw .JOIN :: ts => some (.undefined, .join, ts)
  | .kw .INNER :: .kw .JOIN :: ts => some (.undefined, .join, ts)
  | .kw .CROSS :: .kw .JOIN :: ts => some (.undefined, .join, ts)
  | .kw .LOOKUP :: .kw .JOIN :: ts => some (.lookup, .join, ts)
  | .kw .LOOKUP :: .kw .INNER :: .kw .JOIN :: ts => some (.lookup, .join, ts)
  | .kw .LOOKUP :: .kw .CROSS :: .kw .JOIN :: ts => some (.lookup, .join, ts)
  | .kw .STREAM :: .kw .JOIN :: ts => some (.stream, .join, ts)
  | .kw .STREAM :: .kw .INNER :: .kw .JOIN :: ts => some (.stream, .join, ts)
  | .kw .STREAM :: .kw .CROSS :: .kw .JOIN :: ts => some (.stream, .join, ts)
  | .kw .LEFT :: .kw .JOIN :: ts => some (.none_, .left, ts)
  | .kw .LEFT :: .kw .OUTER :: .kw .JOIN :: ts => some (.none_, .left, ts)
  | .kw .RIGHT :: .kw .JOIN :: ts => some (.none_, .right, ts)
  | .kw .RIGHT :: .kw .OUTER :: .kw .JOIN :: ts => some (.none_, .right, ts)
  | .kw .OUTER :: .kw .JOIN :: ts => some (.none_, .outer, ts)
  | .kw .NATURAL :: .kw .JOIN :: ts => some (.none_, .natural, ts)
  | .kw .NATURAL :: .kw .LEFT :: .kw .JOIN :: ts => some (.none_, .naturalLeft, ts)
  | .kw .NATURAL :: .kw .LEFT :: .kw .OUTER :: .kw .JOIN :: ts => some (.none_, .naturalLeft, ts)
  | .kw .NATURAL :: .kw .RIGHT :: .kw .JOIN :: ts => some (.none_, .naturalRight, ts)
  | .kw .NATURAL :: .kw .RIGHT :: .kw .OUTER :: .kw .JOIN :: ts => some (.none_, .naturalRight, ts)
  | .kw .NATURAL :: .kw .OUTER :: .kw .JOIN :: ts => some (.none_, .naturalRight, ts)
  | _ => none

def isJoinStart : Tok → Bool
  | .kw .JOIN => true | .kw .INNER => true | .kw .CROSS => true | .kw .LOOKUP => true
  | .kw .STREAM => true | .kw .LEFT => true | .kw .RIGHT => true | .kw .OUTER => true
  | .kw .NATURAL => true
  | _ => false

/-- the right operand and condition of one join, for an accumulated left operand -/
def parseJoinRest (acc : Tbl) (strat : Strategy) (kind : JoinKind) : P Tbl := fun rest =>
  if kind.isInner then
    match parseTableFactor prev rest with
    | none => none
    | some (r, rest') =>
      match parseJoinCondOpt prev rest' with
      | none => none
      | some ((on, us), rest'') => some (.join acc strat kind r on us, rest'')
  else if kind.isOuter then
    match prev.tbl rest with
    | none => none
    | some (r, rest') =>
      match parseJoinCondOpt prev rest' with
      | some ((on, us), rest'') =>
        if on.isSome ∨ ¬ us.isEmpty then some (.join acc strat kind r on us, rest'') else none
      | none => none
  else
    match parseTableFactor prev rest with
    | none => none
    | some (r, rest') => some (.join acc strat kind r none [], rest')

/-- `join_table` is left recursive: `acc (join …)*` -/
def joinLoop : Nat → Tbl → List Tok → Option (Tbl × List Tok)
  | 0, _, _ => none
  | _ + 1, acc, [] => some (acc, [])
  | m + 1, acc, t :: ts =>
    if isJoinStart t then
      match parseJoinOp (t :: ts) with
      | none => none
      | some (strat, kind, rest) =>
        match parseJoinRest prev acc strat kind rest with
        | none => none
        | some (acc', rest') => joinLoop m acc' rest'
    else some (acc, t :: ts)

/-- `table_reference` -/
def parseTableRef : P Tbl := fun ts =>
  match parseTableFactor prev ts with
  | none => none
  | some (t, rest) => joinLoop prev (ts.length + 1) t rest

/-! ### select statements -/

def parseTrigger : P Expr := fun ts =>
  match ts with
  | .kw .ON :: .kw .WATERMARK :: rest => some (.trigWm, rest)
  | .kw .ON :: .kw .END :: .kw .OF :: .kw .STREAM :: rest => some (.trigEos, rest)
  | .kw .AFTER :: .kw .DELAY :: rest =>
    match parseExpr prev rest with
    | some (e, rest') => some (.trigDelay e, rest')
    | none => none
  | .kw .COUNTING :: rest =>
    match parseExpr prev rest with
    | some (e, rest') => some (.trigCount e, rest')
    | none => none
  | _ => none

def parseOrder : P Expr := fun ts =>
  match parseExpr prev ts with
  | some (e, rest) =>
    if headIs .ASC rest then some (.order e false, rest.tail)
    else if headIs .DESC rest then some (.order e true, rest.tail)
    else some (.order e false, rest)
  | none => none

/-- `WHERE expression` / `HAVING expression` or nothing -/
def parseWhereOpt (kw : Kw) : P (Option Expr) := fun ts =>
  if headIs kw ts then
    match parseExpr prev ts.tail with
    | some (e, rest') => some (some e, rest')
    | none => none
  else some (none, ts)

def parseGroupByOpt : P (List Expr) := fun ts =>
  if headIs .GROUP ts then
    (if headIs .BY ts.tail then sepBy1 (parseExpr prev) ts.tail.tail else none)
  else some ([], ts)

def parseTriggerOpt : P (List Expr) := fun ts =>
  if headIs .TRIGGER ts then sepBy1 (parseTrigger prev) ts.tail else some ([], ts)

def parseOrderByOpt : P (List Expr) := fun ts =>
  if headIs .ORDER ts then
    (if headIs .BY ts.tail then sepBy1 (parseOrder prev) ts.tail.tail else none)
  else some ([], ts)

/-- `limit_opt` as (offset, rowcount) -/
def parseLimitOpt : P (Option Expr × Option Expr) := fun ts =>
  if headIs .LIMIT ts then
    match parseExpr prev ts.tail with
    | some (a, rest') =>
      if headIs .COMMA rest' then
        match parseExpr prev rest'.tail with
        | some (b, rest'') => some ((some a, some b), rest'')
        | none => none
      else if headIs .OFFSET rest' then
        match parseExpr prev rest'.tail with
        | some (b, rest'') => some ((some b, some a), rest'')
        | none => none
      else some ((none, some a), rest')
    | none => none
  else some ((none, none), ts)

def parseFromOpt : P (List Tbl) := fun ts =>
  if headIs .FROM ts then sepBy1 (parseTableRef prev) ts.tail else some ([.table "" "dual" ""], ts)

/-- `base_select order_by_opt limit_opt` -/
def parseSelect : P Sel := fun ts =>
  if headIs .SELECT ts then
    let rest := ts.tail
    let distinct := headIs .DISTINCT rest
    let rest := if distinct then rest.tail else rest
    match sepBy1 (parseItemWith (parseExpr prev)) rest with
    | none => none
    | some (items, rest) =>
    match parseFromOpt prev rest with
    | none => none
    | some (from_, rest) =>
    match parseWhereOpt prev .WHERE rest with
    | none => none
    | some (where_, rest) =>
    match parseGroupByOpt prev rest with
    | none => none
    | some (groupBy, rest) =>
    match parseWhereOpt prev .HAVING rest with
    | none => none
    | some (having, rest) =>
    match parseTriggerOpt prev rest with
    | none => none
    | some (trig, rest) =>
    match parseOrderByOpt prev rest with
    | none => none
    | some (orderBy, rest) =>
    match parseLimitOpt prev rest with
    | none => none
    | some ((limOff, limCnt), rest) =>
      some (.select distinct items from_ where_ groupBy having trig orderBy limOff limCnt, rest)
  else none

/-- `cte`: `table_alias AS ( select_statement )` -/
def parseCte : P Sel := fun ts =>
  match ts with
  | t :: a :: l :: rest =>
    match aliasOf t with
    | none => none
    | some n =>
      if a = Tok.kw .AS ∧ l = Tok.kw .LPAREN then
        match parseSubqueryBody prev rest with
        | some (s, rest') => some (.cte n s, rest')
        | none => none
      else none
  | _ => none

/-- `(, cte)*` then `comma_opt`: a comma followed by the start of a select statement is the optional comma -/
def cteTail : Nat → List Tok → Option (List Sel × List Tok)
  | 0, _ => none
  | _ + 1, [] => some ([], [])
  | m + 1, t :: ts =>
    if t = Tok.kw .COMMA then
      (if startsSelect ts then some ([], ts)
       else
        match parseCte prev ts with
        | none => none
        | some (c, ts') =>
          match cteTail m ts' with
          | none => none
          | some (cs, ts'') => some (c :: cs, ts''))
    else some ([], t :: ts)

/-- `select_statement` -/
def parseSelStmt : P Sel := fun ts =>
  if headIs .WITH ts then
    match parseCte prev ts.tail with
    | none => none
    | some (c, rest') =>
      match cteTail prev (ts.length + 1) rest' with
      | none => none
      | some (cs, rest'') =>
        match prev.sel rest'' with
        | some (s, rest3) => some (.with_ (c :: cs) s, rest3)
        | none => none
  else parseSelect prev ts

end level

/-- the parsers of nesting depth `n` -/
def parsers : Nat → Parsers
  | 0 => Parsers.fail
  | n + 1 =>
    let prev := parsers n
    ⟨parseExpr prev, parseVal prev, parseSelStmt prev, parseTableRef prev⟩

/-- `any_command: command semicolon_opt` restricted to select statements, with nesting fuel `n` -/
def parseStmtFuel (n : Nat) (ts : List Tok) : Option Sel :=
  match (parsers n).sel ts with
  | some (s, []) => some s
  | some (s, [t]) => if t = Tok.kw .SEMI then some s else none
  | _ => none

/-- `sqlparser.Parse` on the fragment -/
def parseStmt (ts : List Tok) : Option Sel := parseStmtFuel (ts.length + 1) ts

end Octo.SqlSyn
