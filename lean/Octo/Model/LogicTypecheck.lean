import Octo.Spec.Kleene
/-!
  Octo.Model.LogicTypecheck — how the logical layer assigns static types to boolean expressions
  (`logical/logical.go`: `Constant.Typecheck`, `Variable.Typecheck`, `And.Typecheck`, `Or.Typecheck`,
  `TypecheckExpression`; `logical/function.go`: `FunctionExpression.Typecheck` for `not`, `is null`, `is not null`),
  restricted to operands whose types are Boolean, NULL or NULL|Boolean.  On that fragment `Type.Is`, `TypeSum` and
  `NonNullable` take only the three values below, so the typechecker is modelled over the three-element domain `BTy`
  (validated by the `ltreeall` correspondence ops, which print the types the real typechecker assigned).
-/
namespace Octo.Logic
open Octo

/-- the static types that occur: `Boolean`, `NULL`, `TypeSum(Boolean, NULL)` = the union `[NULL, Boolean]` -/
inductive BTy where
  | b | n | bn
  deriving Repr, DecidableEq, Inhabited

def BTy.toTy : BTy → Ty
  | .b => .bool
  | .n => .null
  | .bn => .union [.null, .bool]

/-- `octosql.Null.Is(t) == TypeRelationIs` on the three types -/
def BTy.nullable : BTy → Bool
  | .b => false
  | _ => true

/-- the untyped (logical) boolean expression: `logical.Constant`, `Variable`, binary `And` / `Or`,
    `FunctionExpression{"not" | "is null" | "is not null"}` -/
inductive UTree where
  | const (t : Tri)
  | var (n : Nat)
  | and (l r : UTree)
  | or (l r : UTree)
  | not (a : UTree)
  | isNull (a : UTree)
  | isNotNull (a : UTree)
  deriving Repr, Inhabited

/-- Kleene value of a logical expression -/
def UTree.kleene (ρ : Nat → Tri) : UTree → Tri
  | .const t => t
  | .var n => ρ n
  | .and l r => and3 (l.kleene ρ) (r.kleene ρ)
  | .or l r => or3 (l.kleene ρ) (r.kleene ρ)
  | .not a => not3 (a.kleene ρ)
  | .isNull a => some (a.kleene ρ).isNone
  | .isNotNull a => some (a.kleene ρ).isSome

/-- `Typecheck` on the fragment; `none` = the typechecker panics (unknown variable, `unknown function: not(NULL)`).
    * constant: `value.Type()`;  variable: the schema field's type;
    * `And`/`Or`: both sides are checked against `Boolean | NULL` (each of the three types `Is` that, so no type
      assertion is inserted); output `Boolean`, or `TypeSum(Boolean, NULL)` if either side's type admits NULL;
    * `not` (strict, `[Boolean] → Boolean`): the argument type is made `NonNullable` first — `NULL` stays `NULL`, which
      is not `Boolean`, in both passes: no overload; otherwise output `Boolean`, plus NULL if the argument admits NULL;
    * `is null` / `is not null` (non-strict, `[Any] → Boolean`): always `Boolean`. -/
def typecheckU (Γ : List BTy) : UTree → Option (TTree × BTy)
  | .const t =>
    let ty := if t.isNone then BTy.n else BTy.b
    some (.const ty.toTy t, ty)
  | .var n =>
    match Γ[n]? with
    | some ty => some (.var ty.toTy n, ty)
    | none => none
  | .and l r =>
    match typecheckU Γ l, typecheckU Γ r with
    | some (tl, bl), some (tr, br) =>
      let ty := if bl.nullable || br.nullable then BTy.bn else BTy.b
      some (.and ty.toTy [tl, tr], ty)
    | _, _ => none
  | .or l r =>
    match typecheckU Γ l, typecheckU Γ r with
    | some (tl, bl), some (tr, br) =>
      let ty := if bl.nullable || br.nullable then BTy.bn else BTy.b
      some (.or ty.toTy [tl, tr], ty)
    | _, _ => none
  | .not a =>
    match typecheckU Γ a with
    | some (_, .n) => none
    | some (ta, ba) => some (.not ba.toTy ta, ba)
    | none => none
  | .isNull a =>
    match typecheckU Γ a with
    | some (ta, _) => some (.isNull BTy.b.toTy ta, .b)
    | none => none
  | .isNotNull a =>
    match typecheckU Γ a with
    | some (ta, _) => some (.isNotNull BTy.b.toTy ta, .b)
    | none => none

/-- every variable is one of the first `k` columns -/
def UTree.bound (k : Nat) : UTree → Bool
  | .const _ => true
  | .var n => decide (n < k)
  | .and l r => l.bound k && r.bound k
  | .or l r => l.bound k && r.bound k
  | .not a => a.bound k
  | .isNull a => a.bound k
  | .isNotNull a => a.bound k

/-- the static type SQL would give the expression (total; `NOT` keeps its operand's type) -/
def UTree.sqlType (Γ : List BTy) : UTree → BTy
  | .const t => if t.isNone then .n else .b
  | .var n => (Γ[n]?).getD .n
  | .and l r => if (l.sqlType Γ).nullable || (r.sqlType Γ).nullable then .bn else .b
  | .or l r => if (l.sqlType Γ).nullable || (r.sqlType Γ).nullable then .bn else .b
  | .not a => a.sqlType Γ
  | .isNull _ => .b
  | .isNotNull _ => .b

/-- the expression contains a `NOT` whose operand has static type exactly NULL (the NULL literal, a NULL-typed
    column, or NOT of one of those) — the witness class of finding `null-typed-operand-rejected` -/
def UTree.notOverNull (Γ : List BTy) : UTree → Bool
  | .const _ => false
  | .var _ => false
  | .and l r => l.notOverNull Γ || r.notOverNull Γ
  | .or l r => l.notOverNull Γ || r.notOverNull Γ
  | .not a => a.notOverNull Γ || a.sqlType Γ == .n
  | .isNull a => a.notOverNull Γ
  | .isNotNull a => a.notOverNull Γ

end Octo.Logic

/-! ### Comparisons of Int / NULL operands through `FunctionExpression.Typecheck` -/
namespace Octo.Logic
open Octo

/-- operand types that occur: `Int`, `NULL`, `TypeSum(Int, NULL)` = the union `[NULL, Int]` -/
inductive ITy where
  | i | n | ni
  deriving Repr, DecidableEq, Inhabited

def ITy.toTy : ITy → Ty
  | .i => .int
  | .n => .null
  | .ni => .union [.null, .int]

def ITy.nullable : ITy → Bool
  | .i => false
  | _ => true

/-- `octosql.NonNullable`: drops the NULL alternative of a union; a non-union (also plain `NULL`) is returned as is -/
def ITy.nonNullable : ITy → ITy
  | .ni => .i
  | t => t

inductive CmpOp where
  | lt | le | eq | ne | ge | gt
  deriving Repr, DecidableEq, Inhabited

def CmpOp.name : CmpOp → List Nat
  | .lt => nmLt | .le => nmLe | .eq => nmEq | .ne => nmNe | .ge => nmGe | .gt => nmGt

def CmpOp.fn : CmpOp → List Value → Res
  | .lt => fnLt | .le => fnLe | .eq => fnEq | .ne => fnNe | .ge => fnGe | .gt => fnGt

/-- what the operator says about two non-NULL integers -/
def CmpOp.holds : CmpOp → Int → Int → Bool
  | .lt, a, b => decide (a < b)
  | .le, a, b => decide (a ≤ b)
  | .eq, a, b => decide (a = b)
  | .ne, a, b => decide (a ≠ b)
  | .ge, a, b => decide (a ≥ b)
  | .gt, a, b => decide (a > b)

/-- `FunctionExpression.Typecheck` for `l ⋈ r`; `none` = "unknown function".
    All six descriptors are `Strict`, so the argument types are made `NonNullable` first.  `<`, `<=`, `>=`, `>` have a
    `TypeFn` that demands `types[0].Equals(types[1])` (and the second, `Maybe` pass skips `TypeFn` descriptors because
    their `ArgumentTypes` are empty); `=`, `!=` take `[Any, Any]`.  Output `Boolean`, plus NULL when an argument's
    (original) type admits NULL. -/
def typecheckCmp (op : CmpOp) (l r : ITy) : Option BTy :=
  let found := match op with
    | .eq => true
    | .ne => true
    | _ => l.nonNullable == r.nonNullable
  if found then some (if l.nullable || r.nullable then .bn else .b) else none

end Octo.Logic
