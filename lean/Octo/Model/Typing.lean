import Octo.Model.TyAlgebra
import Octo.Model.Coalesce
/-!
  Octo.Model.Typing — the static typing rules of octosql's logical layer and the evaluation of what they produce.

  Go                                                         | model
  -----------------------------------------------------------|------------------------------------------
  `logical.Expression` (Variable, Constant, FunctionExpression, And, Or, Coalesce, Tuple, TypeCast, ObjectFieldAccess) | `LExpr`
  `physical.Expression` (every node carries its static `Type`) | `PExpr`
  `logical.*.Typecheck` (panics on error)                    | `typecheck : Sig → Ctx → LExpr → Except TcErr PExpr`
  `FunctionExpression.Typecheck` (`logical/function.go`)     | `typecheckCall` = `exactPass`, `maybePass`/`wrapArgs`, `liftNull`
  `TypecheckExpression`, `TypecheckPossiblyNullableStruct`   | `checkExpected`, `possiblyNullableStruct`
  `GroupBy.Typecheck`, the aggregate loop (`logical/group_by.go`) | `aggTypecheck`
  `physical.Expression.Materialize` + `execution.*.Evaluate` | `materializable`, `eval`, `run`
  `nodes.SimpleGroupBy`: NULL inputs are skipped, an aggregate without input yields NULL | `aggRun`

  The code modelled is the CURRENT tree, i.e. after the `fix:` commits
  * "function overload resolution stops at the first overload that may fit" (the second loop `break`s),
  * "obj->field on a multi-alternative union read field 0" (Materialize takes the fields of `NonNullable(object type)`),
  * "aggregate overload resolution over nullable union arguments" (the maybe pass tests `NonNullable(type)` against the
    overload and asserts `ArgumentType | NULL`),
  * "overloads with a type function never match in the second resolution pass" (the maybe pass skips `TypeFn` descriptors).
  The shipped behaviour of the two C08 defects is kept as `fieldNamesRaw` / `aggMaybeRaw` for the refutation theorems.

  The function table is a parameter (`Sig`): descriptors (`ArgumentTypes`, `OutputType`, `Strict`, `TypeFn`) and bodies.
  Where Go panics the model returns `.panic` (run time) / `TcErr.crash` (typecheck); a `panic(fmt.Errorf(…))` of the
  typechecker is `TcErr.reject`.  `TcErr.fuel` = the fuel of the `TypeSum` model ran out (never on well-formed types).
-/
namespace Octo.Tc
open Octo Octo.Ty

/-- outcome of evaluating an expression on one record -/
inductive Res where
  | val (v : Value)
  /-- `Evaluate` returned an error -/
  | err
  /-- the Go code panics -/
  | panic
  /-- a function body that is not modelled (float arithmetic, regexp, clock, …) was reached -/
  | unmodelled
  deriving Repr, Inhabited

/-- how the typechecker can fail -/
inductive TcErr where
  /-- `panic(fmt.Errorf(...))`: the expression is refused -/
  | reject
  /-- a runtime error inside the typechecker (nil dereference of `TypeIntersection`'s result, …) -/
  | crash
  /-- model artefact: `TypeSum` fuel exhausted -/
  | fuel
  deriving Repr, DecidableEq, Inhabited

/-- `physical.FunctionDescriptor`. `typeFn` = `TypeFn`; its result `none` = fuel, `some none` = `(_, false)`. -/
structure Descr where
  args : List Ty
  out : Ty
  strict : Bool
  typeFn : Option (List Ty → Option (Option Ty))

/-- the function environment: `env.Functions` with the bodies (`FunctionDescriptor.Function`) -/
structure Sig where
  descrs : Name → List Descr
  body : Name → Nat → List Value → Res

/-- `logical.Expression` -/
inductive LExpr where
  | var (n : Nat)
  | const (v : Value)
  | call (name : Name) (args : List LExpr)
  | and (l r : LExpr)
  | or (l r : LExpr)
  | coalesce (args : List LExpr)
  | tuple (args : List LExpr)
  | cast (tid : Nat) (e : LExpr)
  | field (name : Name) (e : LExpr)
  deriving Repr, Inhabited

/-- `physical.Expression`: the first argument of every constructor is `Expression.Type` -/
inductive PExpr where
  | var (ty : Ty) (n : Nat)
  | const (ty : Ty) (v : Value)
  /-- `FunctionCall{Name, Arguments, FunctionDescriptor}`: the descriptor is `(name, idx)`, `strict` its `Strict` flag -/
  | call (ty : Ty) (name : Name) (idx : Nat) (strict : Bool) (args : List PExpr)
  | and (ty : Ty) (args : List PExpr)
  | or (ty : Ty) (args : List PExpr)
  | coalesce (ty : Ty) (args : List PExpr)
  | tuple (ty : Ty) (args : List PExpr)
  | assert (ty : Ty) (target : Ty) (e : PExpr)
  | cast (ty : Ty) (tid : Nat) (e : PExpr)
  | field (ty : Ty) (name : Name) (e : PExpr)
  deriving Repr, Inhabited

def PExpr.ty : PExpr → Ty
  | .var t _ | .const t _ | .call t _ _ _ _ | .and t _ | .or t _ | .coalesce t _ | .tuple t _
  | .assert t _ _ | .cast t _ _ | .field t _ _ => t

/-- `env.VariableContext`: the record schemas, innermost first; a field is (unique name, type) -/
abbrev Ctx := List (List (Nat × Ty))

/-- `octosql.Null.Is(t) == TypeRelationIs` -/
def admitsNull (t : Ty) : Bool := Ty.null.is t == .is

/-- `TypeSum(Boolean, Null)` (see `boolNull_eq`) -/
def boolNull : Ty := .union [.null, .bool]

/-! ### Variable -/

def lookupField (n : Nat) : List (Nat × Ty) → Option Ty
  | [] => none
  | (m, t) :: fs => if m = n then some t else lookupField n fs

/-- `Variable.Typecheck`: the first field of that name, contexts searched inside out -/
def lookupVar (n : Nat) : Ctx → Option Ty
  | [] => none
  | c :: cs => match lookupField n c with
    | some t => some t
    | none => lookupVar n cs

/-! ### FunctionExpression.Typecheck -/

/-- `for i := range argTypes { if argTypes[i].Is(descriptor.ArgumentTypes[i]) < TypeRelationIs { continue descriptorLoop } }`
    (lengths already known to be equal) -/
def fitsAll : List Ty → List Ty → Bool
  | a :: as, p :: ps => (a.is p == .is) && fitsAll as ps
  | _, _ => true

/-- the argument types a descriptor is matched against: `NonNullable` ones for a `Strict` descriptor -/
def view (d : Descr) (tys nn : List Ty) : List Ty := if d.strict then nn else tys

/-- first loop over the descriptors: there is no `break`, the LAST descriptor that fits exactly wins.
    The accumulator is `(descriptor, index, output type)`. -/
def exactPass (tys nn : List Ty) : List (Descr × Nat) → Option (Descr × Nat × Ty) → Except TcErr (Option (Descr × Nat × Ty))
  | [], acc => .ok acc
  | (d, i) :: rest, acc =>
    match d.typeFn with
    | some f =>
      match f (view d tys nn) with
      | none => .error .fuel
      | some (some o) => exactPass tys nn rest (some (d, i, o))
      | some none => exactPass tys nn rest acc
    | none =>
      if (view d tys nn).length ≠ d.args.length then exactPass tys nn rest acc
      else if fitsAll (view d tys nn) d.args then exactPass tys nn rest (some (d, i, d.out))
      else exactPass tys nn rest acc

/-- does some argument certainly not fit? (`rel < TypeRelationMaybe → continue descriptorLoop2`) -/
def anyIsnt : List Ty → List Ty → Bool
  | a :: as, p :: ps => (a.is p == .isnt) || anyIsnt as ps
  | _, _ => false

/-- the static type and target of the `TypeAssertion` inserted for an argument of type `t` that only may have the
    parameter type `p`: target `p` (`TypeSum(p, Null)` for a strict descriptor), type `*TypeIntersection(target, t)` -/
def assertion (strict : Bool) (p : Ty) (a : PExpr) : Except TcErr PExpr :=
  match (if strict then typeSum p .null else some p) with
  | none => .error .fuel
  | some target =>
    match typeInter target a.ty with
    | none => .error .fuel
    | some none => .error .crash          -- nil pointer dereference
    | some (some t) => .ok (.assert t target a)

/-- the loop that wraps the arguments that only may fit.  `vs` are the types the relation was computed on
    (`NonNullable` for strict descriptors), the intersection is taken with the argument's own type. -/
def wrapArgs (strict : Bool) : List Ty → List Ty → List PExpr → Except TcErr (List PExpr)
  | v :: vs, p :: ps, a :: as =>
    if v.is p == .maybe then
      match assertion strict p a, wrapArgs strict vs ps as with
      | .ok a', .ok as' => .ok (a' :: as')
      | .error e, _ => .error e
      | _, .error e => .error e
    else
      match wrapArgs strict vs ps as with
      | .ok as' => .ok (a :: as')
      | .error e => .error e
  | _, _, as => .ok as

/-- second loop (only when nothing fits exactly): the FIRST descriptor that may fit; `TypeFn` descriptors are skipped. -/
def maybePass (args : List PExpr) (tys nn : List Ty) : List (Descr × Nat) → Except TcErr (Option (Descr × Nat × List PExpr))
  | [] => .ok none
  | (d, i) :: rest =>
    if d.typeFn.isSome then maybePass args tys nn rest
    else if (view d tys nn).length ≠ d.args.length then maybePass args tys nn rest
    else if anyIsnt (view d tys nn) d.args then maybePass args tys nn rest
    else
      match wrapArgs d.strict (view d tys nn) d.args args with
      | .ok args' => .ok (some (d, i, args'))
      | .error e => .error e

/-- `if Null.Is(argument.Type) == Is { out.Type = TypeSum(out.Type, Null) }` for every argument -/
def liftNull (out : Ty) : List PExpr → Except TcErr Ty
  | [] => .ok out
  | a :: as =>
    if admitsNull a.ty then
      match typeSum out .null with
      | some o => liftNull o as
      | none => .error .fuel
    else liftNull out as

/-- the tail of `FunctionExpression.Typecheck`: the output type of a strict call admits NULL when an argument does -/
def finishCall (name : Name) (d : Descr) (i : Nat) (o : Ty) (args : List PExpr) : Except TcErr PExpr :=
  if d.strict then
    match liftNull o args with
    | .ok t => .ok (.call t name i true args)
    | .error e => .error e
  else .ok (.call o name i false args)

def zipIdx {α} (l : List α) (i : Nat := 0) : List (α × Nat) :=
  match l with
  | [] => []
  | x :: xs => (x, i) :: zipIdx xs (i + 1)

/-- `FunctionExpression.Typecheck`, the arguments already typechecked -/
def typecheckCall (S : Sig) (name : Name) (args : List PExpr) : Except TcErr PExpr :=
  let tys := args.map PExpr.ty
  let nn := tys.map nonNullable
  let ds := zipIdx (S.descrs name)
  match exactPass tys nn ds none with
  | .error e => .error e
  | .ok (some (d, i, o)) => finishCall name d i o args
  | .ok none =>
    match maybePass args tys nn ds with
    | .error e => .error e
    | .ok (some (d, i, args')) => finishCall name d i d.out args'
    | .ok none => .error .reject           -- "unknown function"

/-! ### TypecheckExpression, And / Or -/

/-- `TypecheckExpression(expected, e)` on the typechecked `e` -/
def checkExpected (expected : Ty) (p : PExpr) : Except TcErr PExpr :=
  match p.ty.is expected with
  | .isnt => .error .reject
  | .maybe =>
    match typeInter expected p.ty with
    | none => .error .fuel
    | some none => .error .crash
    | some (some t) => .ok (.assert t expected p)
  | .is => .ok p

/-- output type of `And` / `Or` -/
def logicTy (l r : PExpr) : Ty := if admitsNull l.ty || admitsNull r.ty then boolNull else .bool

/-! ### TypeCast, ObjectFieldAccess -/

/-- `for _, alternative := range Union.Alternatives { if alternative.TypeID == targetTypeID { … break } }` -/
def findAltById (tid : Nat) : List Ty → Option Ty
  | [] => none
  | a :: as => if a.id = tid then some a else findAltById tid as

def typecheckCast (tid : Nat) (p : PExpr) : Except TcErr PExpr :=
  match p.ty with
  | .union alts =>
    match findAltById tid alts with
    | none => .error .reject
    | some alt =>
      match typeSum alt .null with
      | some t => .ok (.cast t tid p)
      | none => .error .fuel
  | _ => .error .reject

/-- `TypecheckPossiblyNullableStruct`: the object itself when its non-NULL part is an object type; an assertion to
    the (unsorted) union `[object alternative, NULL]` when it is a union with an object alternative -/
def possiblyNullableStruct (p : PExpr) : Except TcErr PExpr :=
  match nonNullable p.ty with
  | .struct _ _ => .ok p
  | .union alts =>
    match findAltById 8 alts with
    | some s => .ok (.assert (.union [s, .null]) (.union [s, .null]) p)
    | none => .error .reject
  | _ => .error .reject

/-- index of the first field called `n` -/
def fieldIndex (n : Name) : List Name → Option Nat
  | [] => none
  | m :: ms => if m = n then some 0 else (fieldIndex n ms).map (· + 1)

def isStructTy : Ty → Bool | .struct _ _ => true | _ => false

/-- `ObjectFieldAccess.Typecheck` on the result of `TypecheckPossiblyNullableStruct` -/
def typecheckField (name : Name) (obj : PExpr) : Except TcErr PExpr :=
  match nonNullable obj.ty with
  | .struct ns ts =>
    match fieldIndex name ns with
    | none => .error .reject
    | some i =>
      match ts[i]? with
      | none => .error .crash               -- unreachable: names and types are parallel
      | some ft =>
        if isStructTy obj.ty then .ok (.field ft name obj)
        else match typeSum ft .null with
          | some t => .ok (.field t name obj)
          | none => .error .fuel
  | _ => .error .reject                      -- `Struct.Fields` of a non-object type is empty

/-- `outputType = exprs[0].Type; for exprs[1:] { outputType = TypeSum(outputType, expr.Type) }` -/
def coalesceTy : Ty → List PExpr → Except TcErr Ty
  | t, [] => .ok t
  | t, a :: as =>
    match typeSum t a.ty with
    | some s => coalesceTy s as
    | none => .error .fuel

/-! ### Typecheck -/
mutual
/-- `Expression.Typecheck` -/
def typecheck (S : Sig) (Γ : Ctx) : LExpr → Except TcErr PExpr
  | .var n =>
    match lookupVar n Γ with
    | some t => .ok (.var t n)
    | none => .error .reject
  | .const v =>
    match v.typeOf with
    | some t => .ok (.const t v)
    | none => .error .fuel
  | .call name args =>
    match typecheckList S Γ args with
    | .ok ps => typecheckCall S name ps
    | .error e => .error e
  | .and l r =>
    match typecheck S Γ l with
    | .error e => .error e
    | .ok pl =>
      match checkExpected boolNull pl with
      | .error e => .error e
      | .ok pl' =>
        match typecheck S Γ r with
        | .error e => .error e
        | .ok pr =>
          match checkExpected boolNull pr with
          | .error e => .error e
          | .ok pr' => .ok (.and (logicTy pl' pr') [pl', pr'])
  | .or l r =>
    match typecheck S Γ l with
    | .error e => .error e
    | .ok pl =>
      match checkExpected boolNull pl with
      | .error e => .error e
      | .ok pl' =>
        match typecheck S Γ r with
        | .error e => .error e
        | .ok pr =>
          match checkExpected boolNull pr with
          | .error e => .error e
          | .ok pr' => .ok (.or (logicTy pl' pr') [pl', pr'])
  | .coalesce args =>
    match args with
    | [] => .error .reject                   -- "COALESCE must be provided at least 1 argument"
    | _ =>
      match typecheckList S Γ args with
      | .error e => .error e
      | .ok [] => .error .crash
      | .ok (p :: ps) =>
        match coalesceTy p.ty ps with
        | .ok t => .ok (.coalesce t (p :: ps))
        | .error e => .error e
  | .tuple args =>
    match typecheckList S Γ args with
    | .ok ps => .ok (.tuple (.tuple (ps.map PExpr.ty)) ps)
    | .error e => .error e
  | .cast tid e =>
    match typecheck S Γ e with
    | .ok p => typecheckCast tid p
    | .error e => .error e
  | .field name e =>
    match typecheck S Γ e with
    | .error e => .error e
    | .ok p =>
      match possiblyNullableStruct p with
      | .ok obj => typecheckField name obj
      | .error e => .error e
def typecheckList (S : Sig) (Γ : Ctx) : List LExpr → Except TcErr (List PExpr)
  | [] => .ok []
  | e :: es =>
    match typecheck S Γ e with
    | .error err => .error err
    | .ok p =>
      match typecheckList S Γ es with
      | .ok ps => .ok (p :: ps)
      | .error err => .error err
end

/-- the static type the typechecker reports (`--describe`) -/
def typeOf (S : Sig) (Γ : Ctx) (e : LExpr) : Except TcErr Ty := (typecheck S Γ e).map PExpr.ty

/-! ### Materialize + Evaluate -/

def indexOfField (n : Nat) : List (Nat × Ty) → Option Nat
  | [] => none
  | (m, _) :: fs => if m = n then some 0 else (indexOfField n fs).map (· + 1)

/-- `Materialize` of a variable finds `(level, index)` of the first field of that name; `Variable.Evaluate` walks
    `level` parents and indexes the record.  A name that is nowhere ends with a nil context: panic. -/
def evalVar (n : Nat) : Ctx → List (List Value) → Res
  | c :: cs, vs :: vss =>
    match indexOfField n c with
    | some i => match vs[i]? with
      | some v => .val v
      | none => .panic
    | none => evalVar n cs vss
  | c :: cs, [] =>
    match indexOfField n c with
    | some _ => .panic
    | none => evalVar n cs []
  | [], _ => .panic

def boolField : Value → Bool
  | .bool b => b
  | _ => false

def isNullV : Value → Bool
  | .null => true
  | _ => false

/-- `expectedTypeIDs` of a `TypeAssertion` -/
def targetIds : Ty → List Nat
  | .union alts => alts.map Ty.id
  | t => [t.id]

/-- the field list `Materialize` looks the field up in: `NonNullable(object type).Struct.Fields` (current code) -/
def fieldNames (objTy : Ty) : List Name :=
  match nonNullable objTy with
  | .struct ns _ => ns
  | _ => []

/-- the same as shipped: `Object.Type.Struct.Fields`, for a union `Object.Type.Union.Alternatives[1].Struct.Fields`
    (`none` = index out of range) -/
def fieldNamesRaw (objTy : Ty) : Option (List Name) :=
  match objTy with
  | .union alts =>
    match alts[1]? with
    | some (Ty.struct ns _) => some ns
    | some _ => some []
    | none => none
  | .struct ns _ => some ns
  | _ => some []

/-- the NULL check of `FunctionCall.Evaluate` over `nullCheckIndices` = the arguments whose static type admits NULL -/
def nullHit : List PExpr → List Value → Bool
  | a :: as, v :: vs => (admitsNull a.ty && isNullV v) || nullHit as vs
  | _, _ => false

/-- `calculateMapping(target, source)` for every argument of a COALESCE (`NewObjectLayoutFixer`); `none` = panic -/
def layoutMappings (target : Ty) (args : List PExpr) : Option (List Coal.Mapping) :=
  args.mapM fun a => Coal.calcMapping (Ty.size target + Ty.size a.ty + 1) target a.ty

mutual
/-- can the expression be materialized without a panic? (only `NewObjectLayoutFixer` can panic) -/
def materializable : PExpr → Bool
  | .var _ _ => true
  | .const _ _ => true
  | .call _ _ _ _ args => materializableList args
  | .and _ args => materializableList args
  | .or _ args => materializableList args
  | .coalesce t args => materializableList args && (layoutMappings t args).isSome
  | .tuple _ args => materializableList args
  | .assert _ _ e => materializable e
  | .cast _ _ e => materializable e
  | .field _ _ e => materializable e
def materializableList : List PExpr → Bool
  | [] => true
  | p :: ps => materializable p && materializableList ps
end

mutual
/-- `Materialize(...).Evaluate(ctx)` of a materializable expression -/
def eval (S : Sig) (Γ : Ctx) (ρ : List (List Value)) : PExpr → Res
  | .var _ n => evalVar n Γ ρ
  | .const _ v => .val v
  | .call _ name idx strict args =>
    match evalArgs S Γ ρ args with
    | .error r => r
    | .ok vs =>
      if strict && nullHit args vs then .val .null
      else S.body name idx vs
  | .and _ args => evalAnd S Γ ρ false args
  | .or _ args => evalOr S Γ ρ false args
  | .coalesce t args =>
    match layoutMappings t args with
    | none => .panic
    | some ms => evalCoalesce S Γ ρ ms args
  | .tuple _ args =>
    match evalArgs S Γ ρ args with
    | .error r => r
    | .ok vs => .val (.tuple vs)
  | .assert _ target e =>
    match eval S Γ ρ e with
    | .val v => if (targetIds target).contains v.rank then .val v else .err
    | r => r
  | .cast _ tid e =>
    match eval S Γ ρ e with
    | .val v => if v.rank ≠ tid then .val .null else .val v
    | r => r
  | .field _ name e =>
    match eval S Γ ρ e with
    | .val .null => .val .null
    | .val (.struct xs) =>
      match xs[((fieldIndex name (fieldNames e.ty)).getD 0)]? with
      | some x => .val x
      | none => .panic
    | .val _ => .panic                       -- `object.Struct` of a non-object is nil
    | r => r
/-- the argument loop of `FunctionCall.Evaluate` / `Tuple.Evaluate`: the first failure is returned -/
def evalArgs (S : Sig) (Γ : Ctx) (ρ : List (List Value)) : List PExpr → Except Res (List Value)
  | [] => .ok []
  | a :: as =>
    match eval S Γ ρ a with
    | .val v =>
      match evalArgs S Γ ρ as with
      | .ok vs => .ok (v :: vs)
      | .error r => .error r
    | r => .error r
/-- `And.Evaluate` -/
def evalAnd (S : Sig) (Γ : Ctx) (ρ : List (List Value)) (nullEncountered : Bool) : List PExpr → Res
  | [] => if nullEncountered then .val .null else .val (.bool true)
  | a :: as =>
    match eval S Γ ρ a with
    | .val v =>
      if isNullV v then evalAnd S Γ ρ true as
      else if !boolField v then .val v
      else evalAnd S Γ ρ nullEncountered as
    | r => r
/-- `Or.Evaluate` -/
def evalOr (S : Sig) (Γ : Ctx) (ρ : List (List Value)) (nullEncountered : Bool) : List PExpr → Res
  | [] => if nullEncountered then .val .null else .val (.bool false)
  | a :: as =>
    match eval S Γ ρ a with
    | .val v =>
      if boolField v then .val v
      else evalOr S Γ ρ (nullEncountered || isNullV v) as
    | r => r
/-- `Coalesce.Evaluate`: the first non-NULL argument, its layout fixed with the mapping of its position -/
def evalCoalesce (S : Sig) (Γ : Ctx) (ρ : List (List Value)) : List Coal.Mapping → List PExpr → Res
  | m :: ms, a :: as =>
    match eval S Γ ρ a with
    | .val v =>
      if isNullV v then evalCoalesce S Γ ρ ms as
      else match Coal.fixLayout (Coal.fuelFor v) m v with
        | some r => .val r
        | none => .panic
    | r => r
  | _, _ => .val .null
end

/-- `Materialize`, then `Evaluate` -/
def run (S : Sig) (Γ : Ctx) (ρ : List (List Value)) (p : PExpr) : Res :=
  if materializable p then eval S Γ ρ p else .panic

/-! ### Aggregates (`logical/group_by.go`) -/

/-- `physical.AggregateDescriptor` -/
structure AggDescr where
  arg : Ty
  out : Ty
  typeFn : Option (Ty → Option Ty)

/-- `if Null.Is(exprType) == Is { outputType = TypeSum(outputType, Null) }` -/
def aggLift (exprTy out : Ty) : Except TcErr Ty :=
  if admitsNull exprTy then
    match typeSum out .null with
    | some o => .ok o
    | none => .error .fuel
  else .ok out

/-- first loop: the FIRST descriptor that fits exactly (`continue aggregateLoop`); result = (index, output type) -/
def aggExact (t : Ty) : List (AggDescr × Nat) → Except TcErr (Option (Nat × Ty))
  | [] => .ok none
  | (d, i) :: rest =>
    match d.typeFn with
    | some f =>
      match f t with
      | some o => (aggLift t o).map fun o' => some (i, o')
      | none => aggExact t rest
    | none =>
      match typeSum d.arg .null with
      | none => .error .fuel
      | some an =>
        if t.is an == .is then (aggLift t d.out).map fun o' => some (i, o')
        else aggExact t rest

/-- second loop (current code): the first descriptor whose argument type the NON-NULL part of the expression type may
    have; the expression is asserted to `ArgumentType | NULL`; result = (index, asserted expression, output type) -/
def aggMaybe (p : PExpr) : List (AggDescr × Nat) → Except TcErr (Option (Nat × PExpr × Ty))
  | [] => .ok none
  | (d, i) :: rest =>
    if (nonNullable p.ty).is d.arg == .maybe then
      match typeSum d.arg .null with
      | none => .error .fuel
      | some target =>
        match typeInter target p.ty with
        | none => .error .fuel
        | some none => .error .crash
        | some (some at') => (aggLift at' d.out).map fun o => some (i, .assert at' target p, o)
    else aggMaybe p rest

/-- second loop as shipped: the whole expression type is tested against `ArgumentType | NULL` (a NULL alternative alone
    makes every overload "maybe" fit) and the assertion target is `ArgumentType` without NULL -/
def aggMaybeRaw (p : PExpr) : List (AggDescr × Nat) → Except TcErr (Option (Nat × PExpr × Ty))
  | [] => .ok none
  | (d, i) :: rest =>
    match typeSum d.arg .null with
    | none => .error .fuel
    | some an =>
      if p.ty.is an == .maybe then
        match typeInter an p.ty with
        | none => .error .fuel
        | some none => .error .crash
        | some (some at') => (aggLift at' d.out).map fun o => some (i, .assert at' d.arg p, o)
      else aggMaybeRaw p rest

/-- the aggregate loop of `GroupBy.Typecheck` for one aggregate over the typechecked expression `p` -/
def aggTypecheck (ds : List AggDescr) (p : PExpr) : Except TcErr (Nat × PExpr × Ty) :=
  match aggExact p.ty (zipIdx ds) with
  | .error e => .error e
  | .ok (some (i, o)) => .ok (i, p, o)
  | .ok none =>
    match aggMaybe p (zipIdx ds) with
    | .error e => .error e
    | .ok (some r) => .ok r
    | .ok none => .error .reject             -- "unknown aggregate"

def aggTypecheckRaw (ds : List AggDescr) (p : PExpr) : Except TcErr (Nat × PExpr × Ty) :=
  match aggExact p.ty (zipIdx ds) with
  | .error e => .error e
  | .ok (some (i, o)) => .ok (i, p, o)
  | .ok none =>
    match aggMaybeRaw p (zipIdx ds) with
    | .error e => .error e
    | .ok (some r) => .ok r
    | .ok none => .error .reject

/-- one group of `SimpleGroupBy` without retractions: the aggregated expression is evaluated on every record (the first
    failure ends the query), NULL inputs are skipped, no input at all yields NULL, otherwise the aggregate's `Trigger` -/
def aggRun (trigger : List Value → Res) : List Res → List Value → Res
  | [], acc => if acc.isEmpty then .val .null else trigger acc.reverse
  | .val v :: rest, acc => if isNullV v then aggRun trigger rest acc else aggRun trigger rest (v :: acc)
  | r :: _, _ => r

end Octo.Tc
