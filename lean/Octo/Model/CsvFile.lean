import Octo.Model.TyAlgebra
import Octo.Model.NumFuncs
/-!
  Octo.Model.CsvFile — the CSV/TSV datasource: schema inference (`datasources/csv/impl.go`, `Creator`) and
  per-cell parsing at execution (`datasources/csv/execution.go`, `Run`).  Core Lean only.

  `encoding/csv` (quoting, separators, line ends) is a trusted library: the model starts from the rows of cells the
  decoder returns.  The two integer parsers are modelled exactly (`Num.parseInt` = `strconv.ParseInt(s, 10, 64)`,
  `fastInt` = `fastfloat.ParseInt64`), `strconv.ParseBool` too; the float parsers (`strconv.ParseFloat`,
  `fastfloat.Parse`) and `time.Parse(RFC3339Nano, ·)` are *oracles*: every cell carries what these library
  functions answer for its text (`none` = error).  Theorems quantify over all oracles.

  Go (impl.go)                                                   | model
  ---------------------------------------------------------------|----------------------------
  `str == ""` / ParseInt / ParseFloat / ParseBool / time.Parse   | `inferKind`
  `filled[i]`, `fields[i]` and the widening rules                | `inferStep` on `Option Ty`
  `for i := 0; i < 100; i++ { row … }`                           | `inferRows` over `rows.take 100`
  `fieldNames[i] = fmt.Sprintf("column_%d", i)`                  | `columnName`
  a header that repeats a column name is an error                 | `hasDupName`
  Go (execution.go, after the repair)                            |
  the cascade `Int.Is(type) … Float.Is(type) … NewString(str)`   | `cellExec`;  before the repair: `cellExecRaw`
-/
namespace Octo.Files
open Octo

structure Cell where
  s : List UInt8
  pf : Option Nat      -- strconv.ParseFloat(s, 64): the bits, none = error
  ff : Option Nat      -- fastfloat.Parse(s)
  tm : Option Int      -- time.Parse(time.RFC3339Nano, s): UnixNano
  deriving Repr, DecidableEq

/-- `strconv.ParseBool` -/
def parseBool (s : List UInt8) : Option Bool :=
  if s = [49] ∨ s = [116] ∨ s = [84] ∨ s = [84, 82, 85, 69] ∨ s = [116, 114, 117, 101] ∨ s = [84, 114, 117, 101] then some true
  else if s = [48] ∨ s = [102] ∨ s = [70] ∨ s = [70, 65, 76, 83, 69] ∨ s = [102, 97, 108, 115, 101] ∨ s = [70, 97, 108, 115, 101] then some false
  else none

/-- `strconv.ParseInt(s, 10, 64)` -/
abbrev strconvInt (s : List UInt8) : Option Int := Num.parseInt s

def isDigitB (c : UInt8) : Bool := 48 ≤ c.toNat && c.toNat ≤ 57

/-- the digit loop of `fastfloat.ParseInt64`: `i` is the index reached (it starts after a minus sign), `j` the
    index at which the digits started, `d` the accumulator, the list is `s[i:]`.
    `if i > 18 { return strconv.ParseInt(s, 10, 64) }` falls back to the slow parser on the whole string. -/
def fastIntLoop (s : List UInt8) (minus : Bool) (j : Nat) : Nat → Int → List UInt8 → Option Int
  | i, d, c :: cs =>
    if isDigitB c then
      let d' := d * 10 + ((c.toNat - 48 : Nat) : Int)
      if i + 1 > 18 then Num.parseInt s
      else fastIntLoop s minus j (i + 1) d' cs
    else
      -- break; `i <= j`: no digits; otherwise an unparsed tail is left
      none
  | i, d, [] => if i ≤ j then none else some (if minus then -d else d)

/-- `fastfloat.ParseInt64` -/
def fastInt (s : List UInt8) : Option Int :=
  match s with
  | [] => none
  | c :: rest =>
    if c = 45 then
      (if rest.isEmpty then none else fastIntLoop s true 1 1 0 rest)
    else fastIntLoop s false 0 0 0 s

inductive Kind where
  | null | int | float | bool | time | str
  deriving Repr, DecidableEq

def Kind.ty : Kind → Ty
  | .null => .null | .int => .int | .float => .float | .bool => .bool | .time => .time | .str => .str

/-- the cascade of `Creator`: which branch a cell takes -/
def inferKind (c : Cell) : Kind :=
  if c.s = [] then .null
  else if (strconvInt c.s).isSome then .int
  else if c.pf.isSome then .float
  else if (parseBool c.s).isSome then .bool
  else if c.tm.isSome then .time
  else .str

/-- one cell updates `filled[i]`/`fields[i]` (`none` = not filled yet).  Outer `none`: `TypeSum` out of fuel. -/
def inferStep (st : Option Ty) (c : Cell) : Option (Option Ty) :=
  match st with
  | none => some (some (inferKind c).ty)
  | some t =>
    match inferKind c with
    | .null => if !t.equals .null then (Ty.typeSum t .null).map some else some (some t)
    | .int => if !t.equals .float then (Ty.typeSum t .int).map some else some (some t)
    | .float => if t.equals .int then some (some .float) else (Ty.typeSum t .float).map some
    | .bool => (Ty.typeSum t .bool).map some
    | .time => (Ty.typeSum t .time).map some
    | .str => (Ty.typeSum t .str).map some

/-- `for i := range row { … }` over the column states -/
def inferRow : List (Option Ty) → List Cell → Option (List (Option Ty))
  | st :: sts, c :: cs =>
    match inferStep st c, inferRow sts cs with
    | some st', some sts' => some (st' :: sts')
    | _, _ => none
  | sts, _ => some sts

def inferRows : List (Option Ty) → List (List Cell) → Option (List (Option Ty))
  | sts, [] => some sts
  | sts, r :: rs =>
    match inferRow sts r with
    | some sts' => inferRows sts' rs
    | none => none

/-- a column that never saw a cell keeps the zero `octosql.Type{}`, whose TypeID is Null -/
def finalTy : Option Ty → Ty
  | none => .null
  | some t => t

/-- decimal digits of a natural number -/
def natDigits (n : Nat) : List Nat := (Nat.toDigits 10 n).map (·.toNat)

/-- `fmt.Sprintf("column_%d", i)` -/
def columnName (i : Nat) : Name := [99, 111, 108, 117, 109, 110, 95] ++ natDigits i

/-- number of rows the schema inference looks at -/
def previewRows : Nat := 100

structure CsvFile where
  header : Option (List Name)
  rows : List (List Cell)

/-- `FieldsPerRecord = 0`: every record must have as many fields as the first one (`ErrFieldCount` otherwise) -/
def firstRagged (ncols : Nat) : Nat → List (List Cell) → Option Nat
  | _, [] => none
  | i, r :: rs => if r.length ≠ ncols then some i else firstRagged ncols (i + 1) rs

def CsvFile.ncols (f : CsvFile) : Nat :=
  match f.header with
  | some h => h.length
  | none => (f.rows.head?.map List.length).getD 0

inductive CreateRes where
  | error
  | fuel
  | ok (names : List Name) (tys : List Ty)
  deriving Repr

/-- `if seen[fieldName] { return … "duplicate column name in csv header" }` -/
def hasDupName : List Name → Bool
  | [] => false
  | n :: ns => ns.contains n || hasDupName ns

def CsvFile.dupHeader (f : CsvFile) : Bool :=
  match f.header with
  | some h => hasDupName h
  | none => false

/-- `Creator`: names and inferred types -/
def csvCreate (f : CsvFile) : CreateRes :=
  let n := f.ncols
  let preview := f.rows.take previewRows
  if f.dupHeader then .error
  else if (firstRagged n 0 preview).isSome then .error
  else
    let names := match f.header with
      | some h => h
      | none => if f.rows.isEmpty then [] else (List.range n).map columnName
    match inferRows (List.replicate names.length none) preview with
    | none => .fuel
    | some sts => .ok names (sts.map finalTy)

/-- the cell cascade of `Run` after the repair; `none` = the error "doesn't match its inferred type" -/
def cellExec (t : Ty) (c : Cell) : Option Value :=
  if c.s = [] then (if Ty.null.is t = .is then some .null else none)
  else
    match (if Ty.int.is t = .is then (fastInt c.s).or (strconvInt c.s) else none) with
    | some i => some (.int i)
    | none =>
      match (if Ty.float.is t = .is then c.ff.or c.pf else none) with
      | some b => some (.float b)
      | none =>
        match (if Ty.bool.is t = .is then parseBool c.s else none) with
        | some b => some (.bool b)
        | none =>
          match (if Ty.time.is t = .is then c.tm else none) with
          | some ns => some (.time ns 0)
          | none => if Ty.str.is t = .is then some (.str c.s) else none

/-- the cascade before the repair: fastfloat only, empty is always NULL, everything else ends as a String -/
def cellExecRaw (t : Ty) (c : Cell) : Value :=
  if c.s = [] then .null
  else
    match (if Ty.int.is t = .is then fastInt c.s else none) with
    | some i => .int i
    | none =>
      match (if Ty.float.is t = .is then c.ff else none) with
      | some b => .float b
      | none =>
        match (if Ty.bool.is t = .is then parseBool c.s else none) with
        | some b => .bool b
        | none =>
          match (if Ty.time.is t = .is then c.tm else none) with
          | some ns => .time ns 0
          | none => .str c.s

def rowExec (exec : Ty → Cell → Option Value) : List Ty → List Cell → Option (List Value)
  | t :: ts, c :: cs =>
    match exec t c, rowExec exec ts cs with
    | some v, some vs => some (v :: vs)
    | _, _ => none
  | _, _ => some []

def rowsExec (exec : Ty → Cell → Option Value) (tys : List Ty) : List (List Cell) → Option (List (List Value))
  | [] => some []
  | r :: rs =>
    match rowExec exec tys r, rowsExec exec tys rs with
    | some v, some vs => some (v :: vs)
    | _, _ => none

/-- column pruning: the executing datasource gets the subset `schema.Fields` of the inferred schema (same order);
    `keep` is applied cyclically -/
def keepCols {α} (keep : List Bool) (l : List α) : List α :=
  if keep.isEmpty then l
  else (l.zipIdx.filter fun p => keep.getD (p.2 % keep.length) true).map (·.1)

inductive RunRes where
  | errCreate
  | fuel
  | errRun (names : List Name) (tys : List Ty)
  | ok (names : List Name) (tys : List Ty) (recs : List (List Value))
  deriving Repr

/-- Creator, then `Run` with the full inferred schema -/
def csvRun (f : CsvFile) : RunRes :=
  match csvCreate f with
  | .error => .errCreate
  | .fuel => .fuel
  | .ok names tys =>
    if (firstRagged f.ncols 0 f.rows).isSome then .errRun names tys
    else match rowsExec cellExec tys f.rows with
      | some recs => .ok names tys recs
      | none => .errRun names tys

/-- Creator, then `Run` with a pruned schema: `usedColumns` / `indicesToRead` select the cells of the kept columns -/
def csvRunKeep (keep : List Bool) (f : CsvFile) : RunRes :=
  match csvCreate f with
  | .error => .errCreate
  | .fuel => .fuel
  | .ok names tys =>
    let names' := keepCols keep names
    let tys' := keepCols keep tys
    if (firstRagged f.ncols 0 f.rows).isSome then .errRun names' tys'
    else match rowsExec cellExec tys' (f.rows.map (keepCols keep)) with
      | some recs => .ok names' tys' recs
      | none => .errRun names' tys'

/-! ### Specification for one cell -/

/-- `cellRepresents v c`: the value is what the cell's text denotes (for a number: under one of the parsers the
    datasource uses; NULL exactly for the empty cell) -/
def cellRepresents (v : Value) (c : Cell) : Bool :=
  match v with
  | .null => c.s.isEmpty
  | .int i => !c.s.isEmpty && (strconvInt c.s == some i || fastInt c.s == some i)
  | .float b => !c.s.isEmpty && (c.pf == some b || c.ff == some b)
  | .bool b => !c.s.isEmpty && parseBool c.s == some b
  | .time ns _ => !c.s.isEmpty && c.tm == some ns
  | .str s => !c.s.isEmpty && s == c.s
  | _ => false

/-- `cellFits t c`: some alternative of the column type accepts the cell -/
def cellFits (t : Ty) (c : Cell) : Bool :=
  if c.s.isEmpty then Ty.null.is t == .is
  else (Ty.int.is t == .is && ((fastInt c.s).isSome || (strconvInt c.s).isSome))
    || (Ty.float.is t == .is && (c.ff.isSome || c.pf.isSome))
    || (Ty.bool.is t == .is && (parseBool c.s).isSome)
    || (Ty.time.is t == .is && c.tm.isSome)
    || Ty.str.is t == .is

end Octo.Files
