/-!
  Octo.Model.StdinPreview — `execution/files/stdin.go`: data piped on stdin is read partly while the schema is
  inferred (any number of *preview* opens) and then once more by the executing datasource.  Core Lean only.

  Go                                                               | model
  -----------------------------------------------------------------|---------------------------------
  `previewedBuffer` (package level)                                | `StdinState.previewed`
  the bytes `os.Stdin` has not returned yet                        | `StdinState.unread`
  `openStdin(true)`: `MultiReader(bytes.NewReader(copy), &stdinPreviewingReader{})` | `previewSession`
  one `Read(p)` of that reader                                     | `previewRead` (request size, size the OS returns)
  `stdinPreviewingReader.Read`: `n = os.Stdin.Read(p); previewedBuffer.Write(p[:n])` | the `unread → previewed` move
  `openStdin(false)`: `MultiReader(bytes.NewReader(previewedBuffer.Bytes()), os.Stdin)` read to the end | `realOpen`

  A read is described by `(req, got)`: the caller offers a buffer of `req` bytes, and when the read reaches
  `os.Stdin` the OS returns `min (got+1) req` of the unread bytes, or what is left (a pipe returns at least one
  byte unless it is at EOF, and never more than asked for).  `io.MultiReader` serves a read from the replayed
  copy as long as the copy has bytes left (`bytes.Reader.Read` returns `min req remaining`).
-/
namespace Octo.Files

abbrev BytesS := List UInt8

structure StdinState where
  previewed : BytesS     -- previewedBuffer
  unread : BytesS        -- not yet returned by os.Stdin
  deriving Repr, DecidableEq

/-- one `Read` of a preview reader: `copy` is what is left of the replayed copy.
    Returns (bytes delivered to the caller, remaining copy, new state). -/
def previewRead (copy : BytesS) (st : StdinState) (req got : Nat) : BytesS × BytesS × StdinState :=
  if req = 0 then ([], copy, st)
  else if !copy.isEmpty then (copy.take req, copy.drop req, st)
  else
    let n := min (min (got + 1) req) st.unread.length
    (st.unread.take n, [], { previewed := st.previewed ++ st.unread.take n, unread := st.unread.drop n })

/-- the reads of one preview open, in order; returns everything delivered and the state when the reader is closed -/
def previewReads : BytesS → StdinState → List (Nat × Nat) → BytesS × StdinState
  | _, st, [] => ([], st)
  | copy, st, (req, got) :: rs =>
    let (d, copy', st') := previewRead copy st req got
    let (ds, st'') := previewReads copy' st' rs
    (d ++ ds, st'')

/-- `openStdin(true)` followed by the given reads and `Close` -/
def previewSession (st : StdinState) (reads : List (Nat × Nat)) : BytesS × StdinState :=
  previewReads st.previewed st reads

/-- any number of preview opens one after the other (only one reader may be open at a time) -/
def previewSessions : StdinState → List (List (Nat × Nat)) → StdinState
  | st, [] => st
  | st, s :: ss => previewSessions (previewSession st s).2 ss

/-- `openStdin(false)` read to EOF: the bytes the executing datasource receives -/
def realOpen (st : StdinState) : BytesS := st.previewed ++ st.unread

end Octo.Files
