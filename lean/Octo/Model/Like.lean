import Octo.Model.Regex
/-
  Octo.Model.Like — `like`, `~`, `~*` of `functions/functions.go`.

  `likeLoop` is the body of `likePatternToRegexp` verbatim (the `for _, r := range pattern` loop with its
  `escaping` flag and string builder), parameterised by the two things the repair changed: the
  `needsEscaping` predicate and the text written before the loop (`^` before, `(?s)^` after).
  The specification side (`likeTokens`, `tokMatch`, `likeSpec`) is independent of the translation.
-/
namespace Octo.Like
open Octo.Utf8 Octo.Rx

/-! ### the translation (implementation model) -/

/-- `needsEscaping` after the repair -/
def needsEscaping (r : Rune) : Bool :=
  r == cPlus || r == cStar || r == cPipe || r == cQuest || r == cLParen || r == cRParen || r == cLBrace ||
  r == cRBrace || r == cLBrack || r == cRBrack || r == cCaret || r == cDollar || r == cDot

/-- `needsEscaping` before the repair: `*` and `|` are missing -/
def needsEscapingRaw (r : Rune) : Bool :=
  r == cPlus || r == cQuest || r == cLParen || r == cRParen || r == cLBrace ||
  r == cRBrace || r == cLBrack || r == cRBrack || r == cCaret || r == cDollar || r == cDot

/-- text written before the loop -/
def prefixFixed : List Rune := [cLParen, cQuest, 115, cRParen, cCaret]    -- (?s)^
def prefixRaw : List Rune := [cCaret]                                      -- ^

inductive LikeErr where
  | invalidEscape     -- "escaping invalid character in LIKE pattern"
  | trailingEscape    -- "pattern ends with an escape character that doesn't escape anything"
  deriving Repr, DecidableEq

/-- the loop: `(escaping, sb)` over the runes of the pattern -/
def likeLoop (needs : Rune → Bool) : Bool → List Rune → List Rune → Except LikeErr (Bool × List Rune)
  | esc, sb, [] => .ok (esc, sb)
  | true, sb, r :: p =>
    if r != cUnderscore && r != cPercent && r != cBackslash then .error .invalidEscape
    else if r == cBackslash then likeLoop needs false (sb ++ [r, cBackslash]) p
    else likeLoop needs false (sb ++ [r]) p
  | false, sb, r :: p =>
    if r == cBackslash then likeLoop needs true sb p
    else if r == cUnderscore then likeLoop needs false (sb ++ [cDot]) p
    else if r == cPercent then likeLoop needs false (sb ++ [cDot, cStar]) p
    else if needs r then likeLoop needs false (sb ++ [cBackslash, r]) p
    else likeLoop needs false (sb ++ [r]) p

/-- the regexp text (runes) `likePatternToRegexp` builds for a pattern (runes), or its error -/
def likeRegexWith (needs : Rune → Bool) (pre : List Rune) (p : List Rune) : Except LikeErr (List Rune) :=
  match likeLoop needs false pre p with
  | .error e => .error e
  | .ok (esc, sb) => if esc then .error .trailingEscape else .ok (sb ++ [cDollar])

def likeRegex (p : List Rune) := likeRegexWith needsEscaping prefixFixed p
def likeRegexRaw (p : List Rune) := likeRegexWith needsEscapingRaw prefixRaw p

/-- the regexp text as the *string* handed to `regexp.Compile` (pattern given as a Go string) -/
def likeRegexText (p : Bytes) : Except LikeErr Bytes := (likeRegex (decodeAll p)).map encodeAll
def likeRegexTextRaw (p : Bytes) : Except LikeErr Bytes := (likeRegexRaw (decodeAll p)).map encodeAll

/-- outcome of a pattern-matching call -/
inductive RxOut where
  | ok (b : Bool)     -- the Boolean result
  | err               -- an `error` is returned (malformed LIKE pattern, regexp does not compile)
  | unmodelled        -- the regexp text is outside the sub-language of `Octo.Rx` (model is silent)
  deriving Repr, DecidableEq

/-- the regexp engine as far as it is modelled: `regexp.Compile` rejects text that is not valid UTF-8, otherwise
    compile = `parseRegex`, `MatchString` = `Pat.search`, both on the runes of the text / of the input as Go
    decodes them. -/
def miniEngine (rx s : Bytes) : RxOut :=
  if !validUtf8 rx then .err
  else match parseRegex (decodeAll rx) with
    | none => .unmodelled
    | some pat => .ok (pat.search (decodeAll s))

/-- `like(s, p)` over an engine -/
def likeWith (engine : Bytes → Bytes → RxOut) (s p : Bytes) : RxOut :=
  match likeRegexText p with
  | .error _ => .err
  | .ok rx => engine rx s

/-- `like` with the mini engine -/
def like (s p : Bytes) : RxOut := likeWith miniEngine s p

/-- `like` before the repair -/
def likeRaw (s p : Bytes) : RxOut :=
  match likeRegexTextRaw p with
  | .error _ => .err
  | .ok rx => miniEngine rx s

/-- `~` : compile the pattern as it is, `MatchString` on the input -/
def tildeWith (engine : Bytes → Bytes → RxOut) (s p : Bytes) : RxOut := engine p s

/-- the text `(?i)` -/
def flagI : Bytes := [40, 63, 105, 41]

/-- `~*` after the repair: compile `"(?i)" + pattern`, `MatchString` on the input as it is -/
def tildeStarWith (engine : Bytes → Bytes → RxOut) (s p : Bytes) : RxOut := engine (flagI ++ p) s

/-- `~*` before the repair: `strings.ToLower` on the pattern *and* on the input -/
def tildeStarRawWith (engine : Bytes → Bytes → RxOut) (toLower : Bytes → Bytes) (s p : Bytes) : RxOut :=
  engine (toLower p) (toLower s)

/-! ### the specification of LIKE -/

/-- what a LIKE pattern means, element by element -/
inductive Tok where
  | lit (c : Rune)   -- this character
  | one              -- `_` : any one character
  | many             -- `%` : any run of characters (also empty)
  deriving Repr, DecidableEq

/-- reading of a pattern: `\_`, `\%`, `\\` are the literal characters, `\` before anything else or at the
    end is malformed (`none`), `_` and `%` are the wildcards, every other character is itself -/
def likeTokens : List Rune → Option (List Tok)
  | [] => some []
  | c :: rest =>
    if c == cBackslash then
      match rest with
      | [] => none
      | d :: rest' =>
        if d == cUnderscore || d == cPercent || d == cBackslash then (likeTokens rest').map (.lit d :: ·)
        else none
    else if c == cUnderscore then (likeTokens rest).map (.one :: ·)
    else if c == cPercent then (likeTokens rest).map (.many :: ·)
    else (likeTokens rest).map (.lit c :: ·)

/-- `f` holds of some suffix of `s` -/
def anySuffix (f : List Rune → Bool) : List Rune → Bool
  | [] => f []
  | c :: s => f (c :: s) || anySuffix f s

/-- direct recursive matcher -/
def tokMatch : List Tok → List Rune → Bool
  | [], s => s.isEmpty
  | .lit c :: p, s => match s with
    | [] => false
    | d :: s' => c == d && tokMatch p s'
  | .one :: p, s => match s with
    | [] => false
    | _ :: s' => tokMatch p s'
  | .many :: p, s => anySuffix (tokMatch p) s

/-- LIKE on rune sequences: `none` = malformed pattern -/
def likeSpecRunes (p s : List Rune) : Option Bool := (likeTokens p).map (tokMatch · s)

/-- LIKE on Go strings: characters are the runes Go decodes (an invalid byte is U+FFFD) -/
def likeSpec (s p : Bytes) : Option Bool := likeSpecRunes (decodeAll p) (decodeAll s)

end Octo.Like
