/-
  Octo.Model.Value — the value universe of octosql (`octosql/values.go`), its order
  (`Value.Compare`) and its hash (`Value.hash`, FNV-1a as vendored in segmentio/fasthash).

  Modelling decisions (DESIGN.md §2.7):
  * Int / Duration are mathematical integers (the Int64 range is a side condition of the
    generators); Float is its IEEE-754 bit pattern (a `Nat` below 2^64) — only comparison and
    identity of floats are modelled, never arithmetic;
  * String is a list of bytes (Go's `<` on strings is bytewise);
  * Time is an instant (ns since the Unix epoch) plus a *location identity*, because parts of
    the engine compare `time.Time` structurally.
-/
namespace Octo

inductive Value where
  | null
  | int (i : Int)
  | float (bits : Nat)
  | bool (b : Bool)
  | str (bytes : List UInt8)
  | time (ns : Int) (loc : Nat)
  | dur (ns : Int)
  | list (xs : List Value)
  | struct (xs : List Value)
  | tuple (xs : List Value)
  deriving Repr, Inhabited

namespace Value

/-- `TypeID` of a concrete value; the iota order of `octosql/types.go` (checked against the
    generated `Octo.Gen.TypeIds`). -/
def rank : Value → Nat
  | .null => 0 | .int _ => 1 | .float _ => 2 | .bool _ => 3 | .str _ => 4
  | .time _ _ => 5 | .dur _ => 6 | .list _ => 7 | .struct _ => 8 | .tuple _ => 9

end Value

/-! ### IEEE-754 binary64 comparison on bit patterns -/
namespace F64

def signBit : Nat := 2^63
def expMask : Nat := 0x7FF0000000000000
def absMask : Nat := 0x7FFFFFFFFFFFFFFF

/-- magnitude bits (sign cleared) -/
def mag (b : Nat) : Nat := b % signBit
def neg (b : Nat) : Bool := b ≥ signBit
/-- NaN: exponent all ones and non-zero mantissa, i.e. magnitude above +Inf's pattern. -/
def isNaN (b : Nat) : Bool := mag b > expMask
/-- sign-magnitude integer key: for non-NaN patterns `x < y` (IEEE) iff `key x < key y`. -/
def key (b : Nat) : Int := if neg b then - (mag b : Int) else (mag b : Int)

/-- Go's `<` on float64 (false when either side is NaN; `-0 < +0` is false). -/
def lt (a b : Nat) : Bool := !isNaN a && !isNaN b && decide (key a < key b)

def posZero : Nat := 0
def negZero : Nat := signBit
def canonicalNaN : Nat := 0x7FF8000000000001

end F64

def cmpInt (a b : Int) : Int := if a < b then -1 else if a > b then 1 else 0
def cmpNat (a b : Nat) : Int := if a < b then -1 else if a > b then 1 else 0

/-- bytewise lexicographic comparison, shorter prefix first (Go's string `<`). -/
def cmpBytes : List UInt8 → List UInt8 → Int
  | [], [] => 0
  | [], _ :: _ => -1
  | _ :: _, [] => 1
  | x :: xs, y :: ys =>
    if x.toNat < y.toNat then -1 else if x.toNat > y.toNat then 1 else cmpBytes xs ys

/-- `Value.Compare`, Float case, as the code is written on the unchanged tree:
    `if a < b {-1} else if a > b {1} else {0}` — NaN compares equal to everything. -/
def cmpFloatRaw (a b : Nat) : Int :=
  if F64.lt a b then -1 else if F64.lt b a then 1 else 0

/-- `Value.Compare`, Float case after the repair (NaN equal to NaN and below every other float). -/
def cmpFloatFixed (a b : Nat) : Int :=
  match F64.isNaN a, F64.isNaN b with
  | true, true => 0
  | true, false => -1
  | false, true => 1
  | false, false => if F64.lt a b then -1 else if F64.lt b a then 1 else 0

mutual
/-- `Value.Compare` parameterised by the float comparison (so that both the shipped and the
    repaired code are instances of one definition). -/
def cmpWith (cf : Nat → Nat → Int) : Value → Value → Int
  | .null, .null => 0
  | .int a, .int b => cmpInt a b
  | .float a, .float b => cf a b
  | .bool a, .bool b => if a == b then 0 else if !a then -1 else 1
  | .str a, .str b => cmpBytes a b
  | .time a _, .time b _ => cmpInt a b
  | .dur a, .dur b => cmpInt a b
  | .list xs, .list ys => cmpListWith cf xs ys
  | .struct xs, .struct ys => cmpListWith cf xs ys
  | .tuple xs, .tuple ys => cmpListWith cf xs ys
  | a, b => if a.rank < b.rank then -1 else 1
/-- the element loop of the List/Struct/Tuple cases: first difference decides, the shorter
    sequence sorts first. -/
def cmpListWith (cf : Nat → Nat → Int) : List Value → List Value → Int
  | [], [] => 0
  | [], _ :: _ => -1
  | _ :: _, [] => 1
  | x :: xs, y :: ys =>
    let c := cmpWith cf x y
    if c != 0 then c else cmpListWith cf xs ys
end

/-! ### FNV-1a (segmentio/fasthash/fnv1a) -/
namespace Fnv
def offset64 : UInt64 := 14695981039346656037
def prime64 : UInt64 := 1099511628211
def addByte (h : UInt64) (b : UInt64) : UInt64 := (h ^^^ b) * prime64
/-- `fnv1a.AddUint64`: the eight bytes of `u`, most significant first. -/
def addUInt64 (h : UInt64) (u : UInt64) : UInt64 :=
  let h := addByte h ((u >>> 56) &&& 0xff)
  let h := addByte h ((u >>> 48) &&& 0xff)
  let h := addByte h ((u >>> 40) &&& 0xff)
  let h := addByte h ((u >>> 32) &&& 0xff)
  let h := addByte h ((u >>> 24) &&& 0xff)
  let h := addByte h ((u >>> 16) &&& 0xff)
  let h := addByte h ((u >>> 8) &&& 0xff)
  addByte h (u &&& 0xff)
def addBytes (h : UInt64) : List UInt8 → UInt64
  | [] => h
  | b :: bs => addBytes (addByte h b.toUInt64) bs
end Fnv

def u64OfInt (i : Int) : UInt64 := UInt64.ofInt i

/-- what the Float case feeds to the hash: the raw bit pattern on the unchanged tree … -/
def hashBitsRaw (b : Nat) : Nat := b
/-- … and the canonicalised one after the repair (one NaN, one zero). -/
def hashBitsFixed (b : Nat) : Nat :=
  if F64.isNaN b then F64.canonicalNaN else if F64.mag b = 0 then 0 else b

mutual
/-- `Value.hash`, parameterised by the float canonicalisation and by whether Struct/Tuple
    elements are hashed (`range value.List` in those cases hashes nothing on the unchanged tree). -/
def hashWith (fb : Nat → Nat) (deep : Bool) (h : UInt64) : Value → UInt64
  | .null => Fnv.addUInt64 h 0
  | .int i => Fnv.addUInt64 h (u64OfInt i)
  | .float b => Fnv.addUInt64 h (UInt64.ofNat (fb b))
  | .bool b => Fnv.addUInt64 h (if b then 1 else 0)
  | .str s => Fnv.addBytes h s
  | .time ns _ => Fnv.addUInt64 h (u64OfInt ns)
  | .dur ns => Fnv.addUInt64 h (u64OfInt ns)
  | .list xs => hashListWith fb deep h xs
  | .struct xs => if deep then hashListWith fb deep h xs else h
  | .tuple xs => if deep then hashListWith fb deep h xs else h
def hashListWith (fb : Nat → Nat) (deep : Bool) (h : UInt64) : List Value → UInt64
  | [] => h
  | x :: xs => hashListWith fb deep (hashWith fb deep h x) xs
end

end Octo

namespace Octo
mutual
def Value.size : Value → Nat
  | .list xs => 1 + Value.sizeList xs
  | .struct xs => 1 + Value.sizeList xs
  | .tuple xs => 1 + Value.sizeList xs
  | _ => 1
def Value.sizeList : List Value → Nat
  | [] => 0
  | x :: xs => Value.size x + Value.sizeList xs
end
end Octo

namespace Octo
mutual
/-- well-formed: every float is a 64-bit pattern -/
def Value.wf : Value → Bool
  | .float b => decide (b < 2^64)
  | .list xs => Value.wfList xs
  | .struct xs => Value.wfList xs
  | .tuple xs => Value.wfList xs
  | _ => true
def Value.wfList : List Value → Bool
  | [] => true
  | x :: xs => Value.wf x && Value.wfList xs
end
end Octo

namespace Octo
/-! ### The code as it stands in /repo (after `fix: make Value.Compare a total preorder …`) -/
/-- `Value.Compare` -/
abbrev cmp : Value → Value → Int := cmpWith cmpFloatFixed
abbrev cmpList : List Value → List Value → Int := cmpListWith cmpFloatFixed
/-- `Value.hash` (Struct/Tuple bodies range over `value.List`, i.e. hash nothing) -/
abbrev hashV : UInt64 → Value → UInt64 := hashWith hashBitsFixed false
/-- `Value.Hash` -/
def Value.hash (v : Value) : UInt64 := hashV Fnv.offset64 v
/-- `octosql.HashManyValues` -/
def hashMany (vs : List Value) : UInt64 := hashListWith hashBitsFixed false Fnv.offset64 vs
/-- `Value.Equal`: NULL is not equal to NULL -/
def Value.equal (a b : Value) : Bool :=
  match a, b with
  | .null, .null => false
  | _, _ => cmp a b == 0
/-- the code before the repair, kept for the refutation theorems and the violation search -/
abbrev cmpRaw : Value → Value → Int := cmpWith cmpFloatRaw
abbrev hashRaw : UInt64 → Value → UInt64 := hashWith hashBitsRaw false
end Octo

namespace Octo
/-- `execution.CompareValueSlices` (`GroupKey.Less`, and the same loop in `orderByItem.Less` / `outputItem.Less`):
    the first differing position decides by `comp == -1`; a proper prefix sorts first. -/
def lessRows : List Value → List Value → Bool
  | [], [] => false
  | [], _ :: _ => true
  | _ :: _, [] => false
  | x :: xs, y :: ys => let c := cmp x y; if c != 0 then c == -1 else lessRows xs ys
end Octo
