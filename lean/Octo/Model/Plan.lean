import Octo.Model.Value
import Octo.Model.Sql
/-!
  Octo.Model.Plan — physical plans (`physical.Node` / `physical.Expression`) and what they compute.

  Mirrors
  * `physical/nodes.go`, `physical/expression.go` (the node and expression kinds, `SplitByAnd`, `VariablesUsed`,
    `VariableNameMatchesField`, name resolution of `Expression.Materialize`: a variable is looked up by NAME
    through the chain of record schemas, innermost first);
  * `execution/expressions.go` (Variable, Constant, FunctionCall with NULL checks, And, Or, Coalesce, Tuple,
    TypeAssertion, TypeCast, ObjectFieldAccess);
  * `execution/nodes/{filter,map,distinct,unnest,limit,order_sensitive_transform,simple_group_by,stream_join,
    lookup_join,outer_join}.go` on batch (retraction-free) input.

  Records are association lists `field name ↦ value` in schema order.  Go executes positionally, with the positions
  computed from the *declared* schema of the child node; here every node checks that the records it hands to its
  parent carry exactly the field names of its declared schema (`checkNames`) — a declared schema that is out of
  step with the records (what `removeFieldFromPassers` must prevent) is a failure (`none`), as is every Go panic
  and every runtime error.

  To keep definitions and proofs uniform, nodes are grouped by arity (`leaf` / `un` / `bin`) with the node kind
  as payload, and expressions into `var` / `const` / n-ary / unary.
-/
namespace Octo.Plan
open Octo

/-! ### expressions -/

/-- n-ary expression kinds -/
inductive NK where
  | call (fn : String) | and | or | coalesce | tuple
  deriving Repr, DecidableEq, Inhabited

/-- unary expression kinds: TypeAssertion (the accepted type ids), TypeCast (target type id),
    ObjectFieldAccess (field name and the index `Materialize` computes) -/
inductive UK where
  | assert (ids : List Nat) | cast (id : Nat) | field (name : String) (idx : Nat)
  deriving Repr, DecidableEq, Inhabited

inductive PExpr where
  | var (name : String) (lvl0 : Bool)
  | const (v : Value)
  | nary (k : NK) (args : List PExpr)
  | unary (k : UK) (e : PExpr)
  deriving Repr, Inhabited

abbrev PExpr.and (args : List PExpr) : PExpr := .nary .and args
abbrev PExpr.call (fn : String) (args : List PExpr) : PExpr := .nary (.call fn) args

mutual
/-- `Expression.SplitByAnd` -/
def splitByAnd : PExpr → List PExpr
  | .nary .and args => splitByAndL args
  | e => [e]
def splitByAndL : List PExpr → List PExpr
  | [] => []
  | e :: es => splitByAnd e ++ splitByAndL es
end

mutual
/-- `Expression.VariablesUsed` (after `fix: VariablesUsed handles every expression kind`): a list instead of a set -/
def varsUsed : PExpr → List String
  | .var x _ => [x]
  | .const _ => []
  | .nary _ args => varsUsedL args
  | .unary _ e => varsUsed e
def varsUsedL : List PExpr → List String
  | [] => []
  | e :: es => varsUsed e ++ varsUsedL es
end

def countDots (s : String) : Nat := (s.toList.filter (· == '.')).length

def afterFirstDot (s : String) : String :=
  match s.toList.dropWhile (· != '.') with
  | [] => s          -- no dot: `fieldName[strings.Index(fieldName, ".")+1:]` = `fieldName[0:]`
  | _ :: rest => String.ofList rest

/-- `physical.VariableNameMatchesField` -/
def nameMatchesField (varName fieldName : String) : Bool :=
  varName == fieldName ||
    (countDots varName + 1 == countDots fieldName && afterFirstDot fieldName == varName)

/-- `optimizer.UsesVariablesFromSchema` -/
def usesVariablesFromSchema (fields : List String) (vars : List String) : Bool :=
  vars.any fun name => fields.any fun f => nameMatchesField name f

mutual
/-- `transformVariablesFromSchemaIntoNonLevel0` -/
def setNonLevel0 (fields : List String) : PExpr → PExpr
  | .var x l => if fields.any (· == x) then .var x false else .var x l
  | .const v => .const v
  | .nary k args => .nary k (setNonLevel0L fields args)
  | .unary k e => .unary k (setNonLevel0 fields e)
def setNonLevel0L (fields : List String) : List PExpr → List PExpr
  | [] => []
  | e :: es => setNonLevel0 fields e :: setNonLevel0L fields es
end

mutual
/-- the `ExpressionTypeVariable` case of `isUsed`'s usage checker -/
def exprUsesVar (field : String) : PExpr → Bool
  | .var x _ => x == field
  | .const _ => false
  | .nary _ args => exprUsesVarL field args
  | .unary _ e => exprUsesVar field e
def exprUsesVarL (field : String) : List PExpr → Bool
  | [] => false
  | e :: es => exprUsesVar field e || exprUsesVarL field es
end

/-! ### records, contexts, evaluation -/

abbrev Row := List (String × Value)
/-- the chain of records an expression sees: the current record first, then the enclosing ones -/
abbrev Ctx := List Row

def Row.names (r : Row) : List String := r.map Prod.fst
def Row.vals (r : Row) : List Value := r.map Prod.snd

def lookupRow (x : String) : Row → Option Value
  | [] => none
  | (k, v) :: r => if k == x then some v else lookupRow x r

/-- name resolution of `Expression.Materialize` + `Variable.Evaluate`: the first record of the chain that has
    the field; `none` when no record has it (Go: a nil dereference at run time) -/
def lookupVar (x : String) : Ctx → Option Value
  | [] => none
  | r :: rest =>
    match lookupRow x r with
    | some v => some v
    | none => lookupVar x rest

def isNull : Value → Bool
  | .null => true
  | _ => false

/-- the descriptors of `functions/functions.go` that are modelled; all of them but the NULL tests are `Strict`
    (NULL in, NULL out — `FunctionCall.Evaluate` checks before calling). `none`: runtime error / not modelled. -/
def applyFn (fn : String) (vs : List Value) : Option Value :=
  if fn == "is null" then
    match vs with | [v] => some (.bool (isNull v)) | _ => none
  else if fn == "is not null" then
    match vs with | [v] => some (.bool (!isNull v)) | _ => none
  else if vs.any isNull then some .null
  else if fn == "not" then
    match vs with | [.bool b] => some (.bool !b) | _ => none
  else
    let bin (op : Sql.BinOp) : Option Value :=
      match vs with | [a, b] => Sql.applyBin op a b | _ => none
    if fn == "=" then bin .eq else if fn == "!=" then bin .ne
    else if fn == "<" then bin .lt else if fn == "<=" then bin .le
    else if fn == ">" then bin .gt else if fn == ">=" then bin .ge
    else if fn == "+" then bin .add else if fn == "-" then bin .sub
    else if fn == "*" then bin .mul
    else none

def sequence : List (Option Value) → Option (List Value)
  | [] => some []
  | none :: _ => none
  | some v :: rest =>
    match sequence rest with
    | some vs => some (v :: vs)
    | none => none

/-- `And.Evaluate`: arguments in order; NULL is remembered, the first non-NULL value whose `Boolean` field is false
    is returned at once (later arguments are not evaluated) -/
def andLoop (nullSeen : Bool) : List (Option Value) → Option Value
  | [] => some (if nullSeen then .null else .bool true)
  | none :: _ => none
  | some .null :: rest => andLoop true rest
  | some (.bool true) :: rest => andLoop nullSeen rest
  | some v :: _ => some v

/-- `Or.Evaluate` -/
def orLoop (nullSeen : Bool) : List (Option Value) → Option Value
  | [] => some (if nullSeen then .null else .bool false)
  | none :: _ => none
  | some (.bool true) :: _ => some (.bool true)
  | some .null :: rest => orLoop true rest
  | some _ :: rest => orLoop nullSeen rest

/-- `Coalesce.Evaluate` (object layout fixing is the identity on the scalar values modelled) -/
def coalesceLoop : List (Option Value) → Option Value
  | [] => some .null
  | none :: _ => none
  | some .null :: rest => coalesceLoop rest
  | some v :: _ => some v

def combineN (k : NK) (rs : List (Option Value)) : Option Value :=
  match k with
  | .call fn =>
    match sequence rs with
    | some vs => applyFn fn vs
    | none => none
  | .and => andLoop false rs
  | .or => orLoop false rs
  | .coalesce => coalesceLoop rs
  | .tuple => (sequence rs).map Value.tuple

def applyU (k : UK) (v : Value) : Option Value :=
  match k with
  | .assert ids => if ids.any (· == v.rank) then some v else none
  | .cast id => some (if v.rank == id then v else .null)
  | .field _ idx =>
    match v with
    | .null => some .null
    | .struct xs => xs[idx]?
    | _ => none

mutual
/-- `Expression.Evaluate` under the record chain `ctx` -/
def eval (ctx : Ctx) : PExpr → Option Value
  | .var x _ => lookupVar x ctx
  | .const v => some v
  | .nary k args => combineN k (evalL ctx args)
  | .unary k e =>
    match eval ctx e with
    | some v => applyU k v
    | none => none
def evalL (ctx : Ctx) : List PExpr → List (Option Value)
  | [] => []
  | e :: es => eval ctx e :: evalL ctx es
end

/-- all expressions of a list, in order, stopping at the first error (Map, keys, function arguments) -/
def evalArgs (ctx : Ctx) (es : List PExpr) : Option (List Value) := sequence (evalL ctx es)

/-! ### plans -/

structure Schema where
  fields : List String
  timeField : Int
  noRetr : Bool
  deriving Repr, DecidableEq, Inhabited

/-- arguments of a table valued function other than its table -/
inductive TArg where
  | e (x : PExpr) | d (s : String)
  deriving Repr, Inhabited

inductive Leaf where
  /-- `policy` names how the datasource implementation answers `PushDownPredicates`
      (`none`: the built-in file formats reject everything; `eqconst`: the harness' mock accepts `col = const`);
      `mapping`: unique field name ↦ column name of the table -/
  | ds (name alias policy : String) (preds : List PExpr) (mapping : List (String × String))
  | mem (nrecords : Nat)
  | tvf (name : String) (args : List (String × TArg))
  deriving Repr, Inhabited

inductive Un where
  | distinct
  | filter (pred : PExpr)
  | groupBy (aggs : List String) (aggExprs key : List PExpr) (keyEventTimeIndex : Int) (trigger : String)
  | map (exprs : List PExpr)
  | unnest (field : String)
  | ost (keys : List PExpr) (mults : List Int) (limit : Option PExpr)
  /-- a table valued function with one table argument `tname` -/
  | tvf (name : String) (args : List (String × TArg)) (tname : String)
  deriving Repr, Inhabited

inductive Bin where
  | sjoin (lk rk : List PExpr)
  | ljoin
  | ojoin (isLeft isRight : Bool) (lk rk : List PExpr)
  deriving Repr, Inhabited

inductive Plan where
  | leaf (s : Schema) (k : Leaf)
  | un (s : Schema) (k : Un) (src : Plan)
  | bin (s : Schema) (k : Bin) (l r : Plan)
  deriving Repr, Inhabited

def Plan.schema : Plan → Schema
  | .leaf s _ => s
  | .un s _ _ => s
  | .bin s _ _ _ => s

abbrev Plan.fields (p : Plan) : List String := p.schema.fields

/-! ### node semantics on batch input -/

/-- table name ↦ its rows (column name ↦ value) -/
abbrev Db := String → Option (List Row)

def checkNames (fields : List String) (rows : List Row) : Option (List Row) :=
  if rows.all (fun r => r.names == fields) then some rows else none

/-- `nodes.Filter`: a record is kept iff the predicate is the Boolean TRUE; an evaluation error fails the query -/
def filterRows (ctx : Ctx) (p : PExpr) : List Row → Option (List Row)
  | [] => some []
  | r :: rs =>
    match eval (r :: ctx) p with
    | none => none
    | some v =>
      match filterRows ctx p rs with
      | none => none
      | some out => some (match v with | .bool true => r :: out | _ => out)

def zipNames : List String → List Value → Option Row
  | [], [] => some []
  | f :: fs, v :: vs => (zipNames fs vs).map ((f, v) :: ·)
  | _, _ => none

/-- `nodes.Map`: the output record has one value per expression; the parent reads it through the declared schema -/
def mapRows (ctx : Ctx) (fields : List String) (es : List PExpr) : List Row → Option (List Row)
  | [] => some []
  | r :: rs =>
    match evalArgs (r :: ctx) es with
    | none => none
    | some vs =>
      match zipNames fields vs, mapRows ctx fields es rs with
      | some row, some out => some (row :: out)
      | _, _ => none

def rowEq (a b : Row) : Bool := cmpList a.vals b.vals == 0

/-- `nodes.Distinct` on additions: the first record of every class of equal records -/
def distinctGo (seen : List Row) : List Row → List Row
  | [] => []
  | r :: rs => if seen.any (rowEq r) then distinctGo seen rs else r :: distinctGo (r :: seen) rs

def replaceField (f : String) (v : Value) : Row → Row
  | [] => []
  | (k, x) :: r => if k == f then (k, v) :: r else (k, x) :: replaceField f v r

/-- `nodes.Unnest`: one record per element of the list in the field (`Values[index].List` of a non-list is empty).
    The field index is looked up in the node's own schema at Materialize time (panic when absent). -/
def unnestRows (f : String) : List Row → Option (List Row)
  | [] => some []
  | r :: rs =>
    match lookupRow f r, unnestRows f rs with
    | some v, some out =>
      let elems := match v with | .list xs => xs | _ => []
      some (elems.map (fun e => replaceField f e r) ++ out)
    | _, _ => none

/-- the aggregates modelled: `count`, `sum` of Ints, `min`, `max` (over the non-NULL inputs, which are non-empty) -/
def applyAgg (name : String) (vs : List Value) : Option Value :=
  if name == "count" then some (.int vs.length)
  else if name == "sum" then
    vs.foldl (fun acc v => match acc, v with
      | some (.int a), .int b => some (.int (Sql.wrap64 (a + b)))
      | _, _ => none) (some (.int 0))
  else if name == "min" then
    match vs with
    | [] => none
    | v :: rest => some (rest.foldl (fun m x => if cmp x m < 0 then x else m) v)
  else if name == "max" then
    match vs with
    | [] => none
    | v :: rest => some (rest.foldl (fun m x => if cmp x m > 0 then x else m) v)
  else none

/-- one aggregate over its column of inputs: NULL inputs are skipped; no input left: NULL -/
def aggOne (a : String) (col : List Value) : Option Value :=
  let nonNull := col.filter (fun v => !isNull v)
  if nonNull.isEmpty then some Value.null else applyAgg a nonNull

/-- the aggregates of one group: aggregate `i` sees the `i`-th input of every record of the group -/
def aggCols : List String → List (List Value) → Option (List Value)
  | [], _ => some []
  | a :: as, inputs =>
    match aggOne a (inputs.filterMap List.head?), aggCols as (inputs.map List.tail) with
    | some v, some vs => some (v :: vs)
    | _, _ => none

/-- add one record's (key, aggregate inputs) to the groups (`Compare = 0` pointwise identifies a group) -/
def addToGroups (k : List Value) (inp : List Value) :
    List (List Value × List (List Value)) → List (List Value × List (List Value))
  | [] => [(k, [inp])]
  | (k', ins) :: rest =>
    if cmpList k' k == 0 then (k', ins ++ [inp]) :: rest else (k', ins) :: addToGroups k inp rest

/-- group the (key, aggregate inputs) pairs by key, groups in first-occurrence order -/
def groupPairs (ps : List (List Value × List Value)) : List (List Value × List (List Value)) :=
  ps.foldl (fun g p => addToGroups p.1 p.2 g) []

def keyInputs (ctx : Ctx) (key aggExprs : List PExpr) : List Row → Option (List (List Value × List Value))
  | [] => some []
  | r :: rs =>
    match evalArgs (r :: ctx) key, evalArgs (r :: ctx) aggExprs, keyInputs ctx key aggExprs rs with
    | some k, some a, some out => some ((k, a) :: out)
    | _, _, _ => none

def groupOut (fields aggs : List String) : List (List Value × List (List Value)) → Option (List Row)
  | [] => some []
  | (k, inputs) :: rest =>
    match aggCols aggs inputs, groupOut fields aggs rest with
    | some avs, some out =>
      match zipNames fields (k ++ avs) with
      | some row => some (row :: out)
      | none => none
    | _, _ => none

/-- `nodes.SimpleGroupBy` (end-of-stream trigger) -/
def groupByRows (ctx : Ctx) (fields aggs : List String) (aggExprs key : List PExpr) (rows : List Row) : Option (List Row) :=
  match keyInputs ctx key aggExprs rows with
  | none => none
  | some pairs => groupOut fields aggs (groupPairs pairs)

def keysOf (ctx : Ctx) (keys : List PExpr) : List Row → Option (List (List Value × Row))
  | [] => some []
  | r :: rs =>
    match evalArgs (r :: ctx) keys, keysOf ctx keys rs with
    | some k, some out => some ((k, r) :: out)
    | _, _ => none

/-- `nodes.OrderSensitiveTransform` / `nodes.Limit`, chosen as `Node.Materialize` chooses; the btree of the former
    is `Octo.Sql`'s (`insertItem`, `prune`, `emit`) -/
def ostRows (ctx : Ctx) (fields : List String) (srcNoRetr : Bool) (keys : List PExpr) (mults : List Int)
    (limit : Option PExpr) (rows : List Row) : Option (List Row) :=
  let lim : Option (Option Int) :=
    match limit with
    | none => some none
    | some e => match eval ctx e with | some (.int n) => some (some n) | _ => none
  match lim with
  | none => none
  | some lim =>
    if keys.length > 0 || (lim.isSome && !srcNoRetr) then
      match lim with
      | some 0 => some []
      | _ =>
        if (match lim with | some n => decide (n < 0) | none => false) then none else
        let limN : Option Nat := lim.map Int.toNat
        match keysOf ctx keys rows with
        | none => none
        | some krs =>
          let tree := krs.foldl (fun t kr =>
            let t' := Sql.insertItem mults ⟨kr.1, kr.2.vals, 1⟩ t
            if srcNoRetr then Sql.prune limN t' else t') []
          (Sql.emit limN tree).mapM (zipNames fields)
    else
      match lim with
      | some n => some (if n == 0 then [] else if n < 0 then rows else rows.take n.toNat)
      | none => some rows

def hasNull (k : List Value) : Bool := k.any isNull

/-- do all records have a key (no key expression fails)? -/
def keysOk (ctx : Ctx) (keys : List PExpr) (rows : List Row) : Bool :=
  rows.all fun r => (evalArgs (r :: ctx) keys).isSome

/-- the join condition the keys express: both keys evaluate, neither has a NULL, they are pointwise `Compare`-equal -/
def keyMatch (ctx : Ctx) (lk rk : List PExpr) (l r : Row) : Bool :=
  match evalArgs (l :: ctx) lk, evalArgs (r :: ctx) rk with
  | some kl, some kr => !hasNull kl && !hasNull kr && cmpList kl kr == 0
  | _, _ => false

/-- `nodes.StreamJoin` on batch input: every record's key is evaluated (an error fails the query); records whose
    key has a NULL match nothing; one output per pair with pointwise `Compare`-equal keys (nested-loop order — the
    real order depends on the interleaving of the two inputs) -/
def joinRows (ctx : Ctx) (lk rk : List PExpr) (ls rs : List Row) : Option (List Row) :=
  if keysOk ctx lk ls && keysOk ctx rk rs then
    some (ls.flatMap fun l => (rs.filter fun r => keyMatch ctx lk rk l r).map fun r => l ++ r)
  else none

def nullRow (fields : List String) : Row := fields.map fun f => (f, Value.null)

/-- `nodes.OuterJoin` on batch input (consolidated): the inner part plus the unmatched records of the outer
    side(s), NULL-padded -/
def outerJoinRows (ctx : Ctx) (isLeft isRight : Bool) (lfields rfields : List String) (lk rk : List PExpr)
    (ls rs : List Row) : Option (List Row) :=
  if keysOk ctx lk ls && keysOk ctx rk rs then
    let m := keyMatch ctx lk rk
    let inner := ls.flatMap fun l => (rs.filter fun r => m l r).map fun r => l ++ r
    let padL := if isLeft then (ls.filter fun l => !rs.any (m l)).map fun l => l ++ nullRow rfields else []
    let padR := if isRight then (rs.filter fun r => !ls.any (fun l => m l r)).map fun r => nullRow lfields ++ r else []
    some (inner ++ padL ++ padR)
  else none

def andAll (ctx : Ctx) (preds : List PExpr) (rows : List Row) : Option (List Row) :=
  match preds with
  | [] => some rows
  | _ => filterRows ctx (.nary .and preds) rows

/-- one record of a datasource: the declared fields, read from the table row through the unique-name ↦ column mapping -/
def tableRow (mapping : List (String × String)) (tr : Row) : List String → Option Row
  | [] => some []
  | u :: us =>
    match mapping.lookup u with
    | none => none
    | some col =>
      match lookupRow col tr, tableRow mapping tr us with
      | some v, some rest => some ((u, v) :: rest)
      | _, _ => none

def tableRows (mapping : List (String × String)) (fields : List String) : List Row → Option (List Row)
  | [] => some []
  | tr :: trs =>
    match tableRow mapping tr fields, tableRows mapping fields trs with
    | some r, some rest => some (r :: rest)
    | _, _ => none

/-- a datasource: the declared fields of every table row, then the pushed-down predicates (the contract of
    `DatasourceImplementation.Materialize`) -/
def dsRows (db : Db) (ctx : Ctx) (fields : List String) (name : String) (preds : List PExpr)
    (mapping : List (String × String)) : Option (List Row) :=
  match db name with
  | none => none
  | some trows =>
    match tableRows mapping fields trows with
    | none => none
    | some rows => andAll ctx preds rows

def leafRows (db : Db) (ctx : Ctx) (s : Schema) : Leaf → Option (List Row)
  | .ds name _ _ preds mapping => dsRows db ctx s.fields name preds mapping
  | .mem n =>
    -- the only in-memory table the planner produces is `dual`: one record, one column, the string "X"
    match n, s.fields with
    | 1, [f] => some [[(f, .str [88])]]
    | _, _ => none
  | .tvf _ _ => none   -- `range`, `poll`: not modelled

def unRows (ctx : Ctx) (s srcS : Schema) (k : Un) (rows : List Row) : Option (List Row) :=
  match k with
  | .distinct => some (distinctGo [] rows)
  | .filter p => filterRows ctx p rows
  | .groupBy aggs aggExprs key _ trig =>
    if trig == "eos" then groupByRows ctx s.fields aggs aggExprs key rows else none
  | .map es => mapRows ctx s.fields es rows
  | .unnest f => if s.fields.any (· == f) then unnestRows f rows else none
  | .ost keys mults limit => ostRows ctx srcS.fields srcS.noRetr keys mults limit rows
  | .tvf name _ _ =>
    -- `max_diff_watermark` only adds watermarks; `tumble` is not modelled
    if name == "max_diff_watermark" then some rows else none

def lookupJoinRows (joined : Ctx → Option (List Row)) (ctx : Ctx) : List Row → Option (List Row)
  | [] => some []
  | l :: ls =>
    match joined (l :: ctx), lookupJoinRows joined ctx ls with
    | some js, some out => some (js.map (l ++ ·) ++ out)
    | _, _ => none

def binRows (ctx : Ctx) (lf rf : List String) (k : Bin) (ls rs : List Row) : Option (List Row) :=
  match k with
  | .sjoin lk rk => joinRows ctx lk rk ls rs
  | .ojoin il ir lk rk => outerJoinRows ctx il ir lf rf lk rk ls rs
  | .ljoin => none     -- handled in `denote`: the right side is run once per left record

/-- the records a node hands to its parent must carry the field names of its declared schema -/
def checked (s : Schema) : Option (List Row) → Option (List Row)
  | some rows => checkNames s.fields rows
  | none => none

/-- what a plan computes on batch input, in one of the orders the engine may produce -/
def denote (db : Db) : Plan → Ctx → Option (List Row)
  | .leaf s k, ctx => checked s (leafRows db ctx s k)
  | .un s k src, ctx =>
    match denote db src ctx with
    | some rows => checked s (unRows ctx s src.schema k rows)
    | none => none
  | .bin s .ljoin l r, ctx =>
    match denote db l ctx with
    | some ls => checked s (lookupJoinRows (denote db r) ctx ls)
    | none => none
  | .bin s k l r, ctx =>
    match denote db l ctx, denote db r ctx with
    | some ls, some rs => checked s (binRows ctx l.fields r.fields k ls rs)
    | _, _ => none

end Octo.Plan
