import Octo.Model.Changelog
/-!
  Octo.Model.MaxDiffWatermark — `maxDifferenceWatermarkGenerator.Run`
  (`table_valued_functions/max_diff_watermark.go`), construct by construct.

  Instants are exact integers (ns relative to the Unix epoch).  That is faithful: Go's `time.Time` stores
  seconds since year 1 in an int64 plus nanoseconds, so `time.Unix(0, ns)` is exact for every int64 `ns`,
  `Add(d)` is exact for every int64 duration (the seconds cannot overflow) and `After` compares exactly.
  The only int64 arithmetic in the function is the rounding `UnixNano()/res*res`, which is modelled by
  `Int.tdiv`/`Int.tmod` (Go's truncating `/` and `%`); it cannot overflow (`|x/res*res| ≤ |x|`, and the
  repaired code only computes a remainder in int64 and subtracts it with `Time.Add`).

  Two roundings are modelled: `roundTrunc` (the code as shipped) and `roundFloor` (after the `fix:` commit).
-/
namespace Octo.MaxDiff
open Octo

/-- the instant of Go's zero `time.Time{}` (0001-01-01T00:00:00Z), in ns relative to the Unix epoch;
    `maxValue` and `curWatermark` start there -/
def zeroTime : Int := -62135596800000000000

/-- shipped: `UnixNano()/int64(res)*int64(res)` — Go's `/` truncates toward zero; `none` = integer divide by zero -/
def roundTrunc (res ns : Int) : Option Int := if res = 0 then none else some (Int.tdiv ns res * res)

/-- repaired: `rem := ns % res; if rem < 0 { rem += res }; time.Unix(0, ns).Add(-rem)` -/
def roundFloor (res ns : Int) : Option Int :=
  if res = 0 then none else
  let rem := Int.tmod ns res
  let rem := if rem < 0 then rem + res else rem
  some (ns - rem)

/-- which of the two versions of the function is meant -/
inductive Version where
  | shipped   -- truncating division, no check of the resolution (divides by zero)
  | fixed     -- floor rounding, non-positive resolution rejected with an error
  deriving DecidableEq, Repr

inductive Fail where
  | err        -- the node returns an error
  | panic      -- Go panics (integer divide by zero, index out of range)
  | illTyped   -- the time field holds a non-Time value: outside the model (excluded by the TVF's OutputSchema check)
  deriving DecidableEq, Repr

structure St where
  maxValue : Int
  curWm : Int
  deriving Repr

def St.init : St := ⟨zeroTime, zeroTime⟩

/-- `record.Values[m.timeFieldIndex].Time` (as UnixNano) -/
def timeAt (idx : Nat) (r : Rec) : Except Fail Int :=
  match r.vals[idx]? with
  | none => .error .panic
  | some (.time ns _) => .ok ns
  | some _ => .error .illTyped

/-- the two callbacks handed to `m.source.Run`, folded over the source's messages -/
def go (rnd : Int → Int → Option Int) (md res : Int) (idx : Nat) : St → List Msg → Except Fail (List Msg)
  | _, [] => .ok []
  -- metadata callback: watermarks of the source are swallowed (there is no other metadata type)
  | s, .wm _ :: ms => go rnd md res idx s ms
  | s, .data r :: ms =>
    match timeAt idx r with
    | .error e => .error e
    | .ok t =>
      -- if record.Values[i].Time.After(curWatermark) { record.EventTime = …; produce(record) }
      let fwd : List Msg := if t > s.curWm then [.data { r with et := some t }] else []
      match rnd res t with
      | none => .error .panic
      | some rounded =>
      -- if curTimeValueRoundedDown.After(maxValue) { maxValue = …; curWatermark = … .Add(-maxDifference); metaSend }
      if rounded > s.maxValue then
        match go rnd md res idx ⟨rounded, rounded - md⟩ ms with
        | .error e => .error e
        | .ok out => .ok (fwd ++ .wm (rounded - md) :: out)
      else
        match go rnd md res idx s ms with
        | .error e => .error e
        | .ok out => .ok (fwd ++ out)

/-- `Run` of the code as shipped -/
def runShipped (md res : Int) (idx : Nat) (inp : List Msg) : Except Fail (List Msg) :=
  go roundTrunc md res idx St.init inp

/-- `Run` after the repair: `if resolution.Duration <= 0 { return error }` right after evaluating it -/
def runFixed (md res : Int) (idx : Nat) (inp : List Msg) : Except Fail (List Msg) :=
  if res ≤ 0 then .error .err else go roundFloor md res idx St.init inp

def run : Version → Int → Int → Nat → List Msg → Except Fail (List Msg)
  | .shipped => runShipped
  | .fixed => runFixed

/-- a source that fails after delivering `inp`: `Run` returns the (wrapped) error; what was emitted until then -/
def runFail (v : Version) (md res : Int) (idx : Nat) (inp : List Msg) : Except Fail (List Msg) := run v md res idx inp

/-! ### which column is the time field: `OutputSchema` (typecheck time) and `Materialize` (run time)

  A field is a name and whether its type is exactly `Time` (`field.Type.TypeID == octosql.TypeIDTime`). -/

/-- `OutputSchema`: `for i, field := range source.Schema.Fields { if timeField != field.Name { continue };
    if field.Type.TypeID != TypeIDTime { return error }; timeFieldIndex = i; break }; if timeFieldIndex == -1 { error }`.
    The result is the `TimeField` of the output schema. -/
def schemaTimeField (want : String) : List (String × Bool) → Nat → Except Fail Nat
  | [], _ => .error .err                      -- "no … field in source stream"
  | (name, isTime) :: rest, i =>
    if want ≠ name then schemaTimeField want rest (i + 1)
    else if !isTime then .error .err          -- "time_field must reference field with type Time"
    else .ok i

/-- `Materialize`: `for i, field := range …Schema.Fields { if timeField == field.Name { timeFieldIndex = i; break } }`;
    `none` = the index stays −1 (`Run` would index out of range) -/
def materializeIndex (want : String) : List (String × Bool) → Nat → Option Nat
  | [], _ => none
  | (name, _) :: rest, i => if want = name then some i else materializeIndex want rest (i + 1)

end Octo.MaxDiff
