/-!
  Octo.Model.TrigMap — the abstract container standing for `github.com/google/btree` as the trigger
  machines, the group-by node and the event-time buffer use it (DESIGN §2.6: libraries are modelled as
  finite maps ordered by the supplied `Less`).

  A tree is the list of its items in ascending order.  Two items are *the same item* for the tree when
  neither is `Less` than the other (`eqv`).  `ReplaceOrInsert` removes whatever is equivalent to the new
  item and puts the new item at its place in the order; `Delete` removes what is equivalent to the probe;
  `Get` returns the stored item equivalent to the probe; `Ascend` walks the list.

  On every state reachable with a `Less` that is a strict weak order (sorted, no two equivalent items)
  these definitions coincide with what the B-tree does.  With a `Less` that is *not* a strict weak order
  (the pre-repair `watermarkTriggerKey.Less`) they reproduce the behaviour that matters for the
  refutation witness: an item that is neither less nor greater than a stored one replaces it.
-/
namespace Octo.TMap

variable {α : Type} {β : Type}

/-- neither is `Less` than the other: what the B-tree takes for "the same item" -/
def eqv (lt : α → α → Bool) (a b : α) : Bool := !lt a b && !lt b a

/-- `tree.Get(probe)` : the stored entry equivalent to the probe -/
def find (lt : α → α → Bool) (k : α) : List (α × β) → Option (α × β)
  | [] => none
  | e :: es => if eqv lt k e.1 then some e else find lt k es

/-- `tree.Has(probe)` -/
def has (lt : α → α → Bool) (k : α) (m : List (α × β)) : Bool := m.any fun e => eqv lt k e.1

/-- `tree.Delete(probe)` -/
def erase (lt : α → α → Bool) (k : α) (m : List (α × β)) : List (α × β) :=
  m.filter fun e => !eqv lt k e.1

/-- position of a new item in the ascending order -/
def insSorted (lt : α → α → Bool) (x : α × β) : List (α × β) → List (α × β)
  | [] => [x]
  | e :: es => if lt x.1 e.1 then x :: e :: es else e :: insSorted lt x es

/-- `tree.ReplaceOrInsert(item)` -/
def insert (lt : α → α → Bool) (k : α) (v : β) (m : List (α × β)) : List (α × β) :=
  insSorted lt (k, v) (erase lt k m)

/-- the keys in ascending order (`tree.Ascend`) -/
def keys (m : List (α × β)) : List α := m.map (·.1)

end Octo.TMap
