import Octo.Model.Value
/-!
  Octo.Model.Changelog — records, watermarks, streams and the consolidated ("net") view of a
  changelog (DESIGN §2.7).  `execution.Record` = values + retraction flag + event time;
  a zero `time.Time` event time ("no event time") is `et = none`.
-/
namespace Octo

structure Rec where
  vals : List Value
  retr : Bool
  et : Option Int          -- event time in ns since the Unix epoch; none = zero time.Time
  deriving Repr, Inhabited

inductive Msg where
  | data (r : Rec)
  | wm (t : Int)
  deriving Repr, Inhabited

abbrev Row := List Value

/-- rows are identified the way the engine identifies them: pointwise `Compare == 0` -/
def rowEq (a b : Row) : Bool := cmpList a b == 0

/-- +1 for an addition of `row`, −1 for a retraction, 0 for other rows -/
def Rec.weight (r : Rec) (row : Row) : Int :=
  if rowEq r.vals row then (if r.retr then -1 else 1) else 0

/-- signed multiplicity of `row` in a list of records -/
def net : List Rec → Row → Int
  | [], _ => 0
  | r :: rs, row => r.weight row + net rs row

/-- the records of a message stream -/
def recs : List Msg → List Rec
  | [] => []
  | .data r :: ms => r :: recs ms
  | .wm _ :: ms => recs ms

/-- the watermarks of a message stream -/
def wms : List Msg → List Int
  | [] => []
  | .data _ :: ms => wms ms
  | .wm t :: ms => t :: wms ms

/-- a changelog is valid when no prefix retracts a row that is not present -/
def ValidLog (log : List Rec) : Prop := ∀ n row, 0 ≤ net (log.take n) row

/-- executable validity check for finite logs over the rows that occur in them -/
def validLogB (log : List Rec) : Bool :=
  (List.range (log.length + 1)).all fun n => log.all fun r => decide (0 ≤ net (log.take n) r.vals)

theorem net_append (a b : List Rec) (row : Row) : net (a ++ b) row = net a row + net b row := by
  induction a with
  | nil => simp [net]
  | cons r rs ih => simp [net, ih]; omega

theorem net_nil (row : Row) : net [] row = 0 := rfl
theorem net_cons (r : Rec) (rs : List Rec) (row : Row) : net (r :: rs) row = r.weight row + net rs row := rfl

theorem recs_append (a b : List Msg) : recs (a ++ b) = recs a ++ recs b := by
  induction a with
  | nil => rfl
  | cons m ms ih => cases m <;> simp [recs, ih]

/-- non-decreasing -/
def Mono : List Int → Prop
  | [] => True
  | [_] => True
  | a :: b :: rest => a ≤ b ∧ Mono (b :: rest)

end Octo
