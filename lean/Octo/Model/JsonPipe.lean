import Octo.Gen.JsonPipe
/-!
# The JSON datasource pipeline as a transition system (C29)

Mirrors `datasources/json/execution.go` (`DatasourceExecuting.Run`: the line-reader goroutine and the consumer
loop) and `datasources/json/workers.go` (the *global* parser worker pool), at the level of their channel
operations:

* per running datasource (`Pipe`): the token channel `outChanAvailableTokens` (cap `tokCap`), the output channel
  `outChan` (cap `outCap`), the `done` channel (cap 1), the shared variable `linesRead`, the local context
  (cancelled by the deferred `cancel()` when `Run` returns) and the parent context;
* shared by all pipes: the job channel `parserWorkReceiveChannel` (cap `jobCap`) and the `nw` workers.

A state changes by one `Action` of one goroutine; a schedule is a list of actions (`run`). An action that is not
enabled (the goroutine would block, or is elsewhere in its code) yields `none`.

Channels are modelled as *bags with a capacity*: a receive names the index of the element it takes (`k = 0` is
Go's FIFO order). Every FIFO schedule is a schedule of this model, so what is proved for all schedules here holds
for the FIFO ones in particular.

The capacities are not written here: they are regenerated from the Go sources (`Octo.Gen.JsonPipe`).
-/
namespace Octo.JsonPipe

abbrev tokCap : Nat := Octo.Gen.JsonPipe.tokCap
abbrev outCap : Nat := Octo.Gen.JsonPipe.outCap
abbrev jobCap : Nat := Octo.Gen.JsonPipe.jobCap

/-- `jobIn` / `[]jobOutRecord`: a batch of `n` consecutive lines starting at line `first`, of pipe `pipe`. -/
structure Job where
  pipe : Nat
  first : Nat
  n : Nat
  deriving DecidableEq, Repr, Inhabited

/-- program counter of the line-reader goroutine -/
inductive RPc
  | sel    -- a batch is ready; at `select { case tokens <- {}: … case <-localCtx.Done(): return }`
  | hold   -- token acquired; at `parserWorkReceiveChannel <- job`
  | write  -- job submitted; at `linesRead += len(job.lines)`
  | fin    -- input exhausted; at `done <- sc.Err()`
  | exit   -- returned
  deriving DecidableEq, Repr, Inhabited

/-- program counter of the consumer loop (`Run` itself) -/
inductive CPc
  | sel            -- at the `select` of `produceLoop`
  | tok (j : Job)  -- received `outJobs`; at `<-outChanAvailableTokens`
  | proc (j : Job) -- token given back; processes the batch, then checks `fileReaderIsDone && startIndex == linesRead`
  | ret            -- left the loop (return / break); deferred `cancel()` not yet run
  | exit           -- `Run` returned, local context cancelled
  deriving DecidableEq, Repr, Inhabited

/-- how `Run` ended (summary only) -/
inductive Ret
  | none | ok | stop | err | scanErr | ctx | panic
  deriving DecidableEq, Repr, Inhabited

structure Pipe where
  -- the finite input
  batch : Nat             -- `batchSize` (64, or 1 with tail)
  scanErr : Bool          -- the scanner stops with an error after the last line (`sc.Err() != nil`)
  bad : List Nat          -- lines the worker cannot parse (`out.err != nil`)
  stopAt : Option Nat     -- `produce` fails on its k-th call (LIMIT k / an error downstream)
  -- line reader
  rpc : RPc
  unread : Nat            -- scanned lines not yet counted in `linesRead`
  nextLine : Nat          -- first line of the batch under construction
  linesRead : Nat         -- the shared variable
  -- channels
  tokens : Nat            -- len(outChanAvailableTokens)
  out : List Job          -- outChan
  done : Option Bool      -- content of `done` (some e: the reader sent `sc.Err()`, e = it is non-nil)
  -- contexts
  parentCancelled : Bool
  localCancelled : Bool
  -- consumer
  cpc : CPc
  readerDone : Bool       -- fileReaderIsDone
  doneNil : Bool          -- `done = nil` executed (or the value was taken)
  startIndex : Nat
  pending : List Job      -- the reorder queue, at batch granularity
  produced : Nat          -- calls of `produce` so far
  ret : Ret
  got : List Job          -- history: batches fully processed (ghost)
  sub : List Job          -- history: batches submitted by the reader, in order (ghost)
  deriving Inhabited

def Pipe.cancelled (P : Pipe) : Bool := P.parentCancelled || P.localCancelled

/-- size of the batch the reader is building / holding -/
def Pipe.cur (P : Pipe) : Nat := min P.batch P.unread

/-- initial pipe for `lines` scannable lines -/
def Pipe.init (lines batch : Nat) (scanErr : Bool) (bad : List Nat) (stopAt : Option Nat) : Pipe :=
  { batch := batch, scanErr := scanErr, bad := bad, stopAt := stopAt,
    rpc := if lines = 0 then .fin else .sel, unread := lines, nextLine := 0, linesRead := 0,
    tokens := 0, out := [], done := none, parentCancelled := false, localCancelled := false,
    cpc := .sel, readerDone := false, doneNil := false, startIndex := 0, pending := [], produced := 0,
    ret := .none, got := [], sub := [] }

structure State where
  np : Nat
  nw : Nat
  pipe : Nat → Pipe
  jobs : List Job               -- parserWorkReceiveChannel
  worker : Nat → Option Job     -- the job a worker holds between receiving it and its `select`

def State.setPipe (s : State) (p : Nat) (P : Pipe) : State :=
  { s with pipe := fun q => if q = p then P else s.pipe q }

def State.setWorker (s : State) (w : Nat) (j : Option Job) : State :=
  { s with worker := fun v => if v = w then j else s.worker v }

/-- remove the k-th element -/
def takeAt : List α → Nat → Option (α × List α)
  | [], _ => none
  | x :: xs, 0 => some (x, xs)
  | x :: xs, k + 1 => match takeAt xs k with
    | some (y, r) => some (y, x :: r)
    | none => none

/-! ## processing one batch in the consumer -/

/-- smallest bad line in `[first, first+n)` -/
def firstBad (bad : List Nat) (first n : Nat) : Option Nat :=
  bad.foldl (fun acc b => if first ≤ b ∧ b < first + n then
      (match acc with | some a => some (min a b) | none => some b) else acc) none

/-- `produce` is called for `m` more records when `produced` were produced so far: does the k-th call (the one
that fails) fall among them? If so, how many calls are made. -/
def stopHit (produced m : Nat) (stopAt : Option Nat) : Option Nat :=
  match stopAt with
  | some k => if produced < k ∧ k ≤ produced + m then some (k - produced) else none
  | none => none

/-- first pending batch that starts at `start` -/
def findStart : List Job → Nat → Option (Job × List Job)
  | [], _ => none
  | j :: js, start =>
    if j.first = start then some (j, js)
    else match findStart js start with
      | some (x, r) => some (x, j :: r)
      | none => none

/-- the flush loop `for len(queue) > 0 && queue[0] != nil { produce…; startIndex++ }` over whole pending batches.
Returns the pipe and whether `produce` failed. -/
def flush : Nat → Pipe → Pipe × Bool
  | 0, P => (P, false)
  | fuel + 1, P =>
    match findStart P.pending P.startIndex with
    | none => (P, false)
    | some (j, rest) =>
      match stopHit P.produced j.n P.stopAt with
      | some r => ({ P with produced := P.produced + r, startIndex := P.startIndex + (r - 1), pending := rest }, true)
      | none => flush fuel { P with produced := P.produced + j.n, startIndex := P.startIndex + j.n, pending := rest }

/-- the check at the end of the loop body: `if fileReaderIsDone && startIndex == linesRead { break }`
(the only place besides the `done` branch where the consumer reads `linesRead`) -/
def finishBatch (P : Pipe) : Pipe :=
  if P.readerDone = true ∧ P.startIndex = P.linesRead then { P with cpc := .ret, ret := .ok } else { P with cpc := .sel }

/-- the body of `case outJobs := <-outChan:` after the token was given back, including the final check -/
def procBatch (P : Pipe) (j : Job) : Pipe :=
  let e := firstBad P.bad j.first j.n
  let m := match e with | some x => x - j.first | none => j.n
  if j.first < P.startIndex then
    -- `queue[out.line-startIndex]` with a negative index
    { P with cpc := .ret, ret := .panic }
  else if j.first = P.startIndex then
    match stopHit P.produced m P.stopAt with
    | some r => { P with produced := P.produced + r, startIndex := P.startIndex + (r - 1), cpc := .ret, ret := .stop }
    | none =>
      match e with
      | some _ => { P with produced := P.produced + m, startIndex := P.startIndex + m, cpc := .ret, ret := .err }
      | none =>
        let r := flush P.pending.length { P with produced := P.produced + j.n, startIndex := P.startIndex + j.n }
        if r.2 = true then { r.1 with cpc := .ret, ret := .stop }
        else finishBatch { r.1 with got := j :: r.1.got }
  else
    match e with
    | some _ => { P with cpc := .ret, ret := .err }
    | none => finishBatch { P with pending := j :: P.pending, got := j :: P.got }

/-! ## actions and the step function -/

inductive Action
  | rTok (p : Nat)            -- reader: `outChanAvailableTokens <- struct{}{}`
  | rStop (p : Nat)           -- reader: `<-localCtx.Done()`, return
  | rSub (p : Nat)            -- reader: `parserWorkReceiveChannel <- job`
  | rWrite (p : Nat)          -- reader: `linesRead += len(job.lines)`
  | rDone (p : Nat)           -- reader: `done <- sc.Err()`
  | wTake (w k : Nat)         -- worker: receive the k-th job of the job channel
  | wSend (w : Nat)           -- worker: `job.outChan <- outJobs`
  | wDrop (w : Nat)           -- worker: `<-job.ctx.Done()`
  | cRecv (p k : Nat)         -- consumer: `outJobs := <-outChan` (the k-th element)
  | cTok (p : Nat)            -- consumer: `<-outChanAvailableTokens`
  | cProc (p : Nat)           -- consumer: process the batch, final check
  | cDone (p : Nat)           -- consumer: `readerErr := <-done`
  | cCtx (p : Nat)            -- consumer: `<-ctx.Done()`
  | cCancel (p : Nat)         -- consumer: deferred `cancel()`, `Run` returns
  | pCancel (p : Nat)         -- environment: the parent context is cancelled
  | rTrunc (p u : Nat)        -- effect of the deferred `f.Close()` after `Run` returned: the reader's scanner fails
                              -- early; only `u` of its unread lines remain (the batch already built is kept)
  deriving DecidableEq, Repr, Inhabited

def step (s : State) : Action → Option State
  | .rTok p =>
    let P := s.pipe p
    if p < s.np ∧ P.rpc = .sel ∧ P.tokens < tokCap then
      some (s.setPipe p { P with rpc := .hold, tokens := P.tokens + 1 })
    else none
  | .rStop p =>
    let P := s.pipe p
    if p < s.np ∧ P.rpc = .sel ∧ P.cancelled = true then
      some (s.setPipe p { P with rpc := .exit })
    else none
  | .rSub p =>
    let P := s.pipe p
    if p < s.np ∧ P.rpc = .hold ∧ s.jobs.length < jobCap then
      some { (s.setPipe p { P with rpc := .write, sub := P.sub ++ [⟨p, P.nextLine, P.cur⟩] }) with
             jobs := s.jobs ++ [⟨p, P.nextLine, P.cur⟩] }
    else none
  | .rWrite p =>
    let P := s.pipe p
    if p < s.np ∧ P.rpc = .write then
      let u := P.unread - P.cur
      some (s.setPipe p { P with linesRead := P.linesRead + P.cur, nextLine := P.nextLine + P.cur, unread := u,
                                 rpc := if u = 0 then .fin else .sel })
    else none
  | .rDone p =>
    let P := s.pipe p
    if p < s.np ∧ P.rpc = .fin then
      some (s.setPipe p { P with rpc := .exit, done := some P.scanErr })
    else none
  | .wTake w k =>
    if w < s.nw ∧ s.worker w = none then
      match takeAt s.jobs k with
      | some (j, rest) => some { (s.setWorker w (some j)) with jobs := rest }
      | none => none
    else none
  | .wSend w =>
    match s.worker w with
    | some j =>
      let P := s.pipe j.pipe
      if w < s.nw ∧ P.out.length < outCap then
        some ((s.setWorker w none).setPipe j.pipe { P with out := P.out ++ [j] })
      else none
    | none => none
  | .wDrop w =>
    match s.worker w with
    | some j =>
      if w < s.nw ∧ (s.pipe j.pipe).cancelled = true then some (s.setWorker w none) else none
    | none => none
  | .cRecv p k =>
    let P := s.pipe p
    if p < s.np ∧ P.cpc = .sel then
      match takeAt P.out k with
      | some (j, rest) => some (s.setPipe p { P with out := rest, cpc := .tok j })
      | none => none
    else none
  | .cTok p =>
    let P := s.pipe p
    match P.cpc with
    | .tok j =>
      if p < s.np ∧ 0 < P.tokens then some (s.setPipe p { P with tokens := P.tokens - 1, cpc := .proc j }) else none
    | _ => none
  | .cProc p =>
    let P := s.pipe p
    match P.cpc with
    | .proc j => if p < s.np then some (s.setPipe p (procBatch P j)) else none
    | _ => none
  | .cDone p =>
    let P := s.pipe p
    if p < s.np ∧ P.cpc = .sel ∧ P.doneNil = false then
      match P.done with
      | some true => some (s.setPipe p { P with done := none, doneNil := true, cpc := .ret, ret := .scanErr })
      | some false =>
        let P1 := { P with done := none, doneNil := true, readerDone := true }
        some (s.setPipe p (if P1.startIndex = P1.linesRead then { P1 with cpc := .ret, ret := .ok } else P1))
      | none => none
    else none
  | .cCtx p =>
    let P := s.pipe p
    if p < s.np ∧ P.cpc = .sel ∧ P.parentCancelled = true then
      some (s.setPipe p { P with cpc := .ret, ret := .ctx })
    else none
  | .cCancel p =>
    let P := s.pipe p
    if p < s.np ∧ P.cpc = .ret then
      some (s.setPipe p { P with cpc := .exit, localCancelled := true })
    else none
  | .pCancel p =>
    let P := s.pipe p
    if p < s.np ∧ P.parentCancelled = false then
      some (s.setPipe p { P with parentCancelled := true })
    else none
  | .rTrunc p u =>
    let P := s.pipe p
    if p < s.np ∧ P.localCancelled = true ∧ u < P.unread ∧
        (P.rpc = .sel ∨ ((P.rpc = .hold ∨ P.rpc = .write) ∧ P.cur ≤ u)) then
      some (s.setPipe p { P with unread := u, scanErr := true, rpc := if P.rpc = .sel ∧ u = 0 then .fin else P.rpc })
    else none

/-- run a schedule; `none` if some action of it is not enabled -/
def run (s : State) : List Action → Option State
  | [] => some s
  | a :: as => match step s a with
    | some s' => run s' as
    | none => none

/-- the state a process starts in: `nw` idle workers, the pipes as given, nothing queued -/
def State.init (nw : Nat) (pipes : List Pipe) : State :=
  { np := pipes.length, nw := nw, pipe := fun p => pipes.getD p default, jobs := [], worker := fun _ => none }

def jobCnt (j : Option Job) (p : Nat) : Nat := match j with | some j => if j.pipe = p then 1 else 0 | none => 0
def someCnt (j : Option Job) : Nat := match j with | some _ => 1 | none => 0

/-- number of workers (below `n`) holding a job of pipe `p` -/
def busyWith (worker : Nat → Option Job) (p : Nat) : Nat → Nat
  | 0 => 0
  | n + 1 => busyWith worker p n + jobCnt (worker n) p

/-- number of workers (below `n`) holding a job -/
def busy (worker : Nat → Option Job) : Nat → Nat
  | 0 => 0
  | n + 1 => busy worker n + someCnt (worker n)

/-- number of jobs of pipe `p` in the job channel -/
def inJobs (jobs : List Job) (p : Nat) : Nat := (jobs.filter (fun j => j.pipe = p)).length

/-- a pipe is finished: `Run` returned, the reader goroutine ended, no job of it is anywhere in the pool -/
def State.pipeFinal (s : State) (p : Nat) : Prop :=
  (s.pipe p).cpc = .exit ∧ (s.pipe p).rpc = .exit ∧ inJobs s.jobs p = 0 ∧ busyWith s.worker p s.nw = 0

instance (s : State) (p : Nat) : Decidable (s.pipeFinal p) := by unfold State.pipeFinal; infer_instance

/-- every pipe is finished -/
def State.final (s : State) : Prop := ∀ p, p < s.np → s.pipeFinal p

/-! ## reachable states -/

/-- a pipe as it is when `Run` starts: `lines` scannable lines, nothing sent yet; the batch size is positive -/
def Pipe.IsInit (P : Pipe) : Prop :=
  ∃ lines batch scanErr bad stopAt, 1 ≤ batch ∧ P = Pipe.init lines batch scanErr bad stopAt

/-- reachable from a start state with at least one worker by some schedule -/
def Reachable (s : State) : Prop :=
  ∃ nw pipes sched, 1 ≤ nw ∧ (∀ P, P ∈ pipes → P.IsInit) ∧ run (State.init nw pipes) sched = some s

/-! ## the termination measure -/

def rMeasureOf (rpc : RPc) (unread batch : Nat) : Nat :=
  match rpc with
  | .sel => 9 * unread + 3
  | .hold => 9 * unread + 2
  | .write => 9 * (unread - min batch unread) + 4
  | .fin => 1
  | .exit => 0

def cMeasureOf (cpc : CPc) (doneNil : Bool) : Nat :=
  match cpc with
  | .sel => 3 + (if doneNil = true then 0 else 1)
  | .tok _ => 5 + (if doneNil = true then 0 else 1)
  | .proc _ => 4 + (if doneNil = true then 0 else 1)
  | .ret => 1
  | .exit => 0

def rMeasure (P : Pipe) : Nat := rMeasureOf P.rpc P.unread P.batch
def cMeasure (P : Pipe) : Nat := cMeasureOf P.cpc P.doneNil

def pipeMeasure (P : Pipe) : Nat :=
  rMeasure P + cMeasure P + 3 * P.out.length + (if P.parentCancelled = true then 0 else 1)

def sumTo (f : Nat → Nat) : Nat → Nat
  | 0 => 0
  | n + 1 => sumTo f n + f n

/-- strictly decreased by every action (in reachable states): an upper bound on the number of remaining steps -/
def measure (s : State) : Nat :=
  sumTo (fun p => pipeMeasure (s.pipe p)) s.np + 5 * s.jobs.length + 4 * busy s.worker s.nw

/-! ## a canonical scheduler (used by the driver to print the schedule-independent summary) -/

def candidates (s : State) : List Action :=
  (List.range s.np).flatMap (fun p => [.cTok p, .cProc p, .cCancel p, .cRecv p 0, .cDone p, .cCtx p]) ++
  (List.range s.nw).flatMap (fun w => [.wSend w, .wDrop w, .wTake w 0]) ++
  (List.range s.np).flatMap (fun p => [.rSub p, .rWrite p, .rDone p, .rTok p, .rStop p])

/-- first enabled candidate -/
def pick (s : State) : List Action → Option (Action × State)
  | [] => none
  | a :: as => match step s a with
    | some s' => some (a, s')
    | none => pick s as

def runCanonical : Nat → State → State × Nat
  | 0, s => (s, 0)
  | fuel + 1, s => match pick s (candidates s) with
    | some (_, s') => let (t, n) := runCanonical fuel s'; (t, n + 1)
    | none => (s, 0)

end Octo.JsonPipe
