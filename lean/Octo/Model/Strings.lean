import Octo.Model.Utf8
/-
  Octo.Model.Strings — the string functions of `functions/functions.go`
  (`upper`, `lower`, `reverse`, `substr`/2,3, `replace`, `position`, `len`) on byte lists.

  Each function mirrors the Go body of its descriptor *after* the `fix:` commits of C12; the bodies as they
  were before the repair are kept as `…Raw` (they are what `C12.raw_refuted` is about).
  Where the Go body is a single call into the standard library (`strings.Index`, `strings.Replace`,
  `strings.ToUpper/ToLower`) the model follows the library's algorithm (`Index`: first position at which
  the needle is a prefix; `Replace`: the `Index`/copy loop of `strings.Replace` with n = -1) and the
  correspondence run ties it to the real library. `ToUpper/ToLower` are modelled on ASCII only.
-/
namespace Octo.Str
open Octo.Utf8

/-- outcome of a function call: a value, a returned `error`, or a Go panic -/
inductive Out (α : Type) where
  | ok (a : α)
  | err
  | panic
  deriving Repr, DecidableEq

/-! ### upper / lower (ASCII part of `strings.ToUpper` / `strings.ToLower`) -/

def isAscii (s : Bytes) : Bool := s.all (fun b => decide (b.toNat < 0x80))

def upperByte (b : UInt8) : UInt8 := if 97 ≤ b.toNat ∧ b.toNat ≤ 122 then UInt8.ofNat (b.toNat - 32) else b
def lowerByte (b : UInt8) : UInt8 := if 65 ≤ b.toNat ∧ b.toNat ≤ 90 then UInt8.ofNat (b.toNat + 32) else b

/-- `strings.ToUpper` on an ASCII-only string (`none`: not modelled, Unicode tables) -/
def upper (s : Bytes) : Option Bytes := if isAscii s then some (s.map upperByte) else none
def lower (s : Bytes) : Option Bytes := if isAscii s then some (s.map lowerByte) else none

/-! ### reverse -/

/-- fixed body: `out := []rune(s)`; swap in place; `string(out)` -/
def reverse (s : Bytes) : Bytes := encodeAll (decodeAll s).reverse

/-- `out[idx] = r` on a slice (`none` = index out of range, cannot happen below) -/
def setAt (xs : List Rune) (idx : Nat) (r : Rune) : List Rune := xs.set idx r

/-- body before the repair: `out := make([]rune, len(s)); for i, ch := range s { out[len(out)-i-1] = ch }`
    — the output has one slot per *byte* and is indexed by byte offset, so multibyte input leaves NUL runes. -/
def reverseRaw (s : Bytes) : Bytes :=
  let n := s.length
  let out := ((offsetsSkip 0 0 s).zip (decodeAll s)).foldl (fun out (i, ch) => setAt out (n - i - 1) ch)
    (List.replicate n 0)
  encodeAll out

/-! ### substr -/

/-- `s[a:b]` for `0 ≤ a ≤ b ≤ len s` -/
def slice (s : Bytes) (a b : Nat) : Bytes := (s.drop a).take (b - a)

/-- 2-argument overload after the repair -/
def substr2 (s : Bytes) (start : Int) : Out Bytes :=
  if start < 0 then .err
  else if (s.length : Int) ≤ start then .ok []
  else .ok (s.drop start.toNat)

/-- 3-argument overload after the repair -/
def substr3 (s : Bytes) (start len : Int) : Out Bytes :=
  if start < 0 then .err
  else if len < 0 then .err
  else if (s.length : Int) ≤ start then .ok []
  else
    let end_ : Int := if len < (s.length : Int) - start then start + len else s.length
    .ok (slice s start.toNat end_.toNat)

/-- wrap an integer into the int64 range (two's complement), for the unrepaired `start + length` -/
def wrap64 (i : Int) : Int := (i + 2^63) % 2^64 - 2^63

/-- 2-argument overload before the repair: `s[start:]` panics for a negative start -/
def substr2Raw (s : Bytes) (start : Int) : Out Bytes :=
  if (s.length : Int) ≤ start then .ok []
  else if start < 0 then .panic
  else .ok (s.drop start.toNat)

/-- 3-argument overload before the repair: `end := start + length` (wrapping); `s[start:end]` panics
    when `start < 0`, `end < start` (negative length, or overflow) -/
def substr3Raw (s : Bytes) (start len : Int) : Out Bytes :=
  if (s.length : Int) ≤ start then .ok []
  else
    let e0 := wrap64 (start + len)
    let end_ : Int := if e0 > s.length then s.length else e0
    if start < 0 ∨ end_ < start then .panic
    else .ok (slice s start.toNat end_.toNat)

/-! ### position (`strings.Index`) -/

/-- `strings.Index(s, sub)`: the first byte offset at which `sub` is a prefix of the rest -/
def indexOf (sub : Bytes) : Bytes → Option Nat
  | [] => if sub.isEmpty then some 0 else none
  | b :: rest =>
    if sub.isPrefixOf (b :: rest) then some 0
    else (indexOf sub rest).map (· + 1)

/-- `position(s, sub)`: NULL (`none`) when there is no occurrence -/
def position (s sub : Bytes) : Option Int := (indexOf sub s).map Int.ofNat

/-! ### len -/
def len (s : Bytes) : Int := s.length

/-! ### replace (`strings.Replace(s, old, new, -1)`) -/

/-- `old == ""`: `new` is inserted before every rune and at the end; the runes' own bytes are copied
    unchanged (an invalid byte is a rune of width 1). `skip` as in `decodeSkip`. -/
def replaceEmptySkip (new : Bytes) : Nat → Bytes → Bytes
  | _, [] => new
  | k + 1, b :: rest => b :: replaceEmptySkip new k rest
  | 0, b :: rest => new ++ b :: replaceEmptySkip new ((decodeRune (b :: rest)).2 - 1) rest

/-- the loop of `strings.Replace` for a non-empty `old`: find the next occurrence from `start`, copy the
    gap, write `new`, continue behind the occurrence; `fuel` bounds the number of iterations
    (`len s + 1` always suffices). -/
def replaceLoop (old new : Bytes) : Nat → Bytes → Bytes
  | 0, s => s
  | fuel + 1, s =>
    match indexOf old s with
    | none => s
    | some j => s.take j ++ new ++ replaceLoop old new fuel (s.drop (j + old.length))

def replace (s old new : Bytes) : Bytes :=
  if old.isEmpty then replaceEmptySkip new 0 s else replaceLoop old new (s.length + 1) s

/-! ### specification-side definitions (independent of the functions above) -/

/-- `sub` occurs in `s` at byte offset `i` -/
def occursAt (sub s : Bytes) (i : Nat) : Bool := decide (i ≤ s.length) && sub.isPrefixOf (s.drop i)

/-- "replace all occurrences, left to right, non-overlapping" as a single scan for a non-empty `old`:
    at an occurrence emit `new` and pass over the `old.length - 1` further bytes of it (`skip`), otherwise
    copy one byte. -/
def replaceScan (old new : Bytes) : Nat → Bytes → Bytes
  | _, [] => []
  | k + 1, _ :: rest => replaceScan old new k rest
  | 0, b :: rest =>
    if old.isPrefixOf (b :: rest) then new ++ replaceScan old new (old.length - 1) rest
    else b :: replaceScan old new 0 rest

/-- reverse of the characters -/
def reverseSpec (s : Bytes) : Bytes := encodeAll (decodeAll s).reverse

end Octo.Str
