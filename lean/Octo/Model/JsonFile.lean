import Octo.Model.TyAlgebra
/-!
  Octo.Model.JsonFile — the JSON-lines datasource: schema inference (`datasources/json/impl.go`: `Creator`,
  `getOctoSQLType`) and value conversion (`datasources/json/execution.go`: `getOctoSQLValue`; `workers.go`).
  Core Lean only.  `fastjson` (tokenising, escapes, number parsing) is a trusted library: the model starts from the
  parsed document `J`; a number carries the float64 bits it denotes, a string carries what
  `time.Parse(time.RFC3339Nano, ·)` answers for it (`none` = error) — library oracles, theorems quantify over them.

  Go                                                      | model
  --------------------------------------------------------|---------------------------
  `getOctoSQLType`                                        | `J.getType`  (`none` = `TypeSum` out of fuel)
  `o.Visit(… fields[key] = TypeSum(t, getOctoSQLType(v)))` + the nullable-when-missing rule | `visitRow`
  `for sc.Scan() && i < 100`                              | `inferRows` over `rows.take 100`
  `sort.Slice(schemaFields, by name)`                     | `sortFields`
  `getOctoSQLValue` (after the repairs)                   | `getValue`;  before: `getValueRaw`
  `obj.Get(name)` (first field with that key, nil if none) | `J.get`
  worker: `values[j], ok = getOctoSQLValue(…)`, `!ok` is an error | `rowValues`

  Object keys inside one object are assumed distinct by the theorems about inference (`sort.Slice` is not stable
  and `Get` returns the first match); the model is still total on duplicate keys.
  `TypeIDDuration`/`TypeIDInt`/`Tuple`/`Any` are never inferred for JSON; `getValue` returns `(ZeroValue, false)`
  for them exactly like the Go `switch` (the Duration case of the Go code, which needs `time.ParseDuration`, is
  unreachable for inferred schemas and modelled as "no match").
  A struct type is two parallel lists; should there be fewer names than types (never produced by the codec or by the
  model) the missing names read as the empty name, as in `Ty.structLoop`.
-/
namespace Octo.Files
open Octo

inductive J where
  | null
  | bool (b : Bool)
  | num (bits : Nat)
  | str (s : List UInt8) (tm : Option Int)
  | arr (xs : List J)
  | obj (keys : List Name) (vals : List J)
  deriving Repr, Inhabited

namespace J
mutual
def size : J → Nat
  | .arr xs => 1 + sizeList xs
  | .obj _ vs => 1 + sizeList vs
  | _ => 1
def sizeList : List J → Nat
  | [] => 0
  | x :: xs => size x + sizeList xs
end

/-- `obj.Get(name)`: the first field with that key -/
def lookup (name : Name) : List Name → List J → Option J
  | k :: ks, v :: vs => if k = name then some v else lookup name ks vs
  | _, _ => none

/-- `value.Object().Get(name)`; `none` = Go's nil `*fastjson.Value` -/
def get (name : Name) : J → Option J
  | .obj ks vs => lookup name ks vs
  | _ => none
end J

/-- insertion of a (name, type) pair into a list sorted by name (`sort.Slice` on distinct names) -/
def insertField (n : Name) (t : Ty) : List (Name × Ty) → List (Name × Ty)
  | [] => [(n, t)]
  | (m, u) :: rest => if cmpName n m < 0 then (n, t) :: (m, u) :: rest else (m, u) :: insertField n t rest

def sortFields (l : List (Name × Ty)) : List (Name × Ty) := l.foldr (fun p acc => insertField p.1 p.2 acc) []

mutual
/-- `getOctoSQLType` -/
def J.getType : J → Option Ty
  | .null => some .null
  | .str _ tm => some (if tm.isSome then .time else .str)
  | .num _ => some .float
  | .bool _ => some .bool
  | .obj ks vs =>
    match J.getTypes vs with
    | some ts => let fs := sortFields (ks.zip ts); some (.struct (fs.map (·.1)) (fs.map (·.2)))
    | none => none
  | .arr xs =>
    match J.getTypes xs with
    | some ts => Ty.elemFold ts
    | none => none
def J.getTypes : List J → Option (List Ty)
  | [] => some []
  | x :: xs =>
    match J.getType x, J.getTypes xs with
    | some t, some ts => some (t :: ts)
    | _, _ => none
end

/-- the Go map `fields`: association list, one entry per key -/
abbrev Fields := List (Name × Ty)

def Fields.find (n : Name) : Fields → Option Ty
  | [] => none
  | (m, t) :: rest => if m = n then some t else Fields.find n rest

def Fields.set (n : Name) (t : Ty) : Fields → Fields
  | [] => [(n, t)]
  | (m, u) :: rest => if m = n then (m, t) :: rest else (m, u) :: Fields.set n t rest

/-- the `o.Visit` callback for the `i`-th row (1-based) -/
def visitKey (i : Nat) (fields : Fields) (k : Name) (v : J) : Option Fields :=
  match v.getType with
  | none => none
  | some tv =>
    match fields.find k with
    | some t => (Ty.typeSum t tv).map (fields.set k ·)
    | none =>
      if i > 1 then (Ty.typeSum tv .null).map (fields.set k ·)   -- missing in the previous rows
      else some (fields.set k tv)

def visitKeys (i : Nat) : Fields → List Name → List J → Option Fields
  | fields, k :: ks, v :: vs =>
    match visitKey i fields k v with
    | some f' => visitKeys i f' ks vs
    | none => none
  | fields, _, _ => some fields

/-- `for key, t := range fields { if !presentInRow[key] { fields[key] = TypeSum(t, Null) } }` -/
def markMissing (ks : List Name) : Fields → Option Fields
  | [] => some []
  | (m, t) :: rest =>
    match (if ks.contains m then some t else Ty.typeSum t .null), markMissing ks rest with
    | some t', some rest' => some ((m, t') :: rest')
    | _, _ => none

inductive InferRes where
  | error           -- a line that is not a JSON object
  | fuel
  | ok (fields : Fields)
  deriving Repr

/-- one previewed row -/
def visitRow (i : Nat) (fields : Fields) : J → InferRes
  | .obj ks vs =>
    match visitKeys i fields ks vs with
    | none => .fuel
    | some f' =>
      match markMissing ks f' with
      | none => .fuel
      | some f'' => .ok f''
  | _ => .error

def inferRowsFrom : Nat → Fields → List J → InferRes
  | _, fields, [] => .ok fields
  | i, fields, r :: rs =>
    match visitRow i fields r with
    | .ok f' => inferRowsFrom (i + 1) f' rs
    | e => e

def jsonPreviewRows : Nat := 100

/-- `Creator`: the schema (sorted by field name) -/
def jsonCreate (rows : List J) : InferRes :=
  match inferRowsFrom 1 [] (rows.take jsonPreviewRows) with
  | .ok fields => .ok (sortFields fields)
  | e => e

/-- a missing field or an explicit null: `octosql.Null.Is(t) == TypeRelationIs` -/
def nullOk (t : Ty) : Bool := Ty.null.is t == .is

def andOk (p : List (Value × Bool)) : List Value × Bool := (p.map (·.1), p.all (·.2))

mutual
/-- `getOctoSQLValue` after the repairs; the `Bool` is `ok` -/
def getValue : Ty → Option J → Value × Bool
  | t, none => (.null, nullOk t)
  | t, some .null => (.null, nullOk t)
  | .float, some (.num b) => (.float b, true)
  | .bool, some (.bool b) => (.bool b, true)
  | .str, some (.str s _) => (.str s, true)
  | .time, some (.str _ (some ns)) => (.time ns 0, true)
  | .listNil, some (.arr xs) => if xs.isEmpty then (.list [], true) else (.null, false)
  | .list e, some (.arr xs) =>
    let r := andOk (xs.map fun x => getValue e (some x))
    (.list r.1, r.2)
  | .struct ns ts, some (.obj ks vs) =>
    let r := getFields ns ts (.obj ks vs)
    (.struct r.1, r.2)
  | .union alts, some j => getUnion alts j
  | _, _ => (.null, false)
/-- `for i, field := range t.Struct.Fields { getOctoSQLValue(field.Type, obj.Get(field.Name)) … }` -/
def getFields : List Name → List Ty → J → List Value × Bool
  | ns, t :: ts, o =>
    let r := getValue t (o.get (ns.headD []))
    let rs := getFields ns.tail ts o
    (r.1 :: rs.1, r.2 && rs.2)
  | _, [], _ => ([], true)
/-- `for _, alternative := range t.Union.Alternatives { if v, ok := …; ok { return v, true } }` -/
def getUnion : List Ty → J → Value × Bool
  | [], _ => (.null, false)
  | a :: as, j =>
    let r := getValue a (some j)
    if r.2 then (r.1, true) else getUnion as j
end

/-- `getOctoSQLValue` before the repairs: `nil` fits only the type Null itself, an explicit JSON null fits nothing
    (it falls through the `switch`), and the empty-list type dereferences a nil element type. -/
inductive RawOut where
  | val (v : Value) (ok : Bool)
  | panic
  deriving Repr

def rawAnd (p : List RawOut) : Option (List Value × Bool) :=
  p.foldr (fun r acc => match r, acc with
    | .val v ok, some (vs, oks) => some (v :: vs, ok && oks)
    | _, _ => none) (some ([], true))

mutual
def getValueRaw : Ty → Option J → RawOut
  | t, none => .val .null (match t with | .null => true | _ => false)
  | .float, some (.num b) => .val (.float b) true
  | .bool, some (.bool b) => .val (.bool b) true
  | .str, some (.str s _) => .val (.str s) true
  | .time, some (.str _ (some ns)) => .val (.time ns 0) true
  | .listNil, some (.arr xs) => if xs.isEmpty then .val (.list []) true else .panic
  | .list e, some (.arr xs) =>
    match rawAnd (xs.map fun x => getValueRaw e (some x)) with
    | some r => .val (.list r.1) r.2
    | none => .panic
  | .struct ns ts, some (.obj ks vs) =>
    match getFieldsRaw ns ts (.obj ks vs) with
    | some r => .val (.struct r.1) r.2
    | none => .panic
  | .union alts, some j => getUnionRaw alts j
  | _, _ => .val .null false
def getFieldsRaw : List Name → List Ty → J → Option (List Value × Bool)
  | ns, t :: ts, o =>
    match getValueRaw t (o.get (ns.headD [])), getFieldsRaw ns.tail ts o with
    | .val v ok, some rs => some (v :: rs.1, ok && rs.2)
    | _, _ => none
  | _, [], _ => some ([], true)
def getUnionRaw : List Ty → J → RawOut
  | [], _ => .val .null false
  | a :: as, j =>
    match getValueRaw a (some j) with
    | .val v true => .val v true
    | .val _ false => getUnionRaw as j
    | .panic => .panic
end

/-- the worker, one line: `none` = error (not an object, or a value that does not match its column type) -/
def rowValues (schema : Fields) (row : J) : Option (List Value) :=
  match row with
  | .obj _ _ =>
    let r := schema.map fun f => getValue f.2 (row.get f.1)
    if r.all (·.2) then some (r.map (·.1)) else none
  | _ => none

/-- the worker before the repair: `ok` is ignored -/
def rowValuesRaw (schema : Fields) (row : J) : Option (List Value) :=
  match row with
  | .obj _ _ =>
    (schema.map fun f => getValueRaw f.2 (row.get f.1)).foldr (fun r acc =>
      match r, acc with
      | .val v _, some vs => some (v :: vs)
      | _, _ => none) (some [])
  | _ => none

def allSome {α} : List (Option α) → Option (List α)
  | [] => some []
  | some x :: xs => (allSome xs).map (x :: ·)
  | none :: _ => none

inductive JsonRes where
  | errCreate
  | fuel
  | errRun (schema : Fields)
  | ok (schema : Fields) (recs : List (List Value))
  deriving Repr

/-- column pruning (cyclic mask over the schema fields, which are sorted by name) -/
def keepFields (keep : List Bool) (schema : Fields) : Fields :=
  if keep.isEmpty then schema
  else (schema.zipIdx.filter fun p => keep.getD (p.2 % keep.length) true).map (·.1)

/-- Creator, then `Run` with the full inferred schema; the records are in line order (`Octo.C23.reorder_correct`) -/
def jsonRun (rows : List J) : JsonRes :=
  match jsonCreate rows with
  | .error => .errCreate
  | .fuel => .fuel
  | .ok schema =>
    match allSome (rows.map (rowValues schema)) with
    | some recs => .ok schema recs
    | none => .errRun schema

/-- … with a pruned schema -/
def jsonRunKeep (keep : List Bool) (rows : List J) : JsonRes :=
  match jsonCreate rows with
  | .error => .errCreate
  | .fuel => .fuel
  | .ok schema =>
    let schema' := keepFields keep schema
    match allSome (rows.map (rowValues schema')) with
    | some recs => .ok schema' recs
    | none => .errRun schema'

/-! ### Specification: a value carries what the JSON value contains; a JSON value is representable in a type -/

def zipAll {α β} (f : α → β → Bool) : List α → List β → Bool
  | [], [] => true
  | a :: as, b :: bs => f a b && zipAll f as bs
  | _, _ => false

mutual
/-- `represents t v j`: read back through the type `t`, the value `v` is exactly what `j` contains
    (`none` = the field is missing: it reads as NULL).  Independent of `getValue`'s control flow: it goes from
    the value to the document.  Struct values are positional, the field names come from `t`. -/
def represents : Ty → Value → Option J → Bool
  | _, .null, none => true
  | _, .null, some .null => true
  | .float, .float b, some (.num b') => b == b'
  | .bool, .bool b, some (.bool b') => b == b'
  | .str, .str s, some (.str s' _) => s == s'
  | .time, .time ns _, some (.str _ (some ns')) => ns == ns'
  | .listNil, .list vs, some (.arr xs) => vs.isEmpty && xs.isEmpty
  | .list e, .list vs, some (.arr xs) => zipAll (fun v x => represents e v (some x)) vs xs
  | .struct ns ts, .struct fs, some (.obj ks vs) => representsFields ns ts fs (.obj ks vs)
  | .union alts, v, some j => representsAny alts v j
  | _, _, _ => false
def representsFields : List Name → List Ty → List Value → J → Bool
  | ns, t :: ts, f :: fs, o => represents t f (o.get (ns.headD [])) && representsFields ns.tail ts fs o
  | _, [], [], _ => true
  | _, _, _, _ => false
def representsAny : List Ty → Value → J → Bool
  | [], _, _ => false
  | a :: as, v, j => represents a v (some j) || representsAny as v j
end

mutual
/-- `fits t j`: the JSON value (`none` = missing) can be represented in the type `t`.  Kind directed:
    the JSON kind selects the alternative. -/
def fits : Ty → Option J → Bool
  | t, none => nullOk t
  | t, some .null => nullOk t
  | .float, some (.num _) => true
  | .bool, some (.bool _) => true
  | .str, some (.str _ _) => true
  | .time, some (.str _ tm) => tm.isSome
  | .listNil, some (.arr xs) => xs.isEmpty
  | .list e, some (.arr xs) => xs.all fun x => fits e (some x)
  | .struct ns ts, some (.obj ks vs) => fitsFields ns ts (.obj ks vs)
  | .union alts, some j => fitsAny alts j
  | _, _ => false
def fitsFields : List Name → List Ty → J → Bool
  | ns, t :: ts, o => fits t (o.get (ns.headD [])) && fitsFields ns.tail ts o
  | _, [], _ => true
def fitsAny : List Ty → J → Bool
  | [], _ => false
  | a :: as, j => fits a (some j) || fitsAny as j
end

mutual
/-- every key of every object of `j` has a place in `t` (no value of the row is dropped) -/
def coversKeys : Ty → J → Bool
  | .list e, .arr xs => xs.all fun x => coversKeys e x
  | .struct ns ts, .obj ks vs => ks.all (fun k => ns.contains k) && coversFields ns ts (.obj ks vs)
  | .union alts, j => coversAny alts j
  | _, .obj _ _ => false
  | _, _ => true
def coversFields : List Name → List Ty → J → Bool
  | ns, t :: ts, o => (match o.get (ns.headD []) with | some x => coversKeys t x | none => true) && coversFields ns.tail ts o
  | _, [], _ => true
def coversAny : List Ty → J → Bool
  | [], j => (match j with | .obj _ _ => false | .arr _ => false | _ => true)
  | a :: as, j => (fits a (some j) && coversKeys a j) || coversAny as j
end

end Octo.Files
