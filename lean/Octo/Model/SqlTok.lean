/-!
# Tokens of the SQL grammar fragment and the interpreter of extracted `Format` templates (C30)

`Tok` is the token alphabet the real tokenizer (`parser/sqlparser/token.go`) produces, restricted to what the modelled
grammar fragment uses.  `Kw` enumerates the keyword / operator / punctuation tokens of the fragment by their goyacc
names (`SELECT`, `JSON_EXTRACT_OP`, …; single characters are named `LPAREN`, `COMMA`, …).

`Step`/`ListFmt` are the shapes into which the translator (`vh extract sqlformat`) puts every `Format` method of
`ast.go`; `Fmt.run` / `ListFmt.run` interpret them.  Core Lean only.
-/
namespace Octo.SqlSyn

inductive Kw
  | SELECT | FROM | WHERE | GROUP | BY | HAVING | ORDER | LIMIT | OFFSET | DISTINCT | AS | ASC | DESC | JOIN | INNER | CROSS
  | LEFT | RIGHT | OUTER | NATURAL | ON | USING | LOOKUP | STREAM | TRIGGER | COUNTING | WATERMARK | DELAY | AFTER | END | OF
  | TABLE | DESCRIPTOR | WITH | AND | OR | NOT | IS | NULL | TRUE | FALSE | IN | LIKE | REGEXP | EXISTS | INTERVAL | DIV | MOD
  | CONVERT | CAST
  | LPAREN | RPAREN | COMMA | DOT | STAR | PLUS | MINUS | SLASH | PERCENT | CARET | AMP | PIPE | TILDE | BANG | EQ | LT | GT
  | LE | GE | NE | NULL_SAFE_EQUAL | SHIFT_LEFT | SHIFT_RIGHT | JSON_EXTRACT_OP | JSON_EXPLODE_OP | RIGHTARROW | LIST_ARG
  | LIST_TYPE | OBJECT_TYPE | LBRACK | RBRACK | SEMI
  deriving DecidableEq, Repr, Inhabited

/-- one token of the real tokenizer -/
inductive Tok
  | kw (k : Kw)            -- a keyword / operator / punctuation token of the fragment
  | nrkw (v : String)      -- a non-reserved keyword the fragment does not use as a keyword (`time`, `int`, …): usable as identifier
  | other (name : String)  -- any other keyword token (outside the fragment)
  | id (s : String) | str (s : String) | int (s : String) | float (s : String)
  | hexnum (s : String) | hex (s : String) | bit (s : String)
  | bad (why : String)     -- what the model prints when a template refers to something it does not know (fail closed)
  deriving DecidableEq, Repr, Inhabited

/-- a piece of a `Myprintf` format string: literal text (already tokenised by the real tokenizer) or a `%v`/`%s` argument,
    named by the Go source text of the argument expression -/
inductive Piece
  | lit (ts : List Tok)
  | arg (verb : Char) (src : String)
  deriving Repr

inductive Act
  | printf (ps : List Piece)
  | ret
  | assign (var : String) (ts : List Tok)
  deriving Repr

/-- one statement of a `Format` body together with the `if` conditions (Go source text, expected truth value) guarding it -/
structure Step where
  conds : List (String × Bool)
  act : Act
  deriving Repr

/-- `prefix := first; for … { Myprintf("%s%v", prefix, n); prefix = sep }; WriteString(last)` -/
structure ListFmt where
  first : List Tok
  sep : List Tok
  last : List Tok
  nilGuard : Bool
  deriving Repr

/-- what a node supplies to its template: the tokens of each argument expression and the value of each condition -/
structure Env where
  arg : List (String × List Tok)
  cond : List (String × Bool)

def lookup {α : Type} (k : String) : List (String × α) → Option α
  | [] => none
  | (k', v) :: rest => if k' = k then some v else lookup k rest

def runPieces (vars args : List (String × List Tok)) : List Piece → List Tok
  | [] => []
  | .lit ts :: ps => ts ++ runPieces vars args ps
  | .arg _ src :: ps =>
    (match lookup src vars with
     | some ts => ts
     | none => match lookup src args with
       | some ts => ts
       | none => [Tok.bad src]) ++ runPieces vars args ps

/-- do all guards hold?  `none`: a guard the node does not know -/
def evalConds (conds : List (String × Bool)) : List (String × Bool) → Option Bool
  | [] => some true
  | (c, want) :: rest =>
    match lookup c conds with
    | none => none
    | some v => if v = want then evalConds conds rest else some false

def runSteps (env : Env) (vars : List (String × List Tok)) : List Step → List Tok
  | [] => []
  | s :: rest =>
    match evalConds env.cond s.conds with
    | none => [Tok.bad "cond"]
    | some false => runSteps env vars rest
    | some true =>
      match s.act with
      | .printf ps => runPieces vars env.arg ps ++ runSteps env vars rest
      | .ret => []
      | .assign v ts => runSteps env ((v, ts) :: vars) rest

def Fmt.run (steps : List Step) (args : List (String × List Tok)) (conds : List (String × Bool)) : List Tok :=
  runSteps ⟨args, conds⟩ [] steps

def ListFmt.items (sep : List Tok) : List (List Tok) → List Tok
  | [] => []
  | x :: xs => sep ++ x ++ ListFmt.items sep xs

/-- the loop with the prefix variable (the `nil` guard only matters for `Columns`, whose callers check for nil first) -/
def ListFmt.run (f : ListFmt) : List (List Tok) → List Tok
  | [] => f.last
  | x :: xs => f.first ++ x ++ ListFmt.items f.sep xs ++ f.last

end Octo.SqlSyn
