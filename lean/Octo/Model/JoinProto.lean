import Octo.Gen.JsonPipe
/-!
# The goroutine protocol of StreamJoin.Run / OuterJoin.Run (C29)

Both nodes start one producer goroutine per input; a producer runs its source and forwards every record,
watermark and a final error as a message on a buffered channel (`leftMessages` / `rightMessages`, capacity
`joinCap`), then closes the channel. The node itself is the consumer: a `select` over both channels until one of
them is closed, then a `for … range` over the other; it may return at any receive (an error message, an error of
`produce` / `metaSend`, e.g. LIMIT reached downstream).

What the join computes is C19's model (`Octo/Model/Join.lean`); here only the protocol matters, so messages are
counted, not represented.

`fixed = true` mirrors the current code: the producers' sends are `select { case ch <- msg: case <-ctx.Done(): }`
on a context that the node cancels when it returns. `fixed = false` is the code before the `fix:` commit
(plain `ch <- msg`, `// TODO: Fix goroutine leak.`): see `Octo.C29.join_unfixed_leaks`.
-/
namespace Octo.JoinProto

abbrev cap : Nat := Octo.Gen.JsonPipe.joinCap

inductive Side | L | R
  deriving DecidableEq, Repr, Inhabited

def Side.other : Side → Side
  | .L => .R
  | .R => .L

/-- one producer goroutine and its channel -/
structure Prod where
  rem : Nat        -- messages the source still produces (records, watermarks, a final error)
  q : Nat          -- len(channel)
  closed : Bool    -- `close(channel)` executed: the goroutine has ended
  aborted : Bool   -- a send took the `ctx.Done()` branch: the source returns, the goroutine goes on to close
  deriving DecidableEq, Repr, Inhabited

/-- consumer (the node's Run) -/
inductive CPc
  | both                 -- `select` over both channels
  | only (s : Side)      -- `for msg := range openChannel` over side `s`
  | ret                  -- returned
  deriving DecidableEq, Repr, Inhabited

structure State where
  fixed : Bool
  l : Prod
  r : Prod
  cpc : CPc
  deriving DecidableEq, Repr, Inhabited

def State.prod (s : State) : Side → Prod
  | .L => s.l
  | .R => s.r

def State.setProd (s : State) (sd : Side) (p : Prod) : State :=
  match sd with
  | .L => { s with l := p }
  | .R => { s with r := p }

/-- the context the sources run with is cancelled (only the fixed code cancels it, when the node returns) -/
def State.cancelled (s : State) : Bool := s.fixed && (s.cpc == .ret)

inductive Action
  | pSend (sd : Side)            -- producer: `ch <- msg`
  | pAbort (sd : Side)           -- producer: `<-ctx.Done()` in the send's select (fixed code only)
  | pClose (sd : Side)           -- producer: `close(ch)`, goroutine ends
  | cRecv (sd : Side) (stop : Bool)   -- consumer: receives a message from `sd`; `stop`: it then returns (error / LIMIT)
  | cSeeClosed (sd : Side)       -- consumer: observes `sd` closed and drained
  deriving DecidableEq, Repr, Inhabited

/-- may the consumer currently receive from side `sd`? -/
def listens (c : CPc) (sd : Side) : Bool :=
  match c with
  | .both => true
  | .only s => s == sd
  | .ret => false

def step (s : State) : Action → Option State
  | .pSend sd =>
    let p := s.prod sd
    if 0 < p.rem ∧ p.aborted = false ∧ p.closed = false ∧ p.q < cap then
      some (s.setProd sd { p with rem := p.rem - 1, q := p.q + 1 })
    else none
  | .pAbort sd =>
    let p := s.prod sd
    if 0 < p.rem ∧ p.aborted = false ∧ p.closed = false ∧ s.cancelled = true then
      some (s.setProd sd { p with aborted := true })
    else none
  | .pClose sd =>
    let p := s.prod sd
    if (p.rem = 0 ∨ p.aborted = true) ∧ p.closed = false then
      some (s.setProd sd { p with closed := true })
    else none
  | .cRecv sd stop =>
    let p := s.prod sd
    if listens s.cpc sd = true ∧ 0 < p.q then
      some { (s.setProd sd { p with q := p.q - 1 }) with cpc := if stop then .ret else s.cpc }
    else none
  | .cSeeClosed sd =>
    let p := s.prod sd
    if listens s.cpc sd = true ∧ p.q = 0 ∧ p.closed = true then
      some { s with cpc := match s.cpc with
                           | .both => .only sd.other
                           | _ => .ret }
    else none

def run (s : State) : List Action → Option State
  | [] => some s
  | a :: as => match step s a with
    | some s' => run s' as
    | none => none

/-- start: the sources will produce `nl` / `nr` messages -/
def State.init (fixed : Bool) (nl nr : Nat) : State :=
  { fixed := fixed, l := ⟨nl, 0, false, false⟩, r := ⟨nr, 0, false, false⟩, cpc := .both }

def Reachable (s : State) : Prop := ∃ fixed nl nr sched, run (State.init fixed nl nr) sched = some s

/-- everything has ended: the node returned and both producer goroutines closed their channel -/
def State.final (s : State) : Prop := s.cpc = .ret ∧ s.l.closed = true ∧ s.r.closed = true

instance (s : State) : Decidable s.final := by unfold State.final; infer_instance

/-- 1 while the flag is still unset -/
def unset (b : Bool) : Nat := match b with | true => 0 | false => 1

def prodMeasure (p : Prod) : Nat := 3 * p.rem + p.q + unset p.aborted + unset p.closed

def cpcMeasure : CPc → Nat
  | .both => 2
  | .only _ => 1
  | .ret => 0

def measure (s : State) : Nat := prodMeasure s.l + prodMeasure s.r + cpcMeasure s.cpc

end Octo.JoinProto
