/-!
  Octo.Model.FileQueue — the line-number reorder queue of the JSON datasource
  (`datasources/json/execution.go`, `Run`: the reader goroutine and the `produceLoop`), core Lean only.

  Go                                                          | model
  ------------------------------------------------------------|-----------------------------------------
  reader goroutine: `job.lines`/`job.data` in batches of 64   | `mkBatches b lines`
  worker: `outJobs[i] = {line, record | err}`                 | a batch item `(line, some record | none)`
  `for len(queue) <= out.line-startIndex {append nil}`        | `extendTo`
  `queue[out.line-startIndex] = &out.record`                  | `setAt`  (a negative index panics: `placeOne = none`)
  `for len(queue) > 0 && queue[0] != nil {produce; …}`        | `flush`
  `select { case outJobs := <-outChan … case <-done … }`      | `consume` over an explicit event list (= the schedule)
  `if fileReaderIsDone && startIndex == linesRead {break}`    | `Result.stopped out rest`
  the select blocks forever                                   | `Result.blocked`

  The schedule (which batch result reaches the consumer when, and when the consumer sees `done`) is an
  argument; the number of parser workers and the Go scheduler only decide which schedules can occur.
-/
namespace Octo.Files

variable {α : Type}

/-- `job.lines = append(job.lines, line); …; line++` -/
def number : Nat → List α → List (Nat × α)
  | _, [] => []
  | s, x :: xs => (s, x) :: number (s + 1) xs

/-- the reader goroutine: consecutive line numbers from `start`, cut into jobs of `b` lines
    (`fuel` bounds the number of jobs; `mkBatches` supplies enough) -/
def mkBatchesFrom (b : Nat) : Nat → Nat → List α → List (List (Nat × α))
  | 0, _, _ => []
  | _ + 1, _, [] => []
  | fuel + 1, start, x :: xs =>
    let rest := x :: xs
    number start (rest.take b) :: mkBatchesFrom b fuel (start + b) (rest.drop b)

def mkBatches (b : Nat) (lines : List α) : List (List (Nat × α)) := mkBatchesFrom b lines.length 0 lines

structure QState (α : Type) where
  queue : List (Option α)
  start : Nat
  out : List α

def QState.init : QState α := ⟨[], 0, []⟩

/-- `for len(queue) <= idx { queue = append(queue, nil) }` -/
def extendTo (q : List (Option α)) (idx : Nat) : List (Option α) :=
  q ++ List.replicate (idx + 1 - q.length) none

/-- `queue[idx] = &record` (the index is in range after `extendTo`) -/
def setAt : List (Option α) → Nat → α → List (Option α)
  | [], _, _ => []
  | _ :: xs, 0, r => some r :: xs
  | x :: xs, i + 1, r => x :: setAt xs i r

/-- `for len(queue) > 0 && queue[0] != nil { produce(*queue[0]); queue = queue[1:]; startIndex++ }` -/
def flush : List (Option α) → Nat → List α → QState α
  | some r :: q, s, out => flush q (s + 1) (out ++ [r])
  | q, s, out => ⟨q, s, out⟩

/-- one parsed line reaches the queue; `none` = Go panics (slice index out of range: `line < startIndex`) -/
def placeOne (st : QState α) (line : Nat) (r : α) : Option (QState α) :=
  if line < st.start then none
  else
    let idx := line - st.start
    some (flush (setAt (extendTo st.queue idx) idx r) st.start st.out)

inductive Placed (α : Type) where
  | ok (st : QState α)
  | parseError (line : Nat)      -- `couldn't parse line %d`
  | panic

/-- the `for i := range outJobs` loop -/
def placeAll : QState α → List (Nat × Option α) → Placed α
  | st, [] => .ok st
  | _, (line, none) :: _ => .parseError line
  | st, (line, some r) :: items =>
    match placeOne st line r with
    | none => .panic
    | some st' => placeAll st' items

/-- what the consumer's `select` receives -/
inductive Event (α : Type) where
  | batch (items : List (Nat × Option α))
  | done (readerErr : Bool)
  deriving DecidableEq, Repr

inductive Result (α : Type) where
  | stopped (out : List α) (unconsumed : List (Event α))   -- `break produceLoop`, `Run` returns nil
  | blocked (out : List α)                                  -- no event left and the loop still waits: a hang
  | parseError (line : Nat)
  | readerError
  | panic
  deriving DecidableEq, Repr

/-- `produceLoop`; `linesRead` is the reader's final count (read only after `done` was received) -/
def consume (linesRead : Nat) : QState α → Bool → List (Event α) → Result α
  | st, _, [] => .blocked st.out
  | st, readerDone, .batch items :: evs =>
    match placeAll st items with
    | .parseError l => .parseError l
    | .panic => .panic
    | .ok st' =>
      if readerDone && st'.start == linesRead then .stopped st'.out evs
      else consume linesRead st' readerDone evs
  | st, _, .done err :: evs =>
    if err then .readerError
    else if st.start == linesRead then .stopped st.out evs
    else consume linesRead st true evs

/-- a schedule: the batch results in the order `bs` in which they reach the consumer, with the reader's
    `done` received after the first `pos` of them -/
def schedule (bs : List (List (Nat × Option α))) (pos : Nat) : List (Event α) :=
  (bs.take pos).map .batch ++ [.done false] ++ (bs.drop pos).map .batch

/-- worker: every line of a job is parsed (`none` = parse error) -/
def parseBatch {β : Type} (parse : α → Option β) (job : List (Nat × α)) : List (Nat × Option β) :=
  job.map fun p => (p.1, parse p.2)

end Octo.Files
