import Octo.Model.Fs
/-!
  Model of plugin discovery, version resolution and installation (C27, C28), mirroring

    plugins/manager/manager.go      ListInstalledPlugins, GetPluginBinaryPath, Install
    plugins/manager/extensions.go   loadFileExtensionHandlers, saveFileExtensionHandlers
    plugins/repository/repository.go GetManifest (sort), getAdditionalPluginRepositoryURLs, AddRepository
    cmd/root.go                     RunE: the `dbLoop` that fills in plugin versions, the extension registry load
    config/config.go                PluginReference

  The semantic-version library (Masterminds/semver) and the JSON decoder are PARAMETERS (`Sem`): the model never
  looks inside a version or a JSON text. The laws the theorems need are stated in `Sem.Lawful`.
  All paths are relative to `~/.octosql` (config and data directory coincide by default).
-/
namespace Octo.Plugins
open Octo.Fs

/-- config.PluginReference -/
structure Ref where
  name : FName
  repo : FName
  deriving DecidableEq, Repr

/-- what the model needs from the libraries -/
structure Sem (V C : Type) where
  /-- semver.NewVersion on a directory name -/
  parse : FName → Option V
  /-- Version.String() -/
  toStr : V → FName
  /-- Version.GreaterThan -/
  gt : V → V → Bool
  /-- Constraints.Check -/
  check : C → V → Bool
  /-- Version.Prerelease() != "" -/
  pre : V → Bool
  /-- the constraint `*` used when a database has no `version:` key -/
  star : C
  /-- json.Unmarshal of the extension registry into map[string]string succeeds -/
  handlersOk : Bytes → Bool
  /-- json.Unmarshal of a repository entry succeeds -/
  repoEntryOk : Bytes → Bool

def lit (s : String) : FName := s.toList

def pluginPrefix : FName := lit "octosql-plugin-"

def stripPrefix? : FName → FName → Option FName
  | [], s => some s
  | _ :: _, [] => none
  | p :: ps, c :: cs => if p = c then stripPrefix? ps cs else none

/-- strings.TrimPrefix -/
def trimPrefix (pre s : FName) : FName :=
  match stripPrefix? pre s with
  | some rest => rest
  | none => s

/-- the plugin name of a directory `octosql-plugin-<name>` (ListInstalledPlugins) -/
def nameOfDir (d : FName) : FName := trimPrefix pluginPrefix d

/-- strings.LastIndex(s, "-"), as position counted from the front; `none` is Go's -1 -/
def lastDash : FName → Option Nat
  | [] => none
  | c :: cs =>
    match lastDash cs with
    | some i => some (i + 1)
    | none => if c = '-' then some 0 else none

/-- what the code did BEFORE the repair (kept for the witness; not used by the model):
    `first := LastIndex(name, "-")`, `second := first + 1 + LastIndex(name[first+1:], "-")`, `name[second+1:]`.
    The inner LastIndex never finds a dash, so this is "everything after the last dash". -/
def nameOfDirLastDash (d : FName) : FName :=
  match lastDash d with
  | none => d
  | some first =>
    match lastDash (d.drop (first + 1)) with
    | none => d.drop (first + 1)                    -- second = first + 1 + (-1) = first
    | some j => d.drop (first + 1 + j + 1)

/-- strings.HasPrefix(name, ".") — staging directories of an installation are skipped by the listing -/
def isDot : FName → Bool
  | '.' :: _ => true
  | _ => false

/-! ### sorting (sort.Slice with GreaterThan as `less`; an insertion sort stands in for the library) -/

def insertDesc {V : Type} (gt : V → V → Bool) (x : V) : List V → List V
  | [] => [x]
  | y :: ys => if gt y x then y :: insertDesc gt x ys else x :: y :: ys

def sortDesc {V : Type} (gt : V → V → Bool) : List V → List V
  | [] => []
  | x :: xs => insertDesc gt x (sortDesc gt xs)

/-! ### Except helpers -/

def mapE {α β ε : Type} (f : α → Except ε β) : List α → Except ε (List β)
  | [] => .ok []
  | x :: xs =>
    match f x with
    | .error e => .error e
    | .ok y =>
      match mapE f xs with
      | .error e => .error e
      | .ok ys => .ok (y :: ys)

/-! ### paths -/

def pluginsDir : Path := [lit "plugins"]
def repositoriesDir : Path := [lit "repositories"]
def handlersFile : Path := [lit "file_extension_handlers.json"]
def handlersTmp : Path := [lit "file_extension_handlers.json.tmp"]
def repoTmp (slug : FName) : Path := [lit "repositories-" ++ slug ++ lit ".tmp"]
def repoEntry (slug : FName) : Path := repositoriesDir ++ [slug]

def pluginDirName (n : FName) : FName := pluginPrefix ++ n
def pluginDir (ref : Ref) : Path := pluginsDir ++ [ref.repo, pluginDirName ref.name]
def versionDir (ref : Ref) (v : FName) : Path := pluginDir ref ++ [v]
def stagingDir (ref : Ref) (v : FName) : Path := pluginDir ref ++ [lit ".installing-" ++ v]
def oldDir (ref : Ref) (v : FName) : Path := pluginDir ref ++ [lit ".old-" ++ v]
def archiveFile (ref : Ref) (v : FName) : Path := stagingDir ref v ++ [lit "archive.tar.gz"]
/-- GetPluginBinaryPath -/
def binaryPath (ref : Ref) (v : FName) : Path := versionDir ref v ++ [pluginDirName ref.name]

/-! ### ListInstalledPlugins -/

inductive Err where
  | listPlugins            -- "couldn't list plugins directory"
  | listPlugin             -- "couldn't list plugin directory"
  | versionParse           -- "couldn't parse plugin … version number"
  | notInstalled (db : FName)  -- "database … plugin … is not installed with the required version"
  | handlers               -- "couldn't get file extension handlers"
  | repositories           -- "couldn't get additional repository URLs"
  deriving DecidableEq, Repr

/-- manager.PluginMetadata -/
structure Meta (V : Type) where
  ref : Ref
  versions : List V

section
variable {V C : Type} (S : Sem V C)

def parseE (x : FName) : Except Err V :=
  match S.parse x with
  | some v => .ok v
  | none => .error .versionParse

/-- the versions of one plugin directory: entries starting with "." skipped, every other entry must parse,
    sorted descending -/
def listVersions (fs : Fs) (pd : Path) : Except Err (List V) :=
  match readDir fs pd with
  | .error _ => .error .listPlugin
  | .ok names =>
    match mapE (parseE S) (names.filter (fun x => !isDot x)) with
    | .error e => .error e
    | .ok vs => .ok (sortDesc S.gt vs)

def listPlugin (fs : Fs) (r d : FName) : Except Err (Meta V) :=
  match listVersions S fs (pluginsDir ++ [r, d]) with
  | .error e => .error e
  | .ok vs => .ok ⟨⟨nameOfDir d, r⟩, vs⟩

def listRepo (fs : Fs) (r : FName) : Except Err (List (Meta V)) :=
  match readDir fs (pluginsDir ++ [r]) with
  | .error _ => .error .listPlugins
  | .ok ds => mapE (listPlugin S fs r) ds

def listInstalled (fs : Fs) : Except Err (List (Meta V)) :=
  match readDir fs pluginsDir with
  | .error .notExist => .ok []
  | .error _ => .error .listPlugins
  | .ok rs =>
    match mapE (listRepo S fs) rs with
    | .error e => .error e
    | .ok mss => .ok mss.flatten

/-! ### start-up (cmd/root.go RunE) -/

/-- config.DatabaseConfig (name, type, version constraint) -/
structure Db (C : Type) where
  name : FName
  type : Ref
  constraint : Option C

def Db.con (db : Db C) : C :=
  match db.constraint with
  | some c => c
  | none => S.star

/-- the `dbLoop` body: the first installed plugin with the database's reference decides; within it the first
    (= highest) version passing the constraint -/
def resolveDb (ms : List (Meta V)) (db : Db C) : Option V :=
  match ms.find? (fun m => decide (m.ref = db.type)) with
  | none => none
  | some m => m.versions.find? (S.check (db.con S))

def resolveE (ms : List (Meta V)) (db : Db C) : Except Err (Db C × V) :=
  match resolveDb S ms db with
  | some v => .ok (db, v)
  | none => .error (.notInstalled db.name)

/-- loadFileExtensionHandlers: a missing file is an empty registry -/
def loadHandlers (fs : Fs) : Except Err Unit :=
  match get fs handlersFile with
  | none => .ok ()
  | some .dir => .error .handlers
  | some (.file c) => if S.handlersOk c then .ok () else .error .handlers

/-- what RunE does before it looks at the query: list, resolve every configured database, load the registry -/
def startup (fs : Fs) (cfg : List (Db C)) : Except Err (List (Db C × V)) :=
  match listInstalled S fs with
  | .error e => .error e
  | .ok ms =>
    match mapE (resolveE S ms) cfg with
    | .error e => .error e
    | .ok res =>
      match loadHandlers S fs with
      | .error e => .error e
      | .ok () => .ok res

/-- getAdditionalPluginRepositoryURLs (start of `plugin install` and of the `plugins` database):
    every entry of the repositories directory must decode -/
def loadRepositories (fs : Fs) : Except Err (List FName) :=
  match readDir fs repositoriesDir with
  | .error .notExist => .ok []
  | .error _ => .error .repositories
  | .ok names =>
    mapE (fun x => match get fs (repositoriesDir ++ [x]) with
                   | some (.file c) => if S.repoEntryOk c then .ok x else .error .repositories
                   | _ => .error .repositories) names

/-- GetPluginBinaryPath succeeds -/
def runnable (fs : Fs) (ref : Ref) (v : V) : Bool :=
  match get fs (binaryPath ref (S.toStr v)) with
  | some _ => true
  | none => false

/-! ### Install: version selection -/

/-- the selection loop over the manifest (already sorted descending by GetManifest) -/
def pick (c : Option C) (vs : List V) : Option V :=
  match c with
  | some c => vs.find? (S.check c)
  | none => vs.find? (fun v => !S.pre v)

/-- GetManifest sorts, Install picks -/
def installPick (c : Option C) (manifest : List V) : Option V := pick S c (sortDesc S.gt manifest)

end

/-! ### Install / AddRepository as filesystem steps -/

/-- one installation: which plugin, which version directory name, the staging work (download + unarchive,
    all below the staging directory) and the new registry content (`none`: the registry could not be read,
    Install returns before writing) -/
structure InstallJob where
  ref : Ref
  v : FName
  staging : List Prim
  newHandlers : Option Bytes

/-- saveFileExtensionHandlers -/
def saveHandlersPrims (data : Bytes) : List Prim :=
  [.create handlersTmp, .append handlersTmp data, .rename handlersTmp handlersFile]

/-- the part of Install that touches the file system, in program order -/
def installPrims (j : InstallJob) : List Prim :=
  [.removeAll (stagingDir j.ref j.v), .mkdirAll (stagingDir j.ref j.v)]
  ++ j.staging
  ++ [.removeAll (oldDir j.ref j.v),
      .renameIfExists (versionDir j.ref j.v) (oldDir j.ref j.v),
      .rename (stagingDir j.ref j.v) (versionDir j.ref j.v),
      .removeAll (oldDir j.ref j.v)]
  ++ (match j.newHandlers with
      | some data => saveHandlersPrims data
      | none => [])

/-- tar entries unpacked below `root`: parent directories, then the file -/
def unarchivePrims (root : Path) : List (Path × Bytes) → List Prim
  | [] => []
  | (rel, c) :: rest =>
    [.mkdirAll (root ++ rel.dropLast), .create (root ++ rel), .append (root ++ rel) c] ++ unarchivePrims root rest

/-- the staging work Install does: create the archive file, copy the download into it, unarchive, remove it -/
def downloadPrims (ref : Ref) (v : FName) (archive : Bytes) (entries : List (Path × Bytes)) : List Prim :=
  [.create (archiveFile ref v), .append (archiveFile ref v) archive]
  ++ unarchivePrims (stagingDir ref v) entries
  ++ [.remove (archiveFile ref v)]

/-- AddRepository -/
def addRepoPrims (slug : FName) (data : Bytes) : List Prim :=
  [.mkdirAll repositoriesDir, .create (repoTmp slug), .append (repoTmp slug) data,
   .rename (repoTmp slug) (repoEntry slug)]

end Octo.Plugins
