import Octo.Model.OpSpec
/-!
  Octo.Model.OpTime — the time-related reference notions of C18: late records, and the *naive*
  specification of the event-time buffer (a flat list of pending records, released by a stable sort
  on event time) against which the bucket/btree model `etbOp` is proved and the real
  `EventTimeBuffer` is judged.
-/
namespace Octo.Ops
open Octo

/-- a record is on time w.r.t. the watermarks emitted before it: zero event time, or above all of them -/
def okAfter (seen : List Int) (r : Rec) : Prop := ∀ e, r.et = some e → ∀ w ∈ seen, w < e

/-- no record with a non-zero event time at or below a watermark that precedes it -/
def NoLateFrom (seen : List Int) : List Msg → Prop
  | [] => True
  | .wm t :: ms => NoLateFrom (t :: seen) ms
  | .data r :: ms => okAfter seen r ∧ NoLateFrom seen ms

def NoLate (ms : List Msg) : Prop := NoLateFrom [] ms

def okAfterB (seen : List Int) (r : Rec) : Bool :=
  match r.et with
  | none => true
  | some e => seen.all fun w => decide (w < e)

def noLateFromB (seen : List Int) : List Msg → Bool
  | [] => true
  | .wm t :: ms => noLateFromB (t :: seen) ms
  | .data r :: ms => okAfterB seen r && noLateFromB seen ms

def monoB : List Int → Bool
  | [] => true
  | [_] => true
  | a :: b :: rest => decide (a ≤ b) && monoB (b :: rest)

/-! ### the event-time buffer, naively -/
/-- stable insertion by event time: after every pending record whose event time is not larger -/
def insByEt (t : Int) (r : Rec) : List (Int × Rec) → List (Int × Rec)
  | [] => [(t, r)]
  | (u, q) :: rest => if t < u then (t, r) :: (u, q) :: rest else (u, q) :: insByEt t r rest

/-- pending records (in arrival order) sorted by (event time, arrival) -/
def sortByEt (pending : List (Int × Rec)) : List (Int × Rec) :=
  pending.foldl (fun acc p => insByEt p.1 p.2 acc) []

def dataOf (l : List (Int × Rec)) : List Msg := l.map fun p => .data p.2

/-- what an event-time buffer must emit: zero-time records at once; at a watermark `w` every pending
    record with event time ≤ w, in (event time, arrival) order, then `w`; at the end the rest
    (everything up to `WatermarkMaxValue`), in the same order. `pending` is in arrival order. -/
def bufSpec (pending : List (Int × Rec)) : List Msg → List Msg
  | [] => dataOf ((sortByEt pending).filter fun p => decide (p.1 ≤ maxWm))
  | .data r :: ms =>
    match r.et with
    | none => .data r :: bufSpec pending ms
    | some t => bufSpec (pending ++ [(t, r)]) ms
  | .wm w :: ms =>
    dataOf ((sortByEt pending).filter fun p => decide (p.1 ≤ w)) ++ [.wm w] ++
      bufSpec (pending.filter fun p => !decide (p.1 ≤ w)) ms

end Octo.Ops
