import Octo.Model.Ty
/-!
  Octo.Model.WireTable — the *shape* of the facts that `vh extract wire` regenerates from
  `plugins/internal/plugins/plugins.go` and `functions/functions.go` on every run
  (`lean/Octo/Gen/Wire.lean`, `lean/Octo/Gen/WireFunctions.lean`).  Data only.

  The four conversion functions `NativeValueToProto`, `(*Value).ToNativeValue`, `NativeTypeToProto`,
  `(*Type).ToNativeType` all have the same form:

      out := T{TypeId: <conv>(x.TypeID)}
      switch x.TypeID { case A, B: <assignments> … default: panic(…) }
      return out

  and the translator emits, per `case`, the list of TypeIDs and the list of assignments
  `out.<dst> = <conv>(x.<src>)`.  `Octo.Model.Wire` interprets such a table.
-/
namespace Octo.Wire

/-- the fields of `octosql.Value` and of the proto message `Value` (same names on both sides) -/
inductive VF where
  | int | float | boolean | str | time | duration | list | struct | tuple
  deriving DecidableEq, Repr, Inhabited

/-- how a case body computes the destination field from the source field -/
inductive VConv where
  /-- `out.F = x.G` -/
  | copy
  /-- `out.F = int64(x.G)` -/
  | int64
  /-- `out.F = timestamppb.New(x.G)` -/
  | tsNew
  /-- `out.F = x.G.AsTime()` -/
  | tsAsTime
  /-- `out.F = durationpb.New(x.G)` -/
  | durNew
  /-- `out.F = x.G.AsDuration()` -/
  | durAsDuration
  /-- `elements := make([]T, len(x.G)); for i := range x.G { elements[i] = <this function>(x.G[i]) }; out.F = elements` -/
  | mapSelf
  deriving DecidableEq, Repr, Inhabited

structure VAssign where
  dst : VF
  src : VF
  conv : VConv
  deriving DecidableEq, Repr, Inhabited

structure VCase where
  ids : List Nat
  body : List VAssign
  deriving DecidableEq, Repr, Inhabited

/-- the conversion applied to the TypeID in the composite literal that creates `out` -/
inductive TidConv where
  /-- `TypeId: int32(x.TypeID)` -/
  | int32
  /-- `TypeID: octosql.TypeID(x.TypeId)` -/
  | typeID
  deriving DecidableEq, Repr, Inhabited

structure VTable where
  tid : TidConv
  cases : List VCase
  /-- the `default:` clause panics -/
  defaultPanics : Bool
  deriving DecidableEq, Repr, Inhabited

/-- the type-valued fields of `octosql.Type` (`List.Element`, `Struct.Fields`, `Tuple.Elements`,
    `Union.Alternatives`) and of the proto message `Type` (`List`, `Struct`, `Tuple`, `Union`) -/
inductive TF where
  | list | struct | tuple | union
  deriving DecidableEq, Repr, Inhabited

inductive TConv where
  /-- `if x.G != nil { out.F = <this function>(*x.G) }` (pointer / optional sub-message) -/
  | optSelf
  /-- the element loop, as for values -/
  | mapSelf
  /-- the element loop building `StructField{Name: x.G[i].Name, Type: <this function>(x.G[i].Type)}` -/
  | mapFields
  deriving DecidableEq, Repr, Inhabited

structure TAssign where
  dst : TF
  src : TF
  conv : TConv
  deriving DecidableEq, Repr, Inhabited

structure TCase where
  ids : List Nat
  body : List TAssign
  deriving DecidableEq, Repr, Inhabited

structure TTable where
  tid : TidConv
  cases : List TCase
  defaultPanics : Bool
  deriving DecidableEq, Repr, Inhabited

/-! ### `functions.FunctionMap()` as `RepopulatePhysicalExpressionFunctions` sees it -/

/-- one guard `if <cond> { return octosql.Type{}, false }` of a `TypeFn` body -/
inductive TfCond where
  /-- `len(types) != n` -/
  | lenNe (n : Nat)
  /-- `!types[i].Equals(types[j])` -/
  | notEquals (i j : Nat)
  /-- `types[i].TypeID != id` -/
  | typeIdNe (i id : Nat)
  deriving DecidableEq, Repr, Inhabited

structure FnDesc where
  /-- `ArgumentTypes` (empty for `TypeFn` descriptors) -/
  args : List Ty
  /-- `OutputType` (the zero `Type{}` — which is `Null` — for `TypeFn` descriptors) -/
  out : Ty
  strict : Bool
  /-- the guards of `TypeFn`, in order; after them the function returns `(…, true)` -/
  typeFn : Option (List TfCond)
  deriving Repr, Inhabited

structure FnEntry where
  /-- function name, as bytes -/
  name : List Nat
  descs : List FnDesc
  deriving Repr, Inhabited

end Octo.Wire
