import Octo.Model.Utf8
/-
  Octo.Model.Regex — a mini regular-expression semantics for the sub-language of Go's `regexp`
  syntax (RE2) that octosql's LIKE translation can emit, plus a little more so that the *unrepaired*
  translation (unescaped `*`, `|`) and simple `~` / `~*` patterns can be read too.

  * `Re` — regular expressions over runes; `Re.accepts` decides whole-string membership by Brzozowski
    derivatives (structural recursion, reduces in the kernel). `Octo/Lemmas/Regex.lean` proves it equal
    to the textbook language semantics `Re.Lang`.
  * `parseRegex` — reads regexp *text*: optional flag group `(?s)`, `(?i)`, `(?is)`, `(?si)`; alternatives
    separated by `|`; in each alternative an optional leading `^`, then pieces `atom`, `atom*`, `atom+`,
    `atom?`, and an optional trailing `$`; atoms are `.`, `\` followed by punctuation (a literal),
    `\s \S \d \D \w \W`, or any rune that is not a metacharacter. Everything else (groups, classes,
    counted repetition, lazy/nested repetition, anchors in the middle, …) is *outside* the sub-language:
    `none`.
  * `Pat.search` — Go's `MatchString` (unanchored search): an alternative without `^` may start anywhere,
    one without `$` may end anywhere.

  Go's `regexp` engine itself is NOT modelled: that it agrees with this semantics on the sub-language
  is an assumption, sampled by the C12 correspondence run (the LIKE regexp text is compared exactly and
  the match result of the real engine is compared with `Pat.search`).
-/
namespace Octo.Rx
open Octo.Utf8

/-! ### rune constants -/
abbrev cNL : Rune := 10
abbrev cDollar : Rune := 36
abbrev cPercent : Rune := 37
abbrev cLParen : Rune := 40
abbrev cRParen : Rune := 41
abbrev cStar : Rune := 42
abbrev cPlus : Rune := 43
abbrev cDot : Rune := 46
abbrev cQuest : Rune := 63
abbrev cLBrack : Rune := 91
abbrev cBackslash : Rune := 92
abbrev cRBrack : Rune := 93
abbrev cCaret : Rune := 94
abbrev cUnderscore : Rune := 95
abbrev cLBrace : Rune := 123
abbrev cPipe : Rune := 124
abbrev cRBrace : Rune := 125

/-- ASCII lower-casing of a rune -/
def foldAscii (c : Rune) : Rune := if 65 ≤ c ∧ c ≤ 90 then c + 32 else c

/-- one-rune matchers -/
inductive Cls where
  | one (c : Rune)            -- exactly this rune
  | fold (c : Rune)           -- this ASCII rune, ignoring ASCII case  ((?i) literal)
  | any (nl : Bool)           -- `.`: any rune; `\n` only when `nl` (flag s)
  | space (neg : Bool)        -- \s / \S : [\t\n\f\r ]
  | digit (neg : Bool)        -- \d / \D
  | word (neg : Bool)         -- \w / \W : [0-9A-Za-z_]
  deriving Repr, DecidableEq

def isSpace (c : Rune) : Bool := c == 9 || c == 10 || c == 12 || c == 13 || c == 32
def isDigit (c : Rune) : Bool := decide (48 ≤ c ∧ c ≤ 57)
def isWord (c : Rune) : Bool :=
  isDigit c || decide (65 ≤ c ∧ c ≤ 90) || decide (97 ≤ c ∧ c ≤ 122) || c == 95

def Cls.test : Cls → Rune → Bool
  | .one c, d => c == d
  | .fold c, d => foldAscii c == foldAscii d
  | .any nl, d => nl || d != cNL
  | .space neg, d => isSpace d != neg
  | .digit neg, d => isDigit d != neg
  | .word neg, d => isWord d != neg

inductive Re where
  | empty                     -- matches nothing
  | eps                       -- matches ""
  | sym (k : Cls)
  | cat (a b : Re)
  | alt (a b : Re)
  | star (a : Re)
  deriving Repr, DecidableEq

namespace Re

def nullable : Re → Bool
  | empty => false
  | eps => true
  | sym _ => false
  | cat a b => nullable a && nullable b
  | alt a b => nullable a || nullable b
  | star _ => true

/-- Brzozowski derivative -/
def deriv (c : Rune) : Re → Re
  | empty => empty
  | eps => empty
  | sym k => if k.test c then eps else empty
  | cat a b => if nullable a then alt (cat (deriv c a) b) (deriv c b) else cat (deriv c a) b
  | alt a b => alt (deriv c a) (deriv c b)
  | star a => cat (deriv c a) (star a)

/-- whole-string match -/
def accepts : Re → List Rune → Bool
  | r, [] => nullable r
  | r, c :: s => accepts (deriv c r) s

/-- `.*` with flag s -/
def anyStar : Re := star (sym (.any true))

end Re

/-- one alternative of a regexp: anchored at the start / at the end of the text? -/
structure Branch where
  bos : Bool
  body : Re
  eos : Bool
  deriving Repr, DecidableEq

abbrev Pat := List Branch

/-- `MatchString` for one alternative: unanchored sides may skip any text -/
def Branch.search (b : Branch) (s : List Rune) : Bool :=
  Re.accepts (.cat (if b.bos then .eps else Re.anyStar) (.cat b.body (if b.eos then .eps else Re.anyStar))) s

def Pat.search (p : Pat) (s : List Rune) : Bool := p.any (·.search s)

/-! ### reading regexp text -/

/-- the metacharacters of RE2 syntax outside classes (exactly what `regexp.QuoteMeta` escapes) -/
def isMeta (c : Rune) : Bool :=
  c == cBackslash || c == cDot || c == cPlus || c == cStar || c == cQuest || c == cLParen || c == cRParen ||
  c == cPipe || c == cLBrack || c == cRBrack || c == cLBrace || c == cRBrace || c == cCaret || c == cDollar

/-- ASCII punctuation: `\c` is the literal `c` for these (RE2: "escaped punctuation") -/
def isPunct (c : Rune) : Bool :=
  decide (33 ≤ c ∧ c ≤ 47) || decide (58 ≤ c ∧ c ≤ 64) || decide (91 ≤ c ∧ c ≤ 96) || decide (123 ≤ c ∧ c ≤ 126)

structure Flags where
  dotAll : Bool
  foldCase : Bool
  deriving Repr, DecidableEq

/-- a literal rune under the flags. With `(?i)` only ASCII is modelled, and not `k`/`s` (Go also folds them
    with U+212A / U+017F): `none` = outside the model. -/
def litCls (f : Flags) (c : Rune) : Option Cls :=
  if !f.foldCase then some (.one c)
  else if c ≥ 128 then none
  else if foldAscii c == 107 || foldAscii c == 115 then none
  else if decide (97 ≤ foldAscii c ∧ foldAscii c ≤ 122) then some (.fold c) else some (.one c)

/-- `\x` -/
def escCls (f : Flags) (c : Rune) : Option Cls :=
  if isPunct c then some (.one c)
  else if c == 115 then some (.space false) else if c == 83 then some (.space true)
  else if c == 100 then some (.digit false) else if c == 68 then some (.digit true)
  else if c == 119 then (if f.foldCase then none else some (.word false))
  else if c == 87 then (if f.foldCase then none else some (.word true))
  else none

/-- a repetition suffix applied to an atom -/
def applyRep (a : Re) (op : Rune) : Re :=
  if op == cStar then .star a else if op == cPlus then .cat a (.star a) else .alt .eps a

def isRep (c : Rune) : Bool := c == cStar || c == cPlus || c == cQuest

/-- what comes after an atom: `(piece, rest)`; a second repetition operator (`a**`, `a*?`) is outside the
    sub-language -/
def afterAtom (a : Re) : List Rune → Option (Re × List Rune)
  | op :: rest =>
    if isRep op then
      match rest with
      | op2 :: _ => if isRep op2 then none else some (applyRep a op, rest)
      | [] => some (applyRep a op, rest)
    else some (a, op :: rest)
  | [] => some (a, [])

/-- the pieces of one alternative up to `|` or the end: `(body, eos, rest after '|' if any)`.
    `fuel` ≥ length of the text. -/
def parsePieces (f : Flags) : Nat → List Rune → Option (Re × Bool × Option (List Rune))
  | 0, _ => none
  | _ + 1, [] => some (.eps, false, none)
  | fuel + 1, c :: rest =>
    if c == cPipe then some (.eps, false, some rest)
    else if c == cDollar then
      match rest with
      | [] => some (.eps, true, none)
      | d :: rest' => if d == cPipe then some (.eps, true, some rest') else none
    else
      let atom : Option (Re × List Rune) :=
        if c == cDot then some (.sym (.any f.dotAll), rest)
        else if c == cBackslash then
          match rest with
          | d :: rest' => (escCls f d).map fun k => (.sym k, rest')
          | [] => none
        else if isMeta c then none
        else (litCls f c).map fun k => (.sym k, rest)
      match atom with
      | none => none
      | some (a, rest1) =>
        match afterAtom a rest1 with
        | none => none
        | some (piece, rest2) =>
          match parsePieces f fuel rest2 with
          | none => none
          | some (body, eos, more) => some (.cat piece body, eos, more)

/-- alternatives: `fuel` ≥ number of `|` + 1 -/
def parseAlts (f : Flags) : Nat → List Rune → Option Pat
  | 0, _ => none
  | fuel + 1, s =>
    let (bos, s1) := match s with
      | c :: rest => if c == cCaret then (true, rest) else (false, s)
      | [] => (false, s)
    match parsePieces f (s1.length + 1) s1 with
    | none => none
    | some (body, eos, none) => some [⟨bos, body, eos⟩]
    | some (body, eos, some rest) => (parseAlts f fuel rest).map fun bs => ⟨bos, body, eos⟩ :: bs

/-- the optional leading flag group -/
def parseFlags : List Rune → Flags × List Rune
  | 40 :: 63 :: 115 :: 41 :: rest => (⟨true, false⟩, rest)                 -- (?s)
  | 40 :: 63 :: 105 :: 41 :: rest => (⟨false, true⟩, rest)                 -- (?i)
  | 40 :: 63 :: 105 :: 115 :: 41 :: rest => (⟨true, true⟩, rest)           -- (?is)
  | 40 :: 63 :: 115 :: 105 :: 41 :: rest => (⟨true, true⟩, rest)           -- (?si)
  | s => (⟨false, false⟩, s)

/-- regexp text (as runes) → pattern, `none` when the text is outside the modelled sub-language -/
def parseRegex (s : List Rune) : Option Pat :=
  let (f, rest) := parseFlags s
  parseAlts f (rest.length + 1) rest

end Octo.Rx
