/-!
The communication skeleton of the Go code that `Octo/Model/JsonPipe.lean` was written for: every channel
operation, select / case, go / defer, return / break / continue of `DatasourceExecuting.Run` (with its reader
goroutine) and of a pool worker, in source order, as extracted by `vh extract jsonpipe` (harness/c29_extract.go).
The comments name the model action that stands for the operation. `Octo.C29.skeleton_matches` proves that the
skeleton regenerated from the current sources (`Octo.Gen.JsonPipe`) is this one.
-/
namespace Octo.JsonPipe

def expectedRunSkeleton : List String :=
  ["if{",
   "return",
   "}",
   "defer f.Close",
   "defer cancel",   -- cCancel (runs when Run returns)
   "go{",
   "for{",
   "if{",
   "select{",
   "case send outChanAvailableTokens",   -- rTok
   "send parserWorkReceiveChannel",   -- rSub   (outside the select: must never block for ever — submit_never_blocks_single / pool_never_wedged)
   "write linesRead",   -- rWrite
   "case recv localCtx.Done()",   -- rStop
   "return",
   "}",
   "}",
   "}",
   "if{",
   "select{",
   "case send outChanAvailableTokens",   -- rTok
   "send parserWorkReceiveChannel",   -- rSub   (outside the select: must never block for ever — submit_never_blocks_single / pool_never_wedged)
   "write linesRead",   -- rWrite
   "case recv localCtx.Done()",   -- rStop
   "return",
   "}",
   "}",
   "send done",   -- rDone
   "}",
   "label produceLoop",
   "for{",
   "select{",
   "case recv outChan",   -- cRecv
   "recv outChanAvailableTokens",   -- cTok   (outside the select: consumer_token_available)
   "for{",
   "if{",
   "return",
   "}",
   "for{",
   "if{",
   "return",
   "}",
   "}",
   "}",
   "if-reads-linesRead fileReaderIsDone&&startIndex==linesRead{",   -- the two reads of linesRead (end of cProc / cDone)
   "break produceLoop",
   "}",
   "case recv done",   -- cDone
   "if{",
   "return",
   "}",
   "assign done nil",
   "if-reads-linesRead fileReaderIsDone&&startIndex==linesRead{",   -- the two reads of linesRead (end of cProc / cDone)
   "break produceLoop",
   "}",
   "case recv ctx.Done()",   -- cCtx
   "return",
   "}",
   "}",
   "return"]

def expectedWorkerSkeleton : List String :=
  ["label getWorkLoop",
   "for-range-chan inChan{",   -- wTake
   "for{",
   "if{",
   "continue",
   "}",
   "if{",
   "continue",
   "}",
   "for{",                     -- per-field conversion loop of one line (local computation; since the JSON datasource
   "if{",                      -- reports values that do not match the inferred type as that line's error)
   "break",
   "}",
   "}",
   "if{",
   "continue",
   "}",
   "}",
   "select{",
   "case send job.outChan",   -- wSend  (worker_never_blocks)
   "case recv job.ctx.Done()",   -- wDrop
   "continue getWorkLoop",
   "}",
   "}"]

/-- the goroutine / channel lines of `StreamJoin.Run` and of `OuterJoin.Run` (identical), which
`Octo/Model/JoinProto.lean` (with `fixed = true`) mirrors -/
def expectedJoinSkeleton : List String :=
  ["defer cancelSources",                 -- the sources' context is cancelled when Run returns (State.cancelled)
   "func send{",
   "select{",
   "case send messages",                  -- pSend
   "case recv sourcesCtx.Done()",         -- pAbort
   "go{",                                 -- left producer: records, watermarks, a final error: all through `send`
   "call send leftMessages",
   "call send leftMessages",
   "call send leftMessages",
   "close leftMessages",                  -- pClose L
   "go{",                                 -- right producer
   "call send rightMessages",
   "call send rightMessages",
   "call send rightMessages",
   "close rightMessages",                 -- pClose R
   "label receiveLoop",
   "select{",                             -- CPc.both
   "case recv leftMessages",              -- cRecv L / cSeeClosed L
   "break receiveLoop",
   "case recv rightMessages",             -- cRecv R / cSeeClosed R
   "break receiveLoop",
   "for-range-chan openChannel{"]         -- CPc.only: cRecv / cSeeClosed on the remaining side

end Octo.JsonPipe
