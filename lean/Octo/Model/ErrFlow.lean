import Octo.Gen.ErrorFlow
/-!
  Octo.Model.ErrFlow — how a runtime error travels through an execution plan (C06).

  Execution is a chain of callbacks: a source calls `produce` of the node above it, which calls
  `produce` of the node above that, … . A failure *anywhere* in that chain (a read error of the
  source, a failing expression of some node) is returned downwards through the `produce` calls to the
  source, whose `Run` returns it; from there it comes back up through every node's
  `if err := source.Run(…); err != nil { return … }`. So it reaches the user iff **every** node between
  the source and the sink uses the error its child's `Run` returns. Whether a node kind does is read off
  the *generated* table `Octo.Gen.ErrorFlow.sites` (rewritten from /repo's sources on every check).
-/
namespace Octo.ErrFlow
open Octo.Gen.ErrorFlow

/-- does node kind `k` use the error of every child `Run` / `Evaluate` / scanner `Err()` call it makes? -/
def propagates (k : Kind) : Bool := (sites.filter (fun s => s.kind == k)).all (·.used)

inductive Plan where
  /-- a datasource; `fails`: a read / parse error occurs during the scan -/
  | source (k : Kind) (fails : Bool)
  /-- a one-input node; `exprFails`: one of the node's own expressions fails on a record it receives -/
  | unary (k : Kind) (exprFails : Bool) (child : Plan)
  /-- a join -/
  | binary (k : Kind) (exprFails : Bool) (l r : Plan)
  /-- a one-input node whose expression contains a subquery expression of kind `qk` over `sub` -/
  | withSub (k : Kind) (exprFails : Bool) (qk : Kind) (child sub : Plan)
  deriving Repr

inductive Outcome where
  | ok | err
  deriving Repr, DecidableEq, Inhabited

/-- is there a failure somewhere in the plan? -/
def hasFailure : Plan → Bool
  | .source _ f => f
  | .unary _ ef c => ef || hasFailure c
  | .binary _ ef l r => ef || hasFailure l || hasFailure r
  | .withSub _ ef _ c s => ef || hasFailure c || hasFailure s

/-- run a plan; `above`: some callback above this plan fails on a record it is handed.
    `flow k`: node kind `k` uses its children's errors. -/
def run (flow : Kind → Bool) (above : Bool) : Plan → Outcome
  | .source k f => if (f && flow k) || above then .err else .ok
  | .unary k ef c =>
    match run flow (above || ef) c with
    | .err => if flow k then .err else .ok
    | .ok => .ok
  | .binary k ef l r =>
    match run flow (above || ef) l, run flow (above || ef) r with
    | .ok, .ok => .ok
    | _, _ => if flow k then .err else .ok
  | .withSub k ef qk c s =>
    -- the subquery expression runs `s` inside this node's callback; its error is an expression failure here
    let subFails := match run flow false s with | .err => flow qk | .ok => false
    match run flow (above || ef || subFails) c with
    | .err => if flow k then .err else .ok
    | .ok => .ok

/-- the sink on top (eager / batch / stream printer) -/
def runQuery (flow : Kind → Bool) (sink : Kind) (p : Plan) : Outcome :=
  match run flow false p with
  | .err => if flow sink then .err else .ok
  | .ok => .ok

end Octo.ErrFlow
