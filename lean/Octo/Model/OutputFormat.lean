import Octo.Model.Value
import Octo.Model.Ty
/-!
  Octo.Model.OutputFormat — the `-o json` and `-o csv` formatters of `outputs/formats`
  (`json_format.go`: `JSONFormatter.Write`, `ValueToJson`, `appendJSONString`;
   `csv_format.go`: `CSVFormatter.SetSchema/Write`, `FormatCSVValue`; Go's `encoding/csv.Writer.Write`
   with `fieldNeedsQuotes`) and the way `outputs/eager/eager.go` drives them.

  The model mirrors the code **after** the three `fix:` commits of C25 (JSON string escaping written by
  octosql itself, non-finite floats ↦ `null`, non-scalar CSV cells ↦ JSON text).  The code before the
  repairs (fastjson's `escapeString` = `strconv.AppendQuote`, raw `NaN`/`+Inf`, CSV panic) is kept as
  `Raw.*` for the refutation theorems.

  Modelling decisions
  * output is a list of bytes, every byte a `Nat` (so that `omega`/`decide` apply); `Value.str` bytes are
    converted with `UInt8.toNat`;
  * the library functions that format numbers, times and durations are **parameters** (`Lib`):
    `strconv.AppendFloat(·,'g',-1,64)`, `strconv.FormatFloat(·,'f',-1,64)`, `Time.Format(RFC3339)`,
    `Duration.String()`; `strconv.AppendInt(·,10)` is modelled exactly (`fmtInt`);
  * where Go panics (nil `List.Element`, field index out of range, fewer values than fields) the model
    returns `none`.
-/
namespace Octo.OutFmt
open Octo

abbrev Bytes := List Nat

/-- the library formatting functions the formatters call (opaque) -/
structure Lib where
  /-- `strconv.AppendFloat(nil, f, 'g', -1, 64)` for the float with this bit pattern -/
  fmtFloatG : Nat → Bytes
  /-- `strconv.FormatFloat(f, 'f', -1, 64)` -/
  fmtFloatF : Nat → Bytes
  /-- `Time.Format(time.RFC3339)` of the instant (ns since the Unix epoch) in the location -/
  fmtTime : Int → Nat → Bytes
  /-- `Duration.String()` -/
  fmtDur : Int → Bytes

def strBytes (s : List UInt8) : Bytes := s.map UInt8.toNat
def nameBytes (n : Name) : Bytes := n

def nullLit : Bytes := [110, 117, 108, 108]
def trueLit : Bytes := [116, 114, 117, 101]
def falseLit : Bytes := [102, 97, 108, 115, 101]

/-! ### `strconv.AppendInt(dst, i, 10)` -/
def digitsAux : Nat → Nat → Bytes → Bytes
  | 0, _, acc => acc
  | f + 1, n, acc => if n < 10 then (48 + n) :: acc else digitsAux f (n / 10) ((48 + n % 10) :: acc)
def natDigits (n : Nat) : Bytes := digitsAux (n + 1) n []
def fmtInt (i : Int) : Bytes := if i < 0 then 45 :: natDigits i.natAbs else natDigits i.natAbs

/-! ### `appendJSONString` (json_format.go, after the repair) -/
/-- `"0123456789abcdef"[n]` -/
def hexDigit (n : Nat) : Nat := if n < 10 then 48 + n else 87 + n

/-- one iteration of the loop of `appendJSONString` -/
def escByte (c : Nat) : Bytes :=
  if c = 34 ∨ c = 92 then [92, c]
  else if c = 10 then [92, 110]
  else if c = 13 then [92, 114]
  else if c = 9 then [92, 116]
  else if c < 32 then [92, 117, 48, 48, hexDigit (c / 16), hexDigit (c % 16)]
  else [c]

def escBody : Bytes → Bytes
  | [] => []
  | c :: cs => escByte c ++ escBody cs

def jsonString (s : Bytes) : Bytes := 34 :: (escBody s ++ [34])

/-! ### IEEE-754: which bit patterns are finite -/
def finite (bits : Nat) : Bool := decide (bits % 2^63 < 0x7FF0000000000000)

/-! ### `ValueToJson` -/
/-- the `if t.TypeID == TypeIDUnion` prologue: the first alternative with the value's TypeID
    (`none` = "Invalid value … for union type. Using null."); other types are used as they are -/
def pick (τ : Ty) (rank : Nat) : Option Ty :=
  match τ with
  | .union alts => alts.find? (fun a => a.id == rank)
  | t => some t

/-- `*t.List.Element` (nil unless `t` is a list type with an element type) -/
def elemTy : Ty → Option Ty
  | .list e => some e
  | _ => none
/-- `t.Struct.Fields` as parallel lists -/
def fieldNames : Ty → List Name
  | .struct ns _ => ns
  | _ => []
def fieldTys : Ty → List Ty
  | .struct _ ts => ts
  | _ => []
/-- `t.Tuple.Elements` -/
def tupleTys : Ty → List Ty
  | .tuple ts => ts
  | _ => []

/-- the separator written before element `i` (`if i > 0 { dst = append(dst, ',') }`) -/
def sep (first : Bool) : Bytes := if first then [] else [44]

mutual
/-- `ValueToJson(dst, t, value)`; `none` = the Go code panics -/
def encJson (L : Lib) (τ : Ty) (v : Value) : Option Bytes :=
  match pick τ v.rank with
  | none => some nullLit
  | some t =>
    match v with
    | .null => some nullLit
    | .int i => some (fmtInt i)
    | .float b => some (if finite b then L.fmtFloatG b else nullLit)
    | .bool b => some (if b then trueLit else falseLit)
    | .str s => some (jsonString (strBytes s))
    | .time ns loc => some (jsonString (L.fmtTime ns loc))
    | .dur ns => some (jsonString (L.fmtDur ns))
    | .list xs => (encElems L (elemTy t) true xs).map fun b => 91 :: (b ++ [93])
    | .struct xs => (encFields L (fieldNames t) (fieldTys t) true xs).map fun b => 123 :: (b ++ [125])
    | .tuple xs => (encTuple L (tupleTys t) true xs).map fun b => 91 :: (b ++ [93])
/-- the loop of the List case: every element with `*t.List.Element` -/
def encElems (L : Lib) (et : Option Ty) (first : Bool) : List Value → Option Bytes
  | [] => some []
  | x :: xs =>
    match et with
    | none => none
    | some e =>
      match encJson L e x, encElems L et false xs with
      | some a, some b => some (sep first ++ a ++ b)
      | _, _ => none
/-- the loop of the Struct case: element `i` with `t.Struct.Fields[i]` -/
def encFields (L : Lib) : List Name → List Ty → Bool → List Value → Option Bytes
  | _, _, _, [] => some []
  | n :: ns, t :: ts, first, x :: xs =>
    match encJson L t x, encFields L ns ts false xs with
    | some a, some b => some (sep first ++ jsonString (nameBytes n) ++ 58 :: a ++ b)
    | _, _ => none
  | _, _, _, _ :: _ => none
/-- the loop of the Tuple case: element `i` with `t.Tuple.Elements[i]` -/
def encTuple (L : Lib) : List Ty → Bool → List Value → Option Bytes
  | _, _, [] => some []
  | t :: ts, first, x :: xs =>
    match encJson L t x, encTuple L ts false xs with
    | some a, some b => some (sep first ++ a ++ b)
    | _, _ => none
  | [], _, _ :: _ => none
end

/-! ### `WithoutQualifiers` (human_readable_schema.go), applied by both `SetSchema`s -/
/-- `strings.SplitN(name, ".", 2)[1]` when the name contains a dot -/
def shortName (n : Name) : Name :=
  match n.dropWhile (fun c => c != 46) with
  | [] => n
  | _ :: r => r

/-- a field is printed under its short name iff no other field has the same short name -/
def withoutQualifiers (names : List Name) : List Name :=
  names.map fun n =>
    if (names.filter fun m => shortName m == shortName n).length == 1 then shortName n else n

/-- the loop of `JSONFormatter.Write`: it ranges over the *fields* and indexes `values[i]` -/
def encRowFields (L : Lib) : List Name → List Ty → Bool → List Value → Option Bytes
  | [], _, _, _ => some []
  | _ :: _, [], _, _ => some []          -- (names and types come from one slice; unreachable)
  | _ :: _, _ :: _, _, [] => none         -- values[i] out of range
  | n :: ns, t :: ts, first, x :: xs =>
    match encJson L t x, encRowFields L ns ts false xs with
    | some a, some b => some (sep first ++ jsonString (nameBytes n) ++ 58 :: a ++ b)
    | _, _ => none

/-- `JSONFormatter.Write(values)`: one line -/
def jsonLine (L : Lib) (names : List Name) (tys : List Ty) (vals : List Value) : Option Bytes :=
  (encRowFields L names tys true vals).map fun b => 123 :: (b ++ [125, 10])

/-- the lines of a whole result through one formatter, concatenated -/
def jsonLines (L : Lib) (names : List Name) (tys : List Ty) : List (List Value) → Option Bytes
  | [] => some []
  | r :: rs =>
    match jsonLine L names tys r, jsonLines L names tys rs with
    | some a, some b => some (a ++ b)
    | _, _ => none

/-- `SetSchema(schema)` then `Write(row)` for every row -/
def jsonOutput (L : Lib) (names : List Name) (tys : List Ty) (rows : List (List Value)) : Option Bytes :=
  jsonLines L (withoutQualifiers names) tys rows

/-! ### `encoding/csv.Writer.Write` (Comma = ',', UseCRLF = false) -/
/-- `unicode.IsSpace(r1)` for the first rune of the field, decided on its UTF-8 bytes
    (`utf8.DecodeRuneInString`; an invalid sequence decodes to U+FFFD, which is not a space) -/
def firstRuneIsSpace : Bytes → Bool
  | [] => false
  | b0 :: r =>
    if b0 < 128 then decide (b0 = 9 ∨ b0 = 10 ∨ b0 = 11 ∨ b0 = 12 ∨ b0 = 13 ∨ b0 = 32)
    else if b0 = 0xC2 then
      match r with
      | b1 :: _ => decide (b1 = 0x85 ∨ b1 = 0xA0)          -- U+0085, U+00A0
      | _ => false
    else if b0 = 0xE1 then
      match r with
      | b1 :: b2 :: _ => decide (b1 = 0x9A ∧ b2 = 0x80)      -- U+1680
      | _ => false
    else if b0 = 0xE2 then
      match r with
      | b1 :: b2 :: _ =>
        decide ((b1 = 0x80 ∧ 0x80 ≤ b2 ∧ b2 ≤ 0x8A)          -- U+2000 … U+200A
          ∨ (b1 = 0x80 ∧ (b2 = 0xA8 ∨ b2 = 0xA9 ∨ b2 = 0xAF)) -- U+2028 U+2029 U+202F
          ∨ (b1 = 0x81 ∧ b2 = 0x9F))                          -- U+205F
      | _ => false
    else if b0 = 0xE3 then
      match r with
      | b1 :: b2 :: _ => decide (b1 = 0x80 ∧ b2 = 0x80)      -- U+3000
      | _ => false
    else false

/-- `Writer.fieldNeedsQuotes` -/
def fieldNeedsQuotes (f : Bytes) : Bool :=
  if f = [] then false
  else if f = [92, 46] then true                               -- `\.`
  else if f.any (fun c => decide (c = 10 ∨ c = 13 ∨ c = 34 ∨ c = 44)) then true
  else firstRuneIsSpace f

/-- the body of a quoted field: `"` doubled, everything else (also CR and LF) verbatim -/
def csvQuoteBody : Bytes → Bytes
  | [] => []
  | c :: cs => if c = 34 then 34 :: 34 :: csvQuoteBody cs else c :: csvQuoteBody cs

def csvField (f : Bytes) : Bytes :=
  if fieldNeedsQuotes f then 34 :: (csvQuoteBody f ++ [34]) else f

/-- fields separated by commas (`if n > 0 { WriteRune(Comma) }`) -/
def csvFields (first : Bool) : List Bytes → Bytes
  | [] => []
  | f :: fs => sep first ++ csvField f ++ csvFields false fs

/-- `Writer.Write(record)` -/
def csvRecord (fields : List Bytes) : Bytes := csvFields true fields ++ [10]

/-! ### `FormatCSVValue` / `CSVFormatter` -/
/-- `FormatCSVValue(builder, t, value)`; `none` = panic (inside `ValueToJson`) -/
def csvCell (L : Lib) (τ : Ty) (v : Value) : Option Bytes :=
  match v with
  | .null => some []
  | .int i => some (fmtInt i)
  | .float b => some (L.fmtFloatF b)
  | .bool b => some (if b then trueLit else falseLit)
  | .str s => some (strBytes s)
  | .time ns loc => some (L.fmtTime ns loc)
  | .dur ns => some (L.fmtDur ns)
  | .list _ => encJson L τ v
  | .struct _ => encJson L τ v
  | .tuple _ => encJson L τ v

/-- the loop of `CSVFormatter.Write`: it ranges over the *values* and indexes `t.fields[i]` -/
def csvCells (L : Lib) : List Ty → List Value → Option (List Bytes)
  | _, [] => some []
  | [], _ :: _ => none                     -- t.fields[i] out of range
  | t :: ts, v :: vs =>
    match csvCell L t v, csvCells L ts vs with
    | some a, some b => some (a :: b)
    | _, _ => none

def csvLine (L : Lib) (tys : List Ty) (vals : List Value) : Option Bytes :=
  (csvCells L tys vals).map csvRecord

def csvRows (L : Lib) (tys : List Ty) : List (List Value) → Option Bytes
  | [] => some []
  | r :: rs =>
    match csvLine L tys r, csvRows L tys rs with
    | some a, some b => some (a ++ b)
    | _, _ => none

/-- `SetSchema` (the header record) followed by the rows -/
def csvOutput (L : Lib) (names : List Name) (tys : List Ty) (rows : List (List Value)) : Option Bytes :=
  (csvRows L tys rows).map fun b => csvRecord ((withoutQualifiers names).map nameBytes) ++ b

/-! ### The code before the repairs (for the refutation theorems only; ASCII strings) -/
namespace Raw
/-- fastjson `hasSpecialChars` -/
def hasSpecialChars (s : Bytes) : Bool := s.any fun c => decide (c = 34 ∨ c = 92 ∨ c < 32)
/-- `strconv.AppendQuote` restricted to ASCII input (bytes < 0x80) -/
def quoteByte (c : Nat) : Bytes :=
  if c = 34 ∨ c = 92 then [92, c]
  else if 32 ≤ c ∧ c < 127 then [c]
  else if c = 7 then [92, 97] else if c = 8 then [92, 98] else if c = 12 then [92, 102]
  else if c = 10 then [92, 110] else if c = 13 then [92, 114] else if c = 9 then [92, 116]
  else if c = 11 then [92, 118]
  else [92, 120, hexDigit (c / 16), hexDigit (c % 16)]
def quoteBody : Bytes → Bytes
  | [] => []
  | c :: cs => quoteByte c ++ quoteBody cs
/-- fastjson `escapeString` on an ASCII string -/
def escapeString (s : Bytes) : Bytes :=
  if hasSpecialChars s then 34 :: (quoteBody s ++ [34]) else 34 :: (s ++ [34])
/-- `-o json` of a one-column row holding an ASCII string, before the repair -/
def jsonLineStr (name s : Bytes) : Bytes := 123 :: (escapeString name ++ 58 :: escapeString s ++ [125, 10])
/-- `-o json` of a one-column row holding a float, before the repair (`fmt` is AppendFloat 'g') -/
def jsonLineFloat (L : Lib) (name : Bytes) (bits : Nat) : Bytes :=
  123 :: (escapeString name ++ 58 :: L.fmtFloatG bits ++ [125, 10])
/-- `FormatCSVValue` before the repair: the `default:` branch panics on lists, structs and tuples -/
def csvCell (L : Lib) (v : Value) : Option Bytes :=
  match v with
  | .null => some []
  | .int i => some (fmtInt i)
  | .float b => some (L.fmtFloatF b)
  | .bool b => some (if b then trueLit else falseLit)
  | .str s => some (strBytes s)
  | .time ns loc => some (L.fmtTime ns loc)
  | .dur ns => some (L.fmtDur ns)
  | .list _ => none
  | .struct _ => none
  | .tuple _ => none
end Raw

end Octo.OutFmt
