import Octo.Model.SqlTok
import Octo.Gen.SqlFormat
/-!
# The SQL syntax tree fragment and its printer (C30)

`Expr` / `Tbl` / `Sel` mirror the node types of `parser/sqlparser/ast.go` for the modelled fragment
(SELECT [DISTINCT] items FROM tables/subqueries/joins/table-valued functions, WHERE, GROUP BY, HAVING, TRIGGER,
ORDER BY, LIMIT, WITH; the expression language with the grammar's precedences).

`printE` / `printT` / `printS` are `sqlparser.String` at token level: each node is printed by **interpreting the
`Format` template the translator extracted from the current ast.go** (`Octo.SqlSyn.Gen.fmt_*`, `list_*`, `c_*`), the node
only supplying its fields (by the Go source text of the argument) and the values of the `if` conditions.
What is *not* template driven: the lexical layer — `formatID` (an identifier prints as one `ID` token),
`SQLVal.Format` (a literal prints as its literal token, a negative integer as `-` and the magnitude) and names that
`Format` prints raw with `%s` (`rawWord`, through the generated keyword table).  Core Lean only.
-/
namespace Octo.SqlSyn

inductive CmpOp | eq | lt | gt | le | ge | ne | nse | in_ | notIn | like | notLike | regexp | notRegexp
  deriving DecidableEq, Repr, Inhabited
inductive IsOp | null | notNull | true_ | notTrue | false_ | notFalse
  deriving DecidableEq, Repr, Inhabited
inductive BinOp | bitOr | bitAnd | shl | shr | plus | minus | mult | div | intDiv | mod | bitXor
  deriving DecidableEq, Repr, Inhabited
inductive UnOp | plus | minus | tilde | bang
  deriving DecidableEq, Repr, Inhabited
inductive ValTy | str | int | float | hexnum | hex | bit
  deriving DecidableEq, Repr, Inhabited
inductive ConvTy | simple (name : String) | list | object
  deriving DecidableEq, Repr, Inhabited
inductive JoinKind | join | left | right | outer | natural | naturalLeft | naturalRight
  deriving DecidableEq, Repr, Inhabited
/-- `JoinTableExpr.Strategy`: the grammar sets it for inner joins only ("" otherwise) -/
inductive Strategy | none_ | undefined | lookup | stream
  deriving DecidableEq, Repr, Inhabited

mutual
/-- expressions (`Expr`), select expressions (`star`/`aliased`/`explode`), triggers and order items -/
inductive Expr
  | and (l r : Expr) | or (l r : Expr) | not (e : Expr) | paren (e : Expr)
  | cmp (op : CmpOp) (l r : Expr)
  | is (op : IsOp) (e : Expr)
  | exists_ (s : Sel)
  | val (ty : ValTy) (neg : Bool) (s : String)   -- SQLVal; an IntVal "-5" is `val .int true "5"`
  | null | bool (b : Bool)
  | col (q2 q1 name : String)                     -- ColName{Qualifier: TableName{Qualifier: q2, Name: q1}, Name}
  | tuple (es : List Expr)                        -- ValTuple
  | subq (s : Sel)
  | bin (op : BinOp) (l r : Expr)
  | index (l i : Expr)                            -- BinaryExpr{Operator: ArrayElement}
  | un (op : UnOp) (e : Expr)
  | interval (e : Expr) (unit : String)
  | func (qual name : String) (distinct : Bool) (args : List Expr)   -- args are select expressions
  | convert (e : Expr) (t : ConvTy)
  | field (e : Expr) (name : String)              -- ObjectFieldAccess
  | star (q2 q1 : String) | aliased (e : Expr) (as_ : String) | explode (e : Expr)
  | trigCount (e : Expr) | trigWm | trigEos | trigDelay (e : Expr)
  | order (e : Expr) (desc : Bool)
/-- table expressions and table-valued-function arguments -/
inductive Tbl
  | table (q name as_ : String)                   -- AliasedTableExpr{TableName}
  | sub (s : Sel) (as_ : String)                  -- AliasedTableExpr{Subquery}
  | paren (ts : List Tbl)
  | join (l : Tbl) (strat : Strategy) (kind : JoinKind) (r : Tbl) (on : Option Expr) (using_ : List String)
  | tvf (name : String) (args : List Tbl) (as_ : String)
  | argE (name : String) (e : Expr) | argT (name : String) (t : Tbl) | argD (name q2 q1 c : String)
/-- select statements; `cte` is one element of a WITH list -/
inductive Sel
  | select (distinct : Bool) (exprs : List Expr) (from_ : List Tbl) (where_ : Option Expr) (groupBy : List Expr)
      (having : Option Expr) (trig : List Expr) (orderBy : List Expr) (limOff limCnt : Option Expr)
  | with_ (ctes : List Sel) (s : Sel)
  | cte (name : String) (s : Sel)
end

instance : Inhabited Expr := ⟨.null⟩
instance : Inhabited Tbl := ⟨.table "" "" ""⟩
instance : Inhabited Sel := ⟨.select false [] [] none [] none [] [] none none⟩

/-! ## Operators: Go string (for the canonical dump) and token sequence (from the generated constants) -/

def CmpOp.toks : CmpOp → List Tok
  | .eq => Gen.c_EqualStr | .lt => Gen.c_LessThanStr | .gt => Gen.c_GreaterThanStr | .le => Gen.c_LessEqualStr
  | .ge => Gen.c_GreaterEqualStr | .ne => Gen.c_NotEqualStr | .nse => Gen.c_NullSafeEqualStr | .in_ => Gen.c_InStr
  | .notIn => Gen.c_NotInStr | .like => Gen.c_LikeStr | .notLike => Gen.c_NotLikeStr | .regexp => Gen.c_RegexpStr
  | .notRegexp => Gen.c_NotRegexpStr
def CmpOp.goStr : CmpOp → String
  | .eq => Gen.v_EqualStr | .lt => Gen.v_LessThanStr | .gt => Gen.v_GreaterThanStr | .le => Gen.v_LessEqualStr
  | .ge => Gen.v_GreaterEqualStr | .ne => Gen.v_NotEqualStr | .nse => Gen.v_NullSafeEqualStr | .in_ => Gen.v_InStr
  | .notIn => Gen.v_NotInStr | .like => Gen.v_LikeStr | .notLike => Gen.v_NotLikeStr | .regexp => Gen.v_RegexpStr
  | .notRegexp => Gen.v_NotRegexpStr

def IsOp.toks : IsOp → List Tok
  | .null => Gen.c_IsNullStr | .notNull => Gen.c_IsNotNullStr | .true_ => Gen.c_IsTrueStr | .notTrue => Gen.c_IsNotTrueStr
  | .false_ => Gen.c_IsFalseStr | .notFalse => Gen.c_IsNotFalseStr
def IsOp.goStr : IsOp → String
  | .null => Gen.v_IsNullStr | .notNull => Gen.v_IsNotNullStr | .true_ => Gen.v_IsTrueStr | .notTrue => Gen.v_IsNotTrueStr
  | .false_ => Gen.v_IsFalseStr | .notFalse => Gen.v_IsNotFalseStr

def BinOp.toks : BinOp → List Tok
  | .bitOr => Gen.c_BitOrStr | .bitAnd => Gen.c_BitAndStr | .shl => Gen.c_ShiftLeftStr | .shr => Gen.c_ShiftRightStr
  | .plus => Gen.c_PlusStr | .minus => Gen.c_MinusStr | .mult => Gen.c_MultStr | .div => Gen.c_DivStr
  | .intDiv => Gen.c_IntDivStr | .mod => Gen.c_ModStr | .bitXor => Gen.c_BitXorStr
def BinOp.goStr : BinOp → String
  | .bitOr => Gen.v_BitOrStr | .bitAnd => Gen.v_BitAndStr | .shl => Gen.v_ShiftLeftStr | .shr => Gen.v_ShiftRightStr
  | .plus => Gen.v_PlusStr | .minus => Gen.v_MinusStr | .mult => Gen.v_MultStr | .div => Gen.v_DivStr
  | .intDiv => Gen.v_IntDivStr | .mod => Gen.v_ModStr | .bitXor => Gen.v_BitXorStr

def UnOp.toks : UnOp → List Tok
  | .plus => Gen.c_UPlusStr | .minus => Gen.c_UMinusStr | .tilde => Gen.c_TildaStr | .bang => Gen.c_BangStr
def UnOp.goStr : UnOp → String
  | .plus => Gen.v_UPlusStr | .minus => Gen.v_UMinusStr | .tilde => Gen.v_TildaStr | .bang => Gen.v_BangStr

def JoinKind.toks : JoinKind → List Tok
  | .join => Gen.c_JoinStr | .left => Gen.c_LeftJoinStr | .right => Gen.c_RightJoinStr | .outer => Gen.c_OuterJoinStr
  | .natural => Gen.c_NaturalJoinStr | .naturalLeft => Gen.c_NaturalLeftJoinStr | .naturalRight => Gen.c_NaturalRightJoinStr
def JoinKind.goStr : JoinKind → String
  | .join => Gen.v_JoinStr | .left => Gen.v_LeftJoinStr | .right => Gen.v_RightJoinStr | .outer => Gen.v_OuterJoinStr
  | .natural => Gen.v_NaturalJoinStr | .naturalLeft => Gen.v_NaturalLeftJoinStr | .naturalRight => Gen.v_NaturalRightJoinStr

def Strategy.toks : Strategy → List Tok
  | .none_ => [] | .undefined => Gen.c_UndefinedJoinStrategy | .lookup => Gen.c_LookupJoinStrategy
  | .stream => Gen.c_StreamJoinStrategy
def Strategy.goStr : Strategy → String
  | .none_ => "" | .undefined => Gen.v_UndefinedJoinStrategy | .lookup => Gen.v_LookupJoinStrategy
  | .stream => Gen.v_StreamJoinStrategy
def Strategy.isLookupOrStream : Strategy → Bool
  | .lookup => true | .stream => true | _ => false

/-! ## The lexical layer (hand-modelled; validated by the correspondence run) -/

/-- `formatID`: an identifier is printed (back-quoted when necessary) so that it lexes back to one `ID` token.
    The empty identifier is never printed by a well-formed tree. -/
def printId (s : String) : List Tok := if s = "" then [Tok.bad "empty identifier"] else [Tok.id s]

def isWordStart (c : Char) : Bool := c.isAlpha || c = '_' || c = '@'
def isWordChar (c : Char) : Bool := c.isAlpha || c.isDigit || c = '_' || c = '@'
/-- text that the tokenizer reads as a single identifier-or-keyword word -/
def isPlainWord (s : String) : Bool :=
  match s.toList with
  | [] => false
  | c :: cs => isWordStart c && cs.all isWordChar

/-- keyword lookup by characters (kept on `List Char` so that it evaluates inside the kernel) -/
def lookupChars {α : Type} (cs : List Char) : List (String × α) → Option α
  | [] => none
  | (k, v) :: rest => if k.toList = cs then some v else lookupChars cs rest

/-- a name that `Format` prints with `%s`, unquoted: what the tokenizer makes of it (it lower-cases the word and
    looks it up in `keywords`) -/
def rawWord (s : String) : List Tok :=
  if isPlainWord s then
    match lookupChars (s.toList.map Char.toLower) Gen.keywords with
    | some (.nrkw v) => [Tok.nrkw v]
    | some t => [t]
    | none => [Tok.id s]
  else [Tok.bad ("raw name " ++ s)]

/-- the raw name lexes back to one identifier-like token carrying exactly this text -/
def rawOK (s : String) : Bool := rawWord s == [Tok.id s] || rawWord s == [Tok.nrkw s]

def ValTy.code : ValTy → Nat
  | .str => 0 | .int => 1 | .float => 2 | .hexnum => 3 | .hex => 4 | .bit => 6   -- ValArg = 5 is outside the fragment
/-- `SQLVal.Format` -/
def printVal (ty : ValTy) (neg : Bool) (s : String) : List Tok :=
  match ty with
  | .str => [Tok.str s]
  | .int => if neg then [Tok.kw .MINUS, Tok.int s] else [Tok.int s]
  | .float => [Tok.float s]
  | .hexnum => [Tok.hexnum s]
  | .hex => [Tok.hex s]
  | .bit => [Tok.bit s]

def printConvTy : ConvTy → List Tok
  | .simple n => Fmt.run Gen.fmt_ConvertTypeSimple [("node.Name", rawWord n)] []
  | .list => Fmt.run Gen.fmt_ConvertTypeList [] []
  | .object => Fmt.run Gen.fmt_ConvertTypeObject [] []

/-- `TableName.Format` (Qualifier `q`, Name `n`) -/
def printTableName (q n : String) : List Tok :=
  Fmt.run Gen.fmt_TableName [("node.Qualifier", printId q), ("node.Name", printId n)]
    [("node.IsEmpty()", n == "" && q == ""), ("!node.Qualifier.IsEmpty()", q != "")]

/-- `ColName.Format` -/
def printColName (q2 q1 name : String) : List Tok :=
  Fmt.run Gen.fmt_ColName [("node.Qualifier", printTableName q2 q1), ("node.Name", printId name)]
    [("!node.Qualifier.IsEmpty()", !(q1 == "" && q2 == ""))]

def isRand (name : String) : Bool := name.toList.map Char.toLower == "rand".toList

def Expr.isUnary : Expr → Bool
  | .un _ _ => true
  | _ => false
def Expr.isNullVal : Expr → Bool
  | .null => true
  | _ => false
def Expr.isRandFunc : Expr → Bool
  | .func _ name _ _ => isRand name
  | _ => false
def Expr.isFunc : Expr → Bool
  | .func _ _ _ _ => true
  | _ => false

def optToks : Option (List Tok) → List Tok
  | some ts => ts
  | none => []

/-! ## The printer: every node interprets its generated template -/

mutual
def printE : Expr → List Tok
  | .and l r => Fmt.run Gen.fmt_AndExpr [("node.Left", printE l), ("node.Right", printE r)] []
  | .or l r => Fmt.run Gen.fmt_OrExpr [("node.Left", printE l), ("node.Right", printE r)] []
  | .not e => Fmt.run Gen.fmt_NotExpr [("node.Expr", printE e)] []
  | .paren e => Fmt.run Gen.fmt_ParenExpr [("node.Expr", printE e)] []
  | .cmp op l r => Fmt.run Gen.fmt_ComparisonExpr
      [("node.Left", printE l), ("node.Operator", op.toks), ("node.Right", printE r)] [("node.Escape != nil", false)]
  | .is op e => Fmt.run Gen.fmt_IsExpr [("node.Expr", printE e), ("node.Operator", op.toks)] []
  | .exists_ s => Fmt.run Gen.fmt_ExistsExpr
      [("node.Subquery", Fmt.run Gen.fmt_Subquery [("node.Select", printS s)] [])] []
  | .val ty neg s => printVal ty neg s
  | .null => Fmt.run Gen.fmt_NullVal [] []
  | .bool b => Fmt.run Gen.fmt_BoolVal [] [("node", b)]
  | .col q2 q1 name => printColName q2 q1 name
  | .tuple es => Fmt.run Gen.fmt_ValTuple [("Exprs(node)", Gen.list_Exprs.run (printEs es))] []
  | .subq s => Fmt.run Gen.fmt_Subquery [("node.Select", printS s)] []
  | .bin op l r => Fmt.run Gen.fmt_BinaryExpr
      [("node.Left", printE l), ("node.Operator", op.toks), ("node.Right", printE r)] [("node.Operator == ArrayElement", false)]
  | .index l i => Fmt.run Gen.fmt_BinaryExpr
      [("node.Left", printE l), ("node.Operator", Gen.c_ArrayElement), ("node.Right", printE i)]
      [("node.Operator == ArrayElement", true)]
  | .un op e => Fmt.run Gen.fmt_UnaryExpr [("node.Operator", op.toks), ("node.Expr", printE e)]
      [("_, unary := node.Expr.(*UnaryExpr); unary", e.isUnary)]
  | .interval e unit => Fmt.run Gen.fmt_IntervalExpr [("node.Expr", printE e), ("node.Unit", rawWord unit)] []
  | .func qual name distinct args => Fmt.run Gen.fmt_FuncExpr
      [("node.Qualifier", printId qual), ("node.Name.String()", rawWord name),
       ("node.Exprs", Gen.list_SelectExprs.run (printEs args))]
      [("node.Distinct", distinct), ("!node.Qualifier.IsEmpty()", qual != "")]
  | .convert e t => Fmt.run Gen.fmt_ConvertExpr [("node.Expr", printE e), ("node.Type", printConvTy t)] []
  | .field e name => Fmt.run Gen.fmt_ObjectFieldAccess [("node.Object", printE e), ("node.Field", printId name)] []
  | .star q2 q1 => Fmt.run Gen.fmt_StarExpr [("node.TableName", printTableName q2 q1)]
      [("!node.TableName.IsEmpty()", !(q1 == "" && q2 == ""))]
  | .aliased e as_ => Fmt.run Gen.fmt_AliasedExpr [("node.Expr", printE e), ("node.As", printId as_)]
      [("!node.As.IsEmpty()", as_ != "")]
  | .explode e => Fmt.run Gen.fmt_ObjectExplode [("node.Object", printE e)] []
  | .trigCount e => Fmt.run Gen.fmt_CountingTrigger [("w.Count", printE e)] []
  | .trigWm => Fmt.run Gen.fmt_WatermarkTrigger [] []
  | .trigEos => Fmt.run Gen.fmt_EndOfStreamTrigger [] []
  | .trigDelay e => Fmt.run Gen.fmt_DelayTrigger [("w.Delay", printE e)] []
  | .order e desc => Fmt.run Gen.fmt_Order
      [("node", printE e), ("node.Expr", printE e), ("node.Direction", if desc then Gen.c_DescScr else Gen.c_AscScr)]
      [("node.Direction == AscScr", !desc), ("node, ok := node.Expr.(*NullVal); ok", e.isNullVal),
       ("node, ok := node.Expr.(*FuncExpr); ok", e.isFunc), ("node.Name.Lowered() == \"rand\"", e.isRandFunc)]
def printEs : List Expr → List (List Tok)
  | [] => []
  | e :: es => printE e :: printEs es
def printOE : Option Expr → Option (List Tok)
  | none => none
  | some e => some (printE e)
def printT : Tbl → List Tok
  | .table q name as_ => Fmt.run Gen.fmt_AliasedTableExpr
      [("node.Expr", printTableName q name), ("node.Partitions", []), ("node.As", printId as_)]
      [("!node.As.IsEmpty()", as_ != ""), ("node.Hints != nil", false)]
  | .sub s as_ => Fmt.run Gen.fmt_AliasedTableExpr
      [("node.Expr", Fmt.run Gen.fmt_Subquery [("node.Select", printS s)] []), ("node.Partitions", []), ("node.As", printId as_)]
      [("!node.As.IsEmpty()", as_ != ""), ("node.Hints != nil", false)]
  | .paren ts => Fmt.run Gen.fmt_ParenTableExpr [("node.Exprs", Gen.list_TableExprs.run (printTs ts))] []
  | .join l strat kind r on using_ => Fmt.run Gen.fmt_JoinTableExpr
      [("node.LeftExpr", printT l), ("node.Strategy", strat.toks), ("node.Join", kind.toks), ("node.RightExpr", printT r),
       ("node.Condition", Fmt.run Gen.fmt_JoinCondition
          [("node.On", optToks (printOE on)), ("node.Using", Gen.list_Columns.run (using_.map printId))]
          [("node.On != nil", on.isSome), ("node.Using != nil", !using_.isEmpty)])]
      [("node.Strategy == LookupJoinStrategy || node.Strategy == StreamJoinStrategy", strat.isLookupOrStream)]
  | .tvf name args as_ => Fmt.run Gen.fmt_TableValuedFunction
      [("node.Name", printId name), ("node.Args", Gen.list_TableValuedFunctionArguments.run (printTs args)),
       ("node.As", printId as_)] []
  | .argE name e => Fmt.run Gen.fmt_TableValuedFunctionArgument
      [("node.Name", printId name),
       ("node.Value", Fmt.run Gen.fmt_ExprTableValuedFunctionArgumentValue [("node.Expr", printE e)] [])] []
  | .argT name t => Fmt.run Gen.fmt_TableValuedFunctionArgument
      [("node.Name", printId name),
       ("node.Value", Fmt.run Gen.fmt_TableDescriptorTableValuedFunctionArgumentValue [("node.Table", printT t)] [])] []
  | .argD name q2 q1 c => Fmt.run Gen.fmt_TableValuedFunctionArgument
      [("node.Name", printId name),
       ("node.Value", Fmt.run Gen.fmt_FieldDescriptorTableValuedFunctionArgumentValue
          [("node.Field", printColName q2 q1 c)] [])] []
def printTs : List Tbl → List (List Tok)
  | [] => []
  | t :: ts => printT t :: printTs ts
def printS : Sel → List Tok
  | .select distinct exprs from_ where_ groupBy having trig orderBy limOff limCnt => Fmt.run Gen.fmt_Select
      [("node.Comments", []), ("node.Cache", []), ("node.Distinct", if distinct then Gen.c_DistinctStr else []),
       ("node.Hints", []), ("node.SelectExprs", Gen.list_SelectExprs.run (printEs exprs)),
       ("node.From", Gen.list_TableExprs.run (printTs from_)),
       ("node.Where", Fmt.run Gen.fmt_Where [("node.Type", Gen.c_WhereStr), ("node.Expr", optToks (printOE where_))]
          [("node == nil || node.Expr == nil", where_.isNone)]),
       ("node.GroupBy", Gen.list_GroupBy.run (printEs groupBy)),
       ("node.Having", Fmt.run Gen.fmt_Where [("node.Type", Gen.c_HavingStr), ("node.Expr", optToks (printOE having))]
          [("node == nil || node.Expr == nil", having.isNone)]),
       ("node.Trigger", Gen.list_Triggers.run (printEs trig)),
       ("node.OrderBy", Gen.list_OrderBy.run (printEs orderBy)),
       ("node.Limit", Fmt.run Gen.fmt_Limit [("node.Offset", optToks (printOE limOff)), ("node.Rowcount", optToks (printOE limCnt))]
          [("node == nil", limCnt.isNone), ("node.Offset != nil", limOff.isSome)]),
       ("node.Lock", [])] []
  | .with_ ctes s => Fmt.run Gen.fmt_With
      [("node.CommonTableExpressions", Gen.list_CommonTableExpressions.run (printSs ctes)), ("node.Select", printS s)] []
  | .cte name s => Fmt.run Gen.fmt_CommonTableExpression [("node.Name", printId name), ("node.Select", printS s)] []
def printSs : List Sel → List (List Tok)
  | [] => []
  | s :: ss => printS s :: printSs ss
end

end Octo.SqlSyn
