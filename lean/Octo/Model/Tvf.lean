import Octo.Model.Changelog
/-!
  Octo.Model.Tvf — the table valued functions `tumble`, `range` and `poll`
  (`table_valued_functions/tumble.go`, `range.go`, `poll.go`), mirrored construct by construct.

  Modelling decisions
  * An instant is an `Int`: nanoseconds since the Unix epoch, **unbounded** (Go's `time.Time` carries
    int64 *seconds* since year 1 plus nanoseconds, so `Add`/`Truncate` never overflow for any instant that can
    be written down; `addSec` saturates only ±292·10⁹ years away).  A `time.Duration` is an int64: durations are
    `Int`s with the side condition `I64`, and the one place where the code does int64 arithmetic on a duration
    (`-1 * offset.Duration`) is modelled with the wrap-around (`negDur`).
  * `Time.Truncate(d)` rounds down to a multiple of `d` **since Go's zero time** (0001-01-01 UTC), not since
    the Unix epoch; `d ≤ 0` returns the time unchanged.  (`time.go: Truncate`, `div`.)
  * The consumer (`produce` / `metaSend`) is modelled by a *budget*: it accepts that many messages and fails on
    the next one; the nodes return at the first failure, so the observable output is a prefix (`cut`).
  * A source is a scripted message list that either ends normally or fails after its last message.
  * `poll` reads `time.Now()` once per round: the clock is a function `Nat → Int` from the round number to
    the reading (a parameter of the model; every theorem quantifies over it).
-/
namespace Octo.Tvf
open Octo

/-- Unix-epoch nanoseconds of Go's zero `time.Time` (0001-01-01T00:00:00Z = −62135596800 s). -/
def zeroUnix : Int := -62135596800 * 1000000000

def minI64 : Int := -9223372036854775808
def maxI64 : Int := 9223372036854775807
/-- the value fits an int64 -/
def I64 (x : Int) : Prop := minI64 ≤ x ∧ x ≤ maxI64
instance (x : Int) : Decidable (I64 x) := by unfold I64; infer_instance

/-- int64 wrap-around of a mathematical integer -/
def wrap64 (x : Int) : Int := (x + 9223372036854775808) % 18446744073709551616 - 9223372036854775808

/-- Go's `-1 * d` on an int64 duration (`MinInt64` maps to itself) -/
def negDur (d : Int) : Int := wrap64 (-d)

/-- `time.Time.Truncate(d)`: unchanged for `d ≤ 0`, else the remainder of the time **since the zero time** is
    subtracted (`Int.emod`: for `d > 0` the remainder is in `[0, d)` also for instants before year 1, which is
    what `div`'s `neg` branch computes). -/
def truncate (t d : Int) : Int :=
  if d ≤ 0 then t else t - (t - zeroUnix) % d

/-- how the result of a run ends -/
inductive Status where
  | ok          -- Run returned nil
  | errBudget   -- the consumer failed (`produce`/`metaSend` returned an error)
  | errSource   -- the source's Run returned an error
  | panic       -- a Go panic (index out of range)
  deriving Repr, DecidableEq, Inhabited

abbrev Result := List Msg × Status

/-- the consumer accepts `budget` messages and fails on the next one (`none` = accepts everything) -/
def cut (budget : Option Nat) (r : Result) : Result :=
  match budget with
  | none => r
  | some b => if r.1.length > b then (r.1.take b, .errBudget) else r

/-- a scripted source (`ScriptNode`): plays `msgs`; with `failAt = some i`, `i ≤ msgs.length`, it returns an error
    instead of delivering message `i` (or at the end when `i = msgs.length`); returns (delivered, failed) -/
def script (msgs : List Msg) (failAt : Option Nat) : List Msg × Bool :=
  match failAt with
  | none => (msgs, false)
  | some i => if i ≤ msgs.length then (msgs.take i, true) else (msgs, false)

/-! ## tumble -/

structure TumbleCfg where
  idx : Int        -- `timeFieldIndex` (a Go `int`; −1 when the schema has no time field)
  len : Int        -- `windowLength.Duration`
  off : Int        -- `offset.Duration`
  deriving Repr

/-- `Materialize`: with `time_field => DESCRIPTOR(name)` the index is the position of that name among the schema's
    fields and stays 0 when it does not occur; without it the schema's `TimeField`. Fields are named f0, f1, …
    so the position of `f<idx>` is `idx` when `0 ≤ idx < nfields`. -/
def materializeIdx (explicit : Bool) (idx : Int) (nfields : Nat) : Int :=
  if explicit then (if 0 ≤ idx ∧ idx < nfields then idx else 0) else idx

/-- `record.Values[i].Time` — the `Time` field of a value that is not a time is the zero `time.Time` (location UTC) -/
def timeOf : Value → Int × Nat
  | .time ns loc => (ns, loc)
  | _ => (zeroUnix, 0)

/-- `timeValue.Add(-1 * offset).Truncate(windowLength).Add(offset)` -/
def windowStart (t len off : Int) : Int := truncate (t + negDur off) len + off
/-- `windowStart.Add(windowLength)` -/
def windowEnd (t len off : Int) : Int := windowStart t len off + len

/-- the body of the produce callback; `none` = index out of range (Go panics) -/
def tumbleRec (c : TumbleCfg) (r : Rec) : Option Rec :=
  if c.idx < 0 then none else
  match r.vals[c.idx.toNat]? with
  | none => none
  | some v =>
    let (t, loc) := timeOf v
    some { r with vals := r.vals ++ [.time (windowStart t c.len c.off) loc, .time (windowEnd t c.len c.off) loc] }

/-- `tumble.Run` over the messages the source delivers; watermarks go straight to `metaSend` -/
def tumbleMsgs (c : TumbleCfg) : List Msg → Result
  | [] => ([], .ok)
  | .wm w :: ms => let (o, s) := tumbleMsgs c ms; (.wm w :: o, s)
  | .data r :: ms =>
    match tumbleRec c r with
    | none => ([], .panic)
    | some r' => let (o, s) := tumbleMsgs c ms; (.data r' :: o, s)

def tumbleRun (c : TumbleCfg) (src : List Msg × Bool) (budget : Option Nat) : Result :=
  let (o, s) := tumbleMsgs c src.1
  cut budget (o, if s = .ok ∧ src.2 then .errSource else s)

/-! ## the declared schemas (`OutputSchema`) and tumble's field lookup (`Materialize`) -/

/-- what the code looks at in a field type: `TypeID == TypeIDTime` or not -/
inductive FTy where
  | time | int | union | other
  deriving DecidableEq, Repr, Inhabited

structure Schema where
  fields : List (String × FTy)
  timeField : Int            -- −1 = none
  noRetr : Bool
  deriving Repr

/-- `OutputSchema`'s loop over the source fields for `time_field => DESCRIPTOR(name)`:
    the first field with that name must be `Time` (else an error); `ok false` = no such field -/
def findTimeField (name : String) : List (String × FTy) → Except Unit Bool
  | [] => .ok false
  | (n, t) :: rest =>
    if n ≠ name then findTimeField name rest
    else if t ≠ .time then .error ()
    else .ok true

/-- tumble's `OutputSchema` (`none` = one of its three errors) -/
def tumbleSchema (timeField : Option String) (src : Schema) : Option Schema :=
  let out : Schema := { fields := src.fields ++ [("window_start_0", .time), ("window_end_0", .time)]
                        timeField := src.fields.length + 1, noRetr := src.noRetr }
  match timeField with
  | some name =>
    match findTimeField name src.fields with
    | .ok true => some out
    | _ => none
  | none => if src.timeField = -1 then none else some out

/-- `Materialize`'s own loop for the same descriptor: the index of the first field with that name, 0 if there is none -/
def lookupIdx (name : String) : List (String × FTy) → Nat → Nat
  | [], _ => 0
  | (n, _) :: rest, i => if n = name then i else lookupIdx name rest (i + 1)

/-- range's and poll's `OutputSchema` -/
def rangeSchema : Schema := { fields := [("i_0", .int)], timeField := -1, noRetr := true }
def pollSchema (src : Schema) : Schema := { fields := ("time_0", .time) :: src.fields, timeField := 0, noRetr := false }

/-! ## range -/

/-- `Value.Int` of a value that is not an int is 0 -/
def intOf : Value → Int
  | .int i => i
  | _ => 0

/-- `for i := start; i < end; i++ { produce(i) }`, by fuel (the loop runs `end − start` times) -/
def rangeLoop (e : Int) : Nat → Int → List Int
  | 0, _ => []
  | fuel + 1, i => if i < e then i :: rangeLoop e fuel (i + 1) else []

def rangeInts (s e : Int) : List Int := rangeLoop e (e - s).toNat s

def rangeMsg (i : Int) : Msg := .data { vals := [.int i], retr := false, et := none }

def rangeRun (s e : Value) (budget : Option Nat) : Result :=
  cut budget ((rangeInts (intOf s) (intOf e)).map rangeMsg, .ok)

/-! ## poll

`poll.go` after the two repairs (`fix: poll stamps the retractions … with the current round's time`,
`fix: poll keeps the retraction flag …`).  The code as shipped is kept below (`Shipped`) for the refutations. -/

/-- event time / watermark of an instant: `none` is the zero time -/
def etOf (t : Int) : Option Int := if t = zeroUnix then none else some t

structure PollSt where
  lastNow : Int := zeroUnix                      -- `var lastNow time.Time`
  last : List (List Value × Bool) := []          -- `lastValues[i]`, `lastRetractions[i]`
  deriving Repr

/-- `if !lastNow.IsZero() { for i := len(lastValues)-1; i >= 0; i-- { produce(NewRecord(lastValues[i], !lastRetractions[i], now)) } }` -/
def pollRetractions (st : PollSt) (now : Int) : List Msg :=
  if st.lastNow = zeroUnix then []
  else st.last.reverse.map fun (vs, retr) => .data { vals := vs, retr := !retr, et := etOf now }

/-- the produce callback handed to the source: prepend the clock reading, keep the retraction flag, stamp `now`;
    the source's watermarks are passed to `metaSend` unchanged (the source gets poll's own `metaSend`) -/
def pollMsg (now : Int) : Msg → Msg
  | .data r => .data { vals := .time now 0 :: r.vals, retr := r.retr, et := etOf now }
  | .wm w => .wm w

/-- what is remembered of a round: the rows as emitted, with their flags -/
def pollRemember (now : Int) (msgs : List Msg) : List (List Value × Bool) :=
  (recs msgs).map fun r => (.time now 0 :: r.vals, r.retr)

/-- the rounds of `poll.Run`. `rounds` are the source's scripts (delivered messages, failed?) for the successive
    `source.Run` calls; when they are used up the source fails at once (the harness's way of stopping the loop,
    which never terminates by itself).  `clock k` is the `time.Now()` reading of round `k`. -/
def pollFrom (clock : Nat → Int) : Nat → PollSt → List (List Msg × Bool) → Result
  | k, st, [] => (pollRetractions st (clock k), .errSource)
  | k, st, (msgs, failed) :: rest =>
    let now := clock k
    let pre := pollRetractions st now ++ msgs.map (pollMsg now)
    if failed then (pre, .errSource)
    else
      let (o, s) := pollFrom clock (k + 1) { lastNow := now, last := pollRemember now msgs } rest
      (pre ++ .wm now :: o, s)

def pollRun (clock : Nat → Int) (rounds : List (List Msg × Bool)) (budget : Option Nat) : Result :=
  cut budget (pollFrom clock 0 {} rounds)

/-! ### poll as shipped (before the repairs): retractions stamped `lastNow`, in forward order, flags dropped -/
namespace Shipped

structure PollSt where
  lastNow : Int := zeroUnix
  lastValues : List (List Value) := []

def pollRetractions (st : PollSt) : List Msg :=
  if st.lastNow = zeroUnix then []
  else st.lastValues.map fun vs => .data { vals := vs, retr := true, et := etOf st.lastNow }

def pollMsg (now : Int) : Msg → Msg
  | .data r => .data { vals := .time now 0 :: r.vals, retr := false, et := etOf now }
  | .wm w => .wm w

def pollFrom (clock : Nat → Int) : Nat → PollSt → List (List Msg × Bool) → Result
  | _, st, [] => (pollRetractions st, .errSource)
  | k, st, (msgs, failed) :: rest =>
    let now := clock k
    let pre := pollRetractions st ++ msgs.map (pollMsg now)
    if failed then (pre, .errSource)
    else
      let (o, s) := pollFrom clock (k + 1)
        { lastNow := now, lastValues := (recs msgs).map fun r => .time now 0 :: r.vals } rest
      (pre ++ .wm now :: o, s)

end Shipped

end Octo.Tvf
