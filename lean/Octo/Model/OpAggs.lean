import Octo.Model.Ops
/-!
  Octo.Model.OpAggs — the concrete aggregates the operator checks feed to the group-by nodes
  (`aggregates/count.go`, `sum.go` Int overload, `max.go`), and the per-group bookkeeping of
  `AggregatedSetSize` around them, packaged as one `GAgg`.
-/
namespace Octo.Ops
open Octo

inductive AggKind where
  | count | sum | max
  deriving Repr, DecidableEq, Inhabited

inductive AggSt where
  | cnt (n : Int)
  | sum (s : Int)
  | max (items : List (Value × Int))      -- btree of (value, count), ascending by Compare
  deriving Repr, Inhabited

def aggInit : AggKind → AggSt
  | .count => .cnt 0
  | .sum => .sum 0
  | .max => .max []

/-- `Max.Add`: Get / count± / delete at zero, in a list sorted by `Compare == -1` -/
def maxAdd (v : Value) (retr : Bool) : List (Value × Int) → List (Value × Int)
  | [] => [(v, if retr then -1 else 1)]
  | (u, c) :: rest =>
    if cmp v u == -1 then (v, if retr then -1 else 1) :: (u, c) :: rest
    else if cmp u v == -1 then (u, c) :: maxAdd v retr rest
    else
      let c' := if retr then c - 1 else c + 1
      if c' == 0 then rest else (u, c') :: rest

def aggAdd (st : AggSt) (retr : Bool) (v : Value) : AggSt :=
  match st with
  | .cnt n => .cnt (if retr then n - 1 else n + 1)
  | .sum s => .sum (if retr then s - intOf v else s + intOf v)
  | .max items => .max (maxAdd v retr items)

/-- `Trigger()`; `none` = nil dereference of `items.Max()` on an empty tree -/
def aggTrig : AggSt → Option Value
  | .cnt n => some (.int n)
  | .sum s => some (.int s)
  | .max items => items.getLast?.map (·.1)

structure AggCell where
  size : Int            -- AggregatedSetSize[i]
  st : AggSt
  deriving Repr, Inhabited

def cellAdd (retr : Bool) (c : AggCell) (v : Value) : AggCell :=
  if isNull v then c
  else { size := if retr then c.size - 1 else c.size + 1, st := aggAdd c.st retr v }

def cellsAdd (retr : Bool) : List AggCell → Row → List AggCell
  | c :: cs, v :: vs => cellAdd retr c v :: cellsAdd retr cs vs
  | cs, _ => cs

def cellsTrig : List AggCell → Option Row
  | [] => some []
  | c :: cs =>
    let v : Option Value := if c.size > 0 then aggTrig c.st else some .null
    match v, cellsTrig cs with
    | some v, some vs => some (v :: vs)
    | _, _ => none

/-- all aggregates of a group-by node as one `GAgg` -/
def composite (kinds : List AggKind) : GAgg (List AggCell) where
  init := kinds.map fun k => { size := 0, st := aggInit k }
  add cells retr ins := cellsAdd retr cells ins
  trig := cellsTrig

end Octo.Ops
