import Octo.Model.Changelog
/-!
  Octo.Model.ConsistentOutput — `InternallyConsistentOutputStreamWrapper.Run`
  (`outputs/stream/internally_consistent_output_stream_wrapper.go`), construct by construct.

  The wrapper buffers every record in `pending`; on a watermark `W` (and once more at end of stream with
  `WatermarkMaxValue`) it calls `sendPendingLessOrEqualWatermark(W)`, then forwards the watermark.

  Two versions are modelled through `Version`: the code as shipped (`zeroPrefix = true`, `skipCrossed = false`)
  and the code after the `fix:` commit (`zeroPrefix = false`, `skipCrossed = true`).
-/
namespace Octo.ICW
open Octo

structure Version where
  /-- `newPending := make([]Record, afterWatermarkCount)` followed by `append`: that many zero records in front -/
  zeroPrefix : Bool
  /-- the search for a retraction skips entries that are already crossed out (`|| crossedOut[j]`) -/
  skipCrossed : Bool
  deriving DecidableEq, Repr

def shipped : Version := ⟨true, false⟩
def fixed : Version := ⟨false, true⟩

inductive Fail where
  | panic     -- index out of range in `pending[j].Values[k]`
  deriving DecidableEq, Repr

/-- `WatermarkMaxValue = time.Unix(0, math.MaxInt64)` -/
def wmMax : Int := 9223372036854775807

/-- `pending[i].EventTime.After(watermark)`; the zero event time is before every watermark -/
def after (W : Int) (r : Rec) : Bool :=
  match r.et with
  | none => false
  | some t => decide (W < t)

/-- the zero `Record{}` -/
def zeroRec : Rec := { vals := [], retr := false, et := none }

/-- `for k := range pending[i].Values { if pending[i].Values[k].Compare(pending[j].Values[k]) != 0 { continue findRetractionLoop } }`
    `some true` = fell through the loop (match), `some false` = `continue`, `none` = index out of range -/
def valsMatch : List Value → List Value → Option Bool
  | [], _ => some true
  | _ :: _, [] => none
  | x :: xs, y :: ys => if cmp x y != 0 then some false else valsMatch xs ys

/-- `findRetractionLoop` for the addition `a`: `rest`/`cs` are `pending[i+1:]` and `crossedOut[i+1:]`.
    `some cs'` = found a retraction, `cs'` is `crossedOut[i+1:]` with that entry set; `none` = not found. -/
def findRetr (skip : Bool) (a : Rec) : List Rec → List Bool → Except Fail (Option (List Bool))
  | b :: rest, c :: cs =>
    if !b.retr || (skip && c) then
      match findRetr skip a rest cs with
      | .error e => .error e
      | .ok none => .ok none
      | .ok (some cs') => .ok (some (c :: cs'))
    else
      match valsMatch a.vals b.vals with
      | none => .error .panic
      | some true => .ok (some (true :: cs))
      | some false =>
        match findRetr skip a rest cs with
        | .error e => .error e
        | .ok none => .ok none
        | .ok (some cs') => .ok (some (c :: cs'))
  | _, _ => .ok none

/-- `pendingLoop` over `pending[i:]` with `crossedOut[i:]`; returns what is produced, in order -/
def pendingLoop (skip : Bool) : List Rec → List Bool → Except Fail (List Rec)
  | [], _ => .ok []
  | a :: rest, [] =>          -- (unreachable: the two slices have the same length)
    match pendingLoop skip rest [] with
    | .error e => .error e
    | .ok out => .ok (a :: out)
  | a :: rest, c :: cs =>
    if c then pendingLoop skip rest cs
    else if !a.retr then
      match findRetr skip a rest cs with
      | .error e => .error e
      | .ok (some cs') => pendingLoop skip rest cs'       -- crossedOut[i] = crossedOut[j] = true; continue pendingLoop
      | .ok none =>
        match pendingLoop skip rest cs with
        | .error e => .error e
        | .ok out => .ok (a :: out)
    else
      match pendingLoop skip rest cs with
      | .error e => .error e
      | .ok out => .ok (a :: out)

/-- `sendPendingLessOrEqualWatermark`: (records produced, new value of `pending`) -/
def flush (v : Version) (W : Int) (pending : List Rec) : Except Fail (List Rec × List Rec) :=
  let crossedOut := pending.map (after W)
  let kept := pending.filter (after W)
  let newPending := (if v.zeroPrefix then List.replicate kept.length zeroRec else []) ++ kept
  match pendingLoop v.skipCrossed pending crossedOut with
  | .error e => .error e
  | .ok out => .ok (out, newPending)

/-- the observable state while the source runs -/
structure St where
  /-- everything handed to `produce` / `metaSend` so far, in order -/
  out : List Msg
  pending : List Rec
  deriving Repr

def St.init : St := ⟨[], []⟩

/-- the two callbacks handed to `node.Source.Run` -/
def step (v : Version) (s : St) : Msg → Except Fail St
  | .data r => .ok { s with pending := s.pending ++ [r] }          -- pending = append(pending, record)
  | .wm W =>
    match flush v W s.pending with
    | .error e => .error e
    | .ok (o, pending') => .ok ⟨s.out ++ o.map .data ++ [.wm W], pending'⟩   -- flush, then metaSend(msg)

def steps (v : Version) : St → List Msg → Except Fail St
  | s, [] => .ok s
  | s, m :: ms =>
    match step v s m with
    | .error e => .error e
    | .ok s' => steps v s' ms

/-- after the source returned nil: `return sendPendingLessOrEqualWatermark(…, WatermarkMaxValue)` -/
def finish (v : Version) (s : St) : Except Fail (List Msg) :=
  match flush v wmMax s.pending with
  | .error e => .error e
  | .ok (o, _) => .ok (s.out ++ o.map .data)

/-- `Run` over a source that delivers `inp` and ends normally -/
def run (v : Version) (inp : List Msg) : Except Fail (List Msg) :=
  match steps v St.init inp with
  | .error e => .error e
  | .ok s => finish v s

/-- `Run` over a source that delivers `inp` and then fails: the error is returned, there is no final flush;
    what was emitted until then -/
def runFail (v : Version) (inp : List Msg) : Except Fail (List Msg) :=
  match steps v St.init inp with
  | .error e => .error e
  | .ok s => .ok s.out

end Octo.ICW
