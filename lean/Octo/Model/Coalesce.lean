import Octo.Model.NumFuncs
import Octo.Model.Ty
/-!
  Octo.Model.Coalesce — `execution/expressions.go`: `Coalesce.Evaluate`, `ObjectLayoutFixer`
  (`calculateMapping`, `mergeMappings`, `fixLayout`), `TypeAssertion.Evaluate`, `TypeCast.Evaluate`,
  as the code stands after the C13 `fix:` commits (tuple elements are read from `value.Tuple`, a shorter
  tuple is padded with NULLs).  `fixLayoutRaw` keeps the shipped Tuple branch (`value.List[i]`).

  `LayoutMapping` has three optional pointers (`Struct`, `List`, `Tuple`); `mergeMappings` can set several of
  them, so the model keeps all three: a nil pointer is `hasSt = false` / `li = []` / `hasTu = false`.
  Where Go dereferences a nil pointer or indexes out of range the model returns `none` (= panic).
-/
namespace Octo.Coal
open Octo Octo.Num

inductive Mapping where
  | mk (hasSt : Bool) (srcIdx : List Int) (srcMap : List Mapping)
       (li : List Mapping)
       (hasTu : Bool) (tu : List Mapping)
  deriving Repr, Inhabited

namespace Mapping
/-- `LayoutMapping{}` -/
def empty : Mapping := .mk false [] [] [] false []
def hasSt : Mapping → Bool | .mk h _ _ _ _ _ => h
def srcIdx : Mapping → List Int | .mk _ s _ _ _ _ => s
def srcMap : Mapping → List Mapping | .mk _ _ m _ _ _ => m
def li : Mapping → List Mapping | .mk _ _ _ l _ _ => l
def hasTu : Mapping → Bool | .mk _ _ _ _ h _ => h
def tu : Mapping → List Mapping | .mk _ _ _ _ _ t => t
end Mapping

/-- `mergeMappings(m1, m2)`: per pointer, `m2`'s if non-nil, else `m1`'s -/
def mergeMappings (m1 m2 : Mapping) : Mapping :=
  .mk (m1.hasSt || m2.hasSt)
      (if m2.hasSt then m2.srcIdx else m1.srcIdx)
      (if m2.hasSt then m2.srcMap else m1.srcMap)
      (if m2.li.isEmpty then m1.li else m2.li)
      (m1.hasTu || m2.hasTu)
      (if m2.hasTu then m2.tu else m1.tu)

/-- `sourceIndices[name]`: the map is filled in field order, so a repeated name keeps its LAST index -/
def lastIndexOf (names : List Name) (n : Name) : Option Nat :=
  let rec go (i : Nat) (acc : Option Nat) : List Name → Option Nat
    | [] => acc
    | m :: ms => go (i + 1) (if m == n then some i else acc) ms
  go 0 none names

def structNames : Ty → List Name | .struct ns _ => ns | _ => []
def structTys : Ty → List Ty | .struct _ ts => ts | _ => []
def tupleElems : Ty → List Ty | .tuple ts => ts | _ => []

/-- the first alternative of a union with the given TypeID -/
def findAlt (tid : Nat) : List Ty → Option Ty
  | [] => none
  | a :: as => if a.id == tid then some a else findAlt tid as

/-- one target field of the Struct case of `calculateMapping`: the index of the source field of that name (or -1)
    and the mapping of the field types (`rec` is the recursive call) -/
def calcStructField (rec : Ty → Ty → Option Mapping) (snames : List Name) (stys : List Ty) (nt : Name × Ty) :
    Option (Int × Mapping) :=
  match lastIndexOf snames nt.1 with
  | none => some ((-1 : Int), Mapping.empty)
  | some j =>
    match stys[j]? with
    | none => none
    | some st =>
      match rec nt.2 st with
      | some m => some ((j : Int), m)
      | none => none

/-- the Struct case of `calculateMapping` -/
def calcStruct (rec : Ty → Ty → Option Mapping) (tnames : List Name) (ttys : List Ty) (source : Ty) : Option Mapping :=
  match (tnames.zip ttys).mapM (calcStructField rec (structNames source) (structTys source)) with
  | some ims => some (.mk true (ims.map (·.1)) (ims.map (·.2)) [] false [])
  | none => none

/-- the element loop of the Tuple case of `calculateMapping`, target and source elements side by side
    (repaired: positions beyond a shorter source tuple keep the zero mapping) -/
def calcTupleElems (rec : Ty → Ty → Option Mapping) : List Ty → List Ty → Option (List Mapping)
  | [], _ => some []
  | _ :: ts, [] =>
    match calcTupleElems rec ts [] with
    | some ms => some (Mapping.empty :: ms)
    | none => none
  | t :: ts, s :: ss =>
    match rec t s, calcTupleElems rec ts ss with
    | some m, some ms => some (m :: ms)
    | _, _ => none

/-- the Tuple case of `calculateMapping` -/
def calcTuple (rec : Ty → Ty → Option Mapping) (telems : List Ty) (source : Ty) : Option Mapping :=
  match calcTupleElems rec telems (tupleElems source) with
  | some ms => some (.mk false [] [] [] true ms)
  | none => none

/-- `calculateMapping(target, source)`; `none` = the Go code panics ("unreachable target Union alternative");
    `fuel` bounds the recursion depth (`Ty.size target + Ty.size source` always suffices).
    Order of the tests as in the Go text: source union, target union, then the switch on the target's TypeID. -/
def calcMapping : Nat → Ty → Ty → Option Mapping
  | 0, _, _ => none
  | fuel + 1, target, .union alts =>
    -- out = mergeMappings(out, calculateMapping(target, alt)) over the alternatives
    alts.foldl (fun acc alt =>
      match acc, calcMapping fuel target alt with
      | some out, some m => some (mergeMappings out m)
      | _, _ => none) (some Mapping.empty)
  | fuel + 1, .union talts, source =>
    match findAlt source.id talts with
    | some alt => calcMapping fuel alt source
    | none => none
  | fuel + 1, .struct tnames ttys, source => calcStruct (calcMapping fuel) tnames ttys source
  | _ + 1, .listNil, _ => some Mapping.empty
  | fuel + 1, .list te, .list se =>
    match calcMapping fuel te se with
    | some m => some (.mk false [] [] [m] false [])
    | none => none
  | _ + 1, .list _, _ => some Mapping.empty       -- sourceType.List.Element == nil
  | fuel + 1, .tuple telems, source => calcTuple (calcMapping fuel) telems source
  | _ + 1, _, _ => some Mapping.empty

/-- one output field of the Struct case of `fixLayout`; a field missing in the source (index -1) stays the zero Value,
    i.e. NULL (`rec` is the recursive call) -/
def fixStructField (rec : Mapping → Value → Option Value) (xs : List Value) (ifm : Int × Mapping) : Option Value :=
  if ifm.1 == -1 then some Value.null
  else match xs[ifm.1.toNat]? with
    | some x => rec ifm.2 x
    | none => none

/-- the Struct case of `fixLayout`: one output per target field -/
def fixStruct (rec : Mapping → Value → Option Value) (xs : List Value) (m : Mapping) : Option Value :=
  match (m.srcIdx.zip m.srcMap).mapM (fixStructField rec xs) with
  | some ys => some (.struct ys)
  | none => none

/-- the element loop of the Tuple case of `fixLayout` (repaired): `out` has the length of the target tuple, positions
    beyond the value stay NULL; a value longer than the mapping indexes `ElementMapping` out of range -/
def fixTupleElems (rec : Mapping → Value → Option Value) : List Mapping → List Value → Option (List Value)
  | [], [] => some []
  | [], _ :: _ => none
  | _ :: ms, [] =>
    match fixTupleElems rec ms [] with
    | some ys => some (Value.null :: ys)
    | none => none
  | m :: ms, x :: xs =>
    match rec m x, fixTupleElems rec ms xs with
    | some y, some ys => some (y :: ys)
    | _, _ => none

/-- the Tuple case of `fixLayout` -/
def fixTuple (rec : Mapping → Value → Option Value) (xs : List Value) (m : Mapping) : Option Value :=
  match fixTupleElems rec m.tu xs with
  | some ys => some (.tuple ys)
  | none => none

/-- `fixLayout(mapping, value)` (repaired); `none` = panic (nil mapping pointer / index out of range).
    `fuel` bounds the nesting depth (`Value.size v` suffices). -/
def fixLayout : Nat → Mapping → Value → Option Value
  | 0, _, _ => none
  | fuel + 1, m, .struct xs => if m.hasSt then fixStruct (fixLayout fuel) xs m else none
  | fuel + 1, m, .list xs =>
    -- `mapping.List.ElementMapping` is only dereferenced inside the loop; the same element mapping for every element
    match xs, m.li with
    | [], _ => some (.list [])
    | _, [] => none
    | _, em :: _ =>
      match xs.mapM (fun x => fixLayout fuel em x) with
      | some ys => some (.list ys)
      | none => none
  | fuel + 1, m, .tuple xs => if m.hasTu then fixTuple (fixLayout fuel) xs m else none
  | _ + 1, _, v => some v

/-- the shipped Tuple branch: `out := make(len(value.Tuple))`, `out[i] = fixLayout(…, value.List[i])` — `value.List` of a
    tuple value is nil, so any non-empty tuple panics -/
def fixLayoutRawTuple (xs : List Value) : Option Value :=
  if xs.isEmpty then some (.tuple []) else none

/-- enough fuel for a value -/
def fuelFor (v : Value) : Nat := Value.size v + 1

/-- the loop of `Coalesce.Evaluate` over constant arguments: the first non-NULL argument, layout-fixed with the mapping
    of its position -/
def coalesceGo : List Mapping → List (Ty × Value) → Outcome
  | m :: ms, (_, v) :: rest =>
    match v with
    | .null => coalesceGo ms rest
    | _ => match fixLayout (fuelFor v) m v with
      | some r => .val r
      | none => .panic
  | _, _ => .val .null

/-- `NewObjectLayoutFixer(target, sources)` — the mappings of ALL arguments are computed up front (a panic there is a
    panic of the constructor) — then `Coalesce.Evaluate`. -/
def coalesce (target : Ty) (args : List (Ty × Value)) : Outcome :=
  match args.mapM (fun sv => calcMapping (Ty.size target + Ty.size sv.1 + 1) target sv.1) with
  | none => .panic
  | some maps => coalesceGo maps args

/-- `TypeAssertion.Evaluate` over a constant -/
def typeAssert (ids : List Nat) (v : Value) : Outcome :=
  if ids.contains v.rank then .val v else .err

/-- `TypeCast.Evaluate` over a constant -/
def typeCast (id : Nat) (v : Value) : Outcome :=
  if v.rank != id then .val .null else .val v

end Octo.Coal

namespace Octo.Coal
open Octo Octo.Num
/-- `fixLayout` as shipped, for a top-level tuple value (the witness class `COALESCE((1, 2), (3, 4))`) -/
def fixLayoutRaw (fuel : Nat) (m : Mapping) (v : Value) : Option Value :=
  match v with
  | .tuple xs => fixLayoutRawTuple xs
  | _ => fixLayout fuel m v

def coalesceGoRaw : List Mapping → List (Ty × Value) → Outcome
  | m :: ms, (_, v) :: rest =>
    match v with
    | .null => coalesceGoRaw ms rest
    | _ => match fixLayoutRaw (fuelFor v) m v with
      | some r => .val r
      | none => .panic
  | _, _ => .val .null

def coalesceRaw (target : Ty) (args : List (Ty × Value)) : Outcome :=
  match args.mapM (fun sv => calcMapping (Ty.size target + Ty.size sv.1 + 1) target sv.1) with
  | none => .panic
  | some maps => coalesceGoRaw maps args
end Octo.Coal
