import Octo.Model.NumFuncs
import Octo.Model.Ty
/-!
  Octo.Model.Coalesce — `execution/expressions.go`: `Coalesce.Evaluate`, `ObjectLayoutFixer`
  (`calculateMapping`, `mergeMappings`, `fixLayout`), `TypeAssertion.Evaluate`, `TypeCast.Evaluate`,
  as the code stands after the C13 `fix:` commits (tuple elements are read from `value.Tuple`, a shorter
  tuple is padded with NULLs).  `fixLayoutRaw` keeps the shipped Tuple branch (`value.List[i]`).

  `LayoutMapping` has three optional pointers (`Struct`, `List`, `Tuple`); `mergeMappings` can set several of
  them, so the model keeps all three: a nil pointer is `hasSt = false` / `li = []` / `hasTu = false`.
  Where Go dereferences a nil pointer or indexes out of range the model returns `none` (= panic).
-/
namespace Octo.Coal
open Octo Octo.Num

inductive Mapping where
  | mk (hasSt : Bool) (srcIdx : List Int) (srcMap : List Mapping)
       (li : List Mapping)
       (hasTu : Bool) (tu : List Mapping)
  deriving Repr, Inhabited

namespace Mapping
/-- `LayoutMapping{}` -/
def empty : Mapping := .mk false [] [] [] false []
def hasSt : Mapping → Bool | .mk h _ _ _ _ _ => h
def srcIdx : Mapping → List Int | .mk _ s _ _ _ _ => s
def srcMap : Mapping → List Mapping | .mk _ _ m _ _ _ => m
def li : Mapping → List Mapping | .mk _ _ _ l _ _ => l
def hasTu : Mapping → Bool | .mk _ _ _ _ h _ => h
def tu : Mapping → List Mapping | .mk _ _ _ _ _ t => t
end Mapping

/-- `mergeMappings(m1, m2)`: per pointer, `m2`'s if non-nil, else `m1`'s -/
def mergeMappings (m1 m2 : Mapping) : Mapping :=
  .mk (m1.hasSt || m2.hasSt)
      (if m2.hasSt then m2.srcIdx else m1.srcIdx)
      (if m2.hasSt then m2.srcMap else m1.srcMap)
      (if m2.li.isEmpty then m1.li else m2.li)
      (m1.hasTu || m2.hasTu)
      (if m2.hasTu then m2.tu else m1.tu)

/-- `sourceIndices[name]`: the map is filled in field order, so a repeated name keeps its LAST index -/
def lastIndexOf (names : List Name) (n : Name) : Option Nat :=
  let rec go (i : Nat) (acc : Option Nat) : List Name → Option Nat
    | [] => acc
    | m :: ms => go (i + 1) (if m == n then some i else acc) ms
  go 0 none names

def structNames : Ty → List Name | .struct ns _ => ns | _ => []
def structTys : Ty → List Ty | .struct _ ts => ts | _ => []
def tupleElems : Ty → List Ty | .tuple ts => ts | _ => []

/-- the first alternative of a union with the given TypeID -/
def findAlt (tid : Nat) : List Ty → Option Ty
  | [] => none
  | a :: as => if a.id == tid then some a else findAlt tid as

/-- `calculateMapping(target, source)`; `none` = the Go code panics ("unreachable target Union alternative");
    `fuel` bounds the recursion depth (`Ty.size target + Ty.size source` always suffices). -/
def calcMapping : Nat → Ty → Ty → Option Mapping
  | 0, _, _ => none
  | fuel + 1, target, source =>
    match source with
    | .union alts =>
      -- out = mergeMappings(out, calculateMapping(target, alt)) over the alternatives
      alts.foldl (fun acc alt => do
        let out ← acc
        let m ← calcMapping fuel target alt
        pure (mergeMappings out m)) (some Mapping.empty)
    | _ =>
      match target with
      | .union talts =>
        match findAlt source.id talts with
        | some alt => calcMapping fuel alt source
        | none => none
      | .struct tnames ttys =>
        -- per target field: index of the source field of that name (or -1) and the mapping of the field types
        let snames := structNames source
        let stys := structTys source
        let r : Option (List (Int × Mapping)) := (tnames.zip ttys).mapM fun (nt : Name × Ty) =>
          match lastIndexOf snames nt.1 with
          | none => some ((-1 : Int), Mapping.empty)
          | some j =>
            match stys[j]? with
            | none => none
            | some st =>
              match calcMapping fuel nt.2 st with
              | some m => some ((j : Int), m)
              | none => none
        match r with
        | some ims => some (.mk true (ims.map (·.1)) (ims.map (·.2)) [] false [])
        | none => none
      | .listNil => some Mapping.empty
      | .list te =>
        match source with
        | .list se =>
          match calcMapping fuel te se with
          | some m => some (.mk false [] [] [m] false [])
          | none => none
        | _ => some Mapping.empty       -- sourceType.List.Element == nil
      | .tuple telems =>
        let selems := tupleElems source
        let r : Option (List Mapping) := telems.zipIdx.mapM fun (ti : Ty × Nat) =>
          match selems[ti.2]? with
          | none => some Mapping.empty          -- shorter source tuple: nothing to map (repaired code)
          | some st => calcMapping fuel ti.1 st
        match r with
        | some ms => some (.mk false [] [] [] true ms)
        | none => none
      | _ => some Mapping.empty

/-- `fixLayout(mapping, value)` (repaired); `none` = panic (nil mapping pointer / index out of range).
    `fuel` bounds the nesting depth (`Value.size v` suffices). -/
def fixLayout : Nat → Mapping → Value → Option Value
  | 0, _, _ => none
  | fuel + 1, m, .struct xs =>
    -- one output per target field; a field missing in the source stays the zero Value, i.e. NULL
    if m.hasSt then
      let r : Option (List Value) := (m.srcIdx.zip m.srcMap).mapM fun (ifm : Int × Mapping) =>
        if ifm.1 == -1 then some Value.null
        else match xs[ifm.1.toNat]? with
          | some x => fixLayout fuel ifm.2 x
          | none => none
      match r with
      | some ys => some (.struct ys)
      | none => none
    else none
  | fuel + 1, m, .list xs =>
    -- `mapping.List.ElementMapping` is only dereferenced inside the loop; the same element mapping for every element
    match xs, m.li with
    | [], _ => some (.list [])
    | _, [] => none
    | _, em :: _ =>
      match xs.mapM (fun x => fixLayout fuel em x) with
      | some ys => some (.list ys)
      | none => none
  | fuel + 1, m, .tuple xs =>
    -- `out` has the length of the target tuple; positions beyond the value stay NULL
    if m.hasTu then
      if xs.length > m.tu.length then none            -- ElementMapping[i] out of range
      else
        let r : Option (List Value) := m.tu.zipIdx.mapM fun (ei : Mapping × Nat) =>
          match xs[ei.2]? with
          | some x => fixLayout fuel ei.1 x
          | none => some Value.null
        match r with
        | some ys => some (.tuple ys)
        | none => none
    else none
  | _ + 1, _, v => some v

/-- the shipped Tuple branch: `out := make(len(value.Tuple))`, `out[i] = fixLayout(…, value.List[i])` — `value.List` of a
    tuple value is nil, so any non-empty tuple panics -/
def fixLayoutRawTuple (xs : List Value) : Option Value :=
  if xs.isEmpty then some (.tuple []) else none

/-- enough fuel for a value -/
def fuelFor (v : Value) : Nat := Value.size v + 1

/-- `NewObjectLayoutFixer(target, sources)` then `Coalesce.Evaluate` over constant arguments:
    the first non-NULL argument, layout-fixed with the mapping of its position. -/
def coalesce (target : Ty) (args : List (Ty × Value)) : Outcome :=
  -- the mappings of ALL arguments are computed up front (a panic there is a panic of the constructor)
  let fuelOf := fun (s : Ty) => Ty.size target + Ty.size s + 1
  match args.mapM (fun (s, _) => calcMapping (fuelOf s) target s) with
  | none => .panic
  | some maps =>
    let rec go : List Mapping → List (Ty × Value) → Outcome
      | m :: ms, (_, v) :: rest =>
        match v with
        | .null => go ms rest
        | _ => match fixLayout (fuelFor v) m v with
          | some r => .val r
          | none => .panic
      | _, _ => .val .null
    go maps args

/-- `TypeAssertion.Evaluate` over a constant -/
def typeAssert (ids : List Nat) (v : Value) : Outcome :=
  if ids.contains v.rank then .val v else .err

/-- `TypeCast.Evaluate` over a constant -/
def typeCast (id : Nat) (v : Value) : Outcome :=
  if v.rank != id then .val .null else .val v

end Octo.Coal
