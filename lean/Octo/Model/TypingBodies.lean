import Octo.Model.TypingTable
import Octo.Model.NumFuncs
import Octo.Model.Strings
/-!
  Octo.Model.TypingBodies — executable bodies for the functions and aggregates of the generated tables, assembled from the
  existing models (`Octo.Model.NumFuncs` of C13, `Octo.Model.Strings` of C12, `Value.Compare`/`Equal` of C09).
  Only the correspondence driver uses them: the C08 theorems are parametric in the bodies and need just the result kinds
  extracted from the Go source.  A body that is not modelled (float arithmetic, `math.*`, regexps, the clock, `parse_time`,
  `time_from_unix`, non-ASCII `upper`/`lower`) answers `.unmodelled`.
-/
namespace Octo.Tc
open Octo

def nm (s : String) : Name := s.toUTF8.toList.map UInt8.toNat

def ofOutcome : Num.Outcome → Res
  | .val v => .val v
  | .err => .err
  | .panic => .panic
  | .opaque _ => .unmodelled
  | .illTyped => .unmodelled

def ofStrOut : Str.Out (List UInt8) → Res
  | .ok s => .val (.str s)
  | .err => .err
  | .panic => .panic

def cmpBody (test : Int → Bool) : List Value → Res
  | [a, b] => .val (.bool (test (cmp a b)))
  | _ => .panic                                    -- values[1] out of range

/-- `FunctionMap()[name].Descriptors[idx].Function(args)` -/
def bodyOf (name : Name) (idx : Nat) (args : List Value) : Res :=
  if name = nm "<" then cmpBody (fun c => decide (c < 0)) args
  else if name = nm "<=" then cmpBody (fun c => decide (c ≤ 0)) args
  else if name = nm ">=" then cmpBody (fun c => decide (c ≥ 0)) args
  else if name = nm ">" then cmpBody (fun c => decide (c > 0)) args
  else if name = nm "=" then (match args with | [a, b] => .val (.bool (a.equal b)) | _ => .panic)
  else if name = nm "!=" then (match args with | [a, b] => .val (.bool (!a.equal b)) | _ => .panic)
  else if name = nm "is null" then (match args with | [a] => .val (.bool (isNullV a)) | _ => .panic)
  else if name = nm "is not null" then (match args with | [a] => .val (.bool (!isNullV a)) | _ => .panic)
  else if name = nm "not" then (match args with | [a] => .val (.bool (!boolField a)) | _ => .panic)
  else if name = nm "+" then ofOutcome (Num.fnAdd idx args)
  else if name = nm "-" then ofOutcome (Num.fnSub idx args)
  else if name = nm "*" then ofOutcome (Num.fnMul idx args)
  else if name = nm "/" then ofOutcome (Num.fnDiv idx args)
  else if name = nm "abs" then ofOutcome (Num.fnAbs idx args)
  else if name = nm "len" then ofOutcome (Num.fnLen idx args)
  else if name = nm "time_to_unix" then ofOutcome (Num.fnTimeToUnix idx args)
  else if name = nm "int" then ofOutcome (Num.fnInt idx args)
  else if name = nm "float" then ofOutcome (Num.fnFloat idx args)
  else if name = nm "string" then ofOutcome (Num.fnString idx args)
  else if name = nm "[]" then ofOutcome (Num.fnIndex idx args)
  else if name = nm "in" then ofOutcome (Num.fnIn idx args)
  else if name = nm "not in" then ofOutcome (Num.fnNotIn idx args)
  else if name = nm "upper" then (match args with | [.str s] => (match Str.upper s with | some r => .val (.str r) | none => .unmodelled) | _ => .unmodelled)
  else if name = nm "lower" then (match args with | [.str s] => (match Str.lower s with | some r => .val (.str r) | none => .unmodelled) | _ => .unmodelled)
  else if name = nm "reverse" then (match args with | [.str s] => .val (.str (Str.reverse s)) | _ => .unmodelled)
  else if name = nm "substr" then
    (match idx, args with
     | 0, [.str s, .int a] => ofStrOut (Str.substr2 s a)
     | 1, [.str s, .int a, .int l] => ofStrOut (Str.substr3 s a l)
     | _, _ => .unmodelled)
  else if name = nm "replace" then (match args with | [.str s, .str o, .str n] => .val (.str (Str.replace s o n)) | _ => .unmodelled)
  else if name = nm "position" then
    (match args with
     | [.str s, .str sub] => (match Str.position s sub with | some i => .val (.int i) | none => .val .null)
     | _ => .unmodelled)
  else if name = nm "panic" then .err
  else .unmodelled

/-! ### aggregates: `Trigger()` after `Add(false, v)` for every input `v` (non-NULL, in order) -/

/-- the classes of `Compare == 0`, each represented by its first member, with the number of members; insertion order -/
def addToClasses (x : Value) : List (Value × Nat) → List (Value × Nat)
  | [] => [(x, 1)]
  | (r, k) :: rest => if cmp x r = 0 then (r, k + 1) :: rest else (r, k) :: addToClasses x rest

def classesOf (xs : List Value) : List (Value × Nat) := xs.foldl (fun acc x => addToClasses x acc) []

/-- insertion into a list sorted by `Compare` (the btree of `Array`) -/
def insertSorted (p : Value × Nat) : List (Value × Nat) → List (Value × Nat)
  | [] => [p]
  | q :: rest => if cmp p.1 q.1 < 0 then p :: q :: rest else q :: insertSorted p rest

def sumInts (xs : List Value) (mk : Int → Value) (get : Value → Option Int) : Res :=
  match xs.mapM get with
  | some is => .val (mk (is.foldl Num.addI64 0))
  | none => .unmodelled

def getInt : Value → Option Int | .int i => some i | _ => none
def getDur : Value → Option Int | .dur i => some i | _ => none

def avgInts (xs : List Value) (mk : Int → Value) (get : Value → Option Int) : Res :=
  match xs.mapM get with
  | some is => if is.isEmpty then .panic else .val (mk (Num.quoI64 (is.foldl Num.addI64 0) is.length))
  | none => .unmodelled

/-- the plain (non-distinct) aggregates, by base name and overload index -/
def aggBase (base : Name) (idx : Nat) (xs : List Value) : Res :=
  if base = nm "count" then .val (.int xs.length)
  else if base = nm "sum" then
    (if idx = 0 then sumInts xs .int getInt else if idx = 2 then sumInts xs .dur getDur else .unmodelled)
  else if base = nm "avg" then
    (if idx = 0 then avgInts xs .int getInt else if idx = 2 then avgInts xs .dur getDur else .unmodelled)
  else if base = nm "max" then
    (match xs with
     | [] => .panic
     | x :: rest => .val (rest.foldl (fun best y => if cmp y best > 0 then y else best) x))
  else if base = nm "min" then
    (match xs with
     | [] => .panic
     | x :: rest => .val (rest.foldl (fun best y => if cmp y best < 0 then y else best) x))
  else if base = nm "array_agg" then
    .val (.list (((classesOf xs).foldl (fun acc p => insertSorted p acc) []).flatMap fun p => List.replicate p.2 p.1))
  else .unmodelled

/-- `aggregates.Aggregates[name].Descriptors[idx]`: `<base>_distinct` feeds the first member of every `Compare` class -/
def aggBodyOf (name : Name) (idx : Nat) (xs : List Value) : Res :=
  let suffix := nm "_distinct"
  if name.length > suffix.length ∧ name.drop (name.length - suffix.length) = suffix then
    aggBase (name.take (name.length - suffix.length)) idx ((classesOf xs).map (·.1))
  else aggBase name idx xs

end Octo.Tc
