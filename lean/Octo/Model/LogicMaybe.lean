import Octo.Spec.Kleene
/-!
  Octo.Model.LogicMaybe — `logical/function.go` `FunctionExpression.Typecheck` for calls whose arguments are columns
  of *flat* static types (a primitive type, or a union of primitive types such as `NULL | Boolean | String`):
  the exact pass, the "Maybe" pass with the `TypeAssertion` it wraps around may-fit arguments, and the static type of
  that assertion, `*TypeIntersection(targetType, arg.Type)` with `targetType = TypeSum(declared, NULL)` for `Strict`
  descriptors.

  On flat types the type algebra of `octosql/types.go` is set algebra on TypeIDs (validated by the `lcall`
  correspondence ops, which print the assertion types the real typechecker produced):
  * `s.Is(p)` for a declared parameter type `p` (primitive or Any): Is if every alternative is `p` (or `p` is Any),
    Maybe if some alternative is, else Isnt;
  * `NonNullable` removes the NULL alternative of a union (a lone `NULL` stays);
  * `TypeSum(p, NULL)` = `[NULL, p]` (`Any` absorbs NULL);
  * `TypeIntersection(a, b)` = the alternatives of `b` that are alternatives of `a`, in TypeID order.
-/
namespace Octo.Logic
open Octo

/-- a flat static type: the TypeIDs of its alternatives in increasing order (one element = the primitive type itself) -/
abbrev FTy := List Nat

def primTy : Nat → Ty
  | 0 => .null | 1 => .int | 2 => .float | 3 => .bool | 4 => .str | 5 => .time | 6 => .dur | _ => .any

def FTy.toTy : FTy → Ty
  | [a] => primTy a
  | as => .union (as.map primTy)

def anyId : Nat := 11

/-- `s.Is(p)`: 2 = Is, 1 = Maybe, 0 = Isnt -/
def isF (s : FTy) (p : Nat) : Nat :=
  if p == anyId then 2 else if s.all (· == p) then 2 else if s.any (· == p) then 1 else 0

/-- `octosql.NonNullable` -/
def nonNullableF (s : FTy) : FTy :=
  match s with
  | [_] => s
  | _ => s.filter (· != 0)

/-- `targetType := descriptor.ArgumentTypes[i]; if descriptor.Strict { targetType = TypeSum(targetType, Null) }` -/
def targetF (strict : Bool) (p : Nat) : FTy :=
  if strict && p != anyId && p != 0 then [0, p] else [p]

/-- `*octosql.TypeIntersection(targetType, arguments[i].Type)` -/
def assertTyF (strict : Bool) (p : Nat) (s : FTy) : FTy := s.filter fun a => (targetF strict p).contains a

/-- what the descriptor sees of an argument type -/
def viewF (strict : Bool) (s : FTy) : FTy := if strict then nonNullableF s else s

/-- the kinds of descriptor: declared `ArgumentTypes`; the comparisons' `TypeFn` (two arguments of equal type);
    any other `TypeFn` of the table (they all demand a list / struct / tuple argument, which a flat type never is) -/
inductive DKind where
  | plain (params : List Nat)
  | cmpFn
  | containerFn
  deriving Repr, Inhabited

structure FDesc where
  idx : Nat
  strict : Bool
  kind : DKind
  deriving Repr, Inhabited

def isOrderCmp (name : List Nat) : Bool := name == nmLt || name == nmLe || name == nmGe || name == nmGt

/-- the descriptors of a function, from the generated table -/
def descsOf (name : List Nat) : List FDesc :=
  (Octo.Gen.Strict.table.filter (·.name == name)).map fun e =>
    { idx := e.idx, strict := e.strict,
      kind := match e.arity with
        | some _ => .plain e.params
        | none => if isOrderCmp name then .cmpFn else .containerFn }

def allIs (strict : Bool) : List Nat → List FTy → Bool
  | [], [] => true
  | p :: ps, s :: ss => isF (viewF strict s) p == 2 && allIs strict ps ss
  | _, _ => false

def allMaybe (strict : Bool) : List Nat → List FTy → Bool
  | [], [] => true
  | p :: ps, s :: ss => isF (viewF strict s) p ≥ 1 && allMaybe strict ps ss
  | _, _ => false

/-- first pass: every descriptor is tried, the **last** exact match wins -/
def exactPass (ds : List FDesc) (args : List FTy) : Option FDesc :=
  ds.foldl (fun found d =>
    let fits := match d.kind with
      | .plain ps => allIs d.strict ps args
      | .cmpFn => match args with
        | [a, b] => viewF d.strict a == viewF d.strict b
        | _ => false
      | .containerFn => false
    if fits then some d else found) none

/-- second pass: the first descriptor with declared argument types that may fit wins -/
def maybePass : List FDesc → List FTy → Option (FDesc × List Nat)
  | [], _ => none
  | d :: ds, args =>
    match d.kind with
    | .plain ps => if allMaybe d.strict ps args then some (d, ps) else maybePass ds args
    | _ => maybePass ds args

/-- the argument expression after resolution: column `i` of type `s`, wrapped in a `TypeAssertion` when it only may fit -/
def argP (strict : Bool) (p : Nat) (s : FTy) (i : Nat) : PExpr :=
  if isF (viewF strict s) p == 1 then
    .assert (assertTyF strict p s).toTy (targetF strict p).toTy (.var s.toTy i)
  else .var s.toTy i

def buildArgs (strict : Bool) : List Nat → List FTy → Nat → List PExpr
  | p :: ps, s :: ss, i => argP strict p s i :: buildArgs strict ps ss (i + 1)
  | _, _, _ => []

def plainVars : List FTy → Nat → List PExpr
  | [], _ => []
  | s :: ss, i => .var s.toTy i :: plainVars ss (i + 1)

/-- `FunctionExpression.Typecheck` on column arguments: the chosen descriptor and the argument expressions;
    `none` = "unknown function" -/
def typecheckCall (name : List Nat) (args : List FTy) : Option (FDesc × List PExpr) :=
  let ds := descsOf name
  match exactPass ds args with
  | some d => some (d, plainVars args 0)
  | none =>
    match maybePass ds args with
    | some (d, ps) => some (d, buildArgs d.strict ps args 0)
    | none => none

end Octo.Logic
