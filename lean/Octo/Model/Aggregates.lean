import Octo.Model.Value
/-!
  Octo.Model.Aggregates — the retractable aggregates of `aggregates/*.go`
  (`count.go`, `sum.go`, `average.go`, `min.go`, `max.go`, `array.go`, `distinct.go`, `table.go`).

  Interface (`execution/nodes.Aggregate`):  `Add(retraction bool, value Value) bool`, `Trigger() Value`.
  An aggregate is modelled as `(σ, init, add, trigger)`; `add` also yields the boolean that the Go
  method returns ("the aggregate is now empty"); where Go panics `trigger` yields `Out.panic`.

  Modelling decisions
  * `int64` / `time.Duration` sums wrap around (`wrap64`); element counters (`count`, btree/hashmap
    per-value counts) are mathematical integers (histories shorter than 2^63);
  * `google/btree` keyed by `Less = (Compare == -1)` is an association list kept sorted by `cmp`
    ("equal" = neither is less); `zyedidia/generic/hashmap` keyed by `Compare == 0` and `Hash` is an
    association list keyed by `cmp = 0` (licensed by C09: equal values hash equally);
  * a stored key is the *first* value inserted for its equivalence class (the Go code mutates
    the count through the pointer and never replaces the key), so `min({-0, +0})` reports
    whichever came first — mirrored exactly;
  * float sums: IEEE-754 *rounding* is outside the model. The running sum of finite floats is held
    exactly (an integer in units of 2^-1074) and rounded once when reported; the *special-value*
    rules (`NaN` absorbs, `+Inf + -Inf = NaN`, `Inf + finite = Inf`) are mirrored exactly, so the
    model shows the code's "poisoning" (`+Inf` added then retracted leaves `NaN`).
    Model and code print the same bits whenever every partial sum is exactly representable.
-/
namespace Octo.Agg
open Octo

/-- one step of an add/retract history: (retraction?, value) -/
abbrev Hist := List (Bool × Value)

/-- what `Trigger()` does: returns a value or panics -/
inductive Out where
  | val (v : Value)
  | panic
  deriving Repr, Inhabited

structure Agg where
  σ : Type
  init : σ
  /-- `Add(retraction, value)`: new state and the returned bool -/
  add : σ → Bool → Value → σ × Bool
  /-- `Trigger()` -/
  trigger : σ → Out

/-- feed one history entry; the `Bool` remembers what the last `Add` returned -/
def Agg.step (A : Agg) (s : A.σ × Bool) (e : Bool × Value) : A.σ × Bool := A.add s.1 e.1 e.2
/-- prototype() followed by the whole history (`true`: a fresh aggregate is empty) -/
def Agg.run (A : Agg) (h : Hist) : A.σ × Bool := h.foldl A.step (A.init, true)

/-! ### Go struct field reads: `value.Int`, `value.Duration`, `value.Float` of a `Value`
    built by another constructor are the zero value. -/
def intField : Value → Int | .int i => i | _ => 0
def durField : Value → Int | .dur d => d | _ => 0
def floatField : Value → Nat | .float b => b | _ => 0

/-- two's complement wrap-around of an `int64` result -/
def wrap64 (x : Int) : Int := (x + 9223372036854775808) % 18446744073709551616 - 9223372036854775808

/-! ### count.go -/
def countAdd (c : Int) (retr : Bool) (_v : Value) : Int × Bool :=
  let c' := if !retr then c + 1 else c - 1
  (c', c' == 0)

def countAgg : Agg where
  σ := Int
  init := 0
  add := countAdd
  trigger c := .val (.int c)

/-! ### sum.go (Int and Duration) — after `fix: Sum*.Add reports emptiness by element count` -/
structure SumS where
  sum : Int
  count : Int
  deriving Repr

def sumAdd (fld : Value → Int) (s : SumS) (retr : Bool) (v : Value) : SumS × Bool :=
  let s' : SumS := if !retr then { sum := wrap64 (s.sum + fld v), count := s.count + 1 }
                   else { sum := wrap64 (s.sum - fld v), count := s.count - 1 }
  (s', s'.count == 0)

/-- the code before the repair: `return c.sum == 0` -/
def sumAddRaw (fld : Value → Int) (s : SumS) (retr : Bool) (v : Value) : SumS × Bool :=
  let s' : SumS := if !retr then { sum := wrap64 (s.sum + fld v), count := s.count + 1 }
                   else { sum := wrap64 (s.sum - fld v), count := s.count - 1 }
  (s', s'.sum == 0)

def sumIntAgg : Agg where
  σ := SumS
  init := ⟨0, 0⟩
  add := sumAdd intField
  trigger s := .val (.int s.sum)

def sumDurAgg : Agg where
  σ := SumS
  init := ⟨0, 0⟩
  add := sumAdd durField
  trigger s := .val (.dur s.sum)

def sumIntAggRaw : Agg := { sumIntAgg with add := sumAddRaw intField }

/-! ### average.go (Int and Duration): a Sum and a Count side by side; `Trigger` divides (truncation
    toward zero, panics on a zero count, `MinInt64 / -1` wraps). -/
structure AvgS where
  sum : SumS
  count : Int
  deriving Repr

def avgAdd (fld : Value → Int) (a : AvgS) (retr : Bool) (v : Value) : AvgS × Bool :=
  let s' := (sumAdd fld a.sum retr v).1
  let (c', f) := countAdd a.count retr v
  ({ sum := s', count := c' }, f)

def avgDiv (a : AvgS) : Option Int :=
  if a.count = 0 then none else some (wrap64 (Int.tdiv a.sum.sum a.count))

def avgIntAgg : Agg where
  σ := AvgS
  init := ⟨⟨0, 0⟩, 0⟩
  add := avgAdd intField
  trigger a := match avgDiv a with | none => .panic | some q => .val (.int q)

def avgDurAgg : Agg where
  σ := AvgS
  init := ⟨⟨0, 0⟩, 0⟩
  add := avgAdd durField
  trigger a := match avgDiv a with | none => .panic | some q => .val (.dur q)

end Octo.Agg

/-! ### exact arithmetic on finite float64 patterns -/
namespace Octo.F64

def isInf (b : Nat) : Bool := mag b == expMask
def isFinite (b : Nat) : Bool := decide (mag b < expMask)

/-- the exact value of a finite pattern, in units of 2^-1074 -/
def toScaled (b : Nat) : Int :=
  let m := mag b
  let e := m / 2^52
  let f := m % 2^52
  let a : Nat := if e = 0 then f else (2^52 + f) * 2^(e - 1)
  if neg b then -(a : Int) else (a : Int)

/-- round-half-even of the rational `a / d` (`d > 0`) to a natural number -/
def rne (a d : Nat) : Nat :=
  let q := a / d
  let r := a % d
  if 2 * r > d ∨ (2 * r = d ∧ q % 2 = 1) then q + 1 else q

/-- magnitude bits of the float64 nearest (ties to even) to `a / d` units of 2^-1074; overflow gives
    the `Inf` pattern -/
def roundMag (a d : Nat) : Nat :=
  let t := a / d
  let shift := if t < 2^53 then 0 else Nat.log2 t - 52
  let bits := shift * 2^52 + rne a (d * 2^shift)
  if bits ≥ expMask then expMask else bits

/-- the float64 nearest to `k` units of 2^-1074 (an exact zero is `+0`) -/
def ofScaled (k : Int) : Nat :=
  if k < 0 then signBit + roundMag k.natAbs 1 else roundMag k.natAbs 1

/-- NaN as printed by both sides for *computed* NaNs (the payload of a hardware NaN is not modelled) -/
def outNaN : Nat := canonicalNaN

end Octo.F64

namespace Octo.Agg
open Octo

/-! ### sum.go / average.go (Float) -/
/-- running float sum: special values exactly as IEEE-754 propagates them, finite values exactly -/
inductive FSum where
  | nan
  | inf (neg : Bool)
  | fin (k : Int)
  deriving Repr, DecidableEq

def FSum.ofBits (b : Nat) : FSum :=
  if F64.isNaN b then .nan else if F64.isInf b then .inf (F64.neg b) else .fin (F64.toScaled b)

def FSum.neg : FSum → FSum
  | .nan => .nan
  | .inf s => .inf (!s)
  | .fin k => .fin (-k)

/-- `a + b` -/
def FSum.add : FSum → FSum → FSum
  | .nan, _ => .nan
  | _, .nan => .nan
  | .inf a, .inf b => if a = b then .inf a else .nan
  | .inf a, .fin _ => .inf a
  | .fin _, .inf b => .inf b
  | .fin a, .fin b => .fin (a + b)

/-- the bits reported (`+0` for an exact zero: a running sum that started at `+0` is never `-0`) -/
def FSum.toBits : FSum → Nat
  | .nan => F64.outNaN
  | .inf s => if s then F64.signBit + F64.expMask else F64.expMask
  | .fin k => F64.ofScaled k

/-- `sum / float64(count)` -/
def FSum.divInt : FSum → Int → Nat
  | .nan, _ => F64.outNaN
  | .inf s, n => if (s != decide (n < 0)) then F64.signBit + F64.expMask else F64.expMask
  | .fin k, n =>
    if n = 0 then
      (if k = 0 then F64.outNaN else if k < 0 then F64.signBit + F64.expMask else F64.expMask)
    else
      let negative := (decide (k < 0)) != (decide (n < 0))
      let m := F64.roundMag k.natAbs n.natAbs
      if negative then F64.signBit + m else m

structure FSumS where
  sum : FSum
  count : Int
  deriving Repr

def fsumAdd (s : FSumS) (retr : Bool) (v : Value) : FSumS × Bool :=
  let x := FSum.ofBits (floatField v)
  let s' : FSumS := if !retr then { sum := s.sum.add x, count := s.count + 1 }
                    else { sum := s.sum.add x.neg, count := s.count - 1 }
  (s', s'.count == 0)

def sumFloatAgg : Agg where
  σ := FSumS
  init := ⟨.fin 0, 0⟩
  add := fsumAdd
  trigger s := .val (.float s.sum.toBits)

structure FAvgS where
  sum : FSumS
  count : Int
  deriving Repr

def favgAdd (a : FAvgS) (retr : Bool) (v : Value) : FAvgS × Bool :=
  let s' := (fsumAdd a.sum retr v).1
  let (c', f) := countAdd a.count retr v
  ({ sum := s', count := c' }, f)

def avgFloatAgg : Agg where
  σ := FAvgS
  init := ⟨⟨.fin 0, 0⟩, 0⟩
  add := favgAdd
  trigger a := .val (.float (a.sum.sum.divInt a.count))

/-! ### min.go, max.go, array.go: a btree of `(value, count)` ordered by `Compare` -/
abbrev CList := List (Value × Int)

/-- `Get` / `ReplaceOrInsert(count 0)` / `count++|--` / `Delete` when the count reaches 0 -/
def bump (retr : Bool) (v : Value) : CList → CList
  | [] => [(v, if !retr then 1 else -1)]
  | (k, c) :: rest =>
    if cmp v k == -1 then (v, if !retr then 1 else -1) :: (k, c) :: rest
    else if cmp k v == -1 then (k, c) :: bump retr v rest
    else
      let c' := if !retr then c + 1 else c - 1
      if c' == 0 then rest else (k, c') :: rest

def treeAdd (t : CList) (retr : Bool) (v : Value) : CList × Bool :=
  let t' := bump retr v t
  (t', t'.isEmpty)

/-- `items.Min().(*minKey).value` — a nil interface conversion panics on the empty tree -/
def minAgg : Agg where
  σ := CList
  init := []
  add := treeAdd
  trigger t := match t with | [] => .panic | (k, _) :: _ => .val k

def maxAgg : Agg where
  σ := CList
  init := []
  add := treeAdd
  trigger t := match t.getLast? with | none => .panic | some (k, _) => .val k

/-- `Ascend`: each value `count` times (`for i := 0; i < count; i++`) -/
def expand : CList → List Value
  | [] => []
  | (k, c) :: rest => List.replicate c.toNat k ++ expand rest

def arrayAgg : Agg where
  σ := CList
  init := []
  add := treeAdd
  trigger t := .val (.list (expand t))

/-! ### distinct.go: hashmap value → count in front of another aggregate -/
def hget (v : Value) : CList → Option Int
  | [] => none
  | (k, c) :: rest => if cmp v k == 0 then some c else hget v rest

/-- store a new count for the entry of `v` (the entry exists: the Go code mutates `item.count`) -/
def hset (v : Value) (n : Int) : CList → CList
  | [] => [(v, n)]
  | (k, c) :: rest => if cmp v k == 0 then (k, n) :: rest else (k, c) :: hset v n rest

/-- `Remove` -/
def hdel (v : Value) : CList → CList
  | [] => []
  | (k, c) :: rest => if cmp v k == 0 then rest else (k, c) :: hdel v rest

/-- the count the Go code reads: `Get`, else `Put(value, &distinctKey{count: 0})` -/
def hcount (m : CList) (v : Value) : Int := match hget v m with | some c => c | none => 0

def distinctAdd (A : Agg) (s : CList × A.σ) (retr : Bool) (v : Value) : (CList × A.σ) × Bool :=
  let c := hcount s.1 v
  let c' := if !retr then c + 1 else c - 1
  let m := hset v c' s.1
  if c' == 1 && !retr then
    ((m, (A.add s.2 false v).1), m.isEmpty)
  else if c' == 0 then
    let m' := hdel v m
    ((m', (A.add s.2 true v).1), m'.isEmpty)
  else ((m, s.2), m.isEmpty)

def distinctAgg (A : Agg) : Agg where
  σ := CList × A.σ
  init := ([], A.init)
  add := distinctAdd A
  trigger s := A.trigger s.2

/-! ### table.go -/
inductive Kind where
  | count | sumInt | sumFloat | sumDur | avgInt | avgFloat | avgDur | min | max | array
  deriving Repr, DecidableEq

def baseAgg : Kind → Agg
  | .count => countAgg | .sumInt => sumIntAgg | .sumFloat => sumFloatAgg | .sumDur => sumDurAgg
  | .avgInt => avgIntAgg | .avgFloat => avgFloatAgg | .avgDur => avgDurAgg
  | .min => minAgg | .max => maxAgg | .array => arrayAgg

/-- an entry of `aggregates.Aggregates`: a base aggregate, possibly behind the `Distinct` wrapper -/
def mkAgg (k : Kind) (distinct : Bool) : Agg := if distinct then distinctAgg (baseAgg k) else baseAgg k

/-- `Aggregates[name].Descriptors[idx]`: argument type, output type (as printed by the harness), kind -/
def table : List (String × List (String × String × Kind × Bool)) :=
  let sums (d : Bool) := [("Int", "Int", Kind.sumInt, d), ("Float", "Float", Kind.sumFloat, d), ("Duration", "Duration", Kind.sumDur, d)]
  let avgs (d : Bool) := [("Int", "Int", Kind.avgInt, d), ("Float", "Float", Kind.avgFloat, d), ("Duration", "Duration", Kind.avgDur, d)]
  [ ("array_agg", [("fn", "fn", .array, false)]),
    ("array_agg_distinct", [("fn", "fn", .array, true)]),
    ("avg", avgs false),
    ("avg_distinct", avgs true),
    ("count", [("Any", "Int", .count, false)]),
    ("count_distinct", [("Any", "Int", .count, true)]),
    ("max", [("Int", "Int", .max, false), ("Float", "Float", .max, false), ("Duration", "Duration", .max, false), ("Time", "Time", .max, false)]),
    ("min", [("Int", "Int", .min, false), ("Float", "Float", .min, false), ("Duration", "Duration", .min, false)]),
    ("sum", sums false),
    ("sum_distinct", sums true) ]

def lookupDesc (name : String) (idx : Nat) : Option (String × String × Kind × Bool) :=
  match table.find? (·.1 == name) with
  | some (_, ds) => ds[idx]?
  | none => none

end Octo.Agg
