import Octo.Model.WireTable
import Octo.Model.Value
import Octo.Gen.Wire
/-!
  Octo.Model.Wire — the plugin wire conversions of `plugins/internal/plugins/plugins.go`.

  * `RV τ δ` is a *raw* value: the Go struct `octosql.Value` (τ = `time.Time`, δ = `time.Duration`) and the
    proto message `Value` (τ = `*timestamppb.Timestamp`, δ = `*durationpb.Duration`) have the same fields
    (`TypeID, Int, Float, Boolean, Str, Time, Duration, List, Struct, Tuple`), so one type serves both.
  * `convV tbl dir` interprets a regenerated table (`Octo.Gen.Wire`): it creates `out` with the converted
    TypeID, finds the `case` of the TypeID (no case: `default: panic`, modelled as `none`) and executes the
    assignments of that case.  `NativeValueToProto` and `ToNativeValue` are two instances.
  * `RT` / `convT`: the same for `octosql.Type` and the proto message `Type`.
  * timestamps are `(seconds, nanos)` with floor division (`time.Time.Unix`, `Nanosecond`), durations
    `(seconds, nanos)` with truncated division (`durationpb.New`), `AsDuration` with its int64 overflow checks.
  * schema, record, metadata message and the two variable contexts are modelled by hand (straight-line code).
-/
namespace Octo.Wire
open Octo

/-! ### machine integers -/
def wrap32 (x : Int) : Int := (x + 2147483648) % 4294967296 - 2147483648
def wrap64 (x : Int) : Int := (x + 9223372036854775808) % 18446744073709551616 - 9223372036854775808
def minInt64 : Int := -9223372036854775808
def maxInt64 : Int := 9223372036854775807
def inInt64 (x : Int) : Prop := minInt64 ≤ x ∧ x ≤ maxInt64
def inInt32 (x : Int) : Prop := -2147483648 ≤ x ∧ x ≤ 2147483647

def TidConv.apply : TidConv → Int → Int
  | .int32, x => wrap32 x
  | .typeID, x => x

/-! ### raw values -/

/-- the Go struct `octosql.Value` / the proto message `Value`: a TypeID and *all* the fields -/
inductive RV (τ δ : Type) where
  | mk (tid : Int) (int : Int) (float : Nat) (boolean : Bool) (str : List UInt8) (time : τ) (dur : δ)
       (list struct tuple : List (RV τ δ))

/-- what a field holds -/
inductive Payload (τ δ : Type) where
  | int (i : Int)
  | float (f : Nat)
  | boolean (b : Bool)
  | str (s : List UInt8)
  | time (t : τ)
  | dur (d : δ)
  | seq (xs : List (RV τ δ))

variable {τ δ τ' δ' : Type}

def RV.tid : RV τ δ → Int
  | .mk tid _ _ _ _ _ _ _ _ _ => tid

def RV.get : RV τ δ → VF → Payload τ δ
  | .mk _ i _ _ _ _ _ _ _ _, .int => .int i
  | .mk _ _ f _ _ _ _ _ _ _, .float => .float f
  | .mk _ _ _ b _ _ _ _ _ _, .boolean => .boolean b
  | .mk _ _ _ _ s _ _ _ _ _, .str => .str s
  | .mk _ _ _ _ _ t _ _ _ _, .time => .time t
  | .mk _ _ _ _ _ _ d _ _ _, .duration => .dur d
  | .mk _ _ _ _ _ _ _ l _ _, .list => .seq l
  | .mk _ _ _ _ _ _ _ _ st _, .struct => .seq st
  | .mk _ _ _ _ _ _ _ _ _ tu, .tuple => .seq tu

/-- `out.F = p`; `none` when the field cannot hold the payload (such a program would not compile) -/
def RV.set : RV τ δ → VF → Payload τ δ → Option (RV τ δ)
  | .mk tid _ f b s t d l st tu, .int, .int i => some (.mk tid i f b s t d l st tu)
  | .mk tid i _ b s t d l st tu, .float, .float f => some (.mk tid i f b s t d l st tu)
  | .mk tid i f _ s t d l st tu, .boolean, .boolean b => some (.mk tid i f b s t d l st tu)
  | .mk tid i f b _ t d l st tu, .str, .str s => some (.mk tid i f b s t d l st tu)
  | .mk tid i f b s _ d l st tu, .time, .time t => some (.mk tid i f b s t d l st tu)
  | .mk tid i f b s t _ l st tu, .duration, .dur d => some (.mk tid i f b s t d l st tu)
  | .mk tid i f b s t d _ st tu, .list, .seq l => some (.mk tid i f b s t d l st tu)
  | .mk tid i f b s t d l _ tu, .struct, .seq st => some (.mk tid i f b s t d l st tu)
  | .mk tid i f b s t d l st _, .tuple, .seq tu => some (.mk tid i f b s t d l st tu)
  | _, _, _ => none

/-- the library conversions available in one direction, and the zero values of the destination struct -/
structure Dir (τ δ τ' δ' : Type) where
  time : VConv → Option (τ → τ')
  dur : VConv → Option (δ → δ')
  zeroTime : τ'
  zeroDur : δ'

/-- `out := &T{TypeId: …}`: every other field has its zero value -/
def RV.init (tid : Int) (zt : τ) (zd : δ) : RV τ δ := .mk tid 0 0 false [] zt zd [] [] []

def pickRec {α : Type} (rl rs rt : Option (List α)) : VF → Option (List α)
  | .list => rl
  | .struct => rs
  | .tuple => rt
  | _ => none

/-- one assignment `out.<dst> = <conv>(x.<src>)`; `rl rs rt` are the converted `x.List`, `x.Struct`, `x.Tuple`
    (`none` = the conversion of an element panicked). `none` = panic, or an ill-typed assignment. -/
def applyV (dir : Dir τ δ τ' δ') (src : RV τ δ) (rl rs rt : Option (List (RV τ' δ')))
    (out : RV τ' δ') (a : VAssign) : Option (RV τ' δ') :=
  match a.conv with
  | .copy =>
    match src.get a.src with
    | .int i => out.set a.dst (.int i)
    | .float f => out.set a.dst (.float f)
    | .boolean b => out.set a.dst (.boolean b)
    | .str s => out.set a.dst (.str s)
    | _ => none
  | .int64 =>
    match src.get a.src with
    | .int i => out.set a.dst (.int i)
    | _ => none
  | .tsNew | .tsAsTime =>
    match dir.time a.conv, src.get a.src with
    | some f, .time t => out.set a.dst (.time (f t))
    | _, _ => none
  | .durNew | .durAsDuration =>
    match dir.dur a.conv, src.get a.src with
    | some f, .dur d => out.set a.dst (.dur (f d))
    | _, _ => none
  | .mapSelf =>
    match src.get a.src with
    | .seq _ =>
      match pickRec rl rs rt a.src with
      | some ys => out.set a.dst (.seq ys)
      | none => none
    | _ => none

def runV (dir : Dir τ δ τ' δ') (src : RV τ δ) (rl rs rt : Option (List (RV τ' δ'))) :
    List VAssign → RV τ' δ' → Option (RV τ' δ')
  | [], out => some out
  | a :: as, out =>
    match applyV dir src rl rs rt out a with
    | some out' => runV dir src rl rs rt as out'
    | none => none

def idIn (ids : List Nat) (tid : Int) : Bool := ids.any fun k => (k : Int) == tid

/-- `switch tid { case … }` -/
def lookupV : List VCase → Int → Option (List VAssign)
  | [], _ => none
  | c :: cs, tid => if idIn c.ids tid then some c.body else lookupV cs tid

mutual
/-- one of the two value conversion functions, as described by its table. `none` = panic. -/
def convV (tbl : VTable) (dir : Dir τ δ τ' δ') : RV τ δ → Option (RV τ' δ')
  | .mk tid i f b s t d l st tu =>
    match lookupV tbl.cases tid with
    | some body =>
      runV dir (.mk tid i f b s t d l st tu) (convVs tbl dir l) (convVs tbl dir st) (convVs tbl dir tu) body
        (RV.init (tbl.tid.apply tid) dir.zeroTime dir.zeroDur)
    | none => if tbl.defaultPanics then none else some (RV.init (tbl.tid.apply tid) dir.zeroTime dir.zeroDur)
def convVs (tbl : VTable) (dir : Dir τ δ τ' δ') : List (RV τ δ) → Option (List (RV τ' δ'))
  | [] => some []
  | x :: xs =>
    match convV tbl dir x, convVs tbl dir xs with
    | some y, some ys => some (y :: ys)
    | _, _ => none
end

/-! ### timestamps and durations -/

/-- a Go `time.Time`: the instant in ns since the Unix epoch (unbounded) and the location identity -/
abbrev GTime := Int × Nat
/-- `timestamppb.Timestamp` and `durationpb.Duration`: `(seconds int64, nanos int32)` -/
structure Ts where
  seconds : Int
  nanos : Int
  deriving DecidableEq, Repr, Inhabited

/-- the zero `time.Time{}`: January 1, year 1, 00:00 UTC -/
def zeroTimeNs : Int := -62135596800000000000
def zeroTime : GTime := (zeroTimeNs, 0)

/-- `timestamppb.New(t)` = `{Seconds: t.Unix(), Nanos: t.Nanosecond()}`: floor division -/
def tsNew (t : GTime) : Option Ts := some ⟨t.1 / 1000000000, t.1 % 1000000000⟩

/-- `x.AsTime()` = `time.Unix(x.GetSeconds(), x.GetNanos()).UTC()`; the getters of a nil message return 0 -/
def tsAsTime : Option Ts → GTime
  | none => (0, 0)
  | some x => (x.seconds * 1000000000 + x.nanos, 0)

/-- Go's `/ 1e9` on int64: truncation toward zero -/
def tdiv9 (d : Int) : Int := if 0 ≤ d then d / 1000000000 else -((-d) / 1000000000)

/-- `durationpb.New(d)` -/
def durNew (d : Int) : Option Ts := some ⟨tdiv9 d, d - tdiv9 d * 1000000000⟩

/-- `x.AsDuration()` with its overflow saturation -/
def durAsDuration : Option Ts → Int
  | none => 0
  | some x =>
    let secs := x.seconds
    let nanos := x.nanos
    let d0 := wrap64 (secs * 1000000000)
    let ov0 := tdiv9 d0 != secs
    let d := wrap64 (d0 + nanos)
    let ov := ov0 || (decide (secs < 0) && decide (nanos < 0) && decide (d > 0)) ||
      (decide (secs > 0) && decide (nanos > 0) && decide (d < 0))
    if ov then (if secs < 0 then minInt64 else if secs > 0 then maxInt64 else d) else d

abbrev GV := RV GTime Int
abbrev PV := RV (Option Ts) (Option Ts)

def encDir : Dir GTime Int (Option Ts) (Option Ts) where
  time := fun c => match c with | .tsNew => some tsNew | _ => none
  dur := fun c => match c with | .durNew => some durNew | _ => none
  zeroTime := none
  zeroDur := none

def decDir : Dir (Option Ts) (Option Ts) GTime Int where
  time := fun c => match c with | .tsAsTime => some tsAsTime | _ => none
  dur := fun c => match c with | .durAsDuration => some durAsDuration | _ => none
  zeroTime := zeroTime
  zeroDur := 0

/-- `NativeValueToProto` -/
def encodeV : GV → Option PV := convV Gen.Wire.nativeValueToProto encDir
def encodeVs : List GV → Option (List PV) := convVs Gen.Wire.nativeValueToProto encDir
/-- `(*Value).ToNativeValue` -/
def decodeV : PV → Option GV := convV Gen.Wire.toNativeValue decDir
def decodeVs : List PV → Option (List GV) := convVs Gen.Wire.toNativeValue decDir

/-! ### the sum-type view of values -/
mutual
/-- the Go struct built by `octosql.NewNull`, `NewInt`, …: the TypeID and one field -/
def ofValue : Value → GV
  | .null => .mk 0 0 0 false [] zeroTime 0 [] [] []
  | .int i => .mk 1 i 0 false [] zeroTime 0 [] [] []
  | .float f => .mk 2 0 f false [] zeroTime 0 [] [] []
  | .bool b => .mk 3 0 0 b [] zeroTime 0 [] [] []
  | .str s => .mk 4 0 0 false s zeroTime 0 [] [] []
  | .time ns loc => .mk 5 0 0 false [] (ns, loc) 0 [] [] []
  | .dur d => .mk 6 0 0 false [] zeroTime d [] [] []
  | .list xs => .mk 7 0 0 false [] zeroTime 0 (ofValues xs) [] []
  | .struct xs => .mk 8 0 0 false [] zeroTime 0 [] (ofValues xs) []
  | .tuple xs => .mk 9 0 0 false [] zeroTime 0 [] [] (ofValues xs)
def ofValues : List Value → List GV
  | [] => []
  | x :: xs => ofValue x :: ofValues xs
end

mutual
/-- reading a Go value the way every consumer does: the field selected by the TypeID (`none`: invalid TypeID) -/
def toValue : GV → Option Value
  | .mk tid i f b s t d l st tu =>
    if tid = 0 then some .null
    else if tid = 1 then some (.int i)
    else if tid = 2 then some (.float f)
    else if tid = 3 then some (.bool b)
    else if tid = 4 then some (.str s)
    else if tid = 5 then some (.time t.1 t.2)
    else if tid = 6 then some (.dur d)
    else if tid = 7 then (toValues l).map .list
    else if tid = 8 then (toValues st).map .struct
    else if tid = 9 then (toValues tu).map .tuple
    else none
def toValues : List GV → Option (List Value)
  | [] => some []
  | x :: xs =>
    match toValue x, toValues xs with
    | some y, some ys => some (y :: ys)
    | _, _ => none
end

mutual
/-- the same value with every time in UTC (location identity 0): what a wire trip preserves -/
def normLoc : Value → Value
  | .time ns _ => .time ns 0
  | .list xs => .list (normLocs xs)
  | .struct xs => .struct (normLocs xs)
  | .tuple xs => .tuple (normLocs xs)
  | v => v
def normLocs : List Value → List Value
  | [] => []
  | x :: xs => normLoc x :: normLocs xs
end

/-- a value after `NativeValueToProto` and `ToNativeValue` (`none` = a panic on the way) -/
def tripValue (v : Value) : Option Value :=
  match encodeV (ofValue v) with
  | some p => match decodeV p with
    | some g => toValue g
    | none => none
  | none => none

/-! ### raw types -/

/-- the Go struct `octosql.Type` / the proto message `Type`: TypeID, the optional list element, the struct
    fields (names and types, two parallel lists as in `Ty.struct`), tuple elements, union alternatives -/
inductive RT where
  | mk (tid : Int) (list : Option RT) (names : List Name) (fields : List RT) (tuple union : List RT)

inductive TPayload where
  | opt (o : Option RT)
  | fields (ns : List Name) (ts : List RT)
  | seq (ts : List RT)

def RT.get : RT → TF → TPayload
  | .mk _ l _ _ _ _, .list => .opt l
  | .mk _ _ ns fs _ _, .struct => .fields ns fs
  | .mk _ _ _ _ tu _, .tuple => .seq tu
  | .mk _ _ _ _ _ un, .union => .seq un

def RT.set : RT → TF → TPayload → Option RT
  | .mk tid _ ns fs tu un, .list, .opt l => some (.mk tid l ns fs tu un)
  | .mk tid l _ _ tu un, .struct, .fields ns fs => some (.mk tid l ns fs tu un)
  | .mk tid l ns fs _ un, .tuple, .seq tu => some (.mk tid l ns fs tu un)
  | .mk tid l ns fs tu _, .union, .seq un => some (.mk tid l ns fs tu un)
  | _, _, _ => none

def RT.init (tid : Int) : RT := .mk tid none [] [] [] []

/-- the converted sub-terms of the source: list element (outer `none` = panic), struct field types, tuple, union -/
structure TRecs where
  list : Option (Option RT)
  fields : Option (List RT)
  tuple : Option (List RT)
  union : Option (List RT)

def TRecs.seqOf (r : TRecs) : TF → Option (List RT)
  | .tuple => r.tuple
  | .union => r.union
  | _ => none

def applyT (src : RT) (r : TRecs) (out : RT) (a : TAssign) : Option RT :=
  match a.conv with
  | .optSelf =>
    match src.get a.src with
    | .opt none => some out               -- `if x.G != nil` not taken
    | .opt (some _) =>
      match r.list with
      | some (some y) => out.set a.dst (.opt (some y))
      | _ => none
    | _ => none
  | .mapSelf =>
    match src.get a.src with
    | .seq _ =>
      match r.seqOf a.src with
      | some ys => out.set a.dst (.seq ys)
      | none => none
    | _ => none
  | .mapFields =>
    match src.get a.src with
    | .fields ns _ =>
      match r.fields with
      | some ys => out.set a.dst (.fields ns ys)
      | none => none
    | _ => none

def runT (src : RT) (r : TRecs) : List TAssign → RT → Option RT
  | [], out => some out
  | a :: as, out =>
    match applyT src r out a with
    | some out' => runT src r as out'
    | none => none

def lookupT : List TCase → Int → Option (List TAssign)
  | [], _ => none
  | c :: cs, tid => if idIn c.ids tid then some c.body else lookupT cs tid

mutual
/-- one of the two type conversion functions, as described by its table. `none` = panic. -/
def convT (tbl : TTable) : RT → Option RT
  | .mk tid l ns fs tu un =>
    match lookupT tbl.cases tid with
    | some body =>
      runT (.mk tid l ns fs tu un)
        { list := convTo tbl l, fields := convTs tbl fs, tuple := convTs tbl tu, union := convTs tbl un }
        body (RT.init (tbl.tid.apply tid))
    | none => if tbl.defaultPanics then none else some (RT.init (tbl.tid.apply tid))
def convTo (tbl : TTable) : Option RT → Option (Option RT)
  | none => some none
  | some t =>
    match convT tbl t with
    | some y => some (some y)
    | none => none
def convTs (tbl : TTable) : List RT → Option (List RT)
  | [] => some []
  | x :: xs =>
    match convT tbl x, convTs tbl xs with
    | some y, some ys => some (y :: ys)
    | _, _ => none
end

/-- `NativeTypeToProto` -/
def encodeT : RT → Option RT := convT Gen.Wire.nativeTypeToProto
def encodeTs : List RT → Option (List RT) := convTs Gen.Wire.nativeTypeToProto
/-- `(*Type).ToNativeType` -/
def decodeT : RT → Option RT := convT Gen.Wire.toNativeType
def decodeTs : List RT → Option (List RT) := convTs Gen.Wire.toNativeType

mutual
def ofTy : Ty → RT
  | .null => .mk 0 none [] [] [] []
  | .int => .mk 1 none [] [] [] []
  | .float => .mk 2 none [] [] [] []
  | .bool => .mk 3 none [] [] [] []
  | .str => .mk 4 none [] [] [] []
  | .time => .mk 5 none [] [] [] []
  | .dur => .mk 6 none [] [] [] []
  | .listNil => .mk 7 none [] [] [] []
  | .list e => .mk 7 (some (ofTy e)) [] [] [] []
  | .struct ns ts => .mk 8 none ns (ofTys ts) [] []
  | .tuple ts => .mk 9 none [] [] (ofTys ts) []
  | .union ts => .mk 10 none [] [] [] (ofTys ts)
  | .any => .mk 11 none [] [] [] []
def ofTys : List Ty → List RT
  | [] => []
  | t :: ts => ofTy t :: ofTys ts
end

mutual
/-- reading a Go type by its TypeID -/
def toTy : RT → Option Ty
  | .mk tid l ns fs tu un =>
    if tid = 0 then some .null
    else if tid = 1 then some .int
    else if tid = 2 then some .float
    else if tid = 3 then some .bool
    else if tid = 4 then some .str
    else if tid = 5 then some .time
    else if tid = 6 then some .dur
    else if tid = 7 then
      match l with
      | none => some .listNil
      | some e => (toTy e).map .list
    else if tid = 8 then (toTys fs).map (.struct ns)
    else if tid = 9 then (toTys tu).map .tuple
    else if tid = 10 then (toTys un).map .union
    else if tid = 11 then some .any
    else none
def toTys : List RT → Option (List Ty)
  | [] => some []
  | x :: xs =>
    match toTy x, toTys xs with
    | some y, some ys => some (y :: ys)
    | _, _ => none
end

def tripTy (t : Ty) : Option Ty :=
  match encodeT (ofTy t) with
  | some p => match decodeT p with
    | some g => toTy g
    | none => none
  | none => none

/-! ### schema, record, metadata message, variable contexts (hand-written: straight-line code) -/

/-- `[]physical.SchemaField` / `[]*SchemaField`: names and types, two parallel lists -/
structure Fields (α : Type) where
  names : List Name
  tys : List α

/-- `physical.Schema` (α = native type) / proto `Schema` (α = proto type) -/
structure SchemaOf (α : Type) where
  fields : Fields α
  timeField : Int
  noRetractions : Bool

def encodeFields (f : Fields RT) : Option (Fields RT) := (encodeTs f.tys).map fun ts => ⟨f.names, ts⟩
def decodeFields (f : Fields RT) : Option (Fields RT) := (decodeTs f.tys).map fun ts => ⟨f.names, ts⟩

/-- `NativeSchemaToProto`: `TimeField: int32(schema.TimeField)` -/
def encodeSchema (s : SchemaOf RT) : Option (SchemaOf RT) :=
  (encodeFields s.fields).map fun fs => ⟨fs, wrap32 s.timeField, s.noRetractions⟩
/-- `(*Schema).ToNativeSchema`: `TimeField: int(x.TimeField)` -/
def decodeSchema (s : SchemaOf RT) : Option (SchemaOf RT) :=
  (decodeFields s.fields).map fun fs => ⟨fs, s.timeField, s.noRetractions⟩

/-- `execution.Record` (α = GV, τ = time.Time) / proto `Record` (α = PV, τ = *Timestamp) -/
structure RecOf (α τ : Type) where
  values : List α
  retraction : Bool
  eventTime : τ

/-- `NativeRecordToProto` -/
def encodeRecord (r : RecOf GV GTime) : Option (RecOf PV (Option Ts)) :=
  match encodeVs r.values, tsNew r.eventTime with
  | some vs, some t => some ⟨vs, r.retraction, some t⟩
  | _, _ => none
/-- `(*Record).ToNativeRecord` -/
def decodeRecord (r : RecOf PV (Option Ts)) : Option (RecOf GV GTime) :=
  (decodeVs r.values).map fun vs => ⟨vs, r.retraction, tsAsTime r.eventTime⟩

/-- `execution.MetadataMessage` / proto `MetadataMessage` -/
structure MetaOf (τ : Type) where
  msgType : Int
  watermark : τ

/-- `NativeMetadataMessageToProto`: `MessageType: int32(msg.Type)` -/
def encodeMeta (m : MetaOf GTime) : Option (MetaOf (Option Ts)) :=
  (tsNew m.watermark).map fun t => ⟨wrap32 m.msgType, some t⟩
/-- `(*MetadataMessage).ToNativeMetadataMessage` -/
def decodeMeta (m : MetaOf (Option Ts)) : MetaOf GTime := ⟨m.msgType, tsAsTime m.watermark⟩

/-- `*physical.VariableContext`: the chain `c, c.Parent, …` as a list of frames (nil = []).
    `NativePhysicalVariableContextToProto` walks the chain appending a frame per context. -/
def encodePhysCtx : List (Fields RT) → Option (List (Fields RT))
  | [] => some []
  | f :: fs =>
    match encodeFields f, encodePhysCtx fs with
    | some g, some gs => some (g :: gs)
    | _, _ => none

/-- the loop body of `ToNativePhysicalVariableContext`, run from the last frame to the first:
    `out = &VariableContext{Fields: fields, Parent: out}` -/
def decodePhysCtxRev : List (Fields RT) → List (Fields RT) → Option (List (Fields RT))
  | [], out => some out
  | f :: fs, out =>
    match decodeFields f with
    | some g => decodePhysCtxRev fs (g :: out)
    | none => none

/-- `(*PhysicalVariableContext).ToNativePhysicalVariableContext`: `for i := len(x.Frames)-1; i >= 0; i--` -/
def decodePhysCtx (frames : List (Fields RT)) : Option (List (Fields RT)) := decodePhysCtxRev frames.reverse []

/-- `NativeExecutionVariableContextToProto` -/
def encodeExecCtx : List (List GV) → Option (List (List PV))
  | [] => some []
  | f :: fs =>
    match encodeVs f, encodeExecCtx fs with
    | some g, some gs => some (g :: gs)
    | _, _ => none

def decodeExecCtxRev : List (List PV) → List (List GV) → Option (List (List GV))
  | [], out => some out
  | f :: fs, out =>
    match decodeVs f with
    | some g => decodeExecCtxRev fs (g :: out)
    | none => none

/-- `(*ExecutionVariableContext).ToNativeExecutionVariableContext` -/
def decodeExecCtx (frames : List (List PV)) : Option (List (List GV)) := decodeExecCtxRev frames.reverse []

end Octo.Wire

namespace Octo.Wire
open Octo

/-! ### what protobuf marshalling and `encoding/json` do to the payload (library behaviour, modelled for the
    correspondence run; `proto3` string fields and JSON strings must be valid UTF-8) -/

mutual
/-- every string inside the value satisfies `p` -/
def allStr (p : List UInt8 → Bool) : Value → Bool
  | .str s => p s
  | .list xs => allStrs p xs
  | .struct xs => allStrs p xs
  | .tuple xs => allStrs p xs
  | _ => true
def allStrs (p : List UInt8 → Bool) : List Value → Bool
  | [] => true
  | x :: xs => allStr p x && allStrs p xs
end

mutual
/-- every name inside the type satisfies `p` -/
def allNames (p : Name → Bool) : Ty → Bool
  | .list e => allNames p e
  | .struct ns ts => ns.all p && allNamesL p ts
  | .tuple ts => allNamesL p ts
  | .union ts => allNamesL p ts
  | _ => true
def allNamesL (p : Name → Bool) : List Ty → Bool
  | [] => true
  | t :: ts => allNames p t && allNamesL p ts
end

end Octo.Wire
