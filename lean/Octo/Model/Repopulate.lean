import Octo.Model.WireTable
import Octo.Model.TyAlgebra
import Octo.Gen.WireFunctions
/-!
  Octo.Model.Repopulate — what happens to the function of a pushed-down predicate on its way to a plugin.

  `physical.FunctionDescriptor` is sent as JSON without its two function-valued fields (`json:"-"`), so only
  `(ArgumentTypes, OutputType, Strict)` — the *signature* — arrives.  `RepopulatePhysicalExpressionFunctions`
  (`plugins/internal/plugins/plugins.go`) looks the function up by name in `functions.FunctionMap()` and takes
  the first descriptor with an equal signature; after the repair a `TypeFn` descriptor is taken only if its
  `TypeFn` accepts the types of the call's arguments (all `TypeFn` overloads share the empty signature).

  Also modelled: which descriptor the typechecker (`logical/function.go`) attaches to the call in the first place.
  The descriptor table is `Octo.Gen.WireFunctions.table`, regenerated on every run.
-/
namespace Octo.Wire
open Octo

/-- what survives the JSON encoding of a `FunctionDescriptor` -/
structure Sig where
  args : List Ty
  out : Ty
  strict : Bool
  deriving Repr, Inhabited

def FnDesc.sig (d : FnDesc) : Sig := ⟨d.args, d.out, d.strict⟩

/-- `for j := range descriptor.ArgumentTypes { if !….Equals(received.ArgumentTypes[j]) { continue } }` (equal lengths) -/
def allEquals : List Ty → List Ty → Bool
  | a :: as, b :: bs => a.equals b && allEquals as bs
  | _, _ => true

/-- the four signature tests of the descriptor loop -/
def sigMatch (d : FnDesc) (r : Sig) : Bool :=
  d.args.length == r.args.length && d.strict == r.strict && d.out.equals r.out && allEquals d.args r.args

/-- one guard of a `TypeFn`: `some true` = the guard fires (`return …, false`); `none` = index out of range (panic) -/
def tfCond : TfCond → List Ty → Option Bool
  | .lenNe n, ts => some (ts.length != n)
  | .notEquals i j, ts =>
    match ts[i]?, ts[j]? with
    | some a, some b => some (!a.equals b)
    | _, _ => none
  | .typeIdNe i id, ts =>
    match ts[i]? with
    | some a => some (a.id != id)
    | none => none

/-- `_, ok := TypeFn(types)`; `none` = panic -/
def tfAccept : List TfCond → List Ty → Option Bool
  | [], _ => some true
  | c :: cs, ts =>
    match tfCond c ts with
    | none => none
    | some true => some false
    | some false => tfAccept cs ts

/-- the argument types a descriptor is matched against: `NonNullable` of each for a `Strict` descriptor -/
def viewArgs (strict : Bool) (argTys : List Ty) : List Ty :=
  if strict then argTys.map Ty.nonNullable else argTys

/-- the result of the descriptor loop -/
inductive Pick where
  | found (idx : Nat)
  | notFound
  | panic
  deriving DecidableEq, Repr, Inhabited

/-- `RepopulatePhysicalExpressionFunctions`, the descriptor loop, after the repair: the first descriptor with the
    received signature whose `TypeFn` (if it has one) accepts the argument types of the call. -/
def repopulateFrom (r : Sig) (argTys : List Ty) : Nat → List FnDesc → Pick
  | _, [] => .notFound
  | i, d :: ds =>
    if sigMatch d r then
      match d.typeFn with
      | none => .found i
      | some conds =>
        match tfAccept conds (viewArgs d.strict argTys) with
        | none => .panic
        | some true => .found i
        | some false => repopulateFrom r argTys (i + 1) ds
    else repopulateFrom r argTys (i + 1) ds

def repopulate (ds : List FnDesc) (r : Sig) (argTys : List Ty) : Pick := repopulateFrom r argTys 0 ds

/-- the loop before the repair: the first descriptor with the received signature -/
def repopulateRawFrom (r : Sig) : Nat → List FnDesc → Pick
  | _, [] => .notFound
  | i, d :: ds => if sigMatch d r then .found i else repopulateRawFrom r (i + 1) ds

def repopulateRaw (ds : List FnDesc) (r : Sig) : Pick := repopulateRawFrom r 0 ds

/-! ### the typechecker's choice (`logical/function.go`) -/

def allIs : List Ty → List Ty → Bool
  | a :: as, b :: bs => a.is b == .is && allIs as bs
  | _, _ => true

/-- does the descriptor certainly fit (first loop)? `none` = its `TypeFn` panicked -/
def exactFit (d : FnDesc) (argTys : List Ty) : Option Bool :=
  let ats := viewArgs d.strict argTys
  match d.typeFn with
  | some conds => tfAccept conds ats
  | none => some (ats.length == d.args.length && allIs ats d.args)

/-- the first loop has no `break`: the LAST fitting descriptor is kept -/
def exactPassFrom (argTys : List Ty) : Nat → List FnDesc → Option Nat → Pick
  | _, [], acc => match acc with | some i => .found i | none => .notFound
  | i, d :: ds, acc =>
    match exactFit d argTys with
    | none => .panic
    | some true => exactPassFrom argTys (i + 1) ds (some i)
    | some false => exactPassFrom argTys (i + 1) ds acc

def allMaybe : List Ty → List Ty → Bool
  | a :: as, b :: bs => (a.is b != .isnt) && allMaybe as bs
  | _, _ => true

/-- the chosen descriptor's "may fit" arguments are wrapped in a `TypeAssertion` whose static type is
    `*TypeIntersection(target, argument type)`: an empty intersection is a nil pointer, the dereference panics
    (only degenerate argument types, e.g. a union with an empty union inside, get here) -/
def assertionPanics (d : FnDesc) (argTys : List Ty) : Bool :=
  ((viewArgs d.strict argTys).zip (d.args.zip argTys)).any fun x =>
    x.1.is x.2.1 == .maybe &&
      (match (if d.strict then Ty.typeSum x.2.1 .null else some x.2.1) with
       | some target => (match Ty.typeInter target x.2.2 with | some none => true | _ => false)
       | none => false)

/-- second loop: the FIRST descriptor every argument may fit; descriptors with a `TypeFn` are skipped
    (after `fix: overloads with a type function never match in the second resolution pass`) -/
def maybePassFrom (argTys : List Ty) : Nat → List FnDesc → Pick
  | _, [] => .notFound
  | i, d :: ds =>
    let ats := viewArgs d.strict argTys
    if d.typeFn.isNone && ats.length == d.args.length && allMaybe ats d.args then
      (if assertionPanics d argTys then .panic else .found i)
    else maybePassFrom argTys (i + 1) ds

/-- `FunctionExpression.Typecheck`: the index of the descriptor attached to the call (`notFound` = "unknown function" panic) -/
def typecheckPick (ds : List FnDesc) (argTys : List Ty) : Pick :=
  match exactPassFrom argTys 0 ds none with
  | .notFound => maybePassFrom argTys 0 ds
  | p => p

def lookupFn (table : List FnEntry) (name : List Nat) : Option (List FnDesc) :=
  (table.find? fun e => e.name == name).map (·.descs)

/-- a predicate's function call through the plugin boundary: the typechecker's descriptor, then `Repopulate`
    with the signature that survives JSON and the argument types carried by the expression -/
def transportPick (ds : List FnDesc) (argTys : List Ty) (i : Nat) : Pick :=
  match ds[i]? with
  | some d => repopulate ds d.sig argTys
  | none => .notFound

def transportPickRaw (ds : List FnDesc) (i : Nat) : Pick :=
  match ds[i]? with
  | some d => repopulateRaw ds d.sig
  | none => .notFound

end Octo.Wire

namespace Octo.Wire
open Octo

/-! ### whole predicates

`RepopulatePhysicalExpressionFunctions` runs `physical.Transformers.TransformExpr` over the expression: every
sub-expression is rebuilt bottom-up and the descriptor loop above is applied at each function call; the result is
accepted (`outOk`) only if every call found its function.  `PExpr` keeps of `physical.Expression` what this needs:
the static type of every node (a `TypeFn` is applied to the types of the call's arguments), the sub-expressions,
and for a call its name, the signature that is sent along and which descriptor's `Function` is attached. -/
inductive PExpr where
  /-- variable, constant: no sub-expressions -/
  | leaf (ty : Ty)
  /-- and, or, coalesce, tuple, type assertion, cast, object field access: sub-expressions only -/
  | node (ty : Ty) (args : List PExpr)
  /-- function call; `fn = some i`: the `Function` of descriptor `i` is attached, `none`: nil -/
  | call (ty : Ty) (name : List Nat) (sig : Sig) (fn : Option Nat) (args : List PExpr)

def PExpr.ty : PExpr → Ty
  | .leaf t => t
  | .node t _ => t
  | .call t _ _ _ _ => t

def tysOf : List PExpr → List Ty
  | [] => []
  | e :: es => e.ty :: tysOf es

mutual
/-- `encoding/json` there and back: the function pointers are not sent (`json:"-"`) -/
def stripFns : PExpr → PExpr
  | .leaf t => .leaf t
  | .node t args => .node t (stripFnsL args)
  | .call t name sig _ args => .call t name sig none (stripFnsL args)
def stripFnsL : List PExpr → List PExpr
  | [] => []
  | e :: es => stripFns e :: stripFnsL es
end

mutual
/-- `RepopulatePhysicalExpressionFunctions` over a descriptor table: the rebuilt expression and `outOk`;
    `none` = a `TypeFn` panicked -/
def repopTree (table : List FnEntry) : PExpr → Option (PExpr × Bool)
  | .leaf t => some (.leaf t, true)
  | .node t args =>
    match repopTreeL table args with
    | some (as, ok) => some (.node t as, ok)
    | none => none
  | .call t name sig fn args =>
    match repopTreeL table args with
    | none => none
    | some (as, ok) =>
      match lookupFn table name with
      | none => some (.call t name sig fn as, false)           -- "Unknown function, rejecting predicate"
      | some ds =>
        match repopulate ds sig (tysOf as) with
        | .found i => some (.call t name sig (some i) as, ok)
        | .notFound => some (.call t name sig fn as, false)     -- "Unknown function signature, rejecting predicate"
        | .panic => none
def repopTreeL (table : List FnEntry) : List PExpr → Option (List PExpr × Bool)
  | [] => some ([], true)
  | e :: es =>
    match repopTree table e, repopTreeL table es with
    | some (e', ok1), some (es', ok2) => some (e' :: es', ok1 && ok2)
    | _, _ => none
end

mutual
/-- every call of the predicate carries the descriptor the typechecker's exact pass chose, and its signature -/
def exactTyped (table : List FnEntry) : PExpr → Prop
  | .leaf _ => True
  | .node _ args => exactTypedL table args
  | .call _ name sig fn args =>
    exactTypedL table args ∧
    ∃ ds i d, lookupFn table name = some ds ∧ exactPassFrom (tysOf args) 0 ds none = .found i ∧ ds[i]? = some d ∧
      sig = d.sig ∧ fn = some i
def exactTypedL (table : List FnEntry) : List PExpr → Prop
  | [] => True
  | e :: es => exactTyped table e ∧ exactTypedL table es
end

mutual
/-- every call carries the descriptor `FunctionExpression.Typecheck` attaches (either pass) -/
def typechecked (table : List FnEntry) : PExpr → Prop
  | .leaf _ => True
  | .node _ args => typecheckedL table args
  | .call _ name sig fn args =>
    typecheckedL table args ∧
    ∃ ds i d, lookupFn table name = some ds ∧ typecheckPick ds (tysOf args) = .found i ∧ ds[i]? = some d ∧
      sig = d.sig ∧ fn = some i
def typecheckedL (table : List FnEntry) : List PExpr → Prop
  | [] => True
  | e :: es => typechecked table e ∧ typecheckedL table es
end

mutual
/-- the descriptor indices attached to the calls of the expression, in pre-order (`none` = nil function) -/
def fnsOf : PExpr → List (Option Nat)
  | .leaf _ => []
  | .node _ args => fnsOfL args
  | .call _ _ _ fn args => fn :: fnsOfL args
def fnsOfL : List PExpr → List (Option Nat)
  | [] => []
  | e :: es => fnsOf e ++ fnsOfL es
end

end Octo.Wire
