import Octo.Model.WireTable
import Octo.Model.TyAlgebra
import Octo.Gen.WireFunctions
/-!
  Octo.Model.Repopulate — what happens to the function of a pushed-down predicate on its way to a plugin.

  `physical.FunctionDescriptor` is sent as JSON without its two function-valued fields (`json:"-"`), so only
  `(ArgumentTypes, OutputType, Strict)` — the *signature* — arrives.  `RepopulatePhysicalExpressionFunctions`
  (`plugins/internal/plugins/plugins.go`) looks the function up by name in `functions.FunctionMap()` and takes
  the first descriptor with an equal signature; after the repair a `TypeFn` descriptor is taken only if its
  `TypeFn` accepts the types of the call's arguments (all `TypeFn` overloads share the empty signature).

  Also modelled: which descriptor the typechecker (`logical/function.go`) attaches to the call in the first place.
  The descriptor table is `Octo.Gen.WireFunctions.table`, regenerated on every run.
-/
namespace Octo.Wire
open Octo

/-- what survives the JSON encoding of a `FunctionDescriptor` -/
structure Sig where
  args : List Ty
  out : Ty
  strict : Bool
  deriving Repr, Inhabited

def FnDesc.sig (d : FnDesc) : Sig := ⟨d.args, d.out, d.strict⟩

/-- `for j := range descriptor.ArgumentTypes { if !….Equals(received.ArgumentTypes[j]) { continue } }` (equal lengths) -/
def allEquals : List Ty → List Ty → Bool
  | a :: as, b :: bs => a.equals b && allEquals as bs
  | _, _ => true

/-- the four signature tests of the descriptor loop -/
def sigMatch (d : FnDesc) (r : Sig) : Bool :=
  d.args.length == r.args.length && d.strict == r.strict && d.out.equals r.out && allEquals d.args r.args

/-- one guard of a `TypeFn`: `some true` = the guard fires (`return …, false`); `none` = index out of range (panic) -/
def tfCond : TfCond → List Ty → Option Bool
  | .lenNe n, ts => some (ts.length != n)
  | .notEquals i j, ts =>
    match ts[i]?, ts[j]? with
    | some a, some b => some (!a.equals b)
    | _, _ => none
  | .typeIdNe i id, ts =>
    match ts[i]? with
    | some a => some (a.id != id)
    | none => none

/-- `_, ok := TypeFn(types)`; `none` = panic -/
def tfAccept : List TfCond → List Ty → Option Bool
  | [], _ => some true
  | c :: cs, ts =>
    match tfCond c ts with
    | none => none
    | some true => some false
    | some false => tfAccept cs ts

/-- the argument types a descriptor is matched against: `NonNullable` of each for a `Strict` descriptor -/
def viewArgs (strict : Bool) (argTys : List Ty) : List Ty :=
  if strict then argTys.map Ty.nonNullable else argTys

/-- the result of the descriptor loop -/
inductive Pick where
  | found (idx : Nat)
  | notFound
  | panic
  deriving DecidableEq, Repr, Inhabited

/-- `RepopulatePhysicalExpressionFunctions`, the descriptor loop, after the repair: the first descriptor with the
    received signature whose `TypeFn` (if it has one) accepts the argument types of the call. -/
def repopulateFrom (r : Sig) (argTys : List Ty) : Nat → List FnDesc → Pick
  | _, [] => .notFound
  | i, d :: ds =>
    if sigMatch d r then
      match d.typeFn with
      | none => .found i
      | some conds =>
        match tfAccept conds (viewArgs d.strict argTys) with
        | none => .panic
        | some true => .found i
        | some false => repopulateFrom r argTys (i + 1) ds
    else repopulateFrom r argTys (i + 1) ds

def repopulate (ds : List FnDesc) (r : Sig) (argTys : List Ty) : Pick := repopulateFrom r argTys 0 ds

/-- the loop before the repair: the first descriptor with the received signature -/
def repopulateRawFrom (r : Sig) : Nat → List FnDesc → Pick
  | _, [] => .notFound
  | i, d :: ds => if sigMatch d r then .found i else repopulateRawFrom r (i + 1) ds

def repopulateRaw (ds : List FnDesc) (r : Sig) : Pick := repopulateRawFrom r 0 ds

/-! ### the typechecker's choice (`logical/function.go`) -/

def allIs : List Ty → List Ty → Bool
  | a :: as, b :: bs => a.is b == .is && allIs as bs
  | _, _ => true

/-- does the descriptor certainly fit (first loop)? `none` = its `TypeFn` panicked -/
def exactFit (d : FnDesc) (argTys : List Ty) : Option Bool :=
  let ats := viewArgs d.strict argTys
  match d.typeFn with
  | some conds => tfAccept conds ats
  | none => some (ats.length == d.args.length && allIs ats d.args)

/-- the first loop has no `break`: the LAST fitting descriptor is kept -/
def exactPassFrom (argTys : List Ty) : Nat → List FnDesc → Option Nat → Pick
  | _, [], acc => match acc with | some i => .found i | none => .notFound
  | i, d :: ds, acc =>
    match exactFit d argTys with
    | none => .panic
    | some true => exactPassFrom argTys (i + 1) ds (some i)
    | some false => exactPassFrom argTys (i + 1) ds acc

def allMaybe : List Ty → List Ty → Bool
  | a :: as, b :: bs => (a.is b != .isnt) && allMaybe as bs
  | _, _ => true

/-- second loop: the FIRST descriptor every argument may fit (`len(argTypes) == len(descriptor.ArgumentTypes)`,
    which a `TypeFn` descriptor satisfies for a call without arguments) -/
def maybePassFrom (argTys : List Ty) : Nat → List FnDesc → Pick
  | _, [] => .notFound
  | i, d :: ds =>
    let ats := viewArgs d.strict argTys
    if ats.length == d.args.length && allMaybe ats d.args then .found i
    else maybePassFrom argTys (i + 1) ds

/-- `FunctionExpression.Typecheck`: the index of the descriptor attached to the call (`notFound` = "unknown function" panic) -/
def typecheckPick (ds : List FnDesc) (argTys : List Ty) : Pick :=
  match exactPassFrom argTys 0 ds none with
  | .notFound => maybePassFrom argTys 0 ds
  | p => p

def lookupFn (table : List FnEntry) (name : List Nat) : Option (List FnDesc) :=
  (table.find? fun e => e.name == name).map (·.descs)

/-- a predicate's function call through the plugin boundary: the typechecker's descriptor, then `Repopulate`
    with the signature that survives JSON and the argument types carried by the expression -/
def transportPick (ds : List FnDesc) (argTys : List Ty) (i : Nat) : Pick :=
  match ds[i]? with
  | some d => repopulate ds d.sig argTys
  | none => .notFound

def transportPickRaw (ds : List FnDesc) (i : Nat) : Pick :=
  match ds[i]? with
  | some d => repopulateRaw ds d.sig
  | none => .notFound

end Octo.Wire
