import Octo.Model.Wire
import Octo.Model.Utf8
/-!
  Octo.Model.WireJson — what `encoding/json` does to the constants of a pushed-down predicate
  (`physical.Expression` is sent to the plugin as JSON, `plugins/executor/executor.go`, `plugins/plugins.go`).
  Library behaviour (trusted, DESIGN §2.6), modelled only as far as values are concerned:

  * a float that is NaN or ±Inf makes `json.Marshal` fail (the executor then panics);
  * a string is written rune by rune, every byte that is not part of a valid UTF-8 sequence becoming U+FFFD;
  * a time is written as RFC 3339 with its zone offset (instant kept, location identity lost) and is rejected when
    its year (in its own location) is outside 0..9999;
  * everything else comes back unchanged.
-/
namespace Octo.Wire
open Octo

inductive JsonErr where
  | nonfinite | year
  deriving DecidableEq, Repr

/-- offset of the harness's location `id` (harness/codec.go `locOf`): `100+m` is a fixed zone m·30 minutes east -/
def locOffsetNs (loc : Nat) : Int := if loc ≥ 100 then ((loc : Int) - 100) * 1800 * 1000000000 else 0

/-- first instant of year 0 and of year 10000 (UTC), ns since the Unix epoch -/
def year0Ns : Int := -62167219200000000000
def year10000Ns : Int := 253402300800000000000

def finiteF (b : Nat) : Bool := decide (F64.mag b < F64.expMask)
def jsonStr (s : List UInt8) : List UInt8 := Utf8.encodeAll (Utf8.decodeAll s)
def yearOk (ns : Int) (loc : Nat) : Bool :=
  decide (year0Ns ≤ ns + locOffsetNs loc) && decide (ns + locOffsetNs loc < year10000Ns)

mutual
/-- a `Constant`'s value after `json.Marshal` / `json.Unmarshal` -/
def jsonValue : Value → Except JsonErr Value
  | .float f => if finiteF f then .ok (.float f) else .error .nonfinite
  | .str s => .ok (.str (jsonStr s))
  | .time ns loc => if yearOk ns loc then .ok (.time ns 0) else .error .year
  | .list xs => match jsonValues xs with | .ok ys => .ok (.list ys) | .error e => .error e
  | .struct xs => match jsonValues xs with | .ok ys => .ok (.struct ys) | .error e => .error e
  | .tuple xs => match jsonValues xs with | .ok ys => .ok (.tuple ys) | .error e => .error e
  | v => .ok v
def jsonValues : List Value → Except JsonErr (List Value)
  | [] => .ok []
  | x :: xs =>
    match jsonValue x with
    | .error e => .error e
    | .ok y => match jsonValues xs with | .ok ys => .ok (y :: ys) | .error e => .error e
end

mutual
/-- the values `encoding/json` carries unchanged (up to the location of times) -/
def jsonSafe : Value → Bool
  | .float f => finiteF f
  | .str s => Utf8.validUtf8 s
  | .time ns loc => yearOk ns loc
  | .list xs => jsonSafes xs
  | .struct xs => jsonSafes xs
  | .tuple xs => jsonSafes xs
  | _ => true
def jsonSafes : List Value → Bool
  | [] => true
  | x :: xs => jsonSafe x && jsonSafes xs
end

def jsonName (n : Name) : Name := (jsonStr (n.map UInt8.ofNat)).map (·.toNat)

mutual
/-- a type after `json.Marshal` / `json.Unmarshal`: only the field names can change -/
def jsonTy : Ty → Ty
  | .list e => .list (jsonTy e)
  | .struct ns ts => .struct (ns.map jsonName) (jsonTys ts)
  | .tuple ts => .tuple (jsonTys ts)
  | .union ts => .union (jsonTys ts)
  | t => t
def jsonTys : List Ty → List Ty
  | [] => []
  | t :: ts => jsonTy t :: jsonTys ts
end

end Octo.Wire
