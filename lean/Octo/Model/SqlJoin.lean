import Octo.Model.Sql
import Octo.Model.Join
/-!
  Octo.Model.SqlJoin — JOIN queries as the engine plans and executes them (property C02, query level).

  Mirrored Go code:
  * `parser.ParseJoinTableExpression` + `logical/join.go`: `planOf`
      - `a JOIN b ON c`           → `Filter(c, StreamJoin(a, b))` with empty keys,
      - `a LOOKUP JOIN b ON c`    → `Filter(c, LookupJoin(a, b))`,
      - `a LEFT|RIGHT|OUTER JOIN b ON c` → `OuterJoin` whose keys are taken from `c.SplitByAnd()`: every part must be an
        `=` call with one side using only variables of `a` and the other only variables of `b` — anything else is the
        typecheck panic "outer join predicate must be a conjunction of equalities" / "… must each reference only one
        of the input tables" (`outerKeys` returns `none`),
      - `(SELECT * FROM a WHERE w) x` → `Filter(w, a)`, `(SELECT e… FROM a) x` → `Map(e…, a)` (the Requalifier only renames);
  * `optimizer/*.go`: the rules that move predicates — `PushDownFilterPredicatesIntoLookupJoinBranch` (`ruleLookup`),
    `PushDownFilterPredicatesIntoStreamJoinBranch` (`ruleBranch`), `PushDownFilterPredicatesIntoStreamJoinKey` (`ruleKey`),
    `MergeFilters` (`ruleMerge`), applied bottom-up by `Transformers.TransformNode` (`transform`) in the order of
    `defaultOptimizationRules`, repeatedly (`optimize`).  `PushDownFilterPredicatesToDatasource` is the identity for the
    CSV/JSON file sources (`PushDownPredicates` rejects everything) and the three `RemoveUnused…` rules only prune
    columns nobody reads — they are not modelled (name resolution is positional here);
  * `execution/nodes/filter.go`, `map.go`, `lookup_join.go` on changelogs; `stream_join.go` / `outer_join.go` through the
    schedule machine of `Octo.Model.Join` (`joinNode`);
  * the sinks that consolidate a changelog: the table printer's count tree (`outputs/batch`), and — after
    `fix: consolidate plans that can retract before the csv and json sinks` — `OrderSensitiveTransform` in front of the
    csv/json printers (`consolidate`).

  Variables are positional: an expression of a node is evaluated on `ctx ++ record`, where `ctx` is the concatenation of
  the records pushed on the variable context by enclosing LookupJoins (`ctx.WithRecord(sourceRecord)`), outermost first.
  The ON condition of a join is over `ctx ++ left ++ right`.  `c` below is always `ctx.length`.

  Join keys are arbitrary expressions (`t.a + 1 = u.b`).  The node machine of `Octo.Model.Join` takes column indices as
  keys, so a node with expression keys is run on records extended by their evaluated key (`augment`: exactly the
  `key[i] = keyExprs[i].Evaluate(ctx.WithRecord(record))` loop at the top of `receiveRecord`) with the appended columns
  as keys, and the appended columns are dropped from what it produces (`strip`).
-/
namespace Octo.SqlJoin
open Octo Octo.Sql Octo.Join

inductive JKind where
  | inner | lookup | left | right | full
  deriving Repr, DecidableEq, Inhabited

/-- the FROM clause -/
inductive From where
  | tbl (i : Nat)
  | sub (src : From) (whr : SExpr)
  | proj (src : From) (es : List SExpr)
  | join (k : JKind) (l r : From) (on : SExpr)
  deriving Repr, Inhabited

structure JQuery where
  frm : From
  whr : Option SExpr
  proj : Option (List SExpr)
  deriving Repr, Inhabited

structure Table where
  width : Nat
  rows : List (List Value)
  deriving Repr, Inhabited

abbrev Db := List Table

def tableRows (db : Db) (i : Nat) : List (List Value) :=
  match db[i]? with
  | some t => t.rows
  | none => []

def tableWidth (db : Db) (i : Nat) : Nat :=
  match db[i]? with
  | some t => t.width
  | none => 0

def From.width (db : Db) : From → Nat
  | .tbl i => tableWidth db i
  | .sub s _ => s.width db
  | .proj _ es => es.length
  | .join _ l r _ => l.width db + r.width db

/-! ### expressions: variables used, conjunctions, re-indexing -/

/-- `Expression.VariablesUsed` (as column positions) -/
def colsOf : SExpr → List Nat
  | .col i => [i]
  | .lit _ => []
  | .bin _ a b => colsOf a ++ colsOf b
  | .and a b => colsOf a ++ colsOf b
  | .or a b => colsOf a ++ colsOf b
  | .not a => colsOf a
  | .isNull a => colsOf a
  | .isNotNull a => colsOf a

/-- `optimizer.UsesVariablesFromSchema` for the schema occupying positions `lo ≤ i < hi` -/
def usesRange (lo hi : Nat) (e : SExpr) : Bool := (colsOf e).any fun i => decide (lo ≤ i) && decide (i < hi)

/-- `Expression.SplitByAnd` -/
def splitAnd : SExpr → List SExpr
  | .and a b => splitAnd a ++ splitAnd b
  | e => [e]

/-- `Expression{ExpressionType: And, And: &And{Arguments: es}}` (binary `and`s, right-nested; `And.Evaluate` goes
    through its arguments left to right, returns the first non-NULL non-true value, else NULL if one was NULL) -/
def conj : List SExpr → SExpr
  | [] => .lit (.bool true)
  | [e] => e
  | e :: es => .and e (conj es)

/-- the same expression over a record from which the `w` positions starting at `c` are gone
    (an expression over `ctx ++ left ++ right` that does not use `left`, read over `ctx ++ right`) -/
def shiftE (c w : Nat) : SExpr → SExpr
  | .col i => .col (if c + w ≤ i then i - w else i)
  | .lit v => .lit v
  | .bin op a b => .bin op (shiftE c w a) (shiftE c w b)
  | .and a b => .and (shiftE c w a) (shiftE c w b)
  | .or a b => .or (shiftE c w a) (shiftE c w b)
  | .not a => .not (shiftE c w a)
  | .isNull a => .isNull (shiftE c w a)
  | .isNotNull a => .isNotNull (shiftE c w a)

/-! ### physical plans -/

inductive Plan where
  | scan (i : Nat)
  | filter (p : SExpr) (src : Plan)
  | map (es : List SExpr) (src : Plan)
  | streamJoin (kl kr : List SExpr) (l r : Plan)
  | outerJoin (isL isR : Bool) (kl kr : List SExpr) (l r : Plan)
  | lookupJoin (src joined : Plan)
  deriving Repr, Inhabited

def Plan.width (db : Db) : Plan → Nat
  | .scan i => tableWidth db i
  | .filter _ s => s.width db
  | .map es _ => es.length
  | .streamJoin _ _ l r => l.width db + r.width db
  | .outerJoin _ _ _ _ l r => l.width db + r.width db
  | .lookupJoin s j => s.width db + j.width db

def Plan.size : Plan → Nat
  | .scan _ => 1
  | .filter _ s => s.size + 1
  | .map _ s => s.size + 1
  | .streamJoin _ _ l r => l.size + r.size + 1
  | .outerJoin _ _ _ _ l r => l.size + r.size + 1
  | .lookupJoin s j => s.size + j.size + 1

/-- the key loop of `logical.OuterJoin.Typecheck` over `predicate.SplitByAnd()`; `none` = typecheck panic.
    `c` = width of the variable context, `wl`/`wr` = widths of the two inputs. Right keys are re-indexed to
    `ctx ++ right`. -/
def outerKeys (c wl wr : Nat) : List SExpr → Option (List SExpr × List SExpr)
  | [] => some ([], [])
  | .bin .eq a b :: rest =>
    let aL := usesRange c (c + wl) a
    let aR := usesRange (c + wl) (c + wl + wr) a
    let bL := usesRange c (c + wl) b
    let bR := usesRange (c + wl) (c + wl + wr) b
    if aL && !aR && !bL && bR then
      (outerKeys c wl wr rest).map fun ks => (a :: ks.1, shiftE c wl b :: ks.2)
    else if !aL && aR && bL && !bR then
      (outerKeys c wl wr rest).map fun ks => (b :: ks.1, shiftE c wl a :: ks.2)
    else none
  | _ :: _ => none

/-- `ParseJoinTableExpression` + `Typecheck` of the logical join nodes -/
def planOf (db : Db) : From → Nat → Option Plan
  | .tbl i, _ => some (.scan i)
  | .sub s w, c => (planOf db s c).map fun p => .filter w p
  | .proj s es, c => (planOf db s c).map fun p => .map es p
  | .join k l r on, c =>
    match k with
    | .inner =>
      match planOf db l c, planOf db r c with
      | some pl, some pr => some (.filter on (.streamJoin [] [] pl pr))
      | _, _ => none
    | .lookup =>
      match planOf db l c, planOf db r (c + l.width db) with
      | some pl, some pr => some (.filter on (.lookupJoin pl pr))
      | _, _ => none
    | _ =>
      match planOf db l c, planOf db r c with
      | some pl, some pr =>
        (outerKeys c (l.width db) (r.width db) (splitAnd on)).map fun ks =>
          .outerJoin (k == .left || k == .full) (k == .right || k == .full) ks.1 ks.2 pl pr
      | _, _ => none

/-- FROM → WHERE → SELECT list (`ParseSelect`) -/
def planQ (db : Db) (q : JQuery) : Option Plan :=
  (planOf db q.frm 0).map fun p =>
    let p := match q.whr with | some w => Plan.filter w p | none => p
    match q.proj with | some es => Plan.map es p | none => p

/-! ### the optimizer -/

def wrapFilter (ps : List SExpr) (p : Plan) : Plan :=
  if ps.isEmpty then p else .filter (conj ps) p

/-- `PushDownFilterPredicatesIntoLookupJoinBranch` at one node -/
def ruleLookup (db : Db) (c : Nat) : Plan → Plan
  | .filter p (.lookupJoin s j) =>
    let lo := c + s.width db
    let hi := lo + j.width db
    let parts := splitAnd p
    let toSource := parts.filter fun e => !usesRange lo hi e
    let toJoined := parts.filter fun e => usesRange lo hi e
    .lookupJoin (wrapFilter toSource s) (wrapFilter toJoined j)
  | p => p

/-- `PushDownFilterPredicatesIntoStreamJoinBranch` at one node -/
def ruleBranch (db : Db) (c : Nat) : Plan → Plan
  | .filter p (.streamJoin kl kr l r) =>
    let wl := l.width db
    let wr := r.width db
    let parts := splitAnd p
    let usesL := usesRange c (c + wl)
    let usesR := usesRange (c + wl) (c + wl + wr)
    let pushedRight := parts.filter fun e => !usesL e
    let pushedLeft := parts.filter fun e => !usesR e
    let stayed := parts.filter fun e => usesL e && usesR e
    if stayed.length == parts.length then .filter p (.streamJoin kl kr l r)
    else
      wrapFilter stayed
        (.streamJoin kl kr (wrapFilter pushedLeft l) (wrapFilter (pushedRight.map (shiftE c wl)) r))
  | p => p

/-- the classification loop of `PushDownFilterPredicatesIntoStreamJoinKey`: (stayedAbove, leftKeyAdd, rightKeyAdd) -/
def keyParts (c wl wr : Nat) : List SExpr → List SExpr × List SExpr × List SExpr
  | [] => ([], [], [])
  | e :: rest =>
    let p := keyParts c wl wr rest
    match e with
    | .bin .eq a b =>
      let aL := usesRange c (c + wl) a
      let aR := usesRange (c + wl) (c + wl + wr) a
      let bL := usesRange c (c + wl) b
      let bR := usesRange (c + wl) (c + wl + wr) b
      if aL && !aR && !bL && bR then (p.1, a :: p.2.1, shiftE c wl b :: p.2.2)
      else if !aL && aR && bL && !bR then (p.1, b :: p.2.1, shiftE c wl a :: p.2.2)
      else (e :: p.1, p.2.1, p.2.2)
    | _ => (e :: p.1, p.2.1, p.2.2)

/-- `PushDownFilterPredicatesIntoStreamJoinKey` at one node -/
def ruleKey (db : Db) (c : Nat) : Plan → Plan
  | .filter p (.streamJoin kl kr l r) =>
    let parts := splitAnd p
    let k := keyParts c (l.width db) (r.width db) parts
    if k.1.length == parts.length then .filter p (.streamJoin kl kr l r)
    else wrapFilter k.1 (.streamJoin (kl ++ k.2.1) (kr ++ k.2.2) l r)
  | p => p

/-- `MergeFilters` at one node -/
def ruleMerge (_db : Db) (_c : Nat) : Plan → Plan
  | .filter p (.filter q s) => .filter (conj (splitAnd p ++ splitAnd q)) s
  | p => p

/-- `Transformers.TransformNode` with a `NodeTransformer`: children first, then the node itself. The variable
    context grows by the source's record inside the joined branch of a LookupJoin. -/
def transform (db : Db) (f : Db → Nat → Plan → Plan) : Nat → Plan → Plan
  | c, .scan i => f db c (.scan i)
  | c, .filter p s => f db c (.filter p (transform db f c s))
  | c, .map es s => f db c (.map es (transform db f c s))
  | c, .streamJoin kl kr l r => f db c (.streamJoin kl kr (transform db f c l) (transform db f c r))
  | c, .outerJoin a b kl kr l r => f db c (.outerJoin a b kl kr (transform db f c l) (transform db f c r))
  | c, .lookupJoin s j => f db c (.lookupJoin (transform db f c s) (transform db f (c + s.width db) j))

/-- one round over `defaultOptimizationRules` (the modelled ones, in their order) -/
def optPass (db : Db) (p : Plan) : Plan :=
  transform db ruleMerge 0 (transform db ruleKey 0 (transform db ruleBranch 0 (transform db ruleLookup 0 p)))

def iter (f : Plan → Plan) : Nat → Plan → Plan
  | 0, p => p
  | n + 1, p => iter f n (f p)

/-- `optimizer.Optimize`: rounds until no rule reports a change. A round in which no rule fires rebuilds the same
    plan, so running a fixed number of rounds that is at least the number Go runs gives Go's plan. -/
def optimize (db : Db) (p : Plan) : Plan := iter (optPass db) (p.size + 4) p

/-! ### execution on changelogs -/

def mkRec (v : List Value) : Rec := { vals := v, retr := false, et := none }

/-- `nodes.Filter` -/
def filterRecs (p : SExpr) (ctx : List Value) : List Rec → Option (List Rec)
  | [] => some []
  | r :: rs =>
    match eval (ctx ++ r.vals) p with
    | none => none
    | some v =>
      match filterRecs p ctx rs with
      | none => none
      | some out => some (match v with | .bool true => r :: out | _ => out)

/-- `nodes.Map` -/
def mapRecs (es : List SExpr) (ctx : List Value) : List Rec → Option (List Rec)
  | [] => some []
  | r :: rs =>
    match evalAll (ctx ++ r.vals) es, mapRecs es ctx rs with
    | some v, some out => some ({ r with vals := v } :: out)
    | _, _ => none

/-- the key evaluation at the top of `receiveRecord`, recorded next to the record's values -/
def augment (keys : List SExpr) (ctx : List Value) : List Rec → Option (List Rec)
  | [] => some []
  | r :: rs =>
    match evalAll (ctx ++ r.vals) keys, augment keys ctx rs with
    | some k, some out => some ({ r with vals := r.vals ++ k } :: out)
    | _, _ => none

/-- drop the recorded keys from a produced row `left ++ keys ++ right ++ keys` -/
def strip (nL k nR : Nat) (row : List Value) : List Value := row.take nL ++ (row.drop (nL + k)).take nR

def keyIdx (n k : Nat) : List Nat := (List.range k).map (n + ·)

/-- a scheduler: given the events of the two inputs, the order in which the node's `select` sees them -/
abbrev Sched := List Ev → List Ev → List Ev

/-- `StreamJoin.Run` / `OuterJoin.Run` on two complete input changelogs under the scheduler's interleaving -/
def joinNode (sch : Sched) (cfg : Cfg) (nL k nR : Nat) (L R : List Rec) : Option (List Rec) :=
  match run cfg (sch (evsOf true (L.map Msg.data)) (evsOf false (R.map Msg.data))) with
  | .ok out => some ((recs out).map fun r => { r with vals := strip nL k nR r.vals })
  | _ => none

/-- `LookupJoin.Run`: the joined side is run once per source record, with that record on the variable context -/
def lookupRecs (f : List Value → Option (List Rec)) : List Rec → Option (List Rec)
  | [] => some []
  | l :: ls =>
    match f l.vals, lookupRecs f ls with
    | some R, some rest =>
      some (R.map (fun r => { vals := l.vals ++ r.vals, retr := l.retr != r.retr, et := l.et }) ++ rest)
    | _, _ => none

/-- every record has the width of the schema of the node that produced it. In Go this cannot fail (records are
    built from the schema: `make([]octosql.Value, len(left)+len(right))`, one value per Map expression, …); the
    model checks it where a join node relies on it (the NULL-padding width, the position of the right input's
    columns) and treats a violation like a panic. -/
def widthsOK (n : Nat) (L : List Rec) : Bool := L.all fun r => r.vals.length == n

/-- run a plan; `none` = a runtime error or a panic -/
def denote (sch : Sched) (db : Db) : Plan → List Value → Option (List Rec)
  | .scan i, _ => some ((tableRows db i).map mkRec)
  | .filter p s, ctx =>
    match denote sch db s ctx with
    | some rs => filterRecs p ctx rs
    | none => none
  | .map es s, ctx =>
    match denote sch db s ctx with
    | some rs => mapRecs es ctx rs
    | none => none
  | .streamJoin kl kr l r, ctx =>
    match denote sch db l ctx, denote sch db r ctx with
    | some L, some R =>
      let nL := l.width db
      let nR := r.width db
      let k := kl.length
      if widthsOK nL L && widthsOK nR R then
        match augment kl ctx L, augment kr ctx R with
        | some L', some R' => joinNode sch (cfgInner (keyIdx nL k) (keyIdx nR k)) nL k nR L' R'
        | _, _ => none
      else none
    | _, _ => none
  | .outerJoin isL isR kl kr l r, ctx =>
    match denote sch db l ctx, denote sch db r ctx with
    | some L, some R =>
      let nL := l.width db
      let nR := r.width db
      let k := kl.length
      if widthsOK nL L && widthsOK nR R then
        match augment kl ctx L, augment kr ctx R with
        | some L', some R' =>
          joinNode sch (cfgOuter isL isR (nL + k) (nR + k) (keyIdx nL k) (keyIdx nR k)) nL k nR L' R'
        | _, _ => none
      else none
    | _, _ => none
  | .lookupJoin s j, ctx =>
    match denote sch db s ctx with
    | some L => lookupRecs (fun lv => denote sch db j (ctx ++ lv)) L
    | none => none

/-- remove the first row equal (`Compare`) to `x` -/
def removeFirst (x : List Value) : List (List Value) → Option (List (List Value))
  | [] => none
  | y :: ys => if Octo.rowEq x y then some ys else (removeFirst x ys).map (y :: ·)

/-- the count tree of the table printer / of `OrderSensitiveTransform`: an addition increments the count of its
    row, a retraction decrements it; `none` = a retraction of a row that is not there ("received retraction before value") -/
def consolidate : List (List Value) → List Rec → Option (List (List Value))
  | acc, [] => some acc
  | acc, r :: rs =>
    if r.retr then
      match removeFirst r.vals acc with
      | none => none
      | some acc' => consolidate acc' rs
    else consolidate (acc ++ [r.vals]) rs

/-- `Schema.NoRetractions` as the logical nodes compute it: the CSV/JSON sources say `true`; Filter, Map and the
    Requalifier pass it on; StreamJoin: both inputs; OuterJoin: both inputs and no outer side (after
    `fix: outer join schema must not claim NoRetractions`); LookupJoin: both inputs (after
    `fix: lookup join schema reports NoRetractions when neither input retracts`). The
    optimizer's rules build their nodes with the schema of the node they replace, so the flag of the plan's root
    is the one computed here. -/
def Plan.noRetr : Plan → Bool
  | .scan _ => true
  | .filter _ s => s.noRetr
  | .map _ s => s.noRetr
  | .streamJoin _ _ l r => l.noRetr && r.noRetr
  | .outerJoin isL isR _ _ l r => l.noRetr && r.noRetr && !isL && !isR
  | .lookupJoin s j => s.noRetr && j.noRetr

/-- the `NoRetractions` flag of every join node of a plan, in pre-order (`s` StreamJoin, `o` OuterJoin, `l` LookupJoin) -/
def Plan.joinFlags : Plan → List (Char × Bool)
  | .scan _ => []
  | .filter _ s => s.joinFlags
  | .map _ s => s.joinFlags
  | .streamJoin kl kr l r => ('s', (Plan.streamJoin kl kr l r).noRetr) :: (l.joinFlags ++ r.joinFlags)
  | .outerJoin a b kl kr l r => ('o', (Plan.outerJoin a b kl kr l r).noRetr) :: (l.joinFlags ++ r.joinFlags)
  | .lookupJoin s j => ('l', (Plan.lookupJoin s j).noRetr) :: (s.joinFlags ++ j.joinFlags)

/-- the three kinds of sink of `cmd/root.go` (for a query without ORDER BY / LIMIT) -/
inductive SinkMode where
  /-- `batch_table`, `live_table`: `batch.OutputPrinter`, a count tree -/
  | table
  /-- `csv`, `json`: `eager.OutputPrinter` writes `record.Values` of every record as it arrives; after
      `fix: consolidate plans that can retract before the csv and json sinks` an `OrderSensitiveTransform`
      (a count tree) is put in front of it when the plan's schema does not say `NoRetractions` -/
  | eager
  /-- `stream_native`: prints the changelog itself, one `{+…}` / `{-…}` line per record; reading the output back
      as a table means consolidating it -/
  | native
  deriving Repr, DecidableEq, Inhabited

def sink (m : SinkMode) (noRetr : Bool) (rs : List Rec) : Option (List (List Value)) :=
  match m with
  | .eager => if noRetr then some (rs.map fun r => r.vals) else consolidate [] rs
  | _ => consolidate [] rs

/-- the whole engine on a join query, by output mode -/
def runQueryMode (m : SinkMode) (sch : Sched) (opt : Bool) (q : JQuery) (db : Db) : Option (List (List Value)) :=
  match planQ db q with
  | none => none
  | some p =>
    match denote sch db (if opt then optimize db p else p) [] with
    | none => none
    | some rs => sink m p.noRetr rs

/-- the whole engine on a join query: plan, optimize (unless `--optimize=false`), run, consolidate -/
def runQuery (sch : Sched) (opt : Bool) (q : JQuery) (db : Db) : Option (List (List Value)) :=
  match planQ db q with
  | none => none
  | some p =>
    match denote sch db (if opt then optimize db p else p) [] with
    | none => none
    | some rs => consolidate [] rs

/-- what `-o csv` / `-o json` printed before `fix: consolidate plans that can retract before the csv and json sinks`:
    `eager.OutputPrinter` writes `record.Values` of every record it receives and never looks at `record.Retraction` -/
def runQueryRaw (sch : Sched) (opt : Bool) (q : JQuery) (db : Db) : Option (List (List Value)) :=
  match planQ db q with
  | none => none
  | some p =>
    match denote sch db (if opt then optimize db p else p) [] with
    | none => none
    | some rs => some (rs.map fun r => r.vals)

/-! ### concrete schedulers -/

/-- the right input is served completely before the left one -/
def rightFirst : Sched := fun a b => b ++ a


/-- the left input is served completely before the right one -/
def leftFirst : Sched := fun a b => a ++ b

/-- the two inputs are served alternately, starting with the right one -/
def alternate : List Ev → List Ev → List Ev
  | [], b => b
  | a :: as, [] => a :: as
  | a :: as, b :: bs => b :: a :: alternate as bs

end Octo.SqlJoin
