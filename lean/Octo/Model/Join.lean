import Octo.Model.Changelog
/-!
  Octo.Model.Join — `execution/nodes/stream_join.go` (StreamJoin), `execution/nodes/outer_join.go` (OuterJoin)
  and `execution/record_event_time_buffer.go` (RecordEventTimeBuffer) as a machine over an explicit
  schedule.

  The Go nodes start two producer goroutines that push the two inputs into buffered channels; the
  `select` loop of `Run` is the only nondeterminism: which ready channel it takes next and when it
  observes a closed channel. That choice is exactly an interleaving of the two inputs' events, so
  the model takes the interleaving as an argument: `run cfg σ` with `σ : List Ev`, an event being
  "the next message of side L/R" or "side L/R observed closed".

  Mirrored constructs (names as in the Go text):
  * `RecordEventTimeBuffer` — a btree keyed by event time, each item a slice of records in arrival
    order: `Buf`, `Buf.add` (AddRecord), `Buf.emit` (Emit: pop minimal items while `!EventTime.After(watermark)`);
  * the two-level trees `leftRecords` / `rightRecords` (`tbtree` keyed with `CompareValueSlices`, items =
    key → tree of (record values → `EventTimes`)): sorted association lists `SAL`, `get`/`put`/`del`;
  * `receiveRecord` of both nodes: `store` (the "update count in my record tree" block, with the
    `EventTimes[1:]` on an empty slice as an explicit panic), `joinRows` (the Scan that produces joined
    rows), `nullRows` (retraction / re-emission of NULL-padded rows of the other side), `sjRecv`, `ojRecv`;
  * `processRecordsUpTo`: `processUpTo` (left buffer first — only if `rightRecords != nil` — then right);
  * the `receiveLoop` select arms: `onWm`, `onRec`; the phase switch (`leftDone`, `minWatermark = …`,
    `processRecordsUpTo(ctx, minWatermark, …)`, `markOneStreamRemains`): `onFirstClose`; the
    `for msg := range openChannel` loop: `onWmOne`, `onRecOne`; the final `processRecordsUpTo(ctx,
    WatermarkMaxValue, …)`: `onSecondClose`.

  `time.Time` values are `Option Int` (`none` = the zero `time.Time`, which is before every other
  time; otherwise ns since the Unix epoch).  Join key expressions are column references
  (`execution.Variable{level 0, index i}`); an index out of range is the Go index panic.

  `Cfg.switchOsr` and `Cfg.nullMatch` select the code as it was before the two `fix:` commits
  (both `true`) or as it is now (both `false`); `cfgNow` builds the current one.
-/
namespace Octo.Join
open Octo

/-! ### time.Time -/
abbrev T := Option Int

/-- `a.After(b)` -/
def after : T → T → Bool
  | none, _ => false
  | some _, none => true
  | some a, some b => decide (b < a)

/-- `eventTime := a; if b.After(eventTime) { eventTime = b }` -/
def maxT (a b : T) : T := if after b a then b else a

/-- the argument of `processRecordsUpTo` / `Emit`: a watermark, or `WatermarkMaxValue` (the largest
    representable time: every buffered record is released) -/
inductive Bound where
  | at (w : T)
  | top
  deriving Repr

/-- `!item.EventTime.After(watermark)` for a buffered (hence non-zero) event time `t` -/
def Bound.releases : Bound → Int → Bool
  | .top, _ => true
  | .at w, t => !after (some t) w

/-! ### RecordEventTimeBuffer -/
abbrev Buf := List (Int × List Rec)

/-- `AddRecord` (for a record whose event time is `t`): append to the item of `t`, creating it in order -/
def Buf.add (t : Int) (r : Rec) : Buf → Buf
  | [] => [(t, [r])]
  | (t', rs) :: rest =>
    if t < t' then (t, [r]) :: (t', rs) :: rest
    else if t = t' then (t', rs ++ [r]) :: rest
    else (t', rs) :: Buf.add t r rest

/-- `Emit`: (records released in order, remaining buffer) -/
def Buf.emit (b : Bound) : Buf → List Rec × Buf
  | [] => ([], [])
  | (t, rs) :: rest =>
    if b.releases t then
      let p := Buf.emit b rest
      (rs ++ p.1, p.2)
    else ([], (t, rs) :: rest)

/-! ### ordered maps keyed by value slices (`CompareValueSlices` = `cmpList · · < 0`) -/
abbrev SAL (β : Type) := List (Row × β)

namespace SAL
variable {β : Type}

/-- `Get`: the stored (key, value) whose key is neither less nor greater than `k` -/
def get (k : Row) : SAL β → Option (Row × β)
  | [] => none
  | (k', v) :: rest =>
    let c := cmpList k k'
    if c < 0 then none else if c = 0 then some (k', v) else get k rest

/-- update in place when the key is present (the stored key object stays), `Set` of a new item otherwise -/
def put (k : Row) (v : β) : SAL β → SAL β
  | [] => [(k, v)]
  | (k', v') :: rest =>
    let c := cmpList k k'
    if c < 0 then (k, v) :: (k', v') :: rest
    else if c = 0 then (k', v) :: rest
    else (k', v') :: put k v rest

/-- `Delete` -/
def del (k : Row) : SAL β → SAL β
  | [] => []
  | (k', v') :: rest =>
    let c := cmpList k k'
    if c < 0 then (k', v') :: rest
    else if c = 0 then rest
    else (k', v') :: del k rest
end SAL

/-- `streamJoinItem.values`: record values → `EventTimes` -/
abbrev Subs := SAL (List T)
/-- `leftRecords` / `rightRecords`: key → `streamJoinItem` -/
abbrev Tree := SAL Subs

structure Cfg where
  /-- `OuterJoin` node (no `oneStreamRemains` logic) instead of `StreamJoin` -/
  outer : Bool
  outerL : Bool
  outerR : Bool
  nL : Nat
  nR : Nat
  keysL : List Nat
  keysR : List Nat
  /-- before `fix: stream join must keep storing …`: `processRecordsUpTo(ctx, minWatermark, true)` at the switch -/
  switchOsr : Bool
  /-- before `fix: NULL join keys never match …`: no NULL check on the key -/
  nullMatch : Bool
  deriving Repr

/-- key expressions `Variable{0, i}` evaluated on the record; `none` = index out of range (Go panic) -/
def keyOf : List Nat → Row → Option Row
  | [], _ => some []
  | i :: is, row =>
    match row[i]?, keyOf is row with
    | some v, some vs => some (v :: vs)
    | _, _ => none

/-- `joinKeyHasNull` -/
def hasNull : Row → Bool
  | [] => false
  | .null :: _ => true
  | _ :: vs => hasNull vs

structure StoreRes where
  tree : Tree
  /-- `firstRecordForThatKeyOnThisSide` -/
  first : Bool
  /-- `lastRetractionForThatKeyOnThisSide` -/
  last : Bool

/-- the `streamJoinItem.values` of the item found for `key` (a fresh empty one if there is none) -/
def subsOf (key : Row) (t : Tree) : Subs :=
  match SAL.get key t with
  | none => []
  | some (_, s) => s

/-- the `EventTimes` of the subitem found for the record values (empty for a fresh subitem) -/
def timesOf (x : Row) (s : Subs) : List T :=
  match SAL.get x s with
  | none => []
  | some (_, ts) => ts

/-- `append(EventTimes, record.EventTime)` / `EventTimes[1:]`; `none` = slicing an empty slice panics -/
def newTimes (times : List T) (r : Rec) : Option (List T) :=
  if r.retr then (match times with | [] => none | _ :: ts => some ts) else some (times ++ [r.et])

/-- write the subitem back: `if len(EventTimes) == 0 { values.Delete(subitem) }` -/
def updSubs (x : Row) (ts : List T) (s : Subs) : Subs :=
  if ts.isEmpty then SAL.del x s else SAL.put x ts s

/-- the "update count in my record tree" block of `receiveRecord`; `none` = `EventTimes[1:]` of an empty slice -/
def store (t : Tree) (key : Row) (r : Rec) : Option StoreRes :=
  match newTimes (timesOf r.vals (subsOf key t)) r with
  | none => none
  | some ts =>
    let subs' := updSubs r.vals ts (subsOf key t)
    some { tree := if subs'.isEmpty then SAL.del key t else SAL.put key subs' t,
           first := (SAL.get key t).isNone, last := subs'.isEmpty }

/-- the Scan producing one joined record per stored event time of every matching row -/
def joinRows (amLeft : Bool) (r : Rec) : Subs → List Rec
  | [] => []
  | (x, ts) :: rest =>
    ts.map (fun t => { vals := if amLeft then r.vals ++ x else x ++ r.vals, retr := r.retr, et := maxT r.et t })
      ++ joinRows amLeft r rest

/-- the Scans that retract (`retr = true`) / re-emit (`retr = false`) the NULL-padded rows of the other side -/
def nullRows (amLeft : Bool) (r : Rec) (retr : Bool) : Subs → List Rec
  | [] => []
  | (x, ts) :: rest =>
    ts.map (fun t => { vals := if amLeft then List.replicate r.vals.length Value.null ++ x
                               else x ++ List.replicate r.vals.length Value.null,
                       retr := retr, et := t })
      ++ nullRows amLeft r retr rest

/-- `out := make([]Value, n); copy(out, vals)` -/
def copyInto (n : Nat) (vals : Row) : Row := vals.take n ++ List.replicate (n - vals.length) Value.null

/-- the record's own NULL-padded row -/
def padRow (cfg : Cfg) (amLeft : Bool) (vals : Row) : Row :=
  if amLeft then copyInto (cfg.nL + cfg.nR) vals
  else List.replicate cfg.nL Value.null ++ copyInto cfg.nR vals

/-- `StreamJoin.receiveRecord`; `none` = panic. Result: my tree afterwards, produced records. -/
def sjRecv (cfg : Cfg) (my other : Option Tree) (amLeft : Bool) (r : Rec) (osr : Bool) :
    Option (Option Tree × List Rec) :=
  match keyOf (if amLeft then cfg.keysL else cfg.keysR) r.vals with
  | none => none
  | some key =>
    if !cfg.nullMatch && hasNull key then some (my, [])
    else
      let my' : Option (Option Tree) :=
        if osr then some my
        else match my with
          | none => none
          | some t => (store t key r).map (fun s => some s.tree)
      match my', other with
      | some my', some ot =>
        -- `otherRecords.Get(key)`; not found: nothing to trigger (= the Scan over no subitems)
        some (my', joinRows amLeft r (subsOf key ot))
      | _, _ => none

/-- `OuterJoin.receiveRecord`; `none` = panic -/
def ojRecv (cfg : Cfg) (my other : Option Tree) (amLeft : Bool) (r : Rec) :
    Option (Option Tree × List Rec) :=
  let myOuter := if amLeft then cfg.outerL else cfg.outerR
  let otherOuter := if amLeft then cfg.outerR else cfg.outerL
  let pad : List Rec := if myOuter then [{ vals := padRow cfg amLeft r.vals, retr := r.retr, et := r.et }] else []
  match keyOf (if amLeft then cfg.keysL else cfg.keysR) r.vals with
  | none => none
  | some key =>
    if !cfg.nullMatch && hasNull key then some (my, pad)
    else
      match my, other with
      | some t, some ot =>
        match store t key r with
        | none => none
        | some s =>
          -- `itemTyped, ok := otherRecords.Get(key); if !ok || itemTyped.values.Len() == 0`
          let subs := subsOf key ot
          if subs.isEmpty then some (some s.tree, pad)
          else some (some s.tree,
            (if s.first && otherOuter then nullRows amLeft r true subs else [])
            ++ joinRows amLeft r subs
            ++ (if s.last && otherOuter then nullRows amLeft r false subs else []))
      | _, _ => none

def recv (cfg : Cfg) (my other : Option Tree) (amLeft : Bool) (r : Rec) (osr : Bool) :
    Option (Option Tree × List Rec) :=
  if cfg.outer then ojRecv cfg my other amLeft r else sjRecv cfg my other amLeft r osr

/-- the callback loop of one `Emit`: (my tree, records produced, finished without panic) -/
def procList (cfg : Cfg) (amLeft osr : Bool) (other : Option Tree) :
    Option Tree → List Rec → Option Tree × List Rec × Bool
  | my, [] => (my, [], true)
  | my, r :: rs =>
    match recv cfg my other amLeft r osr with
    | none => (my, [], false)
    | some (my', em) =>
      let p := procList cfg amLeft osr other my' rs
      (p.1, em ++ p.2.1, p.2.2)

/-- the variables of `Run` -/
structure St where
  lw : T
  rw : T
  minW : T
  bufL : Buf
  bufR : Buf
  treeL : Option Tree
  treeR : Option Tree
  /-- everything passed to `produce` / `metaSend` so far -/
  out : List Msg

def St.init : St :=
  { lw := none, rw := none, minW := none, bufL := [], bufR := [], treeL := some [], treeR := some [], out := [] }

def dataMsgs (rs : List Rec) : List Msg := rs.map Msg.data

/-- one half of `processRecordsUpTo`: release one side's buffer into `receiveRecord` -/
def processSide (cfg : Cfg) (left : Bool) (s : St) (b : Bound) (osr : Bool) : Except (List Msg) St :=
  if left then
    if s.treeR.isSome then
      let e := Buf.emit b s.bufL
      let p := procList cfg true osr s.treeR s.treeL e.1
      let s' := { s with bufL := e.2, treeL := p.1, out := s.out ++ dataMsgs p.2.1 }
      if p.2.2 then .ok s' else .error s'.out
    else .ok s
  else
    if s.treeL.isSome then
      let e := Buf.emit b s.bufR
      let p := procList cfg false osr s.treeL s.treeR e.1
      let s' := { s with bufR := e.2, treeR := p.1, out := s.out ++ dataMsgs p.2.1 }
      if p.2.2 then .ok s' else .error s'.out
    else .ok s

/-- `processRecordsUpTo(ctx, watermark, oneStreamRemains)` -/
def processUpTo (cfg : Cfg) (s : St) (b : Bound) (osr : Bool) : Except (List Msg) St :=
  match processSide cfg true s b osr with
  | .error o => .error o
  | .ok s1 => processSide cfg false s1 b osr

/-- a record taken directly by `receiveRecord` (zero event time) -/
def directRecv (cfg : Cfg) (left : Bool) (s : St) (r : Rec) (osr : Bool) : Except (List Msg) St :=
  if left then
    match recv cfg s.treeL s.treeR true r osr with
    | none => .error s.out
    | some (my', em) => .ok { s with treeL := my', out := s.out ++ dataMsgs em }
  else
    match recv cfg s.treeR s.treeL false r osr with
    | none => .error s.out
    | some (my', em) => .ok { s with treeR := my', out := s.out ++ dataMsgs em }

def addBuf (left : Bool) (s : St) (t : Int) (r : Rec) : St :=
  if left then { s with bufL := Buf.add t r s.bufL } else { s with bufR := Buf.add t r s.bufR }

/-- receiveLoop, metadata arm -/
def onWm (cfg : Cfg) (s : St) (left : Bool) (w : Int) : Except (List Msg) St :=
  let s := if left then { s with lw := some w } else { s with rw := some w }
  let mn : T := if left then (if after s.lw s.rw then s.rw else s.lw) else (if after s.rw s.lw then s.lw else s.rw)
  match mn with
  | none => .ok s
  | some m =>
    if after (some m) s.minW then
      match processUpTo cfg { s with minW := some m } (.at (some m)) false with
      | .error o => .error o
      | .ok s' => .ok { s' with out := s'.out ++ [Msg.wm m] }
    else .ok s

/-- receiveLoop / range loop, record arm -/
def onRec (cfg : Cfg) (s : St) (left : Bool) (r : Rec) (osr : Bool) : Except (List Msg) St :=
  match r.et with
  | none => directRecv cfg left s r osr
  | some t => .ok (addBuf left s t r)

/-- `if otherRecordBuffer.Empty() { markOneStreamRemains() }` (StreamJoin only) -/
def markIf (cfg : Cfg) (leftDone : Bool) (s : St) (osr : Bool) : St × Bool :=
  if cfg.outer then (s, osr)
  else if (if leftDone then s.bufL else s.bufR).isEmpty then
    (if leftDone then { s with treeR := none } else { s with treeL := none }, true)
  else (s, osr)

/-- one channel observed closed in the receiveLoop: the code between the two loops.
    `leftDone = true` when it was the left one. -/
def onFirstClose (cfg : Cfg) (s : St) (leftDone : Bool) : Except (List Msg) (St × Bool) :=
  let s := { s with minW := if leftDone then s.rw else s.lw }
  match processUpTo cfg s (.at s.minW) (!cfg.outer && cfg.switchOsr) with
  | .error o => .error o
  | .ok s' => .ok (markIf cfg leftDone s' false)

/-- range loop, metadata arm -/
def onWmOne (cfg : Cfg) (s : St) (leftDone osr : Bool) (w : Int) : Except (List Msg) (St × Bool) :=
  match processUpTo cfg s (.at (some w)) osr with
  | .error o => .error o
  | .ok s' =>
    let p := markIf cfg leftDone s' osr
    .ok ({ p.1 with out := p.1.out ++ [Msg.wm w] }, p.2)

/-- after the range loop -/
def onSecondClose (cfg : Cfg) (s : St) (osr : Bool) : Except (List Msg) St :=
  processUpTo cfg s .top osr

/-! ### schedules -/
structure Ev where
  left : Bool
  /-- `none`: the channel is observed closed -/
  msg : Option Msg
  deriving Repr

inductive Phase where
  | both
  | one (leftDone osr : Bool)
  | done
  deriving Repr

inductive Outcome where
  | ok (out : List Msg)
  /-- a Go panic, with what had been produced before -/
  | panic (out : List Msg)
  /-- not a schedule the node can see (a message after that side's close, events after both closes) -/
  | badSchedule
  deriving Repr

def runFrom (cfg : Cfg) : St → Phase → List Ev → Outcome
  | s, _, [] => .ok s.out
  | s, .both, e :: σ =>
    match e.msg with
    | some (.wm w) =>
      match onWm cfg s e.left w with
      | .error o => .panic o
      | .ok s' => runFrom cfg s' .both σ
    | some (.data r) =>
      match onRec cfg s e.left r false with
      | .error o => .panic o
      | .ok s' => runFrom cfg s' .both σ
    | none =>
      match onFirstClose cfg s e.left with
      | .error o => .panic o
      | .ok (s', osr) => runFrom cfg s' (.one e.left osr) σ
  | s, .one leftDone osr, e :: σ =>
    if e.left == leftDone then .badSchedule
    else match e.msg with
    | some (.wm w) =>
      match onWmOne cfg s leftDone osr w with
      | .error o => .panic o
      | .ok (s', osr') => runFrom cfg s' (.one leftDone osr') σ
    | some (.data r) =>
      match onRec cfg s e.left r osr with
      | .error o => .panic o
      | .ok s' => runFrom cfg s' (.one leftDone osr) σ
    | none =>
      match onSecondClose cfg s osr with
      | .error o => .panic o
      | .ok s' => runFrom cfg s' .done σ
  | _, .done, _ :: _ => .badSchedule

/-- the node run under schedule σ -/
def run (cfg : Cfg) (σ : List Ev) : Outcome := runFrom cfg St.init .both σ

/-- the events of one input: its messages in order, then its close -/
def evsOf (left : Bool) (ms : List Msg) : List Ev :=
  ms.map (fun m => { left := left, msg := some m }) ++ [{ left := left, msg := none }]

/-- order-preserving merge -/
inductive Merge {α : Type} : List α → List α → List α → Prop where
  | nil : Merge [] [] []
  | left {a : α} {xs ys zs : List α} : Merge xs ys zs → Merge (a :: xs) ys (a :: zs)
  | right {a : α} {xs ys zs : List α} : Merge xs ys zs → Merge xs (a :: ys) (a :: zs)

/-- σ is a schedule of the two inputs `ls`, `rs` -/
def Interleave (ls rs : List Msg) (σ : List Ev) : Prop := Merge (evsOf true ls) (evsOf false rs) σ

/-- build the schedule from a choice string (`true` = take the next left event); `none` if it does
    not use up both inputs exactly -/
def schedOf : List Bool → List Ev → List Ev → Option (List Ev)
  | [], [], [] => some []
  | [], _, _ => none
  | true :: cs, e :: el, er => (schedOf cs el er).map (e :: ·)
  | true :: _, [], _ => none
  | false :: cs, el, e :: er => (schedOf cs el er).map (e :: ·)
  | false :: _, _, [] => none

/-- StreamJoin as it is now -/
def cfgInner (keysL keysR : List Nat) : Cfg :=
  { outer := false, outerL := false, outerR := false, nL := 0, nR := 0, keysL := keysL, keysR := keysR,
    switchOsr := false, nullMatch := false }
/-- OuterJoin as it is now -/
def cfgOuter (outerL outerR : Bool) (nL nR : Nat) (keysL keysR : List Nat) : Cfg :=
  { outer := true, outerL := outerL, outerR := outerR, nL := nL, nR := nR, keysL := keysL, keysR := keysR,
    switchOsr := false, nullMatch := false }

end Octo.Join
