import Octo.Model.Plan
import Octo.Gen.OptimizerRules
/-!
  Octo.Model.Optimizer — the eight rewrite rules of `optimizer/*.go` and the fixpoint loop of `optimizer/optimize.go`,
  mirrored construct by construct on `Octo.Plan.Plan`.

  A rule is `Plan → Option (Plan × Bool)`: the rewritten plan and the `changed` flag; `none` is a Go panic
  (slice index out of range in the removal rules, a `=` call with fewer than two arguments in the join-key rule).
  `Transformers.TransformNode` rebuilds the tree bottom-up and applies the node transformer to every rebuilt node
  (children first: `Left` before `Right`, `Source` before `Joined`).
-/
namespace Octo.Plan

abbrev Rule := Plan → Option (Plan × Bool)

/-- `Transformers.TransformNode` with a node transformer that also reports `changed` -/
def transformNode (f : Plan → Option (Plan × Bool)) : Plan → Option (Plan × Bool)
  | .leaf s k => f (.leaf s k)
  | .un s k src =>
    match transformNode f src with
    | none => none
    | some (src', c1) =>
      match f (.un s k src') with
      | none => none
      | some (out, c2) => some (out, c1 || c2)
  | .bin s k l r =>
    match transformNode f l with
    | none => none
    | some (l', c1) =>
      match transformNode f r with
      | none => none
      | some (r', c2) =>
        match f (.bin s k l' r') with
        | none => none
        | some (out, c3) => some (out, c1 || c2 || c3)

/-- the tail of every rule: `if changed { return output, true } else { return node, false }` -/
def finish (node : Plan) : Option (Plan × Bool) → Option (Plan × Bool)
  | some (out, true) => some (out, true)
  | some (_, false) => some (node, false)
  | none => none

/-! ### 1. filter predicates → datasource (`filter_datasource_pushdown.go`) -/

/-- does the harness' mock datasource accept this predicate? (`<level-0 variable> = <constant>`) -/
def isEqConst : PExpr → Bool
  | .nary (.call fn) [.var _ true, .const _] => fn == "="
  | _ => false

/-- `DatasourceImplementation.PushDownPredicates` by policy; `none`: unknown policy -/
def pushDownPredicates (policy : String) (newPreds pushed : List PExpr) : Option (List PExpr × List PExpr × Bool) :=
  if policy == "none" then some (newPreds, [], false)
  else if policy == "eqconst" then
    let acc := newPreds.filter isEqConst
    some (newPreds.filter (fun p => !isEqConst p), pushed ++ acc, !acc.isEmpty)
  else none

def pushToDatasourceLocal : Plan → Option (Plan × Bool)
  | .un s (.filter e) (.leaf s2 (.ds name alias pol preds mapping)) =>
    match pushDownPredicates pol (splitByAnd e) preds with
    | none => none
    | some (rejected, pushedDown, changed) =>
      if !changed then some (.un s (.filter e) (.leaf s2 (.ds name alias pol preds mapping)), false)
      else
        let out := Plan.leaf s2 (.ds name alias pol pushedDown mapping)
        some (if rejected.length > 0 then .un s (.filter (.nary .and rejected)) out else out, true)
  | p => some (p, false)

def pushDownFilterPredicatesToDatasource : Rule := fun p => finish p (transformNode pushToDatasourceLocal p)

/-! ### 2. filter predicates → lookup join branches (`push_filter_into_lookup_join_branch.go`) -/

def pushIntoLookupJoinLocal : Plan → Option (Plan × Bool)
  | .un _ (.filter e) (.bin s2 .ljoin src joined) =>
    let fp := splitByAnd e
    let pushedSource := fp.filter fun c => !usesVariablesFromSchema joined.fields (varsUsed c)
    let pushedJoined := fp.filter fun c => usesVariablesFromSchema joined.fields (varsUsed c)
    let src' := if pushedSource.length > 0 then Plan.un src.schema (.filter (.nary .and pushedSource)) src else src
    let joined' :=
      if pushedJoined.length > 0 then
        Plan.un joined.schema (.filter (setNonLevel0 src.fields (.nary .and pushedJoined))) joined
      else joined
    some (.bin s2 .ljoin src' joined', true)
  | p => some (p, false)

def pushDownFilterPredicatesIntoLookupJoinBranch : Rule := fun p => finish p (transformNode pushIntoLookupJoinLocal p)

/-! ### 3. filter predicates → stream join branches (`push_filter_into_stream_join_branch.go`) -/

def pushIntoStreamJoinBranchLocal : Plan → Option (Plan × Bool)
  | .un s (.filter e) (.bin s2 (.sjoin lk rk) l r) =>
    let fp := splitByAnd e
    let usesL (c : PExpr) := usesVariablesFromSchema l.fields (varsUsed c)
    let usesR (c : PExpr) := usesVariablesFromSchema r.fields (varsUsed c)
    let pushedRight := fp.filter fun c => !usesL c
    let pushedLeft := fp.filter fun c => !usesR c
    let stayedAbove := fp.filter fun c => usesL c && usesR c
    if stayedAbove.length == fp.length then some (.un s (.filter e) (.bin s2 (.sjoin lk rk) l r), false)
    else
      let l' := if pushedLeft.length > 0 then Plan.un l.schema (.filter (.nary .and pushedLeft)) l else l
      let r' := if pushedRight.length > 0 then Plan.un r.schema (.filter (.nary .and pushedRight)) r else r
      let out := Plan.bin s2 (.sjoin lk rk) l' r'
      some (if stayedAbove.length > 0 then .un s2 (.filter (.nary .and stayedAbove)) out else out, true)
  | p => some (p, false)

def pushDownFilterPredicatesIntoStreamJoinBranch : Rule := fun p => finish p (transformNode pushIntoStreamJoinBranchLocal p)

/-! ### 4. equality conjuncts → stream join key (`push_filter_into_stream_join_key.go`) -/

inductive KeyClass where
  | stay (c : PExpr)
  | key (l r : PExpr)

/-- the classification of one conjunct; `none`: `Arguments[0]` / `Arguments[1]` out of range -/
def classifyKey (lf rf : List String) (c : PExpr) : Option KeyClass :=
  match c with
  | .nary (.call fn) args =>
    if fn != "=" then some (.stay c)
    else
      match args with
      | first :: second :: _ =>
        let fL := usesVariablesFromSchema lf (varsUsed first)
        let fR := usesVariablesFromSchema rf (varsUsed first)
        let sL := usesVariablesFromSchema lf (varsUsed second)
        let sR := usesVariablesFromSchema rf (varsUsed second)
        if fL && !fR && !sL && sR then some (.key first second)
        else if !fL && fR && sL && !sR then some (.key second first)
        else some (.stay c)
      | _ => none
  | _ => some (.stay c)

def classifyKeys (lf rf : List String) : List PExpr → Option (List KeyClass)
  | [] => some []
  | c :: cs =>
    match classifyKey lf rf c, classifyKeys lf rf cs with
    | some k, some ks => some (k :: ks)
    | _, _ => none

def stays : List KeyClass → List PExpr
  | [] => []
  | .stay c :: r => c :: stays r
  | .key _ _ :: r => stays r
def leftKeys : List KeyClass → List PExpr
  | [] => []
  | .stay _ :: r => leftKeys r
  | .key l _ :: r => l :: leftKeys r
def rightKeys : List KeyClass → List PExpr
  | [] => []
  | .stay _ :: r => rightKeys r
  | .key _ x :: r => x :: rightKeys r

def pushIntoStreamJoinKeyLocal : Plan → Option (Plan × Bool)
  | .un s (.filter e) (.bin s2 (.sjoin lk rk) l r) =>
    let fp := splitByAnd e
    match classifyKeys l.fields r.fields fp with
    | none => none
    | some cls =>
      let stayedAbove := stays cls
      if stayedAbove.length == fp.length then some (.un s (.filter e) (.bin s2 (.sjoin lk rk) l r), false)
      else
        let out := Plan.bin s2 (.sjoin (lk ++ leftKeys cls) (rk ++ rightKeys cls)) l r
        some (if stayedAbove.length > 0 then .un s2 (.filter (.nary .and stayedAbove)) out else out, true)
  | p => some (p, false)

def pushDownFilterPredicatesIntoStreamJoinKey : Rule := fun p => finish p (transformNode pushIntoStreamJoinKeyLocal p)

/-! ### 8. merging stacked filters (`filter_merge.go`) -/

def mergeFiltersLocal : Plan → Option (Plan × Bool)
  | .un _ (.filter e) (.un s2 (.filter e2) src) =>
    some (.un s2 (.filter (.nary .and (splitByAnd e ++ splitByAnd e2))) src, true)
  | p => some (p, false)

def mergeFilters : Rule := fun p => finish p (transformNode mergeFiltersLocal p)

/-! ### 5–7. removal of unused fields (`remove_unused_{map,groupby,datasource}_fields.go`) -/

def targExprs : List (String × TArg) → List PExpr
  | [] => []
  | (_, .e x) :: r => x :: targExprs r
  | (_, .d _) :: r => targExprs r

def targDescs : List (String × TArg) → List String
  | [] => []
  | (_, .e _) :: r => targDescs r
  | (_, .d s) :: r => s :: targDescs r

/-- the expressions of one node that `TransformNode` hands to the expression transformer -/
def nodeExprs : Plan → List PExpr
  | .leaf _ (.ds _ _ _ preds _) => preds
  | .leaf _ (.mem _) => []
  | .leaf _ (.tvf _ args) => targExprs args
  | .un _ .distinct _ => []
  | .un _ (.filter e) _ => [e]
  | .un _ (.groupBy _ aggExprs key _ _) _ => aggExprs ++ key
  | .un _ (.map es) _ => es
  | .un _ (.unnest _) _ => []
  | .un _ (.ost keys _ limit) _ => keys ++ (match limit with | some e => [e] | none => [])
  | .un _ (.tvf _ args _) _ => targExprs args
  | .bin _ (.sjoin lk rk) _ _ => lk ++ rk
  | .bin _ .ljoin _ _ => []
  | .bin _ (.ojoin _ _ lk rk) _ _ => lk ++ rk

/-- what `isUsed`'s usage checker finds at one node: a variable of that name in one of its expressions, a TVF
    descriptor argument of that name, a Distinct over the field, (after `fix: …`) the field an Unnest expands -/
def usedAtNode (field : String) (p : Plan) : Bool :=
  exprUsesVarL field (nodeExprs p) ||
  (match p with
   | .leaf _ (.tvf _ args) => (targDescs args).any (· == field)
   | .un _ (.tvf _ args _) _ => (targDescs args).any (· == field)
   | .un s .distinct _ => s.fields.any (· == field)
   | .un _ (.unnest f) _ => f == field
   | _ => false)

def usedBelow (field : String) : Plan → Bool
  | .leaf s k => usedAtNode field (.leaf s k)
  | .un s k src => usedBelow field src || usedAtNode field (.un s k src)
  | .bin s k l r => usedBelow field l || usedBelow field r || usedAtNode field (.bin s k l r)

/-- `isUsed` -/
def isUsed (field : String) (p : Plan) : Bool :=
  p.fields.any (· == field) || usedBelow field p

/-- index of the LAST field of that name (the loops have no `break`) -/
def lastIndexOf (field : String) (fields : List String) : Option Nat :=
  let rec go (i : Nat) (acc : Option Nat) : List String → Option Nat
    | [] => acc
    | f :: fs => go (i + 1) (if f == field then some i else acc) fs
  go 0 none fields

/-- `Fields = append(Fields[:index], Fields[index+1:]...)`, `if TimeField > index { TimeField-- }` -/
def eraseSchemaField (s : Schema) (i : Nat) : Schema :=
  { s with fields := s.fields.eraseIdx i, timeField := if s.timeField > (i : Int) then s.timeField - 1 else s.timeField }

/-- `append(xs[:i], xs[i+1:]...)`: panics when `i` is out of range -/
def eraseAt {α : Type} (xs : List α) (i : Int) : Option (List α) :=
  if 0 ≤ i ∧ i.toNat < xs.length then some (xs.eraseIdx i.toNat) else none

/-- apply `g` to every node, bottom-up (a `TransformNode` whose node transformer does not report `changed`) -/
def mapNodes (g : Plan → Option Plan) : Plan → Option Plan
  | .leaf s k => g (.leaf s k)
  | .un s k src =>
    match mapNodes g src with
    | some src' => g (.un s k src')
    | none => none
  | .bin s k l r =>
    match mapNodes g l, mapNodes g r with
    | some l', some r' => g (.bin s k l' r')
    | _, _ => none

def Plan.withSchema (s : Schema) : Plan → Plan
  | .leaf _ k => .leaf s k
  | .un _ k src => .un s k src
  | .bin _ k l r => .bin s k l r

/-- `removeFieldFromPassers`: every node that still has the field in its schema loses it there -/
def removeFromPassersLocal (field : String) (p : Plan) : Option Plan :=
  match lastIndexOf field p.fields with
  | none => some p
  | some i => some (p.withSchema (eraseSchemaField p.schema i))

def removeFieldFromPassers (field : String) : Plan → Option Plan := mapNodes (removeFromPassersLocal field)

def removeMapFieldLocal (field : String) : Plan → Option Plan
  | .un s (.map es) src =>
    match lastIndexOf field s.fields with
    | none => some (.un s (.map es) src)
    | some i =>
      match eraseAt es i with
      | some es' => some (.un (eraseSchemaField s i) (.map es') src)
      | none => none
  | p => some p

def removeGroupByFieldLocal (field : String) : Plan → Option Plan
  | .un s (.groupBy aggs aggExprs key kti trig) src =>
    match lastIndexOf field s.fields with
    | none => some (.un s (.groupBy aggs aggExprs key kti trig) src)
    | some i =>
      let ai : Int := (i : Int) - key.length
      match eraseAt aggExprs ai, eraseAt aggs ai with
      | some aggExprs', some aggs' => some (.un (eraseSchemaField s i) (.groupBy aggs' aggExprs' key kti trig) src)
      | _, _ => none
  | p => some p

def removeDatasourceFieldLocal (field : String) : Plan → Option Plan
  | .leaf s (.ds name alias pol preds mapping) =>
    match lastIndexOf field s.fields with
    | none => some (.leaf s (.ds name alias pol preds mapping))
    | some i => some (.leaf (eraseSchemaField s i) (.ds name alias pol preds mapping))
  | p => some p

/-- fields of a schema with their index, minus the time field and (group-by) the key prefix -/
def candidateFields (s : Schema) (skip : Nat) : List String :=
  let rec go (i : Nat) : List String → List String
    | [] => []
    | f :: fs => (if i < skip || (i : Int) == s.timeField then [] else [f]) ++ go (i + 1) fs
  go 0 s.fields

/-- the field collectors (`getNonTimeField…Fields`): post-order, as `TransformNode` visits the nodes -/
def collectFields (pick : Plan → List String) : Plan → List String
  | .leaf s k => pick (.leaf s k)
  | .un s k src => collectFields pick src ++ pick (.un s k src)
  | .bin s k l r => collectFields pick l ++ collectFields pick r ++ pick (.bin s k l r)

def pickMap : Plan → List String
  | .un s (.map _) _ => candidateFields s 0
  | _ => []
def pickGroupBy : Plan → List String
  | .un s (.groupBy _ _ key _ _) _ => candidateFields s key.length
  | _ => []
def pickDatasource : Plan → List String
  | .leaf s (.ds _ _ _ _ _) => candidateFields s 0
  | _ => []

/-- the common loop of the three removal rules -/
def removeLoop (removeLocal : String → Plan → Option Plan) : List String → Plan → Bool → Option (Plan × Bool)
  | [], node, changed => some (node, changed)
  | f :: fs, node, changed =>
    if !isUsed f node then
      match mapNodes (removeLocal f) node with
      | none => none
      | some n1 =>
        match removeFieldFromPassers f n1 with
        | none => none
        | some n2 => removeLoop removeLocal fs n2 true
    else removeLoop removeLocal fs node changed

def removeUnusedMapFields : Rule := fun p => removeLoop removeMapFieldLocal (collectFields pickMap p) p false
def removeUnusedGroupByNonKeyFields : Rule := fun p => removeLoop removeGroupByFieldLocal (collectFields pickGroupBy p) p false
def removeUnusedDatasourceFields : Rule := fun p => removeLoop removeDatasourceFieldLocal (collectFields pickDatasource p) p false

/-! ### the fixpoint (`optimize.go`) -/

/-- one pass over the rule list: `if curChanged { changed = true; node = output }` -/
def runRules : List Rule → Plan → Bool → Option (Plan × Bool)
  | [], node, changed => some (node, changed)
  | r :: rs, node, changed =>
    match r node with
    | none => none
    | some (out, c) => if c then runRules rs out true else runRules rs node changed

inductive OptRes where
  | ok (p : Plan)
  | panic
  | fuel
  deriving Inhabited

/-- `for changed { … }` with a bound on the number of passes -/
def optimizeWith (rules : List Rule) : Nat → Plan → OptRes
  | 0, _ => .fuel
  | n + 1, node =>
    match runRules rules node false with
    | none => .panic
    | some (out, true) => optimizeWith rules n out
    | some (out, false) => .ok out

def ruleOfName (name : String) : Option Rule :=
  if name == "PushDownFilterPredicatesToDatasource" then some pushDownFilterPredicatesToDatasource
  else if name == "PushDownFilterPredicatesIntoLookupJoinBranch" then some pushDownFilterPredicatesIntoLookupJoinBranch
  else if name == "PushDownFilterPredicatesIntoStreamJoinBranch" then some pushDownFilterPredicatesIntoStreamJoinBranch
  else if name == "PushDownFilterPredicatesIntoStreamJoinKey" then some pushDownFilterPredicatesIntoStreamJoinKey
  else if name == "RemoveUnusedMapFields" then some removeUnusedMapFields
  else if name == "RemoveUnusedGroupByNonKeyFields" then some removeUnusedGroupByNonKeyFields
  else if name == "RemoveUnusedDatasourceFields" then some removeUnusedDatasourceFields
  else if name == "MergeFilters" then some mergeFilters
  else none

def rulesOfNames : List String → Option (List Rule)
  | [] => some []
  | n :: ns =>
    match ruleOfName n, rulesOfNames ns with
    | some r, some rs => some (r :: rs)
    | _, _ => none

/-- `defaultOptimizationRules` as the translator read it from optimizer/optimize.go (`none`: a rule without a model) -/
def defaultRules : Option (List Rule) := rulesOfNames Octo.Gen.OptimizerRules.rules

/-- `optimizer.Optimize` with at most `fuel` passes -/
def optimize (fuel : Nat) (p : Plan) : OptRes :=
  match defaultRules with
  | some rs => optimizeWith rs fuel p
  | none => .panic

end Octo.Plan
