import Octo.Model.Value
/-!
  Octo.Model.NumFuncs — the numeric, time, conversion, membership and indexing descriptors of
  `functions/functions.go` (`FunctionMap`), as the code stands after the C13 `fix:` commits.

  * `Int` / `Duration` are Go `int64`: every arithmetic operator is computed in `BitVec 64`
    (two's complement wrap-around, exactly what the Go specification prescribes for signed
    overflow); `/` is `BitVec.sdiv` (`MinInt64 / -1 = MinInt64`), guarded by the explicit
    zero test the repaired code has.  The pre-repair behaviour is kept as `…Raw` definitions
    (they return `.panic` where Go panics) for the refutation theorems.
  * A `Time` is the shared `Value.time ns loc`: `ns` nanoseconds since the Unix epoch as a mathematical
    integer.  Go keeps `ext` = seconds since year 1 in an `int64` plus `nsec ∈ [0, 1e9)`;
    `timeExt`/`timeNsec`/`mkTime` convert, and `time.Unix`, `Time.Unix`, `Time.Add` are modelled on that
    representation including the wrap in `sec + unixToInternal` and the saturation in `addSec`.
  * Float arithmetic, `math.*`, `strconv.ParseFloat`, float→int conversion, float/time/duration
    formatting are NOT modelled: those overloads return `.opaque tid` ("some value with this
    TypeID, computed by the Go runtime / library").  Only unary minus, `abs` and the identity on
    floats are modelled (they are sign-bit operations on the IEEE pattern).
-/
namespace Octo.Num
open Octo

/-! ### int64 -/
def two63 : Int := 9223372036854775808
def two64 : Int := 18446744073709551616
def minI64 : Int := -9223372036854775808
def maxI64 : Int := 9223372036854775807

/-- the Int64 range -/
def InI64 (x : Int) : Prop := minI64 ≤ x ∧ x ≤ maxI64
instance (x : Int) : Decidable (InI64 x) := by unfold InI64; exact inferInstance

/-- two's complement wrap-around of a mathematical integer into the Int64 range -/
def wrap64 (x : Int) : Int := x.bmod (2 ^ 64)

abbrev bv (x : Int) : BitVec 64 := BitVec.ofInt 64 x

def addI64 (a b : Int) : Int := (bv a + bv b).toInt
def subI64 (a b : Int) : Int := (bv a - bv b).toInt
def mulI64 (a b : Int) : Int := (bv a * bv b).toInt
def negI64 (a : Int) : Int := (- bv a).toInt
/-- Go's `a / b` on int64 for `b ≠ 0` (truncated; `MinInt64 / -1 = MinInt64`) -/
def quoI64 (a b : Int) : Int := ((bv a).sdiv (bv b)).toInt

/-! ### outcomes -/
inductive Outcome where
  | val (v : Value)
  /-- the function returned a Go `error` -/
  | err
  /-- the Go code panics -/
  | panic
  /-- a value of the given TypeID computed by unmodelled runtime/library code -/
  | opaque (tid : Nat)
  /-- the arguments do not have the shape the descriptor is declared for (never generated) -/
  | illTyped
  deriving Repr, Inhabited

/-! ### time -/
def nsPerSec : Int := 1000000000
/-- `unixToInternal`: seconds from year 1 to 1970 -/
def unixToInternal : Int := 62135596800

/-- `t.ext` (seconds since year 1) of the instant `ns` -/
def timeExt (ns : Int) : Int := ns / nsPerSec + unixToInternal
/-- `t.nsec()` -/
def timeNsec (ns : Int) : Int := ns % nsPerSec
def mkTime (ext nsec : Int) : Int := (ext - unixToInternal) * nsPerSec + nsec
/-- a representable `time.Time`: the internal second count fits an int64 -/
def ValidTime (ns : Int) : Prop := InI64 (timeExt ns)

/-- `time.Unix(sec, nsec)` for `0 ≤ nsec < 1e9`: `Time{nsec, sec + unixToInternal, Local}` (int64 addition wraps) -/
def timeUnix (sec nsec : Int) : Int := mkTime (addI64 sec unixToInternal) nsec
/-- `Time.Unix()`: `t.sec() + internalToUnix` (wraps) -/
def timeToUnix (ns : Int) : Int := addI64 (timeExt ns) (-unixToInternal)

/-- `Time.Add(d)` (wall-clock part; no monotonic reading): split `d` into seconds and nanoseconds
    (truncated division), carry, then `addSec`, which saturates instead of wrapping. -/
def timeAdd (ns d : Int) : Int :=
  let dsec := Int.tdiv d nsPerSec
  let nsec := timeNsec ns + Int.tmod d nsPerSec
  let dsec' := if nsec ≥ nsPerSec then dsec + 1 else if nsec < 0 then dsec - 1 else dsec
  let nsec' := if nsec ≥ nsPerSec then nsec - nsPerSec else if nsec < 0 then nsec + nsPerSec else nsec
  let ext := timeExt ns
  let sum := addI64 ext dsec'
  let ext' := if (decide (sum > ext)) == (decide (dsec' > 0)) then sum
              else if dsec' > 0 then maxI64 else -maxI64
  mkTime ext' nsec'

/-! ### strconv.ParseInt(s, 10, 64) -/
inductive PErr where | syntax | range
  deriving Repr, DecidableEq

def maxU64 : Nat := 18446744073709551615
/-- `cutoff = maxUint64/10 + 1` -/
def cutoffU : Nat := 1844674407370955162

/-- the digit loop of `strconv.ParseUint(s, 10, 64)`, `n` is the accumulator (a uint64) -/
def parseUintLoop (n : Nat) : List UInt8 → Except PErr Nat
  | [] => .ok n
  | c :: cs =>
    -- only '0'..'9' are digits below base 10; letters give d ≥ base, everything else is a syntax error ('_' needs base 0)
    if 48 ≤ c.toNat ∧ c.toNat ≤ 57 then
      let d := c.toNat - 48
      if n ≥ cutoffU then .error .range            -- n*base overflows
      else
        let n10 := n * 10
        let n1 := (n10 + d) % 2 ^ 64               -- uint64 addition
        if n1 < n10 ∨ n1 > maxU64 then .error .range
        else parseUintLoop n1 cs
    else .error .syntax

def parseUint (s : List UInt8) : Except PErr Nat :=
  match s with
  | [] => .error .syntax
  | _ => parseUintLoop 0 s

/-- `strconv.ParseInt(s, 10, 64)`; `none` = any error (the caller turns every error into NULL) -/
def parseInt (s : List UInt8) : Option Int :=
  match s with
  | [] => none
  | c :: rest =>
    let neg := c == 45
    let body := if c == 43 ∨ c == 45 then rest else s
    match parseUint body with
    | .error .syntax => none
    | .error .range => none      -- un = maxVal ≥ cutoff: range error either way
    | .ok un =>
      if !neg ∧ un ≥ 2 ^ 63 then none
      else if neg ∧ un > 2 ^ 63 then none
      else some (if neg then - (un : Int) else (un : Int))

/-! ### fmt.Sprint(int64) = strconv.FormatInt(i, 10) -/
def natDigitsF : Nat → Nat → List UInt8
  | 0, _ => []
  | fuel + 1, n => if n < 10 then [UInt8.ofNat (48 + n)] else natDigitsF fuel (n / 10) ++ [UInt8.ofNat (48 + n % 10)]
/-- decimal digits of `n`, most significant first ("0" for 0) -/
def natDigits (n : Nat) : List UInt8 := natDigitsF (n + 1) n
def formatInt (i : Int) : List UInt8 :=
  if i < 0 then 45 :: natDigits i.natAbs else natDigits i.natAbs

/-! ### Value.String() -/
def strNull : List UInt8 := [60, 110, 117, 108, 108, 62]          -- "<null>"
def strTrue : List UInt8 := [116, 114, 117, 101]
def strFalse : List UInt8 := [102, 97, 108, 115, 101]
def sepComma : List UInt8 := [44, 32]

mutual
/-- `Value.append`; `none` when a leaf is a float / time / duration (formatting of those is library code) -/
def valueString : Value → Option (List UInt8)
  | .null => some strNull
  | .int i => some (formatInt i)
  | .bool b => some (if b then strTrue else strFalse)
  | .str s => some ([39] ++ s ++ [39])
  | .float _ => none
  | .time _ _ => none
  | .dur _ => none
  | .list xs => (valueStringList xs).map fun b => [91] ++ b ++ [93]
  | .struct xs => (valueStringList xs).map fun b => [123, 32] ++ b ++ [32, 125]
  | .tuple xs => (valueStringList xs).map fun b => [40] ++ b ++ [41]
/-- the element loop: elements separated by ", " -/
def valueStringList : List Value → Option (List UInt8)
  | [] => some []
  | [x] => valueString x
  | x :: y :: rest =>
    match valueString x, valueStringList (y :: rest) with
    | some a, some b => some (a ++ sepComma ++ b)
    | _, _ => none
end

/-! ### strings.Repeat behind the guard of `repeatString` -/
def repeatBytes (s : List UInt8) : Nat → List UInt8
  | 0 => []
  | n + 1 => s ++ repeatBytes s n

def maxRepeatedStringLength : Int := 1073741824

/-- `repeatString(s, count)` (repaired code) -/
def repeatString (s : List UInt8) (count : Int) : Outcome :=
  if count < 0 then .err
  else if s.length > 0 ∧ count > maxRepeatedStringLength / (s.length : Int) then .err
  else if s.isEmpty then .val (.str [])          -- strings.Repeat: `if n == 0 { return "" }`
  else .val (.str (repeatBytes s count.toNat))

/-- what the unrepaired code did: `strings.Repeat(s, int(count))` panics on a negative count and on overflow
    (allocation failures for huge products are not modelled) -/
def repeatStringRaw (s : List UInt8) (count : Int) : Outcome :=
  if count < 0 then .panic
  else if (s.length : Int) * count > maxI64 then .panic
  else if s.isEmpty then .val (.str [])
  else .val (.str (repeatBytes s count.toNat))

/-! ### membership and indexing -/
/-- the loop of `in`: `for i := range xs { if x.Equal(xs[i]) { return true } } return false` -/
def memLoop (x : Value) : List Value → Bool
  | [] => false
  | y :: ys => if x.equal y then true else memLoop x ys

/-- `[]` (repaired): any index outside the list yields NULL -/
def indexFn (xs : List Value) (i : Int) : Outcome :=
  if i < 0 ∨ i ≥ (xs.length : Int) then .val .null
  else match xs[i.toNat]? with
    | some v => .val v
    | none => .panic
/-- `[]` before the repair: only the upper bound was tested, a negative index panics -/
def indexFnRaw (xs : List Value) (i : Int) : Outcome :=
  if i ≥ (xs.length : Int) then .val .null
  else if i < 0 then .panic
  else match xs[i.toNat]? with
    | some v => .val v
    | none => .panic

/-- integer / duration division (repaired): zero divisor is an error -/
def divFn (a b : Int) : Option Int := if b = 0 then none else some (quoI64 a b)

/-- sign-bit operations on an IEEE-754 pattern -/
def floatNeg (b : Nat) : Nat := if b ≥ F64.signBit then b - F64.signBit else b + F64.signBit
def floatAbs (b : Nat) : Nat := b % F64.signBit

/-! ### the descriptor table: `callFn name overloadIndex args` -/
/-- TypeIDs -/
def tFloat : Nat := 2
def tStr : Nat := 4
def tTime : Nat := 5
def tInt : Nat := 1

def ofOptInt (o : Option Int) (f : Int → Value) : Outcome :=
  match o with
  | some v => .val (f v)
  | none => .err

/-- one arm per descriptor of `FunctionMap()`, in source order (the overload index is the position in `Descriptors`) -/
def callFn (name : String) (idx : Nat) (args : List Value) : Outcome :=
  match name, idx, args with
  -- "+"
  | "add", 0, [.int a, .int b] => .val (.int (addI64 a b))
  | "add", 1, [.float _, .float _] => .opaque tFloat
  | "add", 2, [.dur a, .dur b] => .val (.dur (addI64 a b))
  | "add", 3, [.time t l, .dur d] => .val (.time (timeAdd t d) l)
  | "add", 4, [.dur d, .time t l] => .val (.time (timeAdd t d) l)
  | "add", 5, [.str a, .str b] => .val (.str (a ++ b))
  -- "-"
  | "sub", 0, [.int a, .int b] => .val (.int (subI64 a b))
  | "sub", 1, [.int a] => .val (.int (negI64 a))
  | "sub", 2, [.float _, .float _] => .opaque tFloat
  | "sub", 3, [.float a] => .val (.float (floatNeg a))
  | "sub", 4, [.dur a, .dur b] => .val (.dur (subI64 a b))
  | "sub", 5, [.dur a] => .val (.dur (negI64 a))
  | "sub", 6, [.time t l, .dur d] => .val (.time (timeAdd t (negI64 d)) l)
  -- "*"
  | "mul", 0, [.int a, .int b] => .val (.int (mulI64 a b))
  | "mul", 1, [.float _, .float _] => .opaque tFloat
  | "mul", 2, [.dur a, .int b] => .val (.dur (mulI64 a b))
  | "mul", 3, [.int a, .dur b] => .val (.dur (mulI64 b a))
  | "mul", 4, [.str s, .int n] => repeatString s n
  | "mul", 5, [.int n, .str s] => repeatString s n
  -- "/"
  | "div", 0, [.int a, .int b] => ofOptInt (divFn a b) .int
  | "div", 1, [.float _, .float _] => .opaque tFloat
  | "div", 2, [.dur a, .int b] => ofOptInt (divFn a b) .dur
  | "div", 3, [.dur _, .dur _] => .opaque tFloat
  -- math
  | "abs", 0, [.int a] => if a > 0 then .val (.int a) else .val (.int (mulI64 a (-1)))
  | "abs", 1, [.float a] => .val (.float (floatAbs a))
  | "sqrt", 0, [.float _] => .opaque tFloat
  | "ceil", 0, [.float _] => .opaque tFloat
  | "floor", 0, [.float _] => .opaque tFloat
  | "log2", 0, [.float _] => .opaque tFloat
  | "log", 0, [.float _] => .opaque tFloat
  | "log10", 0, [.float _] => .opaque tFloat
  | "pow", 0, [.float _, .float _] => .opaque tFloat
  -- len
  | "len", 0, [.str s] => .val (.int s.length)
  | "len", 1, [.list xs] => .val (.int xs.length)
  | "len", 2, [.struct xs] => .val (.int xs.length)
  | "len", 3, [.tuple xs] => .val (.int xs.length)
  -- time
  | "tfu", 0, [.int x] => .val (.time (timeUnix x 0) 0)
  | "tfu", 1, [.float _] => .opaque tTime
  | "ttu", 0, [.time t _] => .val (.int (timeToUnix t))
  -- conversions
  | "int", 0, [.int a] => .val (.int a)
  | "int", 1, [.bool b] => .val (.int (if b then 1 else 0))
  | "int", 2, [.float _] => .opaque tInt
  | "int", 3, [.str s] => (match parseInt s with | some i => .val (.int i) | none => .val .null)
  | "int", 4, [.dur d] => .val (.int d)
  | "float", 0, [.float a] => .val (.float a)
  | "float", 1, [.int _] => .opaque tFloat
  | "float", 2, [.str _] => .opaque tFloat      -- Float or NULL; decided by strconv.ParseFloat
  | "float", 3, [.dur _] => .opaque tFloat
  | "string", 0, [v] => (match valueString v with | some s => .val (.str s) | none => .opaque tStr)
  -- collections
  | "idx", 0, [.list xs, .int i] => indexFn xs i
  | "in", 0, [x, .list xs] => .val (.bool (memLoop x xs))
  | "in", 1, [x, .tuple xs] => .val (.bool (memLoop x xs))
  | "notin", 0, [x, .list xs] => .val (.bool (!memLoop x xs))
  | "notin", 1, [x, .tuple xs] => .val (.bool (!memLoop x xs))
  | _, _, _ => .illTyped

end Octo.Num
