import Octo.Model.Value
/-!
  Octo.Model.NumFuncs — the numeric, time, conversion, membership and indexing descriptors of
  `functions/functions.go` (`FunctionMap`), as the code stands after the C13 `fix:` commits.

  * `Int` / `Duration` are Go `int64`: every arithmetic operator is computed in `BitVec 64`
    (two's complement wrap-around, exactly what the Go specification prescribes for signed
    overflow); `/` is `BitVec.sdiv` (`MinInt64 / -1 = MinInt64`), guarded by the explicit
    zero test the repaired code has.  The pre-repair behaviour is kept as `…Raw` definitions
    (they return `.panic` where Go panics) for the refutation theorems.
  * A `Time` is the shared `Value.time ns loc`: `ns` nanoseconds since the Unix epoch as a mathematical
    integer.  Go keeps `ext` = seconds since year 1 in an `int64` plus `nsec ∈ [0, 1e9)`;
    `timeExt`/`timeNsec`/`mkTime` convert, and `time.Unix`, `Time.Unix`, `Time.Add` are modelled on that
    representation including the wrap in `sec + unixToInternal` and the saturation in `addSec`.
  * Float arithmetic, `math.*`, `strconv.ParseFloat`, float→int conversion, float/time/duration
    formatting are NOT modelled: those overloads return `.opaque tid` ("some value with this
    TypeID, computed by the Go runtime / library").  Only unary minus, `abs` and the identity on
    floats are modelled (they are sign-bit operations on the IEEE pattern).
-/
namespace Octo.Num
open Octo

/-! ### int64 -/
def two63 : Int := 9223372036854775808
def two64 : Int := 18446744073709551616
def minI64 : Int := -9223372036854775808
def maxI64 : Int := 9223372036854775807

/-- the Int64 range -/
def InI64 (x : Int) : Prop := minI64 ≤ x ∧ x ≤ maxI64
instance (x : Int) : Decidable (InI64 x) := by unfold InI64; exact inferInstance

/-- two's complement wrap-around of a mathematical integer into the Int64 range -/
def wrap64 (x : Int) : Int := x.bmod (2 ^ 64)

abbrev bv (x : Int) : BitVec 64 := BitVec.ofInt 64 x

def addI64 (a b : Int) : Int := (bv a + bv b).toInt
def subI64 (a b : Int) : Int := (bv a - bv b).toInt
def mulI64 (a b : Int) : Int := (bv a * bv b).toInt
def negI64 (a : Int) : Int := (- bv a).toInt
/-- Go's `a / b` on int64 for `b ≠ 0` (truncated; `MinInt64 / -1 = MinInt64`) -/
def quoI64 (a b : Int) : Int := ((bv a).sdiv (bv b)).toInt

/-! ### outcomes -/
inductive Outcome where
  | val (v : Value)
  /-- the function returned a Go `error` -/
  | err
  /-- the Go code panics -/
  | panic
  /-- a value of the given TypeID computed by unmodelled runtime/library code -/
  | opaque (tid : Nat)
  /-- the arguments do not have the shape the descriptor is declared for (never generated) -/
  | illTyped
  deriving Repr, Inhabited

/-! ### time -/
def nsPerSec : Int := 1000000000
/-- `unixToInternal`: seconds from year 1 to 1970 -/
def unixToInternal : Int := 62135596800

/-- `t.ext` (seconds since year 1) of the instant `ns` -/
def timeExt (ns : Int) : Int := ns / nsPerSec + unixToInternal
/-- `t.nsec()` -/
def timeNsec (ns : Int) : Int := ns % nsPerSec
def mkTime (ext nsec : Int) : Int := (ext - unixToInternal) * nsPerSec + nsec
/-- a representable `time.Time`: the internal second count fits an int64 -/
def ValidTime (ns : Int) : Prop := InI64 (timeExt ns)

/-- `time.Unix(sec, nsec)` for `0 ≤ nsec < 1e9`: `Time{nsec, sec + unixToInternal, Local}` (int64 addition wraps) -/
def timeUnix (sec nsec : Int) : Int := mkTime (addI64 sec unixToInternal) nsec
/-- `Time.Unix()`: `t.sec() + internalToUnix` (wraps) -/
def timeToUnix (ns : Int) : Int := addI64 (timeExt ns) (-unixToInternal)

/-- `Time.Add(d)` (wall-clock part; no monotonic reading): split `d` into seconds and nanoseconds
    (truncated division), carry, then `addSec`, which saturates instead of wrapping. -/
def timeAdd (ns d : Int) : Int :=
  let dsec := Int.tdiv d nsPerSec
  let nsec := timeNsec ns + Int.tmod d nsPerSec
  let dsec' := if nsec ≥ nsPerSec then dsec + 1 else if nsec < 0 then dsec - 1 else dsec
  let nsec' := if nsec ≥ nsPerSec then nsec - nsPerSec else if nsec < 0 then nsec + nsPerSec else nsec
  let ext := timeExt ns
  let sum := addI64 ext dsec'
  let ext' := if (decide (sum > ext)) == (decide (dsec' > 0)) then sum
              else if dsec' > 0 then maxI64 else -maxI64
  mkTime ext' nsec'

/-! ### strconv.ParseInt(s, 10, 64) -/
inductive PErr where | syntax | range
  deriving Repr, DecidableEq

def maxU64 : Nat := 18446744073709551615
/-- `cutoff = maxUint64/10 + 1` -/
def cutoffU : Nat := 1844674407370955162

/-- the digit loop of `strconv.ParseUint(s, 10, 64)`, `n` is the accumulator (a uint64) -/
def parseUintLoop (n : Nat) : List UInt8 → Except PErr Nat
  | [] => .ok n
  | c :: cs =>
    -- only '0'..'9' are digits below base 10; letters give d ≥ base, everything else is a syntax error ('_' needs base 0)
    if 48 ≤ c.toNat ∧ c.toNat ≤ 57 then
      let d := c.toNat - 48
      if n ≥ cutoffU then .error .range            -- n*base overflows
      else
        let n10 := n * 10
        let n1 := (n10 + d) % 2 ^ 64               -- uint64 addition
        if n1 < n10 ∨ n1 > maxU64 then .error .range
        else parseUintLoop n1 cs
    else .error .syntax

def parseUint (s : List UInt8) : Except PErr Nat :=
  match s with
  | [] => .error .syntax
  | _ => parseUintLoop 0 s

/-- `ParseInt` after the sign has been picked off: `ParseUint`, then the range check against `cutoff = 1 << 63` -/
def parseIntBody (neg : Bool) (body : List UInt8) : Option Int :=
  match parseUint body with
  | .error .syntax => none
  | .error .range => none      -- un = maxVal ≥ cutoff: range error either way
  | .ok un =>
    if !neg ∧ un ≥ 2 ^ 63 then none
    else if neg ∧ un > 2 ^ 63 then none
    else some (if neg then - (un : Int) else (un : Int))

/-- `strconv.ParseInt(s, 10, 64)`; `none` = any error (the caller turns every error into NULL) -/
def parseInt (s : List UInt8) : Option Int :=
  match s with
  | [] => none
  | c :: rest => parseIntBody (c == 45) (if c == 43 ∨ c == 45 then rest else s)

/-! ### fmt.Sprint(int64) = strconv.FormatInt(i, 10) -/
def natDigitsF : Nat → Nat → List UInt8
  | 0, _ => []
  | fuel + 1, n => if n < 10 then [UInt8.ofNat (48 + n)] else natDigitsF fuel (n / 10) ++ [UInt8.ofNat (48 + n % 10)]
/-- decimal digits of `n`, most significant first ("0" for 0) -/
def natDigits (n : Nat) : List UInt8 := natDigitsF (n + 1) n
def formatInt (i : Int) : List UInt8 :=
  if i < 0 then 45 :: natDigits i.natAbs else natDigits i.natAbs

/-! ### Value.String() -/
def strNull : List UInt8 := [60, 110, 117, 108, 108, 62]          -- "<null>"
def strTrue : List UInt8 := [116, 114, 117, 101]
def strFalse : List UInt8 := [102, 97, 108, 115, 101]
def sepComma : List UInt8 := [44, 32]

mutual
/-- `Value.append`; `none` when a leaf is a float / time / duration (formatting of those is library code) -/
def valueString : Value → Option (List UInt8)
  | .null => some strNull
  | .int i => some (formatInt i)
  | .bool b => some (if b then strTrue else strFalse)
  | .str s => some ([39] ++ s ++ [39])
  | .float _ => none
  | .time _ _ => none
  | .dur _ => none
  | .list xs => (valueStringList xs).map fun b => [91] ++ b ++ [93]
  | .struct xs => (valueStringList xs).map fun b => [123, 32] ++ b ++ [32, 125]
  | .tuple xs => (valueStringList xs).map fun b => [40] ++ b ++ [41]
/-- the element loop: elements separated by ", " -/
def valueStringList : List Value → Option (List UInt8)
  | [] => some []
  | [x] => valueString x
  | x :: y :: rest =>
    match valueString x, valueStringList (y :: rest) with
    | some a, some b => some (a ++ sepComma ++ b)
    | _, _ => none
end

/-! ### strings.Repeat behind the guard of `repeatString` -/
def repeatBytes (s : List UInt8) : Nat → List UInt8
  | 0 => []
  | n + 1 => s ++ repeatBytes s n

def maxRepeatedStringLength : Int := 1073741824

/-- `repeatString(s, count)` (repaired code) -/
def repeatString (s : List UInt8) (count : Int) : Outcome :=
  if count < 0 then .err
  else if s.length > 0 ∧ count > maxRepeatedStringLength / (s.length : Int) then .err
  else if s.isEmpty then .val (.str [])          -- strings.Repeat: `if n == 0 { return "" }`
  else .val (.str (repeatBytes s count.toNat))

/-- what the unrepaired code did: `strings.Repeat(s, int(count))` panics on a negative count and on overflow
    (allocation failures for huge products are not modelled) -/
def repeatStringRaw (s : List UInt8) (count : Int) : Outcome :=
  if count < 0 then .panic
  else if (s.length : Int) * count > maxI64 then .panic
  else if s.isEmpty then .val (.str [])
  else .val (.str (repeatBytes s count.toNat))

/-! ### membership and indexing -/
/-- the loop of `in`: `for i := range xs { if x.Equal(xs[i]) { return true } } return false` -/
def memLoop (x : Value) : List Value → Bool
  | [] => false
  | y :: ys => if x.equal y then true else memLoop x ys

/-- `[]` (repaired): any index outside the list yields NULL -/
def indexFn (xs : List Value) (i : Int) : Outcome :=
  if i < 0 ∨ i ≥ (xs.length : Int) then .val .null
  else match xs[i.toNat]? with
    | some v => .val v
    | none => .panic
/-- `[]` before the repair: only the upper bound was tested, a negative index panics -/
def indexFnRaw (xs : List Value) (i : Int) : Outcome :=
  if i ≥ (xs.length : Int) then .val .null
  else if i < 0 then .panic
  else match xs[i.toNat]? with
    | some v => .val v
    | none => .panic

/-- integer / duration division (repaired): zero divisor is an error -/
def divFn (a b : Int) : Option Int := if b = 0 then none else some (quoI64 a b)

/-- sign-bit operations on an IEEE-754 pattern -/
def floatNeg (b : Nat) : Nat := if b ≥ F64.signBit then b - F64.signBit else b + F64.signBit
def floatAbs (b : Nat) : Nat := b % F64.signBit

/-! ### the descriptor table: `callFn name overloadIndex args` -/
/-- TypeIDs -/
def tFloat : Nat := 2
def tStr : Nat := 4
def tTime : Nat := 5
def tInt : Nat := 1

def ofOptInt (o : Option Int) (f : Int → Value) : Outcome :=
  match o with
  | some v => .val (f v)
  | none => .err

/-! One definition per entry of the `FunctionMap()` literal, one arm per descriptor in source order
    (the overload index is the position in `Descriptors`). -/

/-- `"+"` -/
def fnAdd : Nat → List Value → Outcome
  | 0, [.int a, .int b] => .val (.int (addI64 a b))
  | 1, [.float _, .float _] => .opaque tFloat
  | 2, [.dur a, .dur b] => .val (.dur (addI64 a b))
  | 3, [.time t l, .dur d] => .val (.time (timeAdd t d) l)
  | 4, [.dur d, .time t l] => .val (.time (timeAdd t d) l)
  | 5, [.str a, .str b] => .val (.str (a ++ b))
  | _, _ => .illTyped

/-- `"-"` -/
def fnSub : Nat → List Value → Outcome
  | 0, [.int a, .int b] => .val (.int (subI64 a b))
  | 1, [.int a] => .val (.int (negI64 a))
  | 2, [.float _, .float _] => .opaque tFloat
  | 3, [.float a] => .val (.float (floatNeg a))
  | 4, [.dur a, .dur b] => .val (.dur (subI64 a b))
  | 5, [.dur a] => .val (.dur (negI64 a))
  | 6, [.time t l, .dur d] => .val (.time (timeAdd t (negI64 d)) l)
  | _, _ => .illTyped

/-- `"*"` -/
def fnMul : Nat → List Value → Outcome
  | 0, [.int a, .int b] => .val (.int (mulI64 a b))
  | 1, [.float _, .float _] => .opaque tFloat
  | 2, [.dur a, .int b] => .val (.dur (mulI64 a b))
  | 3, [.int a, .dur b] => .val (.dur (mulI64 b a))
  | 4, [.str s, .int n] => repeatString s n
  | 5, [.int n, .str s] => repeatString s n
  | _, _ => .illTyped

/-- `"/"` -/
def fnDiv : Nat → List Value → Outcome
  | 0, [.int a, .int b] => ofOptInt (divFn a b) .int
  | 1, [.float _, .float _] => .opaque tFloat
  | 2, [.dur a, .int b] => ofOptInt (divFn a b) .dur
  | 3, [.dur _, .dur _] => .opaque tFloat
  | _, _ => .illTyped

/-- `"abs"` -/
def fnAbs : Nat → List Value → Outcome
  | 0, [.int a] => if a > 0 then .val (.int a) else .val (.int (mulI64 a (-1)))
  | 1, [.float a] => .val (.float (floatAbs a))
  | _, _ => .illTyped

/-- `sqrt ceil floor log2 log log10` (one Float overload each) and `pow`: `math.*`, not modelled -/
def fnMath1 : Nat → List Value → Outcome
  | 0, [.float _] => .opaque tFloat
  | _, _ => .illTyped
def fnPow : Nat → List Value → Outcome
  | 0, [.float _, .float _] => .opaque tFloat
  | _, _ => .illTyped

/-- `"len"` -/
def fnLen : Nat → List Value → Outcome
  | 0, [.str s] => .val (.int s.length)
  | 1, [.list xs] => .val (.int xs.length)
  | 2, [.struct xs] => .val (.int xs.length)
  | 3, [.tuple xs] => .val (.int xs.length)
  | _, _ => .illTyped

/-- `"time_from_unix"` -/
def fnTimeFromUnix : Nat → List Value → Outcome
  | 0, [.int x] => .val (.time (timeUnix x 0) 0)
  | 1, [.float _] => .opaque tTime
  | _, _ => .illTyped

/-- `"time_to_unix"` -/
def fnTimeToUnix : Nat → List Value → Outcome
  | 0, [.time t _] => .val (.int (timeToUnix t))
  | _, _ => .illTyped

/-- `"int"` -/
def fnInt : Nat → List Value → Outcome
  | 0, [.int a] => .val (.int a)
  | 1, [.bool b] => .val (.int (if b then 1 else 0))
  | 2, [.float _] => .opaque tInt
  | 3, [.str s] => (match parseInt s with | some i => .val (.int i) | none => .val .null)
  | 4, [.dur d] => .val (.int d)
  | _, _ => .illTyped

/-- `"float"` -/
def fnFloat : Nat → List Value → Outcome
  | 0, [.float a] => .val (.float a)
  | 1, [.int _] => .opaque tFloat
  | 2, [.str _] => .opaque tFloat      -- Float or NULL; decided by strconv.ParseFloat
  | 3, [.dur _] => .opaque tFloat
  | _, _ => .illTyped

/-- `"string"` -/
def fnString : Nat → List Value → Outcome
  | 0, [v] => (match valueString v with | some s => .val (.str s) | none => .opaque tStr)
  | _, _ => .illTyped

/-- `"[]"` -/
def fnIndex : Nat → List Value → Outcome
  | 0, [.list xs, .int i] => indexFn xs i
  | _, _ => .illTyped

/-- `"in"` -/
def fnIn : Nat → List Value → Outcome
  | 0, [x, .list xs] => .val (.bool (memLoop x xs))
  | 1, [x, .tuple xs] => .val (.bool (memLoop x xs))
  | _, _ => .illTyped

/-- `"not in"` -/
def fnNotIn : Nat → List Value → Outcome
  | 0, [x, .list xs] => .val (.bool (!memLoop x xs))
  | 1, [x, .tuple xs] => .val (.bool (!memLoop x xs))
  | _, _ => .illTyped

/-- the function table: `FunctionMap()[name].Descriptors[idx].Function(args)` (names are the harness's token-safe symbols) -/
def callFn (name : String) (idx : Nat) (args : List Value) : Outcome :=
  if name = "add" then fnAdd idx args
  else if name = "sub" then fnSub idx args
  else if name = "mul" then fnMul idx args
  else if name = "div" then fnDiv idx args
  else if name = "abs" then fnAbs idx args
  else if name = "sqrt" ∨ name = "ceil" ∨ name = "floor" ∨ name = "log2" ∨ name = "log" ∨ name = "log10" then fnMath1 idx args
  else if name = "pow" then fnPow idx args
  else if name = "len" then fnLen idx args
  else if name = "tfu" then fnTimeFromUnix idx args
  else if name = "ttu" then fnTimeToUnix idx args
  else if name = "int" then fnInt idx args
  else if name = "float" then fnFloat idx args
  else if name = "string" then fnString idx args
  else if name = "idx" then fnIndex idx args
  else if name = "in" then fnIn idx args
  else if name = "notin" then fnNotIn idx args
  else .illTyped

end Octo.Num

namespace Octo.Num
/-! ### the code before the C13 repairs (for the refutation theorems and as documentation of the defects) -/

/-- `"/"` as shipped: no zero test, Go's integer division panics on a zero divisor -/
def fnDivRaw : Nat → List Value → Outcome
  | 0, [.int a, .int b] => if b = 0 then .panic else .val (.int (quoI64 a b))
  | 1, [.float _, .float _] => .opaque tFloat
  | 2, [.dur a, .int b] => if b = 0 then .panic else .val (.dur (quoI64 a b))
  | 3, [.dur _, .dur _] => .opaque tFloat
  | _, _ => .illTyped

/-- `"*"` as shipped: `strings.Repeat` unguarded -/
def fnMulRaw : Nat → List Value → Outcome
  | 4, [.str s, .int n] => repeatStringRaw s n
  | 5, [.int n, .str s] => repeatStringRaw s n
  | i, args => fnMul i args

/-- `"[]"` as shipped -/
def fnIndexRaw : Nat → List Value → Outcome
  | 0, [.list xs, .int i] => indexFnRaw xs i
  | _, _ => .illTyped

def callFnRaw (name : String) (idx : Nat) (args : List Value) : Outcome :=
  if name = "div" then fnDivRaw idx args
  else if name = "mul" then fnMulRaw idx args
  else if name = "idx" then fnIndexRaw idx args
  else callFn name idx args
end Octo.Num
