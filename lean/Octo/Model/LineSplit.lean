/-!
  Octo.Model.LineSplit — the lines datasource's split function (`datasources/lines/execution.go`) run under the
  contract of Go's `bufio.Scanner`, core Lean only.

  `bufio.Scanner.Scan` (Go 1.2x), as far as a split function can observe it:
    * the split function is called on the unconsumed window `buf[start:end]` whenever the window is non-empty or
      the reader has reported EOF (`atEOF = true` from then on);
    * `advance` bytes are dropped from the window; a non-nil token ends this `Scan` call (it is the next record);
    * without a token (whatever `advance` was): at EOF scanning stops, otherwise more input is read — any positive number of bytes the
      reader happens to return (the *window-growth schedule*) or EOF;
    * the buffer holds at most `maxTok` bytes (64 KiB for the lines datasource): when more input is needed and the
      window already fills it, `ErrTooLong` (returned as an error since the C06 fix);
    * NOT modelled: the 100-empty-reads / 100-empty-tokens-at-EOF guards (never reached: a reader that returns no
      bytes forever is not a file; the split functions below always advance when they return a token at EOF).

  Go                                                      | model
  --------------------------------------------------------|------------------------------
  `bytes.Index(data, sep)`                                | `indexOf sep data`
  custom split function, `return i + len(sep), data[0:i]` | `splitSep (· + ·)`  = `splitFixed`
  … before the fix, `return i + 1, data[0:i]`              | `splitRaw`
  `bufio.ScanLines` (default separator "\n")              | `scanLines`
  `for sc.Scan() { … sc.Text() … }`                       | `scanAll`
-/
namespace Octo.Files

abbrev Bytes := List UInt8

/-- `bytes.HasPrefix(data, sep)` -/
def isPrefix : Bytes → Bytes → Bool
  | [], _ => true
  | _ :: _, [] => false
  | s :: ss, d :: ds => s == d && isPrefix ss ds

/-- `bytes.Index(data, sep)`: the first position at which `sep` occurs -/
def indexOf (sep : Bytes) : Bytes → Option Nat
  | [] => if sep.isEmpty then some 0 else none
  | d :: ds => if isPrefix sep (d :: ds) then some 0 else (indexOf sep ds).map (· + 1)

structure SplitRes where
  advance : Nat
  token : Option Bytes
  deriving Repr, DecidableEq

/-- the custom split function; `adv i n` is the number of bytes to skip for a separator of length `n` found at `i` -/
def splitSep (adv : Nat → Nat → Nat) (sep data : Bytes) (atEOF : Bool) : SplitRes :=
  if atEOF && data.isEmpty then ⟨0, none⟩
  else match indexOf sep data with
    | some i => ⟨adv i sep.length, some (data.take i)⟩        -- a full separator-terminated line
    | none => if atEOF then ⟨data.length, some data⟩          -- final, non-terminated line
              else ⟨0, none⟩                                  -- request more data

/-- the code after the repair: skip the whole separator -/
def splitFixed : Bytes → Bytes → Bool → SplitRes := splitSep (fun i n => i + n)
/-- the code before the repair: skip one byte -/
def splitRaw : Bytes → Bytes → Bool → SplitRes := splitSep (fun i _ => i + 1)

/-- `dropCR` -/
def dropCR (data : Bytes) : Bytes :=
  match data.getLast? with
  | some 13 => data.dropLast
  | _ => data

/-- `bufio.ScanLines` -/
def scanLines (data : Bytes) (atEOF : Bool) : SplitRes :=
  if atEOF && data.isEmpty then ⟨0, none⟩
  else match indexOf [10] data with
    | some i => ⟨i + 1, some (dropCR (data.take i))⟩
    | none => if atEOF then ⟨data.length, some (dropCR data)⟩ else ⟨0, none⟩

inductive ScanResult where
  | tokens (ts : List Bytes)
  | advanceTooFar (ts : List Bytes)     -- `ErrAdvanceTooFar` (after the tokens `ts`)
  | tooLong (ts : List Bytes)           -- `bufio.ErrTooLong` (after the tokens `ts`): the lines datasource returns it
  | outOfFuel
  deriving Repr, DecidableEq

/-- `for sc.Scan() { emit sc.Text() }`.  State: `win` the unconsumed window, `rest` the bytes the reader has not
    returned yet, `eof` whether the reader has reported EOF, `sched` the sizes (minus one) of the reads to come.
    `maxTok` is the scanner's maximal buffer size (`bufio.MaxScanTokenSize` = 65536 for the lines datasource): a read
    never makes the window larger than that, and when more input is needed while the window already fills the
    buffer the scan fails with `ErrTooLong`. -/
def scanLoop (split : Bytes → Bool → SplitRes) (maxTok : Nat) : Nat → Bytes → Bytes → Bool → List Nat → List Bytes → ScanResult
  | 0, _, _, _, _, _ => .outOfFuel
  | fuel + 1, win, rest, eof, sched, acc =>
    -- "We cannot generate a token with what we are holding": stop at EOF, otherwise read more input
    let readMore : Bytes → ScanResult := fun win =>
      if eof then .tokens acc.reverse
      else if win.length ≥ maxTok then .tooLong acc.reverse      -- the buffer is full and may not grow
      else match rest with
        | [] => scanLoop split maxTok fuel win [] true sched acc
        | _ :: _ =>
          let k := min (sched.headD 0 + 1) (maxTok - win.length)
          scanLoop split maxTok fuel (win ++ rest.take k) (rest.drop k) false sched.tail acc
    if !win.isEmpty || eof then
      let r := split win eof
      if r.advance > win.length then .advanceTooFar acc.reverse
      else match r.token with
        | some t => scanLoop split maxTok fuel (win.drop r.advance) rest eof sched (t :: acc)   -- `return true`
        | none => readMore (win.drop r.advance)
    else readMore win

/-- enough fuel for any content: every step consumes a byte of the window, moves a byte of `rest` into it,
    or sets `eof` -/
def scanFuel (content : Bytes) : Nat := 3 * content.length + 4

/-- `bufio.MaxScanTokenSize` -/
def maxScanTokenSize : Nat := 65536

def scanAll (split : Bytes → Bool → SplitRes) (maxTok : Nat) (content : Bytes) (sched : List Nat) : ScanResult :=
  scanLoop split maxTok (scanFuel content) [] content false sched []

/-! ### Specification: split at every (leftmost, non-overlapping) occurrence of the separator -/

/-- `strings.Split(s, sep)` for a non-empty `sep` -/
def splitOnF (sep : Bytes) : Nat → Bytes → List Bytes
  | 0, s => [s]
  | fuel + 1, s =>
    match indexOf sep s with
    | some i => s.take i :: splitOnF sep fuel (s.drop (i + sep.length))
    | none => [s]

def splitOn (sep s : Bytes) : List Bytes := splitOnF sep (s.length + 1) s

/-- "minus a final empty piece" -/
def dropLastEmpty : List Bytes → List Bytes
  | [] => []
  | [x] => if x.isEmpty then [] else [x]
  | x :: y :: r => x :: dropLastEmpty (y :: r)

/-- the records the lines datasource must produce for `content` -/
def specLines (sep content : Bytes) : List Bytes := dropLastEmpty (splitOn sep content)

/-- every piece, with the separator that ends it, fits the scanner's buffer (the last, unterminated piece must
    leave room for the read that reports EOF) -/
def fitsTokF (maxTok : Nat) (sep : Bytes) : Nat → Bytes → Bool
  | 0, s => decide (s.length < maxTok)
  | fuel + 1, s =>
    match indexOf sep s with
    | some i => decide (i + sep.length ≤ maxTok) && fitsTokF maxTok sep fuel (s.drop (i + sep.length))
    | none => decide (s.length < maxTok)

def fitsTok (maxTok : Nat) (sep s : Bytes) : Bool := fitsTokF maxTok sep (s.length + 1) s

end Octo.Files
