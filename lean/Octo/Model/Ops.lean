import Octo.Model.OpExpr
/-!
  Octo.Model.Ops — executable models of the single-input execution nodes of `execution/nodes/`
  (Filter, Map, Distinct, SimpleGroupBy, CustomTriggerGroupBy with the end-of-stream trigger,
  LookupJoin, OrderSensitiveTransform, Unnest, Limit, EventTimeBuffer + RecordEventTimeBuffer)
  and of the multiset bookkeeping of `outputs/batch/live_output.go`.

  A node is an `Op σ`: what its `produce` callback does with one record / its `metaSend` callback
  with one watermark (`onMsg`), what `Run` does after `source.Run` returned nil (`onEnd`) and what
  it does after `source.Run` returned an error (`onFail`; an error returned by the node's own
  callback travels back through the source, so it arrives here as well).

  Expressions are passed already bound to the evaluation context, as functions
  `Row → Except Err …` (the driver instantiates them with `Expr.eval`).

  Containers: `zyedidia/generic/hashmap` keyed by `Compare == 0` is an association list keyed by
  `rowEq` (iteration order is unobservable after canonicalisation); `google/btree` is a list kept
  sorted by the node's `Less`.
-/
namespace Octo.Ops
open Octo

abbrev Out := List Msg × Option Err

structure Op (σ : Type) where
  init : σ
  onMsg : σ → Msg → σ × List Msg × Option Err
  onEnd : σ → Out
  onFail : σ → Err → Out

/-- run a node over the messages its source delivers; `fail = true`: the source then returns an
    (injected) error instead of ending normally. -/
def Op.runFrom (op : Op σ) : σ → List Msg → Bool → Out
  | s, [], false => op.onEnd s
  | s, [], true => op.onFail s .injected
  | s, m :: ms, f =>
    match op.onMsg s m with
    | (s', out, none) => let r := op.runFrom s' ms f; (out ++ r.1, r.2)
    | (s', out, some e) => let r := op.onFail s' e; (out ++ r.1, r.2)

def Op.run (op : Op σ) (ms : List Msg) (fail : Bool := false) : Out := op.runFrom op.init ms fail

/-- nodes that wrap and return the error of their source -/
def propagate (e : Err) : Out := ([], some e)

/-! ### Filter (`filter.go`) -/
def filterOp (pred : Row → Except Err Value) : Op Unit where
  init := ()
  onMsg s m :=
    match m with
    | .wm t => (s, [.wm t], none)
    | .data r =>
      match pred r.vals with
      | .error e => (s, [], some e)
      | .ok (.bool true) => (s, [.data r], none)
      | .ok _ => (s, [], none)
  onEnd _ := ([], none)
  onFail _ e := propagate e

/-! ### Map (`map.go`) -/
def mapOp (f : Row → Except Err Row) : Op Unit where
  init := ()
  onMsg s m :=
    match m with
    | .wm t => (s, [.wm t], none)
    | .data r =>
      match f r.vals with
      | .error e => (s, [], some e)
      | .ok vs => (s, [.data { vals := vs, retr := r.retr, et := r.et }], none)
  onEnd _ := ([], none)
  onFail _ e := propagate e

/-! ### association lists keyed by `rowEq` (the hash maps) -/
def aget (l : List (Row × β)) (k : Row) : Option (Row × β) := l.find? (fun p => rowEq p.1 k)
def aremove (l : List (Row × β)) (k : Row) : List (Row × β) := l.filter (fun p => !rowEq p.1 k)
def aput (l : List (Row × β)) (k : Row) (v : β) : List (Row × β) := (k, v) :: aremove l k

/-- `recordCounts.Get`: the count of a row, 0 when there is no item -/
def getc (cnt : List (Row × Int)) (y : Row) : Int :=
  match aget cnt y with
  | some p => p.2
  | none => 0

/-! ### Distinct (`distinct.go`, after `fix: DISTINCT propagates errors of its source`) -/
def distinctOp : Op (List (Row × Int)) where
  init := []
  onMsg cnt m :=
    match m with
    | .wm _ => (cnt, [], none)                       -- watermarks are dropped
    | .data r =>
      let c := getc cnt r.vals
      let c' := if r.retr then c - 1 else c + 1
      if c' > 0 then
        if !r.retr && c' == 1 then (aput cnt r.vals c', [.data r], none)
        else (aput cnt r.vals c', [], none)          -- `item` is a pointer: the count is updated in place
      else (aremove cnt r.vals, [.data r], none)
  onEnd _ := ([], none)
  onFail _ e := propagate e

/-! ### Unnest (`unnest.go`) -/
def unnestOp (idx : Nat) : Op Unit where
  init := ()
  onMsg s m :=
    match m with
    | .wm t => (s, [.wm t], none)
    | .data r =>
      match r.vals[idx]? with
      | none => (s, [], some .panic)                 -- index out of range
      | some (.list xs) =>
        (s, xs.map (fun x => .data { vals := r.vals.set idx x, retr := r.retr, et := r.et }), none)
      | some _ => (s, [], none)                      -- `.List` of a non-list value is nil
  onEnd _ := ([], none)
  onFail _ e := propagate e

/-! ### Limit (`limit.go`, after `fix: LIMIT 0 in the Limit node returns no rows`)
    The case `limit = 0` returns before the source is run (`limitNode`). -/
def limitOp (n : Int) : Op Int where
  init := 0
  onMsg i m :=
    match m with
    | .wm t => (i, [.wm t], none)
    | .data r => if i + 1 == n then (i + 1, [.data r], some .limit) else (i + 1, [.data r], none)
  onEnd _ := ([], none)
  onFail _ e := if e = .limit then ([], none) else propagate e

def limitNode (n : Int) (ms : List Msg) (fail : Bool) : Out :=
  if n == 0 then ([], none) else (limitOp n).run ms fail

/-! ### RecordEventTimeBuffer / EventTimeBuffer (`record_event_time_buffer.go`, `event_time_buffer.go`) -/
/-- `execution.WatermarkMaxValue = time.Unix(0, math.MaxInt64)` -/
def maxWm : Int := 9223372036854775807

abbrev Buckets := List (Int × List Rec)

/-- `AddRecord`: append to the bucket of this event time, creating it in key order -/
def etbAdd (t : Int) (r : Rec) : Buckets → Buckets
  | [] => [(t, [r])]
  | (u, rs) :: rest =>
    if t < u then (t, [r]) :: (u, rs) :: rest
    else if u < t then (u, rs) :: etbAdd t r rest
    else (u, rs ++ [r]) :: rest

/-- `Emit`: pop buckets while `!min.EventTime.After(watermark)` -/
def etbEmit (w : Int) : Buckets → List Rec × Buckets
  | [] => ([], [])
  | (u, rs) :: rest =>
    if u ≤ w then let r := etbEmit w rest; (rs ++ r.1, r.2) else ([], (u, rs) :: rest)

def etbOp : Op Buckets where
  init := []
  onMsg b m :=
    match m with
    | .data r =>
      match r.et with
      | none => (b, [.data r], none)
      | some t => (etbAdd t r b, [], none)
    | .wm w => let r := etbEmit w b; (r.2, r.1.map .data ++ [.wm w], none)
  onEnd b := ((etbEmit maxWm b).1.map .data, none)
  onFail _ e := propagate e

/-! ### group by -/
/-- the aggregates of one group taken together: `add` receives the evaluated aggregate inputs of
    one record (NULL handling and `AggregatedSetSize` are inside), `trig` yields the aggregate
    columns (`none` = `Trigger` panicked). -/
structure GAgg (α : Type) where
  init : α
  add : α → Bool → Row → α
  trig : α → Option Row

structure GItem (α : Type) where
  count : Int            -- OverallRecordCount
  st : α

/-- `aggregates.Get(key)`, or the fresh item that the callback creates -/
def gEntry (agg : GAgg α) (groups : List (Row × GItem α)) (key : Row) : Row × GItem α :=
  match aget groups key with
  | some p => p
  | none => (key, { count := 0, st := agg.init })

/-- the body of the `produce` callback after key and aggregate inputs have been evaluated -/
def gUpdate (agg : GAgg α) (groups : List (Row × GItem α)) (key : Row) (retr : Bool) (ins : Row) :
    List (Row × GItem α) :=
  let e0 := gEntry agg groups key
  let it : GItem α := { count := if retr then e0.2.count - 1 else e0.2.count + 1, st := agg.add e0.2.st retr ins }
  if it.count == 0 then aremove groups key else aput groups e0.1 it

def gRow (agg : GAgg α) (k : Row) (it : GItem α) : Option Row := (agg.trig it.st).map (k ++ ·)

/-- `aggregates.Each(...)` of SimpleGroupBy -/
def gFlush (agg : GAgg α) : List (Row × GItem α) → Option (List Msg)
  | [] => some []
  | (k, it) :: rest =>
    match gRow agg k it, gFlush agg rest with
    | some row, some ms => some (.data { vals := row, retr := false, et := none } :: ms)
    | _, _ => none

/-- SimpleGroupBy (`simple_group_by.go`) -/
def simpleGroupOp (agg : GAgg α) (keyF insF : Row → Except Err Row) : Op (List (Row × GItem α)) where
  init := []
  onMsg g m :=
    match m with
    | .wm t => (g, [.wm t], none)
    | .data r =>
      match keyF r.vals, insF r.vals with
      | .error e, _ => (g, [], some e)
      | .ok _, .error e => (g, [], some e)
      | .ok key, .ok ins => (gUpdate agg g key r.retr ins, [], none)
  onEnd g :=
    match gFlush agg g with
    | some ms => (ms, none)
    | none => ([], some .panic)
  onFail _ e := propagate e

/-- the EndOfStreamTrigger's key btree: sorted by `GroupKey.Less`, `ReplaceOrInsert` keeps the newest key -/
def keyInsert (k : Row) : List Row → List Row
  | [] => [k]
  | x :: xs =>
    if cmpList k x < 0 then k :: x :: xs
    else if cmpList x k < 0 then x :: keyInsert k xs
    else k :: xs

structure CtgbState (α : Type) where
  groups : List (Row × GItem α)
  keys : List Row

/-- event time of a row triggered at end of stream (`curEventTime = WatermarkMaxValue`) -/
def ctgbEventTime (etIdx : Option Nat) (row : Row) : Except Err (Option Int) :=
  match etIdx with
  | none => .ok (some maxWm)
  | some i =>
    match row[i]? with
    | none => .error .panic
    | some (.time ns _) => .ok (some (if maxWm > ns then ns else maxWm))
    | some _ => .ok none                       -- `.Time` of a non-time value is the zero time

def ctgbFlush (agg : GAgg α) (etIdx : Option Nat) (groups : List (Row × GItem α)) : List Row → Except Err (List Msg)
  | [] => .ok []
  | k :: ks =>
    match aget groups k with
    | none => ctgbFlush agg etIdx groups ks
    | some (_, it) =>
      match gRow agg k it with
      | none => .error .panic
      | some row =>
        match ctgbEventTime etIdx row, ctgbFlush agg etIdx groups ks with
        | .ok et, .ok ms => .ok (.data { vals := row, retr := false, et := et } :: ms)
        | .error e, _ => .error e
        | _, .error e => .error e

/-- CustomTriggerGroupBy with `EndOfStreamTrigger` (`custom_trigger_group_by.go`, `triggers.go`),
    without the EventTimeBuffer that its constructor puts in front (`ctgbNode` composes them). -/
def ctgbOp (agg : GAgg α) (keyF insF : Row → Except Err Row) (etIdx : Option Nat) : Op (CtgbState α) where
  init := { groups := [], keys := [] }
  onMsg s m :=
    match m with
    | .wm t => (s, [.wm t], none)
    | .data r =>
      match keyF r.vals, insF r.vals with
      | .error e, _ => (s, [], some e)
      | .ok _, .error e => (s, [], some e)
      | .ok key, .ok ins =>
        ({ groups := gUpdate agg s.groups key r.retr ins, keys := keyInsert key s.keys }, [], none)
  onEnd s :=
    match ctgbFlush agg etIdx s.groups s.keys with
    | .ok ms => (ms, none)
    | .error e => ([], some e)
  onFail _ e := propagate e

/-- feed the output of one node to the next one (the upstream's error, if any, arrives after its messages) -/
def feed (up : Out) (down : List Msg → Bool → Out) : Out := down up.1 up.2.isSome

def ctgbNode (agg : GAgg α) (keyF insF : Row → Except Err Row) (etIdx : Option Nat) (ms : List Msg) (fail : Bool) : Out :=
  feed (etbOp.run ms fail) (fun ms f => (ctgbOp agg keyF insF etIdx).run ms f)

/-! ### LookupJoin (`lookup_join.go`) -/
def lookupEmit (r : Rec) : Msg → Msg
  | .wm t => .wm t                                    -- the joined node is given `metaSend` too
  | .data j => .data { vals := r.vals ++ j.vals,
                       retr := (r.retr || j.retr) && !(r.retr && j.retr), et := r.et }

def lookupOp (joined : Row → Out) : Op Unit where
  init := ()
  onMsg s m :=
    match m with
    | .wm t => (s, [.wm t], none)
    | .data r => let j := joined r.vals; (s, j.1.map (lookupEmit r), j.2)
  onEnd _ := ([], none)
  onFail _ e := propagate e

/-! ### OrderSensitiveTransform (`order_sensitive_transform.go`, after the two `fix:` commits) and
    the batch printer (`live_output.go`): a btree of `(key, values, count)` items -/
structure SItem where
  key : Row
  vals : Row
  count : Int
  deriving Repr

/-- the key loop of `orderByItem.Less`: `some b` = decided at the first differing component -/
def lessKey : List Int → Row → Row → Option Bool
  | d :: ds, x :: xs, y :: ys =>
    let c := cmp x y
    if c != 0 then some (c * d == -1) else lessKey ds xs ys
  | _, _, _ => none

/-- the values loop of `Less` -/
def lessVals : Row → Row → Bool
  | x :: xs, y :: ys =>
    let c := cmp x y
    if c != 0 then c == -1 else lessVals xs ys
  | _, _ => false

def lessItem (dirs : List Int) (a b : SItem) : Bool :=
  match lessKey dirs a.key b.key with
  | some r => r
  | none => lessVals a.vals b.vals

/-- `Count++` / `Count--` -/
def delta (retr : Bool) : Int := if retr then -1 else 1

/-- Get + Count± + ReplaceOrInsert/Delete on the tree -/
def bump (less : SItem → SItem → Bool) (x : SItem) (retr : Bool) : List SItem → List SItem
  | [] => if retr then [] else [{ x with count := 1 }]
  | y :: ys =>
    if less x y then (if retr then y :: ys else { x with count := 1 } :: y :: ys)
    else if less y x then y :: bump less x retr ys
    else if y.count + delta retr > 0 then { y with count := y.count + delta retr } :: ys else ys

/-- count of the tree item equal to `x` (0 if absent) -/
def treeCount (less : SItem → SItem → Bool) (x : SItem) : List SItem → Int
  | [] => 0
  | y :: ys => if less x y then 0 else if less y x then treeCount less x ys else y.count

def itemRows (it : SItem) : List Row := List.replicate it.count.toNat it.vals
def treeRows (t : List SItem) : List Row := t.flatMap itemRows
def addRec (vals : Row) : Msg := .data { vals := vals, retr := false, et := none }

/-- stop after `n` rows; a negative `n` is never reached (`i == *o.limit` with `i ≥ 0`) -/
def takeOpt (limit : Option Int) (l : List β) : List β :=
  match limit with
  | none => l
  | some n => if n < 0 then l else l.take n.toNat

/-- `limit` here is the evaluated, positive limit (`orderNode` handles 0 and negative values) -/
def orderOp (dirs : List Int) (keyF : Row → Except Err Row) (limit : Option Int) (noRetr : Bool) : Op (List SItem) where
  init := []
  onMsg t m :=
    match m with
    | .wm _ => (t, [], none)                          -- watermarks are dropped
    | .data r =>
      match keyF r.vals with
      | .error e => (t, [], some e)
      | .ok key =>
        let t' := bump (lessItem dirs) { key := key, vals := r.vals, count := 0 } r.retr t
        let t'' := match limit with
          | some n => if noRetr && (t'.length : Int) > n then t'.dropLast else t'
          | none => t'
        (t'', [], none)
  onEnd t := ((takeOpt limit (treeRows t)).map addRec, none)
  onFail _ e := propagate e

def orderNode (dirs : List Int) (keyF : Row → Except Err Row) (limit : Option Int) (noRetr : Bool)
    (ms : List Msg) (fail : Bool) : Out :=
  match limit with
  | some n =>
    if n == 0 then ([], none)
    else if n < 0 then ([], some .runtime)
    else (orderOp dirs keyF limit noRetr).run ms fail
  | none => (orderOp dirs keyF none noRetr).run ms fail

/-- `OutputPrinter.Run` with `live = false`: the final table (as addition records), or a panic on
    "received retraction before value". The limit of the printer counts rows. -/
def printerOp (dirs : List Int) (keyF : Row → Except Err Row) (limit : Option Int) (noRetr : Bool) : Op (List SItem) where
  init := []
  onMsg t m :=
    match m with
    | .wm _ => (t, [], none)
    | .data r =>
      match keyF r.vals with
      | .error e => (t, [], some e)
      | .ok key =>
        let x : SItem := { key := key, vals := r.vals, count := 0 }
        if r.retr && treeCount (lessItem dirs) x t == 0 then (t, [], some .panic)
        else
          let t' := bump (lessItem dirs) x r.retr t
          let t'' := match limit with
            | some n => if noRetr && (t'.length : Int) > n then t'.dropLast else t'
            | none => t'
          (t'', [], none)
  onEnd t := ((takeOpt limit (treeRows t)).map addRec, none)
  onFail _ e := propagate e

end Octo.Ops
