import Octo.Model.Typing
import Octo.Gen.FuncTable
/-!
  Octo.Model.TypingTable — the function and aggregate environments of the typing model, built from the GENERATED tables
  (`Octo.Gen.FuncTable`, rewritten from /repo on every check).

  Everything in a descriptor is generated data except the `TypeFn` closures, which reflection cannot read.  They are
  modelled by hand (`TyFn`, `applyTyFn`, `tyFnOf`) and tied to the real closures by the generated probes:
  `Octo.C08.typeFn_probes_agree` proves (by `decide`) that the models answer every probe as the real closure did.
-/
namespace Octo.Tc
open Octo Octo.Ty Octo.Gen.FuncTable

/-- the shapes of `TypeFn` in `functions/functions.go` -/
inductive TyFn where
  /-- `< <= >= >`: two arguments of `Equals` types → Boolean -/
  | cmp
  /-- `len` of a List / Struct / Tuple: one argument with that TypeID → Int -/
  | lenOf (tid : Nat)
  /-- `[]`: (List, Int) → `TypeSum(Null, element)` (`Null` for the empty-list type) -/
  | index
  /-- `in`, `not in`: two arguments, the second with TypeID `tid` → Boolean -/
  | memberOf (tid : Nat)
  deriving Repr, DecidableEq

/-- outer `none` = the `TypeSum` model ran out of fuel; `some none` = `(_, false)` -/
def applyTyFn : TyFn → List Ty → Option (Option Ty)
  | .cmp, [a, b] => some (if a.equals b then some .bool else none)
  | .lenOf tid, [t] => some (if t.id = tid then some .int else none)
  | .index, [l, i] =>
    if l.id ≠ 7 then some none
    else if i.id ≠ 1 then some none
    else match l with
      | .list e => (typeSum .null e).map some
      | _ => some (some .null)
  | .memberOf tid, [_, c] => some (if c.id = tid then some .bool else none)
  | _, _ => some none

/-- which `TypeFn` the descriptor `(name, idx)` carries -/
def tyFnOf (name : List Nat) (idx : Nat) : Option TyFn :=
  if name = [60] ∨ name = [60, 61] ∨ name = [62, 61] ∨ name = [62] then (if idx = 0 then some .cmp else none)   -- < <= >= >
  else if name = [108, 101, 110] then                                                                            -- len
    (if idx = 1 then some (.lenOf 7) else if idx = 2 then some (.lenOf 8) else if idx = 3 then some (.lenOf 9) else none)
  else if name = [91, 93] then (if idx = 0 then some .index else none)                                            -- []
  else if name = [105, 110] ∨ name = [110, 111, 116, 32, 105, 110] then                                           -- in, not in
    (if idx = 0 then some (.memberOf 7) else if idx = 1 then some (.memberOf 9) else none)
  else none

/-- `TypeFn` of `array_agg`: `List<t>` -/
def aggTyFn (t : Ty) : Option Ty := some (.list t)

mutual
/-- syntactic equality of types (`Ty` is a nested inductive: no derived `DecidableEq`) -/
def tyBeq : Ty → Ty → Bool
  | .null, .null | .int, .int | .float, .float | .bool, .bool | .str, .str | .time, .time | .dur, .dur
  | .listNil, .listNil | .any, .any => true
  | .list a, .list b => tyBeq a b
  | .struct ns ts, .struct ns' ts' => ns == ns' && tyBeqList ts ts'
  | .tuple ts, .tuple ts' => tyBeqList ts ts'
  | .union ts, .union ts' => tyBeqList ts ts'
  | _, _ => false
def tyBeqList : List Ty → List Ty → Bool
  | [], [] => true
  | a :: as, b :: bs => tyBeq a b && tyBeqList as bs
  | _, _ => false
end

/-- does the hand-written model of the `TypeFn` of `(name, idx)` answer a probe as the real closure did? -/
def probeOk (p : Probe) : Bool :=
  match tyFnOf p.name p.idx with
  | some f =>
    (match applyTyFn f p.args, p.result with
     | some (some o), some r => tyBeq o r
     | some none, none => true
     | _, _ => false)
  | none => false

def aggProbeOk (p : AggProbe) : Bool :=
  match aggTyFn p.arg, p.result with
  | some o, some r => tyBeq o r
  | none, none => true
  | _, _ => false

/-- the descriptor of a generated entry -/
def descrOf (e : Entry) : Descr :=
  { args := e.args, out := e.out, strict := e.strict,
    typeFn := if e.hasTypeFn then
        some (match tyFnOf e.name e.idx with
          | some f => applyTyFn f
          | none => fun _ => some none)
      else none }

/-- `env.Functions[name].Descriptors` (the generated table lists the descriptors of a function in index order,
    `Octo.C08.table_indices`) -/
def descrsOf (name : List Nat) : List Descr := (table.filter (fun e => e.name = name)).map descrOf

/-- the function environment over the generated table, for given bodies -/
def sigOf (body : Name → Nat → List Value → Res) : Sig := { descrs := descrsOf, body := body }

def aggDescrOf (e : AggEntry) : AggDescr :=
  { arg := e.arg, out := e.out, typeFn := if e.hasTypeFn then some aggTyFn else none }

/-- `env.Aggregates[name].Descriptors` -/
def aggDescrsOf (name : List Nat) : List AggDescr := (aggTable.filter (fun e => e.name = name)).map aggDescrOf

end Octo.Tc
