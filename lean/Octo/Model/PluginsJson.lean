import Octo.Model.Plugins
/-!
  The two small JSON documents the plugin code keeps on disk, in the exact form `json.Marshal` writes them:

    file_extension_handlers.json   {"<ext>":"<plugin>",…}      (map[string]string, keys sorted bytewise)
    repositories/<slug>            {"url":"<url>"}

  Only strings without `"`, `\`, control characters, `<`, `>`, `&` and non-ASCII characters are covered (nothing
  needs escaping then). The decoder accepts exactly the canonical form; the real decoder accepts more (white
  space, escapes, `null`) — the generators never produce those, and every strict prefix of a canonical document
  is rejected by both.
  This file gives the concrete `handlersOk`/`repoEntryOk` of the driver and the content `registerFileExtensions`
  writes. The theorems of C27 treat them as parameters.
-/
namespace Octo.Plugins.Json
open Octo.Fs Octo.Plugins

def plainChar (c : Char) : Bool :=
  decide (c.toNat ≥ 32) && decide (c.toNat < 127) && c != '"' && c != '\\' && c != '<' && c != '>' && c != '&'

def bytesToChars (bs : Bytes) : List Char := bs.map (fun b => Char.ofNat b.toNat)
def charsToBytes (cs : List Char) : Bytes := cs.map (fun c => UInt8.ofNat c.toNat)

def encStr (s : FName) : List Char := '"' :: s ++ ['"']

def encPairs : List (FName × FName) → List Char
  | [] => []
  | [(k, v)] => encStr k ++ ':' :: encStr v
  | (k, v) :: rest => encStr k ++ ':' :: encStr v ++ ',' :: encPairs rest

def encodeHandlers (m : List (FName × FName)) : Bytes := charsToBytes ('{' :: encPairs m ++ ['}'])

/-- the characters of a string literal up to its closing quote -/
def takeStr : List Char → Option (FName × List Char)
  | [] => none
  | c :: rest =>
    if c = '"' then some ([], rest)
    else if plainChar c then
      match takeStr rest with
      | some (s, r) => some (c :: s, r)
      | none => none
    else none

def parseStr : List Char → Option (FName × List Char)
  | '"' :: rest => takeStr rest
  | _ => none

/-- `"k":"v"` ( `,` `"k":"v"` )* `}` end — fuel bounds the number of pairs -/
def parsePairs : Nat → List Char → Option (List (FName × FName))
  | 0, _ => none
  | fuel + 1, cs =>
    match parseStr cs with
    | none => none
    | some (k, r) =>
      match r with
      | ':' :: r =>
        match parseStr r with
        | none => none
        | some (v, r) =>
          match r with
          | ['}'] => some [(k, v)]
          | ',' :: r =>
            match parsePairs fuel r with
            | some rest => some ((k, v) :: rest)
            | none => none
          | _ => none
      | _ => none

def decodeHandlers (bs : Bytes) : Option (List (FName × FName)) :=
  match bytesToChars bs with
  | ['{', '}'] => some []
  | '{' :: rest => parsePairs (rest.length + 1) rest
  | _ => none

/-- handlers[ext] = name, keeping the keys sorted (json.Marshal sorts map keys) -/
def putKey (k v : FName) : List (FName × FName) → List (FName × FName)
  | [] => [(k, v)]
  | (k', v') :: rest =>
    if k = k' then (k, v) :: rest
    else if ltName k k' then (k, v) :: (k', v') :: rest
    else (k', v') :: putKey k v rest

/-- registerFileExtensions: the new content of the registry (`none`: the old one cannot be read) -/
def registerExtensions (fs : Fs) (plugin : FName) (exts : List FName) : Option Bytes :=
  let old : Option (List (FName × FName)) :=
    match get fs handlersFile with
    | none => some []
    | some .dir => none
    | some (.file c) => decodeHandlers c
  match old with
  | none => none
  | some m => some (encodeHandlers (exts.foldl (fun m e => putKey e plugin m) m))

def encodeRepoEntry (url : FName) : Bytes := charsToBytes (lit "{\"url\":" ++ encStr url ++ ['}'])

def decodeRepoEntry (bs : Bytes) : Option FName :=
  match stripPrefix? (lit "{\"url\":") (bytesToChars bs) with
  | none => none
  | some rest =>
    match parseStr rest with
    | some (u, ['}']) => some u
    | _ => none

end Octo.Plugins.Json
