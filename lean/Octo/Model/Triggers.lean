import Octo.Model.Value
import Octo.Model.TrigMap
/-!
  Octo.Model.Triggers — the trigger state machines of `execution/triggers.go`:
  `CountingTrigger`, `WatermarkTrigger`, `EndOfStreamTrigger`, `MultiTrigger`, with the four methods of the
  `Trigger` interface (`KeyReceived`, `WatermarkReceived`, `EndOfStreamReached`, `Poll`), and the trigger
  configurations of `physical/triggers.go` (`Trigger.Materialize`).

  * B-trees are `Octo.TMap` lists ordered by the `Less` the code supplies (`GroupKey.Less` =
    `CompareValueSlices`, `watermarkTriggerKey.Less`).
  * `watermarkTriggerKey.Less` is a parameter `wl` of every definition, so that the code as it was shipped
    (`wlessRaw`: `key.Time == than.Time` on the `time.Time` *struct*, i.e. instant **and** location pointer)
    and the repaired code (`wlessFixed`: `key.Time.Equal(than.Time)`) are instances of one model.
  * instants are integers (ns since the Unix epoch; Lean's `Int` is unbounded, so the zero `time.Time`
    — year 1, what `.Time` of a non-time value is — is the integer `zeroNs`).
  * `triggerAfter` is a `uint`; the model counts in `Nat` (assumption: fewer than 2^64 records per key, so
    `Count++` never wraps).
-/
namespace Octo.Trig
open Octo Octo.TMap

abbrev Key := List Value

/-- `execution.CompareValueSlices` (= `GroupKey.Less`): first differing position decides by
    `Compare == -1`, a proper prefix is smaller. -/
def keyLess : Key → Key → Bool
  | [], [] => false
  | [], _ :: _ => true
  | _ :: _, [] => false
  | x :: xs, y :: ys =>
    let c := cmp x y
    if c != 0 then c == -1 else keyLess xs ys

/-- group keys are the same group: pointwise `Compare == 0` -/
def keq (a b : Key) : Bool := cmpList a b == 0

/-- a `time.Time` as far as the engine can tell two of them apart: instant and location identity -/
structure TimeV where
  ns : Int
  loc : Nat
  deriving Repr, Inhabited

/-- the zero `time.Time` (January 1, year 1, 00:00 UTC) in ns relative to the Unix epoch -/
def zeroNs : Int := -62135596800000000000
def zeroTime : TimeV := ⟨zeroNs, 0⟩
/-- `execution.WatermarkMaxValue = time.Unix(0, math.MaxInt64)` -/
def maxNs : Int := 9223372036854775807

/-- the `.Time` field of a value (`octosql.Value` is a struct: for a non-time value the field is the zero time) -/
def timeOfValue : Value → TimeV
  | .time ns loc => ⟨ns, loc⟩
  | _ => zeroTime

/-- `key[idx].Time`.  The index is in range whenever this is reached: every caller checks `idxOk` first and
    reports the Go index-out-of-range panic explicitly. -/
def timeAt (idx : Nat) (key : Key) : TimeV :=
  match key[idx]? with
  | some v => timeOfValue v
  | none => zeroTime

/-- `watermarkTriggerKey` -/
structure WKey where
  t : TimeV
  key : Key
  deriving Repr, Inhabited

/-- `watermarkTriggerKey.Less` as shipped: `key.Time == than.Time` compares the structs. -/
def wlessRaw (a b : WKey) : Bool :=
  if a.t.ns == b.t.ns && a.t.loc == b.t.loc then keyLess a.key b.key else decide (a.t.ns < b.t.ns)

/-- `watermarkTriggerKey.Less` after `fix: compare watermark trigger key times by instant`:
    `key.Time.Equal(than.Time)`. -/
def wlessFixed (a b : WKey) : Bool :=
  if a.t.ns == b.t.ns then keyLess a.key b.key else decide (a.t.ns < b.t.ns)

/-- the three primitive triggers -/
inductive Leaf where
  /-- `CountingTrigger{triggerAfter, counts, endOfStreamReached, toTrigger}` -/
  | counting (n : Nat) (counts : List (Key × Nat)) (eos : Bool) (toTrigger : List Key)
  /-- `WatermarkTrigger{timeFieldKeyIndex, timeKeys, endOfStreamReached, watermark}` -/
  | watermark (idx : Nat) (timeKeys : List (WKey × Unit)) (eos : Bool) (wm : Int)
  /-- `EndOfStreamTrigger{keys, endOfStreamReached}` -/
  | eos (keys : List (Key × Unit)) (eos : Bool)
  deriving Repr, Inhabited

namespace Leaf
variable (wl : WKey → WKey → Bool)

/-- would `KeyReceived` on a key of this length index out of range? -/
def idxOk (len : Nat) : Leaf → Bool
  | .watermark idx _ _ _ => decide (idx < len)
  | _ => true

/-- `KeyReceived` -/
def keyReceived : Leaf → Key → Leaf
  | .counting n counts e tt, key =>
    -- `item == nil`: a fresh item {key, 0} is inserted; otherwise the stored item (with the stored GroupKey)
    let kc : Key × Nat := match find keyLess key counts with
      | none => (key, 0)
      | some kc => kc
    let c := kc.2 + 1                                   -- itemTyped.Count++
    if c == n then .counting n (erase keyLess kc.1 counts) e (tt ++ [kc.1])
    else .counting n (insert keyLess kc.1 c counts) e tt
  | .watermark idx tks e wm, key =>
    .watermark idx (insert wl ⟨timeAt idx key, key⟩ () tks) e wm
  | .eos keys e, key => .eos (insert keyLess key () keys) e

/-- `WatermarkReceived` -/
def watermarkReceived : Leaf → Int → Leaf
  | .watermark idx tks e _, w => .watermark idx tks e w
  | l, _ => l

/-- `EndOfStreamReached` -/
def endOfStream : Leaf → Leaf
  | .counting n counts _ tt => .counting n counts true tt
  | .watermark idx tks _ wm => .watermark idx tks true wm
  | .eos keys _ => .eos keys true

/-- `Poll`: the keys to fire now, and the state afterwards -/
def poll : Leaf → List Key × Leaf
  | .counting n counts e tt =>
    -- output := toTrigger; toTrigger = toTrigger[:0]; at end of stream append every remaining key (not deleted)
    (tt ++ (if e then keys counts else []), .counting n counts e [])
  | .watermark idx tks e wm =>
    let out : List Key :=
      if !e then ((tks.takeWhile fun x => !decide (x.1.t.ns > wm)).map fun x => x.1.key)   -- Ascend until Time.After(watermark)
      else tks.map fun x => x.1.key
    let tks' := out.foldl (fun m k => erase wl ⟨timeAt idx k, k⟩ m) tks
    (out, .watermark idx tks' e wm)
  | .eos ks e => (if e then keys ks else [], .eos ks e)

end Leaf

/-- what the group-by node tells its trigger while the source runs -/
inductive TEv where
  | key (k : Key)      -- a record (addition or retraction) of this group arrived
  | wm (w : Int)       -- a watermark arrived
  deriving Inhabited

namespace Leaf
variable (wl : WKey → WKey → Bool)
/-- the node calls `KeyReceived` / `WatermarkReceived` and then, at once, `Poll` -/
def stepEv (l : Leaf) : TEv → List Key × Leaf
  | .key k => (l.keyReceived wl k).poll wl
  | .wm w => (l.watermarkReceived w).poll wl
/-- state of a primitive trigger after the node processed the events -/
def drive (l : Leaf) : List TEv → Leaf
  | [] => l
  | e :: es => drive (l.stepEv wl e).2 es
end Leaf

/-- a trigger object: a primitive one or a `MultiTrigger` over trigger objects (any nesting) -/
inductive TState where
  | leaf (l : Leaf)
  | multi (ts : List TState)
  deriving Inhabited

namespace TState
variable (wl : WKey → WKey → Bool)

mutual
def idxOk (len : Nat) : TState → Bool
  | .leaf l => l.idxOk len
  | .multi ts => idxOkL len ts
def idxOkL (len : Nat) : List TState → Bool
  | [] => true
  | t :: ts => idxOk len t && idxOkL len ts
end

mutual
/-- `KeyReceived` (`MultiTrigger`: every member in order) -/
def keyReceived : TState → Key → TState
  | .leaf l, k => .leaf (l.keyReceived wl k)
  | .multi ts, k => .multi (keyReceivedL ts k)
def keyReceivedL : List TState → Key → List TState
  | [], _ => []
  | t :: ts, k => keyReceived t k :: keyReceivedL ts k
end

mutual
def watermarkReceived : TState → Int → TState
  | .leaf l, w => .leaf (l.watermarkReceived w)
  | .multi ts, w => .multi (watermarkReceivedL ts w)
def watermarkReceivedL : List TState → Int → List TState
  | [], _ => []
  | t :: ts, w => watermarkReceived t w :: watermarkReceivedL ts w
end

mutual
def endOfStream : TState → TState
  | .leaf l => .leaf l.endOfStream
  | .multi ts => .multi (endOfStreamL ts)
def endOfStreamL : List TState → List TState
  | [] => []
  | t :: ts => endOfStream t :: endOfStreamL ts
end

mutual
/-- `Poll` (`MultiTrigger`: the members' polls concatenated in order) -/
def poll : TState → List Key × TState
  | .leaf l => ((l.poll wl).1, .leaf (l.poll wl).2)
  | .multi ts => ((pollL ts).1, .multi (pollL ts).2)
def pollL : List TState → List Key × List TState
  | [] => ([], [])
  | t :: ts => ((poll t).1 ++ (pollL ts).1, (poll t).2 :: (pollL ts).2)
end

mutual
/-- the primitive triggers of a trigger object, in `Poll` order -/
def leaves : TState → List Leaf
  | .leaf l => [l]
  | .multi ts => leavesL ts
def leavesL : List TState → List Leaf
  | [] => []
  | t :: ts => leaves t ++ leavesL ts
end

end TState

/-- `physical.Trigger` -/
inductive TCfg where
  | counting (n : Nat)
  | watermark (idx : Nat)
  | eos
  | multi (ts : List TCfg)
  deriving Inhabited

namespace TCfg
mutual
/-- `physical.Trigger.Materialize` followed by calling the prototype -/
def init : TCfg → TState
  | .counting n => .leaf (.counting n [] false [])
  | .watermark idx => .leaf (.watermark idx [] false zeroNs)
  | .eos => .leaf (.eos [] false)
  | .multi ts => .multi (initL ts)
def initL : List TCfg → List TState
  | [] => []
  | t :: ts => init t :: initL ts
end

mutual
/-- the configuration contains at least one primitive trigger (an empty `MultiTrigger` never fires anything;
    the SQL layer cannot produce one: no TRIGGER clause means `EndOfStreamTrigger`) -/
def live : TCfg → Bool
  | .multi ts => liveL ts
  | _ => true
def liveL : List TCfg → Bool
  | [] => false
  | t :: ts => live t || liveL ts
end

mutual
/-- the configuration contains ON WATERMARK on key column `idx` -/
def hasWm (idx : Nat) : TCfg → Bool
  | .watermark i => i == idx
  | .multi ts => hasWmL idx ts
  | _ => false
def hasWmL (idx : Nat) : List TCfg → Bool
  | [] => false
  | t :: ts => hasWm idx t || hasWmL idx ts
end

mutual
/-- the configuration consists of ON WATERMARK (on key column `idx`) only -/
def onlyWm (idx : Nat) : TCfg → Bool
  | .watermark i => i == idx
  | .multi ts => onlyWmL idx ts
  | _ => false
def onlyWmL (idx : Nat) : List TCfg → Bool
  | [] => true
  | t :: ts => onlyWm idx t && onlyWmL idx ts
end
end TCfg

end Octo.Trig
