import Octo.Model.Value
/-!
  Octo.Model.Ty — the type universe of `octosql/types.go` (`octosql.Type`), data only.
  The algebra (`Is`, `TypeSum`, `TypeIntersection`, `NonNullable`, `Value.Type`) lives in
  `Octo.Model.TyAlgebra`.

  * a struct type is two parallel lists (field names, field types) — `[]StructField` in Go;
  * `List.Element == nil` (the type of the empty list literal) is the separate constructor `listNil`;
  * field names are byte lists (as `Nat`s) so that everything reduces in the kernel.
-/
namespace Octo

abbrev Name := List Nat

inductive Ty where
  | null | int | float | bool | str | time | dur
  | listNil
  | list (elem : Ty)
  | struct (names : List Name) (tys : List Ty)
  | tuple (elems : List Ty)
  | union (alts : List Ty)
  | any
  deriving Repr, Inhabited

namespace Ty
/-- `TypeID` (iota order of the const block in types.go) -/
def id : Ty → Nat
  | .null => 0 | .int => 1 | .float => 2 | .bool => 3 | .str => 4 | .time => 5 | .dur => 6
  | .listNil => 7 | .list _ => 7 | .struct _ _ => 8 | .tuple _ => 9 | .union _ => 10 | .any => 11

mutual
def size : Ty → Nat
  | .list e => 1 + size e
  | .struct _ ts => 1 + sizeList ts
  | .tuple ts => 1 + sizeList ts
  | .union ts => 1 + sizeList ts
  | _ => 1
def sizeList : List Ty → Nat
  | [] => 0
  | t :: ts => size t + sizeList ts
end
end Ty

/-- bytewise comparison of field names (Go's string `<`) -/
def cmpName : Name → Name → Int
  | [], [] => 0
  | [], _ :: _ => -1
  | _ :: _, [] => 1
  | x :: xs, y :: ys => if x < y then -1 else if x > y then 1 else cmpName xs ys

end Octo
