import Octo.Model.Tvf
/-!
  Octo.Model.TvfSpec — what property C21 *says* about `tumble`, `range` and `poll`, in the most naive form
  (core Lean only; executable, so the same definitions are the oracle `judge` applies to what the real code
  printed, and the right-hand sides of the theorems in `Octo.Props.C21`).
-/
namespace Octo.TvfSpec
open Octo Octo.Tvf

/-! ## tumble -/

/-- `[ws, we)` is *the* tumbling window of `t` for window length `len` and offset `off`:
    it contains `t`, has length `len`, and `ws − off` is a multiple of `len` counted from Go's zero time
    (the origin `Time.Truncate` documents). -/
def IsWindow (t len off ws we : Int) : Prop :=
  ws ≤ t ∧ t < we ∧ we - ws = len ∧ (ws - off - zeroUnix) % len = 0

instance (t len off ws we : Int) : Decidable (IsWindow t len off ws we) := by
  unfold IsWindow; infer_instance

/-- the documented relation between a source record and tumble's output record: other fields, the retraction
    flag and the event time unchanged; two time values appended that form the window of field `idx` -/
def TumbleRecOk (idx : Nat) (len off : Int) (r r' : Rec) : Prop :=
  r'.retr = r.retr ∧ r'.et = r.et ∧
  ∃ t loc ws we, r.vals[idx]? = some (.time t loc) ∧
    r'.vals = r.vals ++ [.time ws loc, .time we loc] ∧ IsWindow t len off ws we

/-- message-wise: watermarks pass unchanged, records are related by `TumbleRecOk` -/
def TumbleMsgOk (idx : Nat) (len off : Int) : Msg → Msg → Prop
  | .wm w, .wm w' => w' = w
  | .data r, .data r' => TumbleRecOk idx len off r r'
  | _, _ => False

/-- stream-wise: same length, same order, message-wise related -/
def TumbleOk (idx : Nat) (len off : Int) : List Msg → List Msg → Prop
  | [], [] => True
  | m :: ms, m' :: ms' => TumbleMsgOk idx len off m m' ∧ TumbleOk idx len off ms ms'
  | _, _ => False

/-! ## range -/

/-- the integers of `[s, e)` in ascending order -/
def rangeSpec (s e : Int) : List Int := (List.range (e - s).toNat).map fun (k : Nat) => s + (k : Int)

/-! ## poll -/

/-- the rows of a snapshot as poll reports them: the round's clock reading in front -/
def stamped (now : Int) (snap : List Msg) : List Rec :=
  (recs snap).map fun r => { vals := .time now 0 :: r.vals, retr := r.retr, et := etOf now }

/-- a snapshot message as round `now` reports it: a record gets the clock reading prepended, keeps its flag and gets
    the reading as event time; the source's own watermarks stay where they are -/
def bodyMsg (now : Int) : Msg → Msg
  | .data r => .data { vals := .time now 0 :: r.vals, retr := r.retr, et := etOf now }
  | .wm w => .wm w

/-- what a round emits for its own snapshot -/
def body (now : Int) (snap : List Msg) : List Msg := snap.map (bodyMsg now)

/-- the undo of a snapshot reported at `prev`, emitted at `now`: every reported record once, with the inverted flag
    (newest first) and the event time of the round that emits it -/
def undo (prev now : Int) (snap : List Msg) : List Msg :=
  ((stamped prev snap).reverse).map fun r => .data { vals := r.vals, retr := !r.retr, et := etOf now }

/-- the undo that opens round `k`: nothing in round 0, else the undo of snapshot `k − 1` -/
def undoBefore (clock : Nat → Int) (snaps : List (List Msg)) : Nat → List Msg
  | 0 => []
  | j + 1 => undo (clock j) (clock (j + 1)) (snaps.getD j [])

/-- round `k` over the snapshots `snaps` (a function of the *list* of snapshots, no state):
    undo of snapshot `k − 1`, snapshot `k`, watermark -/
def round (clock : Nat → Int) (snaps : List (List Msg)) (k : Nat) : List Msg :=
  undoBefore clock snaps k ++ body (clock k) (snaps.getD k []) ++ [.wm (clock k)]

/-- the first `n` rounds -/
def rounds (clock : Nat → Int) (snaps : List (List Msg)) (n : Nat) : List Msg :=
  (List.range n).flatMap (round clock snaps)

/-- relative to the last watermark `w` seen so far: every later record carries an event time strictly above it
    (no late data, property C18's notion) and watermarks strictly increase -/
def Timely : Option Int → List Msg → Prop
  | _, [] => True
  | w, .data r :: ms => (∀ W, w = some W → ∃ e, r.et = some e ∧ W < e) ∧ Timely w ms
  | w, .wm t :: ms => (∀ W, w = some W → W < t) ∧ Timely (some t) ms

end Octo.TvfSpec
