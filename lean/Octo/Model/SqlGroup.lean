import Octo.Model.Sql
import Octo.Model.Aggregates
import Octo.Model.TyAlgebra
import Octo.Gen.Aggregates
/-!
  Octo.Model.SqlGroup — the batch GROUP BY pipeline as the planner builds it, mirroring

  * `parser.ParseSelect`, `isGroupBy` branch: FROM → WHERE → GroupBy(key, aggregate expressions) → Map of the
    select list (variables naming key / aggregate columns) → DISTINCT → ORDER BY / LIMIT as for every block;
  * `logical/group_by.go` `GroupBy.Typecheck`: aggregate overload resolution over `aggregates.Aggregates`
    (the table is GENERATED: `Octo.Gen.Agg.table`), after `fix: aggregate overload resolution tests the
    non-nullable part of the argument type and asserts ArgumentType | NULL`;
  * `physical/expression.go` / `execution/expressions.go`: the `TypeAssertion` put around a "maybe" argument;
  * `execution/nodes/simple_group_by.go`: a hash map keyed by the key tuple (`Compare == 0` pointwise, found
    through `HashManyValues` — licensed by C09: equal values hash equally), per aggregate the
    `AggregatedSetSize` of non-NULL inputs, `Add` only for non-NULL inputs, `Trigger` only when that size is
    positive (NULL otherwise — also for COUNT), one output row `key ++ aggregates` per entry;
  * the aggregates themselves are C14's models (`Octo.Agg.mkAgg`), fed with the group's input history.

  The hash map is iterated in Go's hash order; the model lists the entries in first-insertion order and
  both sides of the correspondence canonicalise the row order where SQL leaves it open.

  `CustomTriggerGroupBy` (any `TRIGGER` clause other than a lone `ON END OF STREAM`) is `Octo.Trig.gbRun`
  (C16's model); its composition with this pipeline is in `Octo.Model.SqlGroupTrig`.
-/
namespace Octo.Grp
open Octo Octo.Sql

/-- an outcome of the engine: rows, a (typecheck or run-time) error, or a Go panic -/
inductive Res (α : Type) where
  | ok (a : α)
  | err
  | panic
  deriving Repr, Inhabited

def Res.ofOption : Option α → Res α
  | some a => .ok a
  | none => .err

def Res.bind (r : Res α) (f : α → Res β) : Res β :=
  match r with
  | .ok a => f a
  | .err => .err
  | .panic => .panic

/-! ### static types, as far as overload resolution needs them -/

def tyOfId : Nat → Ty
  | 0 => .null | 1 => .int | 2 => .float | 3 => .bool | 4 => .str | 5 => .time | 6 => .dur | _ => .any

def insertNat (x : Nat) : List Nat → List Nat
  | [] => [x]
  | y :: ys => if x < y then x :: y :: ys else if x = y then y :: ys else y :: insertNat x ys

/-- the `TypeID`s occurring in a column, ascending -/
def idsOf (cells : List Value) : List Nat := cells.foldr (fun v acc => insertNat v.rank acc) []

/-- the type the CSV / JSON schema inference gives a column of scalar cells (the `TypeSum` of the cells'
    types; the generators never mix Int and Float text in one CSV column, where the inference is ad hoc) -/
def colTy (cells : List Value) : Ty :=
  match idsOf cells with
  | [i] => tyOfId i
  | ids => .union (ids.map tyOfId)

def column (rows : List Row) (i : Nat) : List Value := rows.filterMap (·[i]?)

def tableTys (ncols : Nat) (rows : List Row) : List Ty := (List.range ncols).map fun i => colTy (column rows i)

/-- `Null.Is(t) == Is` -/
def nullableTy (t : Ty) : Bool := Ty.is .null t == .is

/-- `TypeSum(t, Null)` -/
def addNull (t : Ty) : Ty := (Ty.typeSum t .null).getD t

/-- the static type of an expression over columns of types `cols` (`Variable`, `Constant`, strict function
    calls: result nullable iff an argument is; `And`/`Or`/`IS NULL`) — exact on column references, which
    is where union types come from -/
def styOf (cols : List Ty) : SExpr → Option Ty
  | .col i => cols[i]?
  | .lit v => Value.typeOf v
  | .bin op a b =>
    match styOf cols a, styOf cols b with
    | some ta, some tb =>
      let base : Ty := match op with | .add => .int | .sub => .int | .mul => .int | _ => .bool
      some (if nullableTy ta || nullableTy tb then addNull base else base)
    | _, _ => none
  | .and a b =>
    match styOf cols a, styOf cols b with
    | some ta, some tb => some (if nullableTy ta || nullableTy tb then addNull .bool else .bool)
    | _, _ => none
  | .or a b =>
    match styOf cols a, styOf cols b with
    | some ta, some tb => some (if nullableTy ta || nullableTy tb then addNull .bool else .bool)
    | _, _ => none
  | .not a => (styOf cols a).map fun ta => if nullableTy ta then addNull .bool else .bool
  | .isNull a => (styOf cols a).map fun _ => .bool
  | .isNotNull a => (styOf cols a).map fun _ => .bool

def styAll (cols : List Ty) : List SExpr → Option (List Ty)
  | [] => some []
  | e :: es =>
    match styOf cols e, styAll cols es with
    | some t, some ts => some (t :: ts)
    | _, _ => none

/-- the schema of a (nested) single-source query -/
def queryTys (tbl : List Ty) : Query → Option (List Ty)
  | .table => some tbl
  | .sel src b =>
    match queryTys tbl src with
    | none => none
    | some ts =>
      match b.proj with
      | none => some ts
      | some es => styAll ts es

/-! ### aggregate overload resolution (`GroupBy.Typecheck`) -/

open Octo.Agg in
/-- the Go type `Prototype()` builds → C14's model of it -/
def protoKind (s : String) : Option Kind :=
  if s == "*aggregates.Count" then some .count
  else if s == "*aggregates.SumInt" then some .sumInt
  else if s == "*aggregates.SumFloat" then some .sumFloat
  else if s == "*aggregates.SumDuration" then some .sumDur
  else if s == "*aggregates.AverageInt" then some .avgInt
  else if s == "*aggregates.AverageFloat" then some .avgFloat
  else if s == "*aggregates.AverageDuration" then some .avgDur
  else if s == "*aggregates.Min" then some .min
  else if s == "*aggregates.Max" then some .max
  else if s == "*aggregates.Array" then some .array
  else none

def descKind (d : Gen.Agg.Desc) : Option (Agg.Kind × Bool) :=
  if d.proto == "*aggregates.Distinct" then (protoKind d.inner).map (·, true)
  else (protoKind d.proto).map (·, false)

/-- the zero `octosql.Type{}` of a TypeFn descriptor's `ArgumentType` has `TypeID` 0, i.e. it is `Null` -/
def Desc.argTy (d : Gen.Agg.Desc) : Ty := d.arg.getD .null

/-- first loop: a TypeFn descriptor accepts (the only TypeFn of the table, `t ↦ List t`, always does);
    otherwise the argument type must be `ArgumentType | NULL` -/
def firstPass (t : Ty) : List Gen.Agg.Desc → Option (Nat × Gen.Agg.Desc)
  | [] => none
  | d :: ds =>
    match d.arg with
    | none => some (0, d)
    | some a => if Ty.is t (addNull a) == .is then some (0, d)
                else (firstPass t ds).map fun p => (p.1 + 1, p.2)

/-- second loop (after the fix): the non-nullable part of the argument type *may* be the `ArgumentType` -/
def secondPass (t : Ty) : List Gen.Agg.Desc → Option (Nat × Gen.Agg.Desc)
  | [] => none
  | d :: ds =>
    if Ty.is (Ty.nonNullable t) (Desc.argTy d) == .maybe then some (0, d)
    else (secondPass t ds).map fun p => (p.1 + 1, p.2)

/-- second loop before the fix: `expressions[i].Type.Is(ArgumentType | NULL) == Maybe` -/
def secondPassRaw (t : Ty) : List Gen.Agg.Desc → Option (Nat × Gen.Agg.Desc)
  | [] => none
  | d :: ds =>
    if Ty.is t (addNull (Desc.argTy d)) == .maybe then some (0, d)
    else (secondPassRaw t ds).map fun p => (p.1 + 1, p.2)

/-- the `TypeID`s a `TypeAssertion` to `t` accepts (`physical.Expression.Materialize`) -/
def typeIds : Ty → List Nat
  | .union alts => alts.map Ty.id
  | t => [t.id]

/-- what Typecheck decided for one aggregate call -/
structure Choice where
  idx : Nat                          -- index of the chosen descriptor
  desc : Gen.Agg.Desc
  assertIds : Option (List Nat)      -- `some ids`: the argument is wrapped in a TypeAssertion accepting these TypeIDs

def resolve (descs : List Gen.Agg.Desc) (t : Ty) : Option Choice :=
  match firstPass t descs with
  | some (i, d) => some ⟨i, d, none⟩
  | none =>
    match secondPass t descs with
    | some (i, d) => some ⟨i, d, some (typeIds (addNull (Desc.argTy d)))⟩
    | none => none                   -- panic("unknown aggregate: …"), reported as a typecheck error

/-- the code before the fix: the assertion target is the bare `ArgumentType` -/
def resolveRaw (descs : List Gen.Agg.Desc) (t : Ty) : Option Choice :=
  match firstPass t descs with
  | some (i, d) => some ⟨i, d, none⟩
  | none =>
    match secondPassRaw t descs with
    | some (i, d) => some ⟨i, d, some (typeIds (Desc.argTy d))⟩
    | none => none

def lookupDescs (name : String) : Option (List Gen.Agg.Desc) :=
  (Gen.Agg.table.find? (·.1 == name)).map (·.2)

/-- `AGG(arg)` in the select list; `arg = none` is `*` -/
structure AggCall where
  name : String                      -- lower-cased SQL name, with `_distinct` appended for `AGG(DISTINCT …)`
  arg : Option SExpr
  deriving Repr, Inhabited

/-- `ParseAggregate`: `*` is the constant TRUE -/
def AggCall.expr (c : AggCall) : SExpr := c.arg.getD (.lit (.bool true))

/-- a physical aggregate: C14's model of the prototype, the argument expression, the optional assertion -/
structure PAgg where
  kind : Agg.Kind
  distinct : Bool
  arg : SExpr
  assertIds : Option (List Nat)

def typecheckAgg (cols : List Ty) (c : AggCall) : Option PAgg :=
  match lookupDescs c.name, styOf cols c.expr with
  | some descs, some t =>
    match resolve descs t with
    | some ch => (descKind ch.desc).map fun kd => ⟨kd.1, kd.2, c.expr, ch.assertIds⟩
    | none => none
  | _, _ => none

def typecheckAggs (cols : List Ty) : List AggCall → Option (List PAgg)
  | [] => some []
  | c :: cs =>
    match typecheckAgg cols c, typecheckAggs cols cs with
    | some p, some ps => some (p :: ps)
    | _, _ => none

/-! ### `SimpleGroupBy.Run` on batch input -/

/-- the aggregate argument on one record: the expression, then the `TypeAssertion` -/
def evalArg (row : Row) (p : PAgg) : Option Value :=
  match eval row p.arg with
  | none => none
  | some v =>
    match p.assertIds with
    | none => some v
    | some ids => if ids.contains v.rank then some v else none

def evalArgs (row : Row) : List PAgg → Option Row
  | [] => some []
  | p :: ps =>
    match evalArg row p, evalArgs row ps with
    | some v, some vs => some (v :: vs)
    | _, _ => none

/-- `hashmapAggregatesItem`; an aggregate's state is the list of values it was `Add`ed (all additions:
    the sources are files), `AggregatedSetSize[i]` is its length, `OverallRecordCount` is `count` -/
structure GItem where
  key : Row
  cells : List (List Value)
  count : Nat
  deriving Repr, Inhabited

/-- the loop over `aggregateExprs`: a NULL input is skipped -/
def addCells : List (List Value) → Row → List (List Value)
  | c :: cs, v :: vs => (if isNullV v then c else c ++ [v]) :: addCells cs vs
  | cs, _ => cs

/-- `make([]Aggregate, n)` / `make([]int, n)`: `n` fresh aggregates with empty sets -/
def emptyCells (n : Nat) : List (List Value) := List.replicate n []

/-- `aggregates.Get(key)` / `Put` of a fresh item / the updates; the stored key is the one that created the
    entry (`n` = number of aggregates) -/
def gUpd (n : Nat) (key ins : Row) : List GItem → List GItem
  | [] => [⟨key, addCells (emptyCells n) ins, 1⟩]
  | it :: rest =>
    if rowEq key it.key then { it with cells := addCells it.cells ins, count := it.count + 1 } :: rest
    else it :: gUpd n key ins rest

/-- the record handler over the whole input; `none` = a key / aggregate expression failed -/
def gFold (keys : List SExpr) (aggs : List PAgg) : List GItem → List Row → Option (List GItem)
  | st, [] => some st
  | st, r :: rs =>
    match evalAll r keys, evalArgs r aggs with
    | some k, some ins => gFold keys aggs (gUpd aggs.length k ins st) rs
    | _, _ => none

def histOf (xs : List Value) : Agg.Hist := xs.map fun v => (false, v)

/-- `Aggregates[i].Trigger()` after the group's `Add`s -/
def trigAgg (p : PAgg) (xs : List Value) : Agg.Out :=
  (Agg.mkAgg p.kind p.distinct).trigger ((Agg.mkAgg p.kind p.distinct).run (histOf xs)).1

/-- `if AggregatedSetSize[i] > 0 { Trigger() } else { NULL }` -/
def cellOut (p : PAgg) (xs : List Value) : Agg.Out :=
  if xs.length > 0 then trigAgg p xs else .val .null

def cellsOut : List PAgg → List (List Value) → Res Row
  | p :: ps, c :: cs =>
    match cellOut p c with
    | .panic => .panic
    | .val v => (cellsOut ps cs).bind fun vs => .ok (v :: vs)
  | _, _ => .ok []

def itemsOut (aggs : List PAgg) : List GItem → Res (List Row)
  | [] => .ok []
  | it :: rest =>
    (cellsOut aggs it.cells).bind fun vs => (itemsOut aggs rest).bind fun rows => .ok ((it.key ++ vs) :: rows)

/-- the GroupBy node: rows `key ++ aggregates`, one per entry -/
def groupNode (keys : List SExpr) (aggs : List PAgg) (rows : List Row) : Res (List Row) :=
  match gFold keys aggs [] rows with
  | none => .err
  | some items => itemsOut aggs items

/-! ### the query -/

/-- the `TRIGGER` clause -/
inductive Trig where
  | none                       -- no clause: SimpleGroupBy
  | eos                        -- ON END OF STREAM: SimpleGroupBy
  | counting (k : Nat)         -- COUNTING k: CustomTriggerGroupBy
  | countingEos (k : Nat)      -- COUNTING k, ON END OF STREAM: CustomTriggerGroupBy with a MultiTrigger
  deriving Repr, DecidableEq, Inhabited

def Trig.simple : Trig → Bool
  | .none => true | .eos => true | _ => false

structure GroupBlock where
  whr : Option SExpr
  keys : List SExpr
  aggs : List AggCall
  /-- the select list as indices into the node's output row `keys ++ aggregates` (the Map of variables) -/
  sel : List Nat
  distinct : Bool
  order : List (SExpr × Bool)
  limit : Option Nat
  trig : Trig
  deriving Repr, Inhabited

/-- select list / DISTINCT / ORDER BY / LIMIT of the grouping block, as an ordinary block over the node's output -/
def GroupBlock.post (g : GroupBlock) : Block :=
  { whr := none, proj := some (g.sel.map .col), distinct := g.distinct, order := g.order, limit := g.limit }

inductive GQuery where
  | group (src : Query) (g : GroupBlock)
  | sel (src : GQuery) (b : Block)
  deriving Repr, Inhabited

/-- `GroupBy.Typecheck` of the grouping block over a table whose columns have types `tys` (typechecking of the
    whole plan happens before anything runs; `none` is reported as a typecheck error) -/
def typecheckGroup (tys : List Ty) (src : Query) (g : GroupBlock) : Option (List PAgg) :=
  match queryTys tys src with
  | none => none
  | some cols => typecheckAggs cols g.aggs

def GQuery.typeOk (tys : List Ty) : GQuery → Bool
  | .group src g => (typecheckGroup tys src g).isSome
  | .sel src _ => src.typeOk tys

/-- FROM → WHERE → GroupBy for the grouping block -/
def groupCore (aggs : List PAgg) (src : Query) (g : GroupBlock) (t : List Row) : Res (List Row) :=
  (Res.ofOption (denoteNested src t)).bind fun r0 =>
  (Res.ofOption (whereStep g.whr r0)).bind fun r1 =>
  groupNode g.keys aggs r1

/-- `LIMIT 0`: the Limit node and OrderSensitiveTransform return before running their source, so nothing
    below them is evaluated (and no run-time error of theirs can surface) -/
def isLimit0 (l : Option Nat) : Bool := l == some 0

/-- some block of the grouping query has `LIMIT 0` -/
def GQuery.hasLimit0 : GQuery → Bool
  | .group _ g => isLimit0 g.limit
  | .sel src b => isLimit0 b.limit || src.hasLimit0

/-- nested position: ORDER BY / LIMIT become an OrderSensitiveTransform / a Limit node -/
def denoteGNested (tys : List Ty) : GQuery → List Row → Res (List Row)
  | .group src g, t =>
    match typecheckGroup tys src g with
    | none => .err
    | some aggs =>
      if isLimit0 g.limit then .ok [] else
      (groupCore aggs src g t).bind fun grouped =>
      (Res.ofOption (blockCore g.post grouped)).bind fun c => Res.ofOption (orderLimitEager g.post c)
  | .sel src b, t =>
    if isLimit0 b.limit then (if src.typeOk tys then .ok [] else .err) else
    (denoteGNested tys src t).bind fun r =>
    (Res.ofOption (blockCore b r)).bind fun c => Res.ofOption (orderLimitEager b c)

def sink (mode : Mode) (b : Block) (c : List Row) : Res (List Row) :=
  match mode with
  | .eager => Res.ofOption (orderLimitEager b c)
  | .table => Res.ofOption (tableSink b c)

/-- does the top-level sink put a node in front that returns at once (`LIMIT 0` handled by a Limit node or an
    OrderSensitiveTransform; the table printer itself always reads its source) -/
def skipsSource (mode : Mode) (b : Block) : Bool :=
  isLimit0 b.limit && (match mode with | .eager => true | .table => b.order.isEmpty)

/-- the whole engine on a grouping query whose grouping nodes are all SimpleGroupBy -/
def denoteG (mode : Mode) (tys : List Ty) : GQuery → List Row → Res (List Row)
  | .group src g, t =>
    match typecheckGroup tys src g with
    | none => .err
    | some aggs =>
      if skipsSource mode g.post then .ok [] else
      (groupCore aggs src g t).bind fun grouped =>
      (Res.ofOption (blockCore g.post grouped)).bind fun c => sink mode g.post c
  | .sel src b, t =>
    if skipsSource mode b then (if src.typeOk tys then .ok [] else .err) else
    (denoteGNested tys src t).bind fun r =>
    (Res.ofOption (blockCore b r)).bind fun c => sink mode b c

end Octo.Grp
