import Octo.Model.OpAggs
/-!
  Octo.Model.OpSpec — the *batch* reference semantics of the operators, on a consolidated input:
  a plain list of rows (a multiset; no retractions, no event times).  These are the right-hand
  sides of the `net_commutes` theorems of `Octo.Props.C15` and, being executable, the oracle that
  `octodrv judge C15` evaluates on what the real code printed.
-/
namespace Octo.Ops
open Octo

/-- multiplicity of `y` in a list of rows (rows identified by `Compare == 0`) -/
def cnt : List Row → Row → Int
  | [], _ => 0
  | x :: xs, y => (if rowEq x y then 1 else 0) + cnt xs y

def eraseRow (y : Row) : List Row → List Row
  | [] => []
  | x :: xs => if rowEq x y then xs else x :: eraseRow y xs

/-- one step of consolidation: an addition appends the row, a retraction removes one copy -/
def consStep (rows : List Row) (r : Rec) : List Row :=
  if r.retr then eraseRow r.vals rows else rows ++ [r.vals]

/-- the consolidated content of a changelog -/
def consolidate (log : List Rec) : List Row := log.foldl consStep []

/-- `rows` is a consolidation of `log`: same signed multiplicities -/
def Consolidates (rows : List Row) (log : List Rec) : Prop := ∀ y, net log y = cnt rows y

def isTrue : Value → Bool
  | .bool true => true
  | _ => false

/-! ### batch operators -/
def filterB (p : Row → Value) (rows : List Row) : List Row := rows.filter fun x => isTrue (p x)
def mapB (f : Row → Row) (rows : List Row) : List Row := rows.map f
/-- DISTINCT: indicator of positive multiplicity -/
def distinctSpec (rows : List Row) (y : Row) : Int := if cnt rows y > 0 then 1 else 0

def unnestRow (idx : Nat) (x : Row) : List Row :=
  match x[idx]? with
  | some (.list xs) => xs.map fun v => x.set idx v
  | _ => []
def unnestB (idx : Nat) (rows : List Row) : List Row := rows.flatMap (unnestRow idx)

/-- lookup join: every source row paired with the (consolidated) rows the joined side yields for it;
    stated with signed multiplicities because the joined side is itself a changelog -/
def lookupRecs (J : Row → List Rec) (x : Row) : List Rec :=
  (J x).map fun j => { vals := x ++ j.vals, retr := j.retr, et := none }
def lookupSpec (J : Row → List Rec) : List Row → Row → Int
  | [], _ => 0
  | x :: xs, y => net (lookupRecs J x) y + lookupSpec J xs y

/-- the distinct group keys, first occurrence first -/
def dedupRows : List Row → List Row
  | [] => []
  | x :: xs => x :: (dedupRows xs).filter fun y => !rowEq x y

/-- GROUP BY: one row per distinct key: the key followed by the aggregate columns computed from the
    aggregate inputs of the rows of that group -/
def groupB (aggSpec : List Row → Row) (keyF insF : Row → Row) (rows : List Row) : List Row :=
  (dedupRows (rows.map keyF)).map fun k => k ++ aggSpec ((rows.filter fun x => rowEq (keyF x) k).map insF)

/-- ORDER BY: insertion sort by the node's `Less` (stable) -/
def insertSorted (less : β → β → Bool) (x : β) : List β → List β
  | [] => [x]
  | y :: ys => if less x y then x :: y :: ys else y :: insertSorted less x ys
def sortB (less : β → β → Bool) (l : List β) : List β := l.foldr (insertSorted less) []

def lessRow (dirs : List Int) (keyF : Row → Row) (a b : Row) : Bool :=
  lessItem dirs { key := keyF a, vals := a, count := 0 } { key := keyF b, vals := b, count := 0 }

/-! ### reference aggregates on a list of aggregate-input tuples -/
def colOf (i : Nat) (l : List Row) : List Value := (l.filterMap (·[i]?)).filter (!isNull ·)

def maxOf : List Value → Option Value
  | [] => none
  | v :: vs => match maxOf vs with
    | none => some v
    | some m => if cmp m v == -1 then some v else some m

def aggSpec1 (k : AggKind) (col : List Value) : Value :=
  if col.isEmpty then .null
  else match k with
    | .count => .int col.length
    | .sum => .int ((col.map intOf).foldl (· + ·) 0)
    | .max => (maxOf col).getD .null

def compositeSpec (kinds : List AggKind) (l : List Row) : Row :=
  (List.range kinds.length).zipWith (fun i k => aggSpec1 k (colOf i l)) kinds

end Octo.Ops
