import Octo.Model.Value
/-!
  Octo.Model.Sql — the single-source SELECT pipeline as the engine executes it on batch
  (retraction-free) input, mirroring

  * `execution/expressions.go` (Variable, Constant, FunctionCall with null checks, And, Or),
    the comparison / arithmetic / `not` / `is [not] null` descriptors of `functions/functions.go`;
  * `execution/nodes/filter.go`, `map.go`, `distinct.go`, `limit.go`, `order_sensitive_transform.go`;
  * `outputs/batch/live_output.go` (the table printer's btree, pruning and limit);
  * the choice among them in `parser.ParseSelect` / `ParseNestedNode`, `physical/nodes.go`
    (materialisation of OrderSensitiveTransform) and the output switch of `cmd/root.go`.

  Rows are `List Value`; all sources are files, so `NoRetractions` is true along the whole plan.
-/
namespace Octo.Sql
open Octo

abbrev Row := List Value

/-- two's-complement wrap-around of Go's int64 arithmetic -/
def wrap64 (i : Int) : Int := (i + 2^63) % 2^64 - 2^63

inductive BinOp where
  | add | sub | mul | eq | ne | lt | le | gt | ge
  deriving Repr, DecidableEq, Inhabited

inductive SExpr where
  | col (i : Nat)
  | lit (v : Value)
  | bin (op : BinOp) (a b : SExpr)
  | and (a b : SExpr)
  | or (a b : SExpr)
  | not (a : SExpr)
  | isNull (a : SExpr)
  | isNotNull (a : SExpr)
  deriving Repr, Inhabited

def isNullV : Value → Bool
  | .null => true
  | _ => false

/-- a strict binary function on non-NULL arguments (`FunctionCall.Evaluate` has already returned NULL
    if an argument was NULL). `none` = the call could not have been typechecked / a runtime error. -/
def applyBin (op : BinOp) (a b : Value) : Option Value :=
  match op, a, b with
  | .add, .int x, .int y => some (.int (wrap64 (x + y)))
  | .sub, .int x, .int y => some (.int (wrap64 (x - y)))
  | .mul, .int x, .int y => some (.int (wrap64 (x * y)))
  | .eq, x, y => some (.bool (cmp x y == 0))            -- `Value.Equal` on non-NULL values
  | .ne, x, y => some (.bool (cmp x y != 0))
  | .lt, x, y => if x.rank = y.rank then some (.bool (cmp x y < 0)) else none
  | .le, x, y => if x.rank = y.rank then some (.bool (cmp x y ≤ 0)) else none
  | .gt, x, y => if x.rank = y.rank then some (.bool (cmp x y > 0)) else none
  | .ge, x, y => if x.rank = y.rank then some (.bool (cmp x y ≥ 0)) else none
  | _, _, _ => none

/-- `Expression.Evaluate` on one record. `none` is a runtime error. -/
def eval (row : Row) : SExpr → Option Value
  | .col i => row[i]?
  | .lit v => some v
  | .bin op a b =>
    match eval row a, eval row b with
    | some va, some vb => if isNullV va || isNullV vb then some .null else applyBin op va vb
    | _, _ => none
  | .and a b =>
    -- And.Evaluate over [a, b]: a non-NULL non-true value is returned at once
    match eval row a with
    | none => none
    | some (.bool false) => some (.bool false)
    | some va =>
      match eval row b with
      | none => none
      | some (.bool false) => some (.bool false)
      | some vb => if isNullV va || isNullV vb then some .null else some (.bool true)
  | .or a b =>
    match eval row a with
    | none => none
    | some (.bool true) => some (.bool true)
    | some va =>
      match eval row b with
      | none => none
      | some (.bool true) => some (.bool true)
      | some vb => if isNullV va || isNullV vb then some .null else some (.bool false)
  | .not a =>
    match eval row a with
    | some .null => some .null
    | some (.bool x) => some (.bool !x)
    | _ => none
  | .isNull a => (eval row a).map fun v => .bool (isNullV v)
  | .isNotNull a => (eval row a).map fun v => .bool (!isNullV v)

/-! ### nodes on batch input -/

/-- `nodes.Filter`: keeps a record iff the predicate is the Boolean TRUE -/
def filterOp (p : SExpr) : List Row → Option (List Row)
  | [] => some []
  | r :: rs =>
    match eval r p with
    | none => none
    | some v =>
      match filterOp p rs with
      | none => none
      | some out => some (match v with | .bool true => r :: out | _ => out)

def evalAll (row : Row) : List SExpr → Option Row
  | [] => some []
  | e :: es =>
    match eval row e, evalAll row es with
    | some v, some vs => some (v :: vs)
    | _, _ => none

/-- `nodes.Map` -/
def mapOp (es : List SExpr) : List Row → Option (List Row)
  | [] => some []
  | r :: rs =>
    match evalAll r es, mapOp es rs with
    | some v, some out => some (v :: out)
    | _, _ => none

def rowEq (a b : Row) : Bool := cmpList a b == 0

/-- `nodes.Distinct` on additions only: a record is produced when its count goes 0 → 1, i.e. the
    first occurrence of every row (rows identified by pointwise Compare). `seen` is the hashmap's key set. -/
def distinctGo (seen : List Row) : List Row → List Row
  | [] => []
  | r :: rs => if seen.any (rowEq r) then distinctGo seen rs else r :: distinctGo (r :: seen) rs

def distinctOp (rows : List Row) : List Row := distinctGo [] rows

/-- `nodes.Limit` (after `fix: LIMIT 0 …`): the first n records -/
def limitOp (n : Nat) (rows : List Row) : List Row := rows.take n

/-! #### the ordered multiset of `OrderSensitiveTransform` and of the table printer -/

structure Item where
  key : List Value
  vals : Row
  count : Nat
  deriving Repr, Inhabited

/-- `orderByItem.Less` / `outputItem.Less` as a three-way comparison: keys with direction
    multipliers first, then the record's values ascending. `Less a b` is `itemCmp … = -1`. -/
def keyCmp : List Int → List Value → List Value → Int
  | m :: ms, x :: xs, y :: ys =>
    let c := cmp x y
    if c != 0 then c * m else keyCmp ms xs ys
  | _, _, _ => 0

def itemCmp (mults : List Int) (a b : Item) : Int :=
  let c := keyCmp mults a.key b.key
  if c != 0 then c else cmpList a.vals b.vals

/-- `Get` + `ReplaceOrInsert` with `Count++`: the tree is a list sorted by `itemCmp`; an item that is
    neither less nor greater than an existing one is that item (its first-seen values are kept). -/
def insertItem (mults : List Int) (x : Item) : List Item → List Item
  | [] => [x]
  | y :: ys =>
    let c := itemCmp mults x y
    if c < 0 then x :: y :: ys
    else if c == 0 then { y with count := y.count + x.count } :: ys
    else y :: insertItem mults x ys

/-- `DeleteMax` when `Len() > limit` (only with a limit and `noRetractionsPossible`) -/
def prune (limit : Option Nat) (t : List Item) : List Item :=
  match limit with
  | some n => if t.length > n then t.dropLast else t
  | none => t

def flatten : List Item → List Row
  | [] => []
  | it :: rest => List.replicate it.count it.vals ++ flatten rest

/-- build the tree from the records in arrival order -/
def buildTree (mults : List Int) (limit : Option Nat) (keys : List SExpr) : List Item → List Row → Option (List Item)
  | t, [] => some t
  | t, r :: rs =>
    match evalAll r keys with
    | none => none
    | some k => buildTree mults limit keys (prune limit (insertItem mults ⟨k, r, 1⟩ t)) rs

/-- `produceOrderByItems` (after `fix: … counts duplicate rows individually`) and the table printer's
    final loop: ascend, every copy counts against the limit -/
def emit (limit : Option Nat) (t : List Item) : List Row :=
  match limit with
  | some n => (flatten t).take n
  | none => flatten t

/-- `OrderSensitiveTransform.Run` on batch input; `LIMIT 0` returns at once -/
def ostOp (keys : List (SExpr × Bool)) (limit : Option Nat) (rows : List Row) : Option (List Row) :=
  if limit = some 0 then some [] else
  let mults := keys.map fun k => if k.2 then (-1 : Int) else 1
  (buildTree mults limit (keys.map (·.1)) [] rows).map (emit limit)

/-- `batch.OutputPrinter.Run`: same tree, no early return for 0 -/
def printerOp (keys : List (SExpr × Bool)) (limit : Option Nat) (rows : List Row) : Option (List Row) :=
  let mults := keys.map fun k => if k.2 then (-1 : Int) else 1
  (buildTree mults limit (keys.map (·.1)) [] rows).map (emit limit)

/-! ### queries and plans -/

structure Block where
  whr : Option SExpr
  proj : Option (List SExpr)          -- none: `SELECT *`
  distinct : Bool
  order : List (SExpr × Bool)         -- over the block's output columns; true = DESC
  limit : Option Nat
  deriving Repr, Inhabited

inductive Query where
  | table
  | sel (src : Query) (b : Block)
  deriving Repr, Inhabited

def whereStep (w : Option SExpr) (rows : List Row) : Option (List Row) :=
  match w with
  | some p => filterOp p rows
  | none => some rows

def projStep (es : Option (List SExpr)) (rows : List Row) : Option (List Row) :=
  match es with
  | some es => mapOp es rows
  | none => some rows

/-- FROM → WHERE → SELECT list → DISTINCT, as `ParseSelect` stacks the logical nodes -/
def blockCore (b : Block) (rows : List Row) : Option (List Row) :=
  match whereStep b.whr rows with
  | none => none
  | some r1 =>
    match projStep b.proj r1 with
    | none => none
    | some r2 => some (if b.distinct then distinctOp r2 else r2)

/-- ORDER BY / LIMIT of a nested block or of an eager top-level sink (`physical/nodes.go`,
    csv/json/stream_native arm of `cmd/root.go`), `NoRetractions = true`:
    OrderSensitiveTransform iff ORDER BY is present, else Limit iff LIMIT is present. -/
def orderLimitEager (b : Block) (rows : List Row) : Option (List Row) :=
  if b.order ≠ [] then ostOp b.order b.limit rows
  else match b.limit with
    | some n => if n = 0 then some [] else some (limitOp n rows)
    | none => some rows

def denoteNested : Query → List Row → Option (List Row)
  | .table, t => some t
  | .sel src b, t =>
    match denoteNested src t with
    | none => none
    | some r =>
      match blockCore b r with
      | none => none
      | some c => orderLimitEager b c

inductive Mode where
  | eager      -- csv, json, stream_native
  | table      -- batch_table, live_table
  deriving Repr, DecidableEq, Inhabited

/-- table sinks: a Limit node in front iff (LIMIT ∧ no ORDER BY ∧ NoRetractions); then the printer sorts and limits -/
def tableSink (b : Block) (c : List Row) : Option (List Row) :=
  printerOp b.order b.limit
    (match b.limit with
     | some n => if b.order = [] then (if n = 0 then [] else limitOp n c) else c
     | none => c)

/-- the whole engine on a query, by output mode -/
def denote (mode : Mode) : Query → List Row → Option (List Row)
  | .table, t =>
    match mode with
    | .eager => some t
    | .table => printerOp [] none t
  | .sel src b, t =>
    match denoteNested src t with
    | none => none
    | some r =>
      match blockCore b r with
      | none => none
      | some c =>
        match mode with
        | .eager => orderLimitEager b c
        | .table => tableSink b c

end Octo.Sql
