/-
  Octo.Model.Utf8 — Go's UTF-8 decoding and encoding as the language applies them to strings:
  `for _, r := range s`, `[]rune(s)`, `string([]rune)`, `strings.Builder.WriteRune`.

  Mirrors `unicode/utf8` (`DecodeRuneInString`, `AppendRune`): the `first` table joined with
  `acceptRanges` is `lead`; every byte that does not start a well-formed sequence decodes to
  U+FFFD with width 1; surrogates and runes above U+10FFFF encode as U+FFFD.
  Strings are byte lists (`List UInt8`), runes are natural numbers.
-/
namespace Octo.Utf8

abbrev Bytes := List UInt8
/-- runes are natural numbers (a notation, not a definition, so that `omega`/`simp` see `Nat` literals) -/
scoped notation "Rune" => Nat

/-- `utf8.RuneError` -/
def runeError : Rune := 0xFFFD

/-- `first[p0]` joined with `acceptRanges[first[p0]>>4]` for a non-ASCII lead byte:
    `none` = `xx` (invalid lead byte), `some (size, lo, hi)` = sequence length and the accepted
    range of the *second* byte (s1…s7 of `unicode/utf8`). -/
def lead (p0 : Nat) : Option (Nat × Nat × Nat) :=
  if p0 < 0xC2 then none                          -- 0x80–0xC1: xx
  else if p0 < 0xE0 then some (2, 0x80, 0xBF)     -- s1
  else if p0 = 0xE0 then some (3, 0xA0, 0xBF)     -- s2
  else if p0 = 0xED then some (3, 0x80, 0x9F)     -- s4
  else if p0 < 0xF0 then some (3, 0x80, 0xBF)     -- s3
  else if p0 = 0xF0 then some (4, 0x90, 0xBF)     -- s5
  else if p0 < 0xF4 then some (4, 0x80, 0xBF)     -- s6
  else if p0 = 0xF4 then some (4, 0x80, 0x8F)     -- s7
  else none                                       -- 0xF5–0xFF: xx

/-- continuation byte `locb ≤ b ≤ hicb` -/
def isCont (b : Nat) : Bool := decide (0x80 ≤ b ∧ b ≤ 0xBF)

/-- `utf8.DecodeRuneInString`: the first rune of `s` and its width in bytes (0 only for `""`). -/
def decodeRune : Bytes → Rune × Nat
  | [] => (runeError, 0)
  | b0 :: rest =>
    let p0 := b0.toNat
    if p0 < 0x80 then (p0, 1)
    else match lead p0 with
      | none => (runeError, 1)
      | some (sz, lo, hi) =>
        match rest with
        | [] => (runeError, 1)
        | b1 :: rest1 =>
          let p1 := b1.toNat
          if p1 < lo ∨ hi < p1 then (runeError, 1)
          else if sz ≤ 2 then ((p0 % 32) * 64 + p1 % 64, 2)
          else match rest1 with
            | [] => (runeError, 1)
            | b2 :: rest2 =>
              let p2 := b2.toNat
              if !isCont p2 then (runeError, 1)
              else if sz ≤ 3 then ((p0 % 16) * 4096 + (p1 % 64) * 64 + p2 % 64, 3)
              else match rest2 with
                | [] => (runeError, 1)
                | b3 :: _ =>
                  let p3 := b3.toNat
                  if !isCont p3 then (runeError, 1)
                  else ((p0 % 8) * 262144 + (p1 % 64) * 4096 + (p2 % 64) * 64 + p3 % 64, 4)

/-- The rune sequence of a string as `range s` / `[]rune(s)` produce it.
    `skip` counts the continuation bytes of the current rune that are still to be passed over
    (structural recursion on the byte list; `decodeAll s = decodeSkip 0 s`). -/
def decodeSkip : Nat → Bytes → List Rune
  | _, [] => []
  | k + 1, _ :: rest => decodeSkip k rest
  | 0, b :: rest => (decodeRune (b :: rest)).1 :: decodeSkip ((decodeRune (b :: rest)).2 - 1) rest

def decodeAll (s : Bytes) : List Rune := decodeSkip 0 s

/-- The byte offsets at which `range s` yields its runes (the `i` of `for i, r := range s`). -/
def offsetsSkip : Nat → Nat → Bytes → List Nat
  | _, _, [] => []
  | k + 1, i, _ :: rest => offsetsSkip k (i + 1) rest
  | 0, i, b :: rest => i :: offsetsSkip ((decodeRune (b :: rest)).2 - 1) (i + 1) rest

/-- Unicode scalar value: what a rune must be for `AppendRune` not to substitute U+FFFD. -/
def validRune (r : Rune) : Bool := decide (r < 0xD800 ∨ (0xE000 ≤ r ∧ r < 0x110000))

/-- `utf8.AppendRune` / `WriteRune` / one element of `string([]rune)` (runes are non-negative here). -/
def encodeRune (r : Rune) : Bytes :=
  if r < 0x80 then [UInt8.ofNat r]
  else if r < 0x800 then [UInt8.ofNat (0xC0 + r / 64), UInt8.ofNat (0x80 + r % 64)]
  else if (0xD800 ≤ r ∧ r < 0xE000) ∨ 0x10FFFF < r then [0xEF, 0xBF, 0xBD]
  else if r < 0x10000 then
    [UInt8.ofNat (0xE0 + r / 4096), UInt8.ofNat (0x80 + r / 64 % 64), UInt8.ofNat (0x80 + r % 64)]
  else
    [UInt8.ofNat (0xF0 + r / 262144), UInt8.ofNat (0x80 + r / 4096 % 64),
     UInt8.ofNat (0x80 + r / 64 % 64), UInt8.ofNat (0x80 + r % 64)]

def encodeAll (rs : List Rune) : Bytes := rs.flatMap encodeRune

/-- `utf8.ValidString`, stated through the codec: `s` is exactly the encoding of the runes it decodes
    to (so no byte was replaced by U+FFFD and no sequence was overlong). -/
def validUtf8 (s : Bytes) : Bool := encodeAll (decodeAll s) == s

end Octo.Utf8
