/-!
  A small model of the part of the operating system's file system that `octosql plugin install`,
  `octosql plugin repository add` and the start-up code touch (C27, C28).

  `Fs` is a finite map from paths to nodes, written as an association list in which the FIRST entry
  for a path is the one that counts (`set` just conses; `erase`/`removeAll` filter every entry away).
  Primitive steps mirror the system calls the Go code makes:

    os.RemoveAll  → removeAll      os.MkdirAll → mkdirAll      os.Create   → create (truncate)
    Write/io.Copy → append bytes   os.Remove   → remove        os.Rename   → rename (atomic)
    os.Stat+Rename→ renameIfExists os.ReadDir  → readDir (sorted by name)

  Where the system call fails the primitive returns `.error`; a sequence of primitives (`run`) stops at the
  first failing one and keeps the state reached so far — exactly what `Install` does when it returns early.
  A crash is a prefix of the sequence, the last `append` possibly cut short (`crashPrims`).
  Atomicity assumptions (trusted, POSIX): `rename` is atomic; a write is not (any prefix may be on disk).
-/
namespace Octo.Fs

abbrev FName := List Char
abbrev Path := List FName
abbrev Bytes := List UInt8

inductive Node where
  | dir
  | file (c : Bytes)
  deriving DecidableEq, Repr, Inhabited

abbrev Fs := List (Path × Node)

inductive FsErr where
  | notExist | notDir | isDir | exist | notEmpty | invalid
  deriving DecidableEq, Repr

/-- first entry wins -/
def get : Fs → Path → Option Node
  | [], _ => none
  | (q, n) :: rest, p => if q = p then some n else get rest p

def set (p : Path) (n : Node) (fs : Fs) : Fs := (p, n) :: fs

def erase (p : Path) (fs : Fs) : Fs := fs.filter (fun e => !decide (e.1 = p))

/-- `p` is a prefix of `q` (component-wise): `q` is `p` itself or lies below it -/
def isPre (p q : Path) : Bool := p.isPrefixOf q

/-- os.RemoveAll: the whole subtree goes; a missing path is not an error -/
def removeAll (p : Path) (fs : Fs) : Fs := fs.filter (fun e => !isPre p e.1)

/-- the parent directory of `p` exists (the root always does) -/
def parentIsDir (fs : Fs) (p : Path) : Bool :=
  match p.dropLast with
  | [] => true
  | pp => decide (get fs pp = some .dir)

/-- os.MkdirAll, walking down from the root: `pre` is what has been visited already -/
def mkdirFrom (pre : Path) : Path → Fs → Except FsErr Fs
  | [], fs => .ok fs
  | x :: rest, fs =>
    match get fs (pre ++ [x]) with
    | some (.file _) => .error .notDir
    | some .dir => mkdirFrom (pre ++ [x]) rest fs
    | none => mkdirFrom (pre ++ [x]) rest (set (pre ++ [x]) .dir fs)

def mkdirAll (p : Path) (fs : Fs) : Except FsErr Fs := mkdirFrom [] p fs

/-- os.Create: O_CREATE|O_TRUNC -/
def create (p : Path) (fs : Fs) : Except FsErr Fs :=
  if !parentIsDir fs p then .error .notExist
  else match get fs p with
    | some .dir => .error .isDir
    | _ => .ok (set p (.file []) fs)

/-- a write at the end of an open file -/
def append (p : Path) (bs : Bytes) (fs : Fs) : Except FsErr Fs :=
  match get fs p with
  | some (.file c) => .ok (set p (.file (c ++ bs)) fs)
  | some .dir => .error .isDir
  | none => .error .notExist

def hasChildren (fs : Fs) (p : Path) : Bool := fs.any (fun e => isPre p e.1 && !decide (e.1 = p))

/-- os.Remove: a file or an empty directory -/
def remove (p : Path) (fs : Fs) : Except FsErr Fs :=
  match get fs p with
  | none => .error .notExist
  | some (.file _) => .ok (erase p fs)
  | some .dir => if hasChildren fs p then .error .notEmpty else .ok (erase p fs)

def reroot (a b : Path) (e : Path × Node) : Path × Node :=
  if isPre a e.1 then (b ++ e.1.drop a.length, e.2) else e

/-- os.Rename. A file replaces a file; a directory moves with everything below it and needs the target to be
    absent (the real call also accepts an empty target directory; the modelled callers never rely on that). -/
def rename (a b : Path) (fs : Fs) : Except FsErr Fs :=
  if isPre a b || isPre b a then .error .invalid
  else if !parentIsDir fs b then .error .notExist
  else match get fs a with
    | none => .error .notExist
    | some (.file c) =>
      match get fs b with
      | some .dir => .error .isDir
      | _ => .ok (set b (.file c) (erase a fs))
    | some .dir =>
      if fs.any (fun e => isPre b e.1) then .error .exist
      else .ok (fs.map (reroot a b))

/-- `if _, err := os.Stat(a); err == nil { os.Rename(a, b) }` -/
def renameIfExists (a b : Path) (fs : Fs) : Except FsErr Fs :=
  match get fs a with
  | none => .ok fs
  | some _ => rename a b fs

inductive Prim where
  | removeAll (p : Path)
  | mkdirAll (p : Path)
  | create (p : Path)
  | append (p : Path) (bs : Bytes)
  | remove (p : Path)
  | rename (a b : Path)
  | renameIfExists (a b : Path)
  deriving DecidableEq, Repr

def Prim.apply : Prim → Fs → Except FsErr Fs
  | .removeAll p, fs => .ok (Octo.Fs.removeAll p fs)
  | .mkdirAll p, fs => Octo.Fs.mkdirAll p fs
  | .create p, fs => Octo.Fs.create p fs
  | .append p bs, fs => Octo.Fs.append p bs fs
  | .remove p, fs => Octo.Fs.remove p fs
  | .rename a b, fs => Octo.Fs.rename a b fs
  | .renameIfExists a b, fs => Octo.Fs.renameIfExists a b fs

/-- run the steps in order; the first failing step ends the run (the caller returns its error) -/
def run : List Prim → Fs → Fs
  | [], fs => fs
  | p :: ps, fs =>
    match p.apply fs with
    | .ok fs' => run ps fs'
    | .error _ => fs

/-- only a write can be torn: any prefix of its bytes may have reached the file -/
def tearPrim (t : Nat) : Prim → List Prim
  | .append p bs => [.append p (bs.take t)]
  | _ => []

/-- killed after `k` complete steps, step `k` (if it is a write) cut after `t` bytes -/
def crashPrims (k t : Nat) (prims : List Prim) : List Prim :=
  prims.take k ++ (match prims[k]? with | some p => tearPrim t p | none => [])

def crash (k t : Nat) (prims : List Prim) (fs : Fs) : Fs := run (crashPrims k t prims) fs

/-! ### reading -/

/-- bytewise order of names (the order os.ReadDir returns entries in; UTF-8 preserves code point order) -/
def ltName : FName → FName → Bool
  | [], [] => false
  | [], _ :: _ => true
  | _ :: _, [] => false
  | a :: as, b :: bs => if a.toNat < b.toNat then true else if a.toNat = b.toNat then ltName as bs else false

def sinsert (x : FName) : List FName → List FName
  | [] => [x]
  | y :: ys => if x = y then y :: ys else if ltName x y then x :: y :: ys else y :: sinsert x ys

def childName? (p q : Path) : Option FName :=
  if isPre p q then
    match q.drop p.length with
    | [x] => some x
    | _ => none
  else none

/-- names of the entries directly below `p`, sorted, without repetition -/
def children (fs : Fs) (p : Path) : List FName :=
  (fs.filterMap (fun e => childName? p e.1)).foldr sinsert []

/-- os.ReadDir -/
def readDir (fs : Fs) (p : Path) : Except FsErr (List FName) :=
  match get fs p with
  | none => .error .notExist
  | some (.file _) => .error .notDir
  | some .dir => .ok (children fs p)

/-! ### canonical listing of a whole tree (for the correspondence run) -/

def ltPath : Path → Path → Bool
  | [], [] => false
  | [], _ :: _ => true
  | _ :: _, [] => false
  | a :: as, b :: bs => if ltName a b then true else if a = b then ltPath as bs else false

def pinsert (x : Path × Node) : List (Path × Node) → List (Path × Node)
  | [] => [x]
  | y :: ys => if x.1 = y.1 then y :: ys else if ltPath x.1 y.1 then x :: y :: ys else y :: pinsert x ys

/-- every path once (the entry that counts), sorted by path -/
def dump (fs : Fs) : List (Path × Node) :=
  fs.foldr (fun e acc => pinsert e (acc.filter (fun y => !decide (y.1 = e.1)))) []

end Octo.Fs
