import Octo.Model.SqlParse
/-!
# Which trees come out of the parser (C30)

`okS` (with `okE`, `okT`, …) is the decidable predicate "precedence respecting and well formed" that characterises the
trees the parser builds (`FromParser` of DESIGN §3 C30): an operand whose operator binds looser than the context
allows must be wrapped in a `paren` node, identifiers are non-empty, the right operand of an inner join is a table
factor, `-`/`+` never sit on an integer literal (the grammar folds them), names printed unquoted lex back to themselves, …
`Expr.lvl` is the precedence level of a node (the level of the grammar rule that builds it), `depthE/T/S` the nesting
depth through constructs that the parser enters recursively (parentheses, argument lists, subqueries, …), `sizeE/T/S`
a size measure for induction.  Core Lean only.
-/
namespace Octo.SqlSyn

def BinOp.lvl : BinOp → Nat
  | .bitOr => 6 | .bitAnd => 7 | .shl => 8 | .shr => 8 | .plus => 9 | .minus => 9
  | .mult => 10 | .div => 10 | .intDiv => 10 | .mod => 10 | .bitXor => 11

/-- precedence level: 1 OR, 2 AND, 3 NOT, 4 IS, 5 comparison/EXISTS, 6–11 binary operators, 12 unary (and negative
    literals), 13 postfix, 14 atoms; 0 for nodes that are not expressions -/
def Expr.lvl : Expr → Nat
  | .or _ _ => 1 | .and _ _ => 2 | .not _ => 3 | .is _ _ => 4 | .cmp _ _ _ => 5 | .exists_ _ => 5
  | .bin op _ _ => op.lvl
  | .un _ _ => 12
  | .val _ true _ => 12
  | .field _ _ => 13 | .index _ _ => 13
  | .val _ false _ => 14 | .null => 14 | .bool _ => 14 | .col _ _ _ => 14 | .tuple _ => 14 | .subq _ => 14
  | .paren _ => 14 | .interval _ _ => 14 | .func _ _ _ _ => 14 | .convert _ _ => 14
  | .star _ _ => 0 | .aliased _ _ => 0 | .explode _ => 0
  | .trigCount _ => 0 | .trigWm => 0 | .trigEos => 0 | .trigDelay _ => 0 | .order _ _ => 0

def Expr.isIntLit : Expr → Bool
  | .val .int _ _ => true
  | _ => false

/-- `table_reference` nodes (as opposed to table valued function arguments) -/
def Tbl.isRef : Tbl → Bool
  | .table _ _ _ => true | .sub _ _ => true | .paren _ => true | .join _ _ _ _ _ _ => true | .tvf _ _ _ => true
  | _ => false
/-- `table_factor` nodes -/
def Tbl.isFactor : Tbl → Bool
  | .table _ _ _ => true | .sub _ _ => true | .paren _ => true | .tvf _ _ _ => true
  | _ => false
/-- an inner join without ON/USING: printed before an ON it would capture that ON (dangling ON) -/
def Tbl.isOpenInnerJoin : Tbl → Bool
  | .join _ _ .join _ none [] => true
  | _ => false
/-- `select_statement` nodes (as opposed to WITH list elements) -/
def Sel.isStmt : Sel → Bool
  | .select .. => true | .with_ _ _ => true | .cte _ _ => false

def okConvTy : ConvTy → Bool
  | .simple n => rawOK n
  | _ => true

def nonEmptyAll : List String → Bool
  | [] => true
  | s :: ss => s != "" && nonEmptyAll ss

mutual
/-- a well-formed, precedence-respecting `expression` -/
def okE : Expr → Bool
  | .or l r => okE l && okE r && decide (1 ≤ l.lvl) && decide (2 ≤ r.lvl)
  | .and l r => okE l && okE r && decide (2 ≤ l.lvl) && decide (3 ≤ r.lvl)
  | .not e => okE e && decide (3 ≤ e.lvl)
  | .is _ e => okE e && decide (4 ≤ e.lvl)
  | .cmp op l r =>
    okE l && decide (6 ≤ l.lvl) &&
      (if op.isIn then okInRhs r else okE r && decide (6 ≤ r.lvl))
  | .exists_ s => okS s && s.isStmt
  | .val ty neg _ => !neg || ty == .int
  | .null => true
  | .bool _ => true
  | .col q2 q1 name => name != "" && (q2 == "" || q1 != "")
  | .tuple es => okEs es && decide (2 ≤ es.length)
  | .subq s => okS s && s.isStmt
  | .paren e => okE e && decide (1 ≤ e.lvl)
  | .bin op l r => okE l && okE r && decide (op.lvl ≤ l.lvl) && decide (op.lvl + 1 ≤ r.lvl)
  | .index l i => okE l && okE i && decide (13 ≤ l.lvl) && decide (6 ≤ i.lvl)
  | .un op e => okE e && decide (12 ≤ e.lvl) && !((op == .minus || op == .plus) && e.isIntLit)
  | .interval e unit => okE e && decide (6 ≤ e.lvl) && rawOK unit
  | .func qual name distinct args =>
    rawOK name && (qual == "" || !distinct) && (!distinct || !args.isEmpty) && okItems args
  | .convert e t => okE e && decide (1 ≤ e.lvl) && okConvTy t
  | .field e name => okE e && decide (13 ≤ e.lvl) && name != ""
  | _ => false
/-- `col_tuple`: the right operand of IN -/
def okInRhs : Expr → Bool
  | .tuple es => okEs es && !es.isEmpty
  | .subq s => okS s && s.isStmt
  | _ => false
/-- a list of expressions (each of any level) -/
def okEs : List Expr → Bool
  | [] => true
  | e :: es => okE e && decide (1 ≤ e.lvl) && okEs es
/-- `select_expression` -/
def okItem : Expr → Bool
  | .star q2 q1 => q2 == "" || q1 != ""
  | .aliased e _ => okE e && decide (1 ≤ e.lvl)
  | .explode e => okE e && decide (6 ≤ e.lvl)
  | _ => false
def okItems : List Expr → Bool
  | [] => true
  | e :: es => okItem e && okItems es
def okOE : Option Expr → Bool
  | none => true
  | some e => okE e && decide (1 ≤ e.lvl)
def okTrig : Expr → Bool
  | .trigCount e => okE e && decide (1 ≤ e.lvl)
  | .trigWm => true
  | .trigEos => true
  | .trigDelay e => okE e && decide (1 ≤ e.lvl)
  | _ => false
def okTrigs : List Expr → Bool
  | [] => true
  | e :: es => okTrig e && okTrigs es
def okOrder : Expr → Bool
  | .order e _ => okE e && decide (1 ≤ e.lvl)
  | _ => false
def okOrders : List Expr → Bool
  | [] => true
  | e :: es => okOrder e && okOrders es
/-- `table_reference` -/
def okT : Tbl → Bool
  | .table _ name _ => name != ""
  | .sub s as_ => okS s && s.isStmt && as_ != ""
  | .paren ts => okTs ts && !ts.isEmpty
  | .join l strat kind r on using_ =>
    okT l && okT r && okOE on && nonEmptyAll using_ &&
      (match kind with
       | .join => strat != .none_ && r.isFactor && (on.isNone || using_.isEmpty)
       | .natural | .naturalLeft | .naturalRight => strat == .none_ && r.isFactor && on.isNone && using_.isEmpty
       | .left | .right | .outer =>
         strat == .none_ && !r.isOpenInnerJoin && ((on.isSome && using_.isEmpty) || (on.isNone && !using_.isEmpty)))
  | .tvf name args as_ => name != "" && as_ != "" && okArgs args
  | _ => false
def okTs : List Tbl → Bool
  | [] => true
  | t :: ts => okT t && okTs ts
/-- `table_valued_function_argument` -/
def okArg : Tbl → Bool
  | .argE name e => name != "" && okE e && decide (1 ≤ e.lvl)
  | .argT name t => name != "" && okT t
  | .argD name q2 q1 c => name != "" && c != "" && (q2 == "" || q1 != "")
  | _ => false
def okArgs : List Tbl → Bool
  | [] => true
  | t :: ts => okArg t && okArgs ts
/-- `select_statement` -/
def okS : Sel → Bool
  | .select _ exprs from_ where_ groupBy having trig orderBy limOff limCnt =>
    okItems exprs && !exprs.isEmpty && okTs from_ && !from_.isEmpty && okOE where_ && okEs groupBy && okOE having &&
      okTrigs trig && okOrders orderBy && okOE limOff && okOE limCnt && (limOff.isNone || limCnt.isSome)
  | .with_ ctes s => okCtes ctes && !ctes.isEmpty && okS s && s.isStmt
  | .cte _ _ => false
def okCte : Sel → Bool
  | .cte name s => name != "" && okS s && s.isStmt
  | _ => false
def okCtes : List Sel → Bool
  | [] => true
  | c :: cs => okCte c && okCtes cs
end

/-! ## nesting depth (what the parser's fuel must cover) and size -/

def optMax (f : Expr → Nat) : Option Expr → Nat
  | none => 0
  | some e => f e

mutual
def depthE : Expr → Nat
  | .and l r => max (depthE l) (depthE r)
  | .or l r => max (depthE l) (depthE r)
  | .not e => depthE e
  | .paren e => depthE e + 1
  | .cmp _ l r => max (depthE l) (depthE r)
  | .is _ e => depthE e
  | .exists_ s => depthS s + 1
  | .val _ _ _ => 0 | .null => 0 | .bool _ => 0 | .col _ _ _ => 0
  | .tuple es => depthEs es + 1
  | .subq s => depthS s + 1
  | .bin _ l r => max (depthE l) (depthE r)
  | .index l i => max (depthE l) (depthE i + 1)
  | .un _ e => depthE e
  | .interval e _ => depthE e + 1
  | .func _ _ _ args => depthEs args + 1
  | .convert e _ => depthE e + 1
  | .field e _ => depthE e
  | .star _ _ => 0
  | .aliased e _ => depthE e
  | .explode e => depthE e
  | .trigCount e => depthE e
  | .trigWm => 0 | .trigEos => 0
  | .trigDelay e => depthE e
  | .order e _ => depthE e
def depthEs : List Expr → Nat
  | [] => 0
  | e :: es => max (depthE e) (depthEs es)
def depthOE : Option Expr → Nat
  | none => 0
  | some e => depthE e
def depthT : Tbl → Nat
  | .table _ _ _ => 0
  | .sub s _ => depthS s + 1
  | .paren ts => depthTs ts + 1
  | .join l _ kind r on _ => max (depthT l) (max (if kind.isOuter then depthT r + 1 else depthT r) (depthOE on))
  | .tvf _ args _ => depthTs args
  | .argE _ e => depthE e + 1
  | .argT _ t => depthT t + 1
  | .argD _ _ _ _ => 0
def depthTs : List Tbl → Nat
  | [] => 0
  | t :: ts => max (depthT t) (depthTs ts)
def depthS : Sel → Nat
  | .select _ exprs from_ where_ groupBy having trig orderBy limOff limCnt =>
    max (depthEs exprs) (max (depthTs from_) (max (depthOE where_) (max (depthEs groupBy) (max (depthOE having)
      (max (depthEs trig) (max (depthEs orderBy) (if limCnt.isSome then max (depthOE limOff) (depthOE limCnt) else 0)))))))
  | .with_ ctes s => max (depthSs ctes) (depthS s + 1)
  | .cte _ s => depthS s + 1
def depthSs : List Sel → Nat
  | [] => 0
  | s :: ss => max (depthS s) (depthSs ss)
end

mutual
def sizeE : Expr → Nat
  | .and l r => sizeE l + sizeE r + 1
  | .or l r => sizeE l + sizeE r + 1
  | .not e => sizeE e + 1
  | .paren e => sizeE e + 1
  | .cmp _ l r => sizeE l + sizeE r + 1
  | .is _ e => sizeE e + 1
  | .exists_ s => sizeS s + 1
  | .val _ _ _ => 1 | .null => 1 | .bool _ => 1 | .col _ _ _ => 1
  | .tuple es => sizeEs es + 1
  | .subq s => sizeS s + 1
  | .bin _ l r => sizeE l + sizeE r + 1
  | .index l i => sizeE l + sizeE i + 1
  | .un _ e => sizeE e + 1
  | .interval e _ => sizeE e + 1
  | .func _ _ _ args => sizeEs args + 1
  | .convert e _ => sizeE e + 1
  | .field e _ => sizeE e + 1
  | .star _ _ => 1
  | .aliased e _ => sizeE e + 1
  | .explode e => sizeE e + 1
  | .trigCount e => sizeE e + 1
  | .trigWm => 1 | .trigEos => 1
  | .trigDelay e => sizeE e + 1
  | .order e _ => sizeE e + 1
def sizeEs : List Expr → Nat
  | [] => 0
  | e :: es => sizeE e + sizeEs es + 1
def sizeOE : Option Expr → Nat
  | none => 0
  | some e => sizeE e + 1
def sizeT : Tbl → Nat
  | .table _ _ _ => 1
  | .sub s _ => sizeS s + 1
  | .paren ts => sizeTs ts + 1
  | .join l _ _ r on _ => sizeT l + sizeT r + sizeOE on + 1
  | .tvf _ args _ => sizeTs args + 1
  | .argE _ e => sizeE e + 1
  | .argT _ t => sizeT t + 1
  | .argD _ _ _ _ => 1
def sizeTs : List Tbl → Nat
  | [] => 0
  | t :: ts => sizeT t + sizeTs ts + 1
def sizeS : Sel → Nat
  | .select _ exprs from_ where_ groupBy having trig orderBy limOff limCnt =>
    sizeEs exprs + sizeTs from_ + sizeOE where_ + sizeEs groupBy + sizeOE having + sizeEs trig + sizeEs orderBy +
      sizeOE limOff + sizeOE limCnt + 1
  | .with_ ctes s => sizeSs ctes + sizeS s + 1
  | .cte _ s => sizeS s + 1
def sizeSs : List Sel → Nat
  | [] => 0
  | s :: ss => sizeS s + sizeSs ss + 1
end

end Octo.SqlSyn
