import Octo.Model.Changelog
import Octo.Model.Triggers
/-!
  Octo.Model.TriggerGroupBy — `execution/nodes/custom_trigger_group_by.go` (`CustomTriggerGroupBy.Run`,
  `.trigger`) with the `EventTimeBuffer` (`execution/nodes/event_time_buffer.go`,
  `execution/record_event_time_buffer.go`) that `NewCustomTriggerGroupBy` puts in front of the source, and
  the reference semantics of grouping (`groupSpec`).

  * An aggregate is modelled *observationally*: its state is the history of `Add(retraction, value)` calls
    it received and `Agg := Hist → Value` is what `Trigger()` returns after that history.  Every Go
    aggregate `(state, Add, Trigger)` induces such a function and the node cannot tell the difference, so
    nothing is lost; what the aggregates compute is C14's subject and enters C16 only as a hypothesis.
  * Key and argument expressions are total functions of the record's values (`keyOf`, `AggSpec.arg`);
    `recOk` says on which records evaluating them (and indexing the key) does not panic.
  * The node is written as a pure fold (`gbStep`/`gbEnd`); the Go panics (index out of range in
    `key[timeFieldKeyIndex]`, `outputValues[keyEventTimeIndex]`, a key expression on a short record) are the
    explicit outcome `none` of `run`, decided by `stepOk` on every record *before* it is processed — after a
    panic nothing the node did is observable.
-/
namespace Octo.Trig
open Octo Octo.TMap

abbrev Hist := List (Bool × Value)
/-- what `Trigger()` returns after a history of `Add` calls -/
abbrev Agg := Hist → Value

/-- `aggregates.Count` -/
def aggCount : Agg := fun h => .int (h.foldl (fun c x => if x.1 then c - 1 else c + 1) 0)
/-- `aggregates.SumInt` (`value.Int` of a non-int value is 0); exact integers: no int64 wrap-around -/
def aggSumInt : Agg := fun h =>
  .int (h.foldl (fun s x => match x.2 with
    | .int i => if x.1 then s - i else s + i
    | _ => s) 0)

/-- one aggregate of the GROUP BY with its argument expression -/
structure AggSpec where
  f : Agg
  arg : List Value → Value

/-- the node's configuration -/
structure GBConf where
  keyOf : List Value → Key          -- keyExprs
  aggs : List AggSpec               -- aggregatePrototypes / aggregateExprs
  ket : Option Nat                  -- keyEventTimeIndex (none = -1)
  cfg : TCfg                        -- triggerPrototype
  recOk : List Value → Bool         -- evaluating the expressions on this record does not panic

/-- `aggregatesItem`: per aggregate its state (history) and `AggregatedSetSize`, plus `OverallRecordCount` -/
structure AggItem where
  cells : List (Hist × Int)
  count : Int
  deriving Inhabited

def isNull : Value → Bool
  | .null => true
  | _ => false

/-- the loop over `aggregateExprs` in the record handler: NULL inputs are skipped -/
def updCells (retr : Bool) (vals : List Value) : List AggSpec → List (Hist × Int) → List (Hist × Int)
  | a :: as, c :: cs =>
    (let v := a.arg vals
     if isNull v then c else (c.1 ++ [(retr, v)], if retr then c.2 - 1 else c.2 + 1)) :: updCells retr vals as cs
  | _, _ => []

/-- the aggregate columns of an output row: `Trigger()` when the non-NULL set is non-empty, else NULL -/
def results : List AggSpec → List (Hist × Int) → List Value
  | a :: as, c :: cs => (if c.2 > 0 then a.f c.1 else .null) :: results as cs
  | _, _ => []

def freshItem (aggs : List AggSpec) : AggItem := ⟨aggs.map fun _ => ([], 0), 0⟩

/-- the `aggregates` tree after one record -/
def updAggs (C : GBConf) (r : Rec) (aggs : List (Key × AggItem)) : List (Key × AggItem) :=
  let key := C.keyOf r.vals
  let ki : Key × AggItem := match find keyLess key aggs with
    | none => (key, freshItem C.aggs)
    | some ki => ki
  let item : AggItem := ⟨updCells r.retr r.vals C.aggs ki.2.cells, if r.retr then ki.2.count - 1 else ki.2.count + 1⟩
  if item.count == 0 then erase keyLess ki.1 aggs else insert keyLess ki.1 item aggs

def etNs : Option Int → Int
  | none => zeroNs
  | some t => t
def etOpt (t : Int) : Option Int := if t == zeroNs then none else some t

abbrev Prev := List (Key × (Row × Int))

/-- the row currently derivable for a key from the `aggregates` tree -/
def curRow (C : GBConf) (aggs : List (Key × AggItem)) (key : Key) : Option Row :=
  match find keyLess key aggs with
  | none => none
  | some ki => some (key ++ results C.aggs ki.2.cells)

/-- the body of the loop in `CustomTriggerGroupBy.trigger` for one polled key -/
def fireKey (C : GBConf) (aggs : List (Key × AggItem)) (curEt : Int) (prev : Prev) (key : Key) : Prev × List Msg :=
  let cur := curRow C aggs key
  let newEt : Int := match cur, C.ket with
    | some row, some i => if curEt > (timeAt i row).ns then (timeAt i row).ns else curEt
    | _, _ => curEt
  let retraction : List Msg := match find keyLess key prev with          -- previouslySentValues.Delete(key)
    | some p => [.data ⟨p.2.1, true, etOpt newEt⟩]
    | none => []
  let prev1 := erase keyLess key prev
  match cur with
  | some row => (insert keyLess key (row, newEt) prev1, retraction ++ [.data ⟨row, false, etOpt newEt⟩])
  | none => (prev1, retraction)

def fireKeys (C : GBConf) (aggs : List (Key × AggItem)) (curEt : Int) : Prev → List Key → Prev × List Msg
  | prev, [] => (prev, [])
  | prev, k :: ks =>
    let r1 := fireKey C aggs curEt prev k
    let r2 := fireKeys C aggs curEt r1.1 ks
    (r2.1, r1.2 ++ r2.2)

structure NState where
  aggs : List (Key × AggItem)
  prev : Prev
  trig : TState
  deriving Inhabited

variable (wl : WKey → WKey → Bool)

/-- `CustomTriggerGroupBy.trigger`: poll, then retract-and-send every polled key -/
def fire (C : GBConf) (st : NState) (curEt : Int) : NState × List Msg :=
  let p := st.trig.poll wl
  let r := fireKeys C st.aggs curEt st.prev p.1
  (⟨st.aggs, r.1, p.2⟩, r.2)

/-- one message from the (buffered) source -/
def gbStep (C : GBConf) (st : NState) : Msg → NState × List Msg
  | .data r =>
    let aggs := updAggs C r st.aggs
    let trig := st.trig.keyReceived wl (C.keyOf r.vals)
    fire wl C ⟨aggs, st.prev, trig⟩ (etNs r.et)
  | .wm w =>
    let r := fire wl C ⟨st.aggs, st.prev, st.trig.watermarkReceived w⟩ w
    (r.1, r.2 ++ [.wm w])                                   -- trigger first, then metaSend

/-- after the source returned: `EndOfStreamReached`, trigger with `WatermarkMaxValue` -/
def gbEnd (C : GBConf) (st : NState) : NState × List Msg :=
  fire wl C ⟨st.aggs, st.prev, st.trig.endOfStream⟩ maxNs

def gbFold (C : GBConf) : NState → List Msg → NState × List Msg
  | st, [] => (st, [])
  | st, m :: ms =>
    let r1 := gbStep wl C st m
    let r2 := gbFold C r1.1 ms
    (r2.1, r1.2 ++ r2.2)

def gbInit (C : GBConf) : NState := ⟨[], [], C.cfg.init⟩

/-- the group-by proper, on what the event-time buffer delivers -/
def gbRun (C : GBConf) (B : List Msg) : List Msg :=
  let r := gbFold wl C (gbInit C) B
  r.2 ++ (gbEnd wl C r.1).2

/-! ### `EventTimeBuffer` -/
def intLess (a b : Int) : Bool := decide (a < b)
abbrev Buf := List (Int × List Rec)

/-- `RecordEventTimeBuffer.AddRecord` -/
def bufAdd (t : Int) (r : Rec) (b : Buf) : Buf :=
  match find intLess t b with
  | none => insert intLess t [r] b
  | some e => insert intLess e.1 (e.2 ++ [r]) b

/-- `RecordEventTimeBuffer.Emit`: pop minima while `!EventTime.After(watermark)` -/
def bufEmit (w : Int) (b : Buf) : List Rec × Buf :=
  ((b.takeWhile fun e => decide (e.1 ≤ w)).flatMap (·.2), b.dropWhile fun e => decide (e.1 ≤ w))

def bufStep (b : Buf) : Msg → Buf × List Msg
  | .data r =>
    match r.et with
    | none => (b, [.data r])                                -- zero event time: not buffered
    | some t => (bufAdd t r b, [])
  | .wm w => ((bufEmit w b).2, (bufEmit w b).1.map .data ++ [.wm w])

def bufFold : Buf → List Msg → Buf × List Msg
  | b, [] => (b, [])
  | b, m :: ms =>
    let r1 := bufStep b m
    let r2 := bufFold r1.1 ms
    (r2.1, r1.2 ++ r2.2)

/-- everything the buffer hands to the group-by, in order -/
def buffer (s : List Msg) : List Msg :=
  let r := bufFold [] s
  r.2 ++ (bufEmit maxNs r.1).1.map .data

/-! ### panics -/
/-- processing this record panics neither in the expressions nor in `key[timeFieldKeyIndex]` nor in
    `outputValues[keyEventTimeIndex]` -/
def stepOk (C : GBConf) (vals : List Value) : Bool :=
  C.recOk vals && (C.cfg.init).idxOk (C.keyOf vals).length &&
    (match C.ket with
     | none => true
     | some i => decide (i < (C.keyOf vals).length + C.aggs.length))

/-- `CustomTriggerGroupBy.Run` over a scripted source; `none` = the Go code panics -/
def run (C : GBConf) (s : List Msg) : Option (List Msg) :=
  if (recs s).all (fun r => stepOk C r.vals) then some (gbRun wl C (buffer s)) else none

/-! ### the node's table -/
/-- the `aggregates` tree after a list of records (it does not depend on the trigger) -/
def aggsAfter (C : GBConf) (rs : List Rec) : List (Key × AggItem) :=
  rs.foldl (fun a r => updAggs C r a) []

/-- multiplicity of `row` in the table the node holds: 1 when the row is (pointwise `Compare == 0`) the row
    derivable for its own key part, else 0 -/
def tableOf (C : GBConf) (nk : Nat) (aggs : List (Key × AggItem)) (row : Row) : Int :=
  match curRow C aggs (row.take nk) with
  | some r => if rowEq r row then 1 else 0
  | none => 0

/-! ### `SimpleGroupBy` (`execution/nodes/simple_group_by.go`) -/
/-- `SimpleGroupBy.Run`, the node the planner uses when the trigger is ON END OF STREAM / absent: the same
    per-record update of the aggregates (a hash map keyed by pointwise `Compare == 0` instead of a B-tree; the
    stored key is the one that created the entry), watermarks forwarded as they come, no event-time buffer,
    and at the end one row per entry with a zero event time.  The Go code walks the hash map in its
    iteration order; the model lists the entries in key order and the harness sorts what the node emitted. -/
def simpleRun (C : GBConf) (s : List Msg) : List Msg :=
  (wms s).map Msg.wm ++
    (aggsAfter C (recs s)).map fun e => Msg.data ⟨e.1 ++ results C.aggs e.2.cells, false, none⟩

/-! ### reference semantics: batch grouping of the consolidated input -/
/-- the records of one group -/
def ofKey (C : GBConf) (k : Key) (rs : List Rec) : List Rec :=
  rs.filter fun r => cmpList (C.keyOf r.vals) k == 0

def sign (r : Rec) : Int := if r.retr then -1 else 1
/-- signed number of records (`OverallRecordCount`) -/
def countOf (rs : List Rec) : Int := (rs.map sign).sum
/-- the non-NULL inputs of an aggregate, as an add/retract history -/
def histOf (a : AggSpec) (rs : List Rec) : Hist :=
  (rs.filter fun r => !isNull (a.arg r.vals)).map fun r => (r.retr, a.arg r.vals)
def histSize (h : Hist) : Int := (h.map fun x => if x.1 then (-1 : Int) else 1).sum

/-- the aggregate columns of a group: the aggregate of the non-NULL inputs, NULL when there are none -/
def specResults (aggs : List AggSpec) (rs : List Rec) : List Value :=
  aggs.map fun a => if histSize (histOf a rs) > 0 then a.f (histOf a rs) else .null

/-- multiplicity of `row` in the batch GROUP BY of the input records: 1 when the group of the row's key
    part is non-empty and the row is (pointwise `Compare == 0`) that key followed by the group's aggregates -/
def groupSpec (C : GBConf) (nk : Nat) (rs : List Rec) (row : Row) : Int :=
  let k := row.take nk
  let g := ofKey C k rs
  if countOf g != 0 && rowEq (k ++ specResults C.aggs g) row then 1 else 0

/-! ### what C16 assumes of an aggregate (the statement C14 proves of the real ones) -/
/-- signed multiplicity of (the `Compare`-class of) `v` in a history -/
def netH (h : Hist) (v : Value) : Int :=
  (h.map fun x => if cmp x.2 v == 0 then (if x.1 then (-1 : Int) else 1) else 0).sum

/-- no prefix of the history retracts a value that is not there -/
def ValidHist (h : Hist) : Prop := ∀ n v, 0 ≤ netH (h.take n) v

/-- **the C14 contract**: on valid histories the result depends (up to `Compare == 0`) only on the net
    multiset of the values added -/
def AggOK (f : Agg) : Prop :=
  ∀ h₁ h₂, ValidHist h₁ → ValidHist h₂ → (∀ v, netH h₁ v = netH h₂ v) → cmp (f h₁) (f h₂) = 0

/-- key and argument expressions do not tell apart records whose values are pointwise `Compare == 0`
    (true of column references, which is what GROUP BY keys and aggregate arguments compile to here) -/
structure ExprCongr (C : GBConf) : Prop where
  key : ∀ a b : Row, rowEq a b = true → keq (C.keyOf a) (C.keyOf b) = true
  arg : ∀ x ∈ C.aggs, ∀ a b : Row, rowEq a b = true → cmp (x.arg a) (x.arg b) = 0

end Octo.Trig
