import Octo.Model.SqlGroup
import Octo.Model.Ops
import Octo.Model.TriggerGroupBy
/-!
  Octo.Model.SqlGroupTrig — grouping queries whose GROUP BY carries a `TRIGGER` clause other than a lone
  `ON END OF STREAM`: `physical/nodes.go` then materialises `CustomTriggerGroupBy`, whose output is a
  *changelog* (a key that fires again retracts the row it sent before), `Schema.NoRetractions` is false and
  everything downstream runs on records with a retraction flag.

  The pipeline is the composition of models that already exist (and are tied to the code by their own
  correspondence runs): `Octo.Trig.gbRun` (C16: `CustomTriggerGroupBy.Run` with the real trigger state
  machines), `Octo.Ops.filterOp / mapOp / distinctOp / orderNode / printerOp` (C15: Filter, Map, Distinct,
  OrderSensitiveTransform and the table printer on changelogs), chosen as `ParseSelect`, `ParseNestedNode`,
  `physical/nodes.go` and the output switch of `cmd/root.go` choose them when `NoRetractions` is false.
-/
namespace Octo.Grp
open Octo Octo.Sql

/-- `TRIGGER` clause → `physical.Trigger` (`GroupBy.Typecheck`: one trigger stays itself, several become a MultiTrigger) -/
def Trig.cfg : Trig → Trig.TCfg
  | .none => .eos
  | .eos => .eos
  | .counting k => .counting k
  | .countingEos k => .multi [.counting k, .eos]

def aggF (p : PAgg) : Trig.Agg := fun h =>
  match (Agg.mkAgg p.kind p.distinct).trigger ((Agg.mkAgg p.kind p.distinct).run h).1 with
  | .val v => v
  | .panic => .null          -- not reached: `Trigger` is only called with a positive `AggregatedSetSize` (C14)

/-- the node's configuration from the typechecked block -/
def gbConf (keys : List SExpr) (aggs : List PAgg) (t : Trig) : Trig.GBConf where
  keyOf := fun vals => (evalAll vals keys).getD (List.replicate keys.length .null)   -- (the default is never used: `recOk`)
  aggs := aggs.map fun p => ⟨aggF p, fun vals => (evalArg vals p).getD .null⟩
  ket := none
  cfg := t.cfg
  recOk := fun vals => (evalAll vals keys).isSome && (evalArgs vals aggs).isSome

def toMsgs (rows : List Row) : List Msg := rows.map Ops.addRec

def exprF (e : SExpr) : Row → Except Ops.Err Value := fun r =>
  match eval r e with
  | some v => .ok v
  | none => .error .runtime

def exprsF (es : List SExpr) : Row → Except Ops.Err Row := fun r =>
  match evalAll r es with
  | some v => .ok v
  | none => .error .runtime

/-- a changelog travelling through the plan, with the `NoRetractions` flag of its schema -/
structure Stream where
  msgs : List Msg
  noRetr : Bool

def ofOut (noRetr : Bool) (o : Ops.Out) : Res Stream :=
  match o.2 with
  | none => .ok ⟨o.1, noRetr⟩
  | some .panic => .panic
  | some _ => .err

def dirs (order : List (SExpr × Bool)) : List Int := order.map fun k => if k.2 then (-1 : Int) else 1

/-- WHERE → select list → DISTINCT of a block, on a changelog -/
def blockOps (b : Block) (s : Stream) : Res Stream :=
  (match b.whr with
   | some p => ofOut s.noRetr ((Ops.filterOp (exprF p)).run s.msgs)
   | none => .ok s).bind fun s1 =>
  (match b.proj with
   | some es => ofOut s1.noRetr ((Ops.mapOp (exprsF es)).run s1.msgs)
   | none => .ok s1).bind fun s2 =>
  if b.distinct then ofOut s2.noRetr (Ops.distinctOp.run s2.msgs) else .ok s2

/-- `physical/nodes.go`, OrderSensitiveTransform: the node iff ORDER BY, or LIMIT over a source with retractions;
    a Limit node for a LIMIT over a retraction-free source; its output never retracts -/
def ostOrLimit (b : Block) (s : Stream) : Res Stream :=
  let lim : Option Int := b.limit.map Int.ofNat
  if b.order ≠ [] || (b.limit.isSome && !s.noRetr) then
    ofOut true (Ops.orderNode (dirs b.order) (exprsF (b.order.map (·.1))) lim s.noRetr s.msgs false)
  else
    match b.limit with
    | some n => ofOut true (Ops.limitNode n s.msgs false)
    | none => .ok s

/-- the grouping block itself: FROM → WHERE → CustomTriggerGroupBy (behind its event-time buffer) → Map → DISTINCT -/
def groupStream (aggs : List PAgg) (src : Query) (g : GroupBlock) (t : List Row) : Res Stream :=
  (Res.ofOption (denoteNested src t)).bind fun r0 =>
  (Res.ofOption (whereStep g.whr r0)).bind fun r1 =>
  match Trig.run Trig.wlessFixed (gbConf g.keys aggs g.trig) (toMsgs r1) with
  | none => .err                       -- a key / aggregate expression failed on some record
  | some out => blockOps g.post ⟨out, false⟩

def streamNested (tys : List Ty) : GQuery → List Row → Res Stream
  | .group src g, t =>
    match typecheckGroup tys src g with
    | none => .err
    | some aggs =>
      if isLimit0 g.limit then .ok ⟨[], true⟩ else (groupStream aggs src g t).bind (ostOrLimit g.post)
  | .sel src b, t =>
    if isLimit0 b.limit then (if src.typeOk tys then .ok ⟨[], true⟩ else .err) else
    (streamNested tys src t).bind fun s => (blockOps b s).bind (ostOrLimit b)

/-- `Schema.NoRetractions` of a nested grouping query: an OrderSensitiveTransform / Limit on top never retracts -/
def nestedNoRetr : GQuery → Bool
  | .group _ g => !g.order.isEmpty || g.limit.isSome
  | .sel src b => !b.order.isEmpty || b.limit.isSome || nestedNoRetr src

/-- the rows carried by a retraction-free changelog -/
def rowsOf (ms : List Msg) : List Row := (recs ms).map (·.vals)

/-- the sinks of `cmd/root.go` over a changelog: the table printer (a Limit node in front only when there is
    no ORDER BY and the source cannot retract); csv / json / stream_native behind an OrderSensitiveTransform
    when there is an ORDER BY, or a LIMIT over a source with retractions -/
def sinkStream (mode : Mode) (b : Block) (s : Stream) : Res (List Row) :=
  let lim : Option Int := b.limit.map Int.ofNat
  match mode with
  | .table =>
    let front : Res Stream :=
      match b.limit with
      | some n => if b.order = [] && s.noRetr then ofOut true (Ops.limitNode n s.msgs false) else .ok s
      | none => .ok s
    front.bind fun s1 =>
      (ofOut true ((Ops.printerOp (dirs b.order) (exprsF (b.order.map (·.1))) lim s1.noRetr).run s1.msgs)).bind
        fun o => .ok (rowsOf o.msgs)
  | .eager => (ostOrLimit b s).bind fun o => .ok (rowsOf o.msgs)

/-- as `skipsSource`, for a source whose schema says `noRetr` -/
def skipsSourceS (mode : Mode) (b : Block) (noRetr : Bool) : Bool :=
  isLimit0 b.limit && (match mode with | .eager => true | .table => b.order.isEmpty && noRetr)

/-- the engine on a grouping query, every block on changelogs -/
def denoteGS (mode : Mode) (tys : List Ty) : GQuery → List Row → Res (List Row)
  | .group src g, t =>
    match typecheckGroup tys src g with
    | none => .err
    | some aggs =>
      if skipsSourceS mode g.post false then .ok [] else
      (groupStream aggs src g t).bind (sinkStream mode g.post)
  | .sel src b, t =>
    if skipsSourceS mode b (nestedNoRetr src) then (if src.typeOk tys then .ok [] else .err) else
    (streamNested tys src t).bind fun s => (blockOps b s).bind (sinkStream mode b)

def GQuery.simple : GQuery → Bool
  | .group _ g => g.trig.simple
  | .sel src _ => src.simple

/-- **the engine on a grouping query**: SimpleGroupBy plans run on batches, CustomTriggerGroupBy plans on changelogs -/
def denoteGT (mode : Mode) (tys : List Ty) (q : GQuery) (t : List Row) : Res (List Row) :=
  if q.simple then denoteG mode tys q t else denoteGS mode tys q t

end Octo.Grp
