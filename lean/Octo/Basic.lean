def hello := "world"
