import Octo.Model.TypingTable
import Octo.Props.C10
namespace Octo.C08
open Octo Octo.Ty Octo.Tc Octo.Gen.FuncTable

/-- a function whose declared result type does not admit NULL has no `return octosql.NewNull()` -/
theorem nonnull_output_never_returns_null :
    ∀ e ∈ table, e.hasTypeFn = false → admitsNull e.out = false → e.returnsNull = false := by
  decide

end Octo.C08
