import Octo.Lemmas.TypingAgg
/-!
# C08 — Static types are sound

Property: for every well-typed query over sources whose values match their schemas, every value the query produces matches
the type octosql reports for that column; a column shows NULL only if its type admits NULL, and functions whose declared
result is non-nullable never return NULL.

What is proved here (all ∀, no bound on expression depth, number of arguments, values):

* **(ii) soundness of the typing rules** (`typing_sound`): for ANY function environment `S` that satisfies `SigOk`
  (the per-descriptor obligation), any well-formed context `Γ`, any logical expression `e` (variables, constants, function
  calls with two-pass overload resolution, nullable lifting and inserted run-time assertions, AND/OR with
  `TypecheckExpression`, COALESCE, tuples, `::`, `->` with `TypecheckPossiblyNullableStruct`):
  `typecheck S Γ e = ok p → EnvConforms Γ ρ → run S Γ ρ p = val v → conforms p.ty v`.
  `typecheck`/`run` (`Octo.Model.Typing`) mirror `logical.*.Typecheck`, `physical.Expression.Materialize` and
  `execution.*.Evaluate` and are tied to them by the C08 correspondence run (typed tree of every expression and the value of
  every node, compared exactly).
* **(i) the per-descriptor obligation for the REAL table** (`descriptor_obligation`): `Octo.Gen.FuncTable` is regenerated
  from /repo on every run (reflection over `functions.FunctionMap()` + go/ast over every `Function` body); the decidable
  facts about it (`table_*`, by `decide`) give `SigOk (sigOf body)` for every `body` that respects the extracted result
  kinds.  `nonnull_output_never_returns_null` is the instance "declared non-nullable ⇒ no `return octosql.NewNull()`".
  The hand-written models of the `TypeFn` closures are proved to answer ~1500 probes exactly as the real closures did
  (`typeFn_probes_agree`).
* **(iii) aggregates** (`aggregate_sound`): overload choice and output type of `GroupBy.Typecheck`, NULL skipping of
  `SimpleGroupBy`, for every `Trigger` that respects the extracted result kind.
* the run-time assertion mechanism is complete for its static type (`assertion_complete`), NULL appears only where admitted
  (`null_only_if_admitted`).

Hypotheses, and why they are there:
* `constsOk e` — every constant matches the type `Value.Type()` reports for it and that type is well formed.  False only
  for constants that are lists mixing structs of different shapes (C10 finding `typeof-list-shape-mismatch`) or struct
  values with ≥ 2 fields; SQL text denotes scalar constants only (`scalar_consts_ok`).  Without it the statement is
  false: `C08_refuted`.
* `coalesceOk p` — a DECIDABLE side condition on every COALESCE node of the typed tree (`coalesceArgsOk`): either all
  argument types are struct-, tuple- and `Any`-free (then `ObjectLayoutFixer` is the identity), or the result type and the
  argument types are in the normal form `TypeSum` produces (`normB`) and the result type covers every argument type
  (`coversB`: objects by field name, a field the source lacks admits NULL in the target; tuples padded with NULL; through
  lists and unions).  For the second case the proof goes through C13's `fixLayout_relayout` and
  `Octo.Tc.covers_conforms`.  That `TypeSum` of normal-form types always covers its operands is NOT proved; the `judge`
  evaluates `coalesceOk` on every typed tree the implementation produces and annotates the lines where it fails
  (see notes/C08.md for how often that happens).
-/
namespace Octo.C08
open Octo Octo.Ty Octo.Tc Octo.Gen.FuncTable

/-! ## The regenerated descriptor table: decidable facts (re-proved against /repo's current source on every run) -/

/-- the descriptors of a function are listed in index order -/
theorem table_indices : ∀ e ∈ table, (table.filter (fun e' => e'.name = e.name)).map (·.idx) =
    List.range (table.filter (fun e' => e'.name = e.name)).length := by decide

/-- every declared output type is well formed (one alternative per TypeID, no nested union) -/
theorem table_out_wf : ∀ e ∈ table, wf e.out = true := by decide

/-- every declared parameter type is one of the six scalar types or `Any` (so the targets of inserted assertions are flat) -/
theorem table_params : ∀ e ∈ table, e.args.all paramOk = true := by decide

/-- **obligation (i), static descriptors**: every `return` of every body yields something within the declared output type
    (a constructed scalar of a type that `Is` it, NULL only if it admits NULL, an argument whose parameter type `Is` it) -/
theorem table_kinds_within : ∀ e ∈ table, e.hasTypeFn = false → e.kinds.all (kindOk e.args e.out) = true := by decide

/-- **obligation (i), `TypeFn` descriptors**: the returns are what the modelled `TypeFn` accounts for -/
theorem table_tyfn_kinds : ∀ e ∈ table, e.hasTypeFn = true →
    (match tyFnOf e.name e.idx with
      | some f => e.kinds.all (tyFnKindOk f)
      | none => false) = true := by decide

/-- **a function whose declared result type does not admit NULL has no `return octosql.NewNull()`**
    (the `int('x')` defect: `int(String)` declared `Int` and returned NULL; fixed by declaring `NULL | Int`) -/
theorem nonnull_output_never_returns_null :
    ∀ e ∈ table, e.hasTypeFn = false → admitsNull e.out = false → e.returnsNull = false := by decide

/-- … and what that check would have said about the shipped `int(String)` descriptor -/
theorem shipped_int_of_string_refuted :
    let e : Entry := ⟨[105, 110, 116], 3, [.str], .int, true, false, true, [.ctor 1, .null]⟩
    admitsNull e.out = false ∧ e.returnsNull = true ∧ e.kinds.all (kindOk e.args e.out) = false := by decide

set_option maxRecDepth 200000 in
/-- the hand-written models of the `TypeFn` closures (`applyTyFn ∘ tyFnOf`) answer every probe exactly as the real closure
    did when `vh extract functable` called it -/
theorem typeFn_probes_agree : probes.all probeOk = true := by decide

theorem aggTypeFn_probes_agree : aggProbes.all aggProbeOk = true := by decide

theorem table_facts : TableFacts :=
  ⟨table_out_wf, table_params, table_kinds_within, table_tyfn_kinds, table_indices⟩

/-- `TypeSum(Boolean, Null)`, the type AND/OR check their operands against, is the model's constant `boolNull` -/
theorem boolNull_is_typeSum : typeSum .bool .null = some boolNull := rfl

/-! ## (i) the per-descriptor obligation for the real table -/

/-- for every assignment of bodies that respect the result kinds extracted from the Go source, the generated function
    environment satisfies the per-descriptor obligation (`SigOk.sound`: `DescrSound`) and the side conditions -/
theorem descriptor_obligation (body : Name → Nat → List Value → Res)
    (hb : ∀ e ∈ table, RespectsKinds e.kinds (body e.name e.idx)) : SigOk (sigOf body) :=
  sigOk_of_facts table_facts body hb

/-- non-vacuity: bodies that respect the kinds exist and return values, e.g. one that always builds an Int for `+`/0 -/
example : RespectsKinds [.ctor 1] (fun _ => .val (.int 0)) := by
  intro args v h; cases h; exact ⟨.ctor 1, by simp, rfl⟩

/-! ## (ii) soundness of the typing rules -/

theorem run_val {S : Sig} {Γ : Ctx} {ρ : List (List Value)} {p : PExpr} {v : Value} (h : run S Γ ρ p = .val v) :
    eval S Γ ρ p = .val v := by
  unfold run at h; split at h
  · exact h
  · cases h

/-- **soundness**: parametric in the function environment -/
theorem typing_sound (S : Sig) (hS : SigOk S) (Γ : Ctx) (hΓ : CtxWf Γ) (e : LExpr) (hc : constsOk e = true) (p : PExpr)
    (h : typecheck S Γ e = .ok p) :
    wf p.ty = true ∧
    (coalesceOk p = true → ∀ ρ v, EnvConforms Γ ρ → run S Γ ρ p = .val v → conforms p.ty v = true) :=
  have hs := typecheck_sound hS hΓ e p hc h
  ⟨hs.1, fun hp ρ v he hv => hs.2 hp ρ v he (run_val hv)⟩

/-- … over the generated table, for all bodies that respect the extracted result kinds -/
theorem typing_sound_generated (body : Name → Nat → List Value → Res)
    (hb : ∀ e ∈ table, RespectsKinds e.kinds (body e.name e.idx)) (Γ : Ctx) (hΓ : CtxWf Γ) (e : LExpr)
    (hc : constsOk e = true) (p : PExpr) (h : typecheck (sigOf body) Γ e = .ok p) (hp : coalesceOk p = true)
    (ρ : List (List Value)) (v : Value) (he : EnvConforms Γ ρ) (hv : run (sigOf body) Γ ρ p = .val v) :
    conforms p.ty v = true :=
  (typing_sound _ (descriptor_obligation body hb) Γ hΓ e hc p h).2 hp ρ v he hv

/-- **a column shows NULL only if its type admits NULL** -/
theorem null_only_if_admitted (S : Sig) (hS : SigOk S) (Γ : Ctx) (hΓ : CtxWf Γ) (e : LExpr) (hc : constsOk e = true)
    (p : PExpr) (h : typecheck S Γ e = .ok p) (hp : coalesceOk p = true) (ρ : List (List Value))
    (he : EnvConforms Γ ρ) (hv : run S Γ ρ p = .val .null) : admitsNull p.ty = true :=
  have ⟨w, hs⟩ := typing_sound S hS Γ hΓ e hc p h
  admits_of_conforms_null w (hs hp ρ .null he hv)

/-- SQL text denotes scalar constants only, and every scalar constant is admissible -/
theorem scalar_consts_ok (v : Value) (h : v.noRecV = true) (hl : ∀ xs, v ≠ .list xs) : constOk v = true := by
  cases v <;> simp [Value.noRecV] at h <;> first | rfl | exact absurd rfl (hl _)

/-- the COALESCE side condition at work: when the (normal-form) result type covers the (normal-form) type of an argument,
    the value that `ObjectLayoutFixer` produces for a value of the argument type (C13: `fixLayout ∘ calculateMapping =
    relayout`) is a value of the result type — objects by field name with NULL for the fields the source lacks, tuples
    padded with NULL, through lists and unions of any nesting -/
theorem covered_relayout_conforms (t s : Ty) (v : Value) (nt : normB t = true) (ns : normB s = true)
    (hc : coversB t s = true) (hv : conforms s v = true) :
    conforms t (Spec13.relayout (Value.size v + 1) t s v) = true :=
  covers_conforms _ t s v (Nat.lt_succ_self _) (coversB_sound hc) (normB_sound nt) (normB_sound ns) hv

/-- non-vacuity: `{x: Int} ⊔ {y: Int} = {x: NULL | Int; y: NULL | Int}` is not an upper bound under `Is` (C10,
    `sum_upper_refuted`) but it covers both operands: `{x: 1}` is re-laid-out as `{x: 1, y: NULL}` -/
example : coversB (.struct [[120], [121]] [.union [.null, .int], .union [.null, .int]]) (.struct [[120]] [.int]) = true ∧
    normB (.struct [[120], [121]] [.union [.null, .int], .union [.null, .int]]) = true ∧
    Spec13.relayout 3 (.struct [[120], [121]] [.union [.null, .int], .union [.null, .int]]) (.struct [[120]] [.int])
      (.struct [.int 1]) = .struct [.int 1, .null] := by
  refine ⟨by decide, by decide, rfl⟩

/-- the run-time assertion mechanism: a value of the asserted expression's static type that passes the TypeID test is a value
    of the type the typechecker gives the assertion (`TypeIntersection(target, type)`), for flat targets -/
theorem assertion_complete {target a c : Ty} {v : Value} (wa : wf a = true) (ha : a.isAny = false)
    (ft : flatTarget target = true) (hv : conforms a v = true) (hr : (targetIds target).contains v.rank = true)
    (h : typeInter target a = some (some c)) : conforms c v = true := inter_complete wa ha ft hv hr h

/-! ### non-vacuity: concrete expressions through the typechecker of the generated table -/

/-- a body for the examples: `int`/3 (String → NULL | Int) parses nothing and returns NULL, everything else fails -/
def exBody : Name → Nat → List Value → Res := fun name idx _ => if name = [105, 110, 116] ∧ idx = 3 then .val .null else .err

def ΓEx : Ctx := [[(0, .union [.null, .float, .str]), (1, .union [.str, .struct [[120], [121]] [.int, .str]]), (2, .int)]]

/-- `int(c0)` over `c0 : NULL | Float | String`: the maybe pass picks `int(Float)` (first overload that may fit), wraps the
    argument in an assertion to `NULL | Float`, and the call is typed `NULL | Int` -/
example : typecheck (sigOf exBody) ΓEx (.call [105, 110, 116] [.var 0]) =
    .ok (.call (.union [.null, .int]) [105, 110, 116] 2 true
      [.assert (.union [.null, .float]) (.union [.null, .float]) (.var (.union [.null, .float, .str]) 0)]) := rfl

/-- `c1 -> y` over `c1 : String | {x: Int, y: String}`: assertion to `{…} | NULL`, typed `NULL | String`;
    on the object `{1, "a"}` it yields `"a"` (field 1), on a string the assertion fails -/
example : (typecheck (sigOf exBody) ΓEx (.field [121] (.var 1))).map PExpr.ty = .ok (.union [.null, .str]) := rfl
example : (typecheck (sigOf exBody) ΓEx (.field [121] (.var 1))).map
    (run (sigOf exBody) ΓEx [[.null, .struct [.int 1, .str [97]], .int 5]]) = .ok (.val (.str [97])) := rfl
example : (typecheck (sigOf exBody) ΓEx (.field [121] (.var 1))).map
    (run (sigOf exBody) ΓEx [[.null, .str [98], .int 5]]) = .ok .err := rfl

/-- the hypotheses of `typing_sound` are satisfiable by that context and environment -/
example : CtxWf ΓEx := by
  intro c hc f hf
  simp only [ΓEx, List.mem_cons, List.not_mem_nil, or_false] at hc
  subst hc
  simp only [List.mem_cons, List.not_mem_nil, or_false] at hf
  rcases hf with rfl | rfl | rfl <;> decide
example : EnvConforms ΓEx [[.null, .struct [.int 1, .str [97]], .int 5]] := by
  simp [EnvConforms, ΓEx, conformsZip, conforms, conformsAny]

/-! ## (iii) aggregates -/

theorem aggTable_indices : ∀ e ∈ aggTable, (aggTable.filter (fun e' => e'.name = e.name)).map (·.idx) =
    List.range (aggTable.filter (fun e' => e'.name = e.name)).length := by decide

/-- declared argument types are scalars or `Any` and outputs well formed; a `TypeFn` aggregate has the zero ArgumentType -/
theorem aggTable_shape : ∀ e ∈ aggTable,
    (e.hasTypeFn = false → paramOk e.arg = true ∧ wf e.out = true) ∧ (e.hasTypeFn = true → tyBeq e.arg .null = true) := by
  decide

/-- **per-descriptor obligation for aggregates**: what `Trigger()` yields is within the declared output type
    (a constructed scalar of that type; one of the inputs, whose type is the declared argument type);
    the `TypeFn` aggregates (`array_agg`) yield the list of their inputs -/
theorem aggTable_kinds : ∀ e ∈ aggTable,
    (e.hasTypeFn = false → aggKindOk e.arg e.out e.kind = true) ∧ (e.hasTypeFn = true → e.kind = .inputs) := by decide

theorem tyBeq_null {t : Ty} (h : tyBeq t .null = true) : t = .null := by
  cases t <;> simp [tyBeq] at h; rfl

theorem aggDescrsOf_mem {name : List Nat} {d : AggDescr} (h : d ∈ aggDescrsOf name) :
    ∃ e ∈ aggTable, e.name = name ∧ d = aggDescrOf e := by
  unfold aggDescrsOf at h
  simp only [List.mem_map] at h
  obtain ⟨e, he, rfl⟩ := h
  have ⟨h1, h2⟩ := List.mem_filter.mp he
  exact ⟨e, h1, by simpa using h2, rfl⟩

theorem aggTable_ok (name : List Nat) : AggTableOk (aggDescrsOf name) := by
  intro d hd
  obtain ⟨e, he, _, rfl⟩ := aggDescrsOf_mem hd
  have ⟨h1, h2⟩ := aggTable_shape e he
  constructor
  · intro htf
    have : e.hasTypeFn = false := by
      cases hh : e.hasTypeFn with
      | false => rfl
      | true => simp [aggDescrOf, hh] at htf
    exact h1 this
  · intro f htf
    have : e.hasTypeFn = true := by
      cases hh : e.hasTypeFn with
      | true => rfl
      | false => simp [aggDescrOf, hh] at htf
    refine ⟨tyBeq_null (h2 this), ?_⟩
    intro t o wt hf
    simp only [aggDescrOf, this, if_true, Option.some.injEq] at htf
    subst htf
    simp only [aggTyFn, Option.some.injEq] at hf
    subst hf
    simpa [wf] using wt

theorem aggDescrsOf_get {name : List Nat} {i : Nat} {d : AggDescr} (h : (aggDescrsOf name)[i]? = some d) :
    ∃ e ∈ aggTable, e.name = name ∧ e.idx = i ∧ d = aggDescrOf e := by
  unfold aggDescrsOf at h
  rw [List.getElem?_map] at h
  cases he : (aggTable.filter (fun e => e.name = name))[i]? with
  | none => simp [he] at h
  | some e =>
    simp only [he, Option.map_some, Option.some.injEq] at h
    have hmem : e ∈ aggTable.filter (fun e => e.name = name) := List.mem_of_getElem? he
    have ⟨ht, hn⟩ := List.mem_filter.mp hmem
    have hn' : e.name = name := by simpa using hn
    refine ⟨e, ht, hn', ?_, h.symm⟩
    have hidx := aggTable_indices e ht
    rw [hn'] at hidx
    have h1 : ((aggTable.filter (fun e' => e'.name = name)).map (·.idx))[i]? = some e.idx := by
      rw [List.getElem?_map, he]; rfl
    rw [hidx] at h1
    have hlt : i < (aggTable.filter (fun e' => e'.name = name)).length := (List.getElem?_eq_some_iff.mp he).1
    rw [List.getElem?_range hlt] at h1
    simp only [Option.some.injEq] at h1
    exact h1.symm

/-- the obligation `AggSound` for a generated entry, from the extracted kind of its `Trigger` -/
theorem aggregate_obligation (e : AggEntry) (he : e ∈ aggTable) (trigger : List Value → Res)
    (hr : AggRespects e.kind trigger) : AggSound (aggDescrOf e) trigger := by
  have ⟨k1, k2⟩ := aggTable_kinds e he
  cases hh : e.hasTypeFn with
  | false => exact aggSound_static (by simp [aggDescrOf, hh]) (k1 hh) hr
  | true =>
    rw [k2 hh] at hr
    exact aggSound_array (by simp [aggDescrOf, hh]) hr

/-- **aggregates**: for the aggregate `name` of the generated table over a soundly typed argument expression `p`:
    the (possibly asserted) argument is sound, the reported column type `o` is well formed, and whatever one group yields over
    at least one conforming record matches `o` — for every family of `Trigger`s that respect the extracted kinds -/
theorem aggregate_sound (S : Sig) (Γ : Ctx) (name : List Nat) (p p' : PExpr) (i : Nat) (o : Ty) (hp : Sound S Γ p)
    (h : aggTypecheck (aggDescrsOf name) p = .ok (i, p', o))
    (trig : Nat → List Value → Res) (ht : ∀ e ∈ aggTable, e.name = name → AggRespects e.kind (trig e.idx)) :
    wf o = true ∧ (coalesceOk p' = true →
      ∀ (ρs : List (List (List Value))), ρs ≠ [] → (∀ ρ ∈ ρs, EnvConforms Γ ρ) →
        ∀ v, aggRun (trig i) (ρs.map (fun ρ => eval S Γ ρ p')) [] = .val v → conforms o v = true) := by
  obtain ⟨_, wo, d, hget, hrun⟩ := agg_sound hp (aggTable_ok name) h
  obtain ⟨e, he, hn, hi, rfl⟩ := aggDescrsOf_get hget
  refine ⟨wo, ?_⟩
  intro hpl ρs hne hρ v hv
  have := ht e he hn
  rw [hi] at this
  exact hrun (trig i) (aggregate_obligation e he _ this) hpl ρs hne hρ v hv

/-- non-vacuity: `SUM(c)` over `c : NULL | Float | String` resolves to `sum(Float)` (index 1), asserts `NULL | Float`
    and reports `NULL | Float` -/
example : aggTypecheck (aggDescrsOf [115, 117, 109]) (.var (.union [.null, .float, .str]) 0) =
    .ok (1, .assert (.union [.null, .float]) (.union [.null, .float]) (.var (.union [.null, .float, .str]) 0),
      .union [.null, .float]) := rfl

/-! ## The full-strength statement -/

/-- C08 for a function environment `S`: whatever a well-typed expression evaluates to, on records that match the schema,
    matches the type the typechecker reports -/
def Statement (S : Sig) : Prop :=
  ∀ (Γ : Ctx) (e : LExpr) (p : PExpr) (ρ : List (List Value)) (v : Value),
    CtxWf Γ → typecheck S Γ e = .ok p → EnvConforms Γ ρ → run S Γ ρ p = .val v → conforms p.ty v = true

/-- … for expressions whose constants match their reported types and whose COALESCE nodes meet the decidable side condition -/
def StatementPartial (S : Sig) : Prop :=
  ∀ (Γ : Ctx) (e : LExpr) (p : PExpr) (ρ : List (List Value)) (v : Value),
    CtxWf Γ → constsOk e = true → typecheck S Γ e = .ok p → coalesceOk p = true → EnvConforms Γ ρ →
    run S Γ ρ p = .val v → conforms p.ty v = true

/-- the list constant `[ {0, 0}, {NULL, 1} ]` (not denotable in SQL text): `Value.Type()` reports `[{: Int}]` -/
def badConst : Value := .list [.struct [.int 0, .int 0], .struct [.null, .int 1]]

/-- **the full statement is false for every function environment**: `Constant.Typecheck` trusts `Value.Type()`, which
    mistypes lists of differently shaped structs (C10, known finding `typeof-list-shape-mismatch`) -/
theorem C08_refuted (S : Sig) : ¬ Statement S := by
  intro hst
  have := hst [] (.const badConst) (.const (.list (.struct [[]] [.int])) badConst) [] badConst
    (by intro c hc; cases hc) rfl trivial rfl
  exact absurd this (by decide)

/-- **C08 with exactly those two hypotheses**, for every function environment that meets the per-descriptor obligation … -/
theorem C08_partial (S : Sig) (hS : SigOk S) : StatementPartial S :=
  fun Γ e p ρ v hΓ hc h hp he hv => (typing_sound S hS Γ hΓ e hc p h).2 hp ρ v he hv

/-- … in particular for the generated table with any bodies that respect the extracted result kinds -/
theorem C08_partial_generated (body : Name → Nat → List Value → Res)
    (hb : ∀ e ∈ table, RespectsKinds e.kinds (body e.name e.idx)) : StatementPartial (sigOf body) :=
  C08_partial _ (descriptor_obligation body hb)

/-! ## The two defects of the shipped code that this property exposed (both fixed; the model mirrors the fixed code) -/

/-- `obj -> y` over `String | {x: Int, y: String}` as shipped: `Materialize` looked for the object type at
    `Alternatives[1]` of the union `[{x, y}, NULL]` that `TypecheckPossiblyNullableStruct` builds, found NULL there, no
    fields, hence field index 0: the expression typed `NULL | String` returned the Int of field `x` -/
theorem shipped_field_access_unsound :
    let objTy : Ty := .union [.struct [[120], [121]] [.int, .str], .null]
    fieldNamesRaw objTy = some [] ∧ (fieldIndex [121] []).getD 0 = 0 ∧
    fieldNames objTy = [[120], [121]] ∧ fieldIndex [121] (fieldNames objTy) = some 1 ∧
    conforms (.union [.null, .str]) (.int 1) = false := by
  refine ⟨rfl, rfl, rfl, rfl, by decide⟩

/-- the descriptors of `sum` -/
def sumDescrs : List AggDescr := [⟨.int, .int, none⟩, ⟨.float, .float, none⟩, ⟨.dur, .dur, none⟩]

/-- `SUM(c)` over `c : NULL | Float | String` as shipped: the NULL alternative alone makes `sum(Int)` "maybe" fit, so the
    FIRST overload wins, the argument is asserted to be `Int` (every Float and every NULL fails at run time) and typed NULL;
    the current code picks `sum(Float)` and asserts `NULL | Float` -/
theorem shipped_aggregate_overload_refuted :
    let c : PExpr := .var (.union [.null, .float, .str]) 0
    aggTypecheckRaw sumDescrs c = .ok (0, .assert .null .int c, .union [.null, .int]) ∧
    aggTypecheck sumDescrs c = .ok (1, .assert (.union [.null, .float]) (.union [.null, .float]) c, .union [.null, .float]) ∧
    eval (sigOf exBody) [[(0, .union [.null, .float, .str])]] [[.float 0]] (.assert .null .int c) = .err ∧
    eval (sigOf exBody) [[(0, .union [.null, .float, .str])]] [[.null]] (.assert .null .int c) = .err := by
  refine ⟨rfl, rfl, rfl, rfl⟩

end Octo.C08
