import Octo.Lemmas.OpsShape
import Octo.Lemmas.OpsBufferProps
import Octo.Lemmas.OpsExamples
/-!
# C18 — Watermarks never go backwards and operators do not create late data (single-input half)

For every single-input execution node: monotone input watermarks give monotone output watermarks
(`…_wm_mono`), and an input without late records gives an output without late records
(`…_no_late`; `NoLate`: no record with a non-zero event time at or below a watermark emitted before
it).  For the event-time buffer: the node equals the naive specification `bufSpec`
(`buffer_spec`) — zero-time records pass at once, at a watermark `w` every pending record with
event time ≤ w is released, unchanged, in (event time, arrival) order (`buffer_sorted`,
`buffer_stable`), then `w`; the rest at end of stream — and nothing is lost (`buffer_complete`).

Stream/outer joins and the table-valued functions are outside this file (C19, C20, C21).
All theorems are for message streams of any length.
-/
namespace Octo.C18
open Octo Octo.Ops

/-- the messages a node emits when its source ends normally -/
abbrev out (op : Op σ) (ms : List Msg) : List Msg := (op.run ms).1

/-! ## nodes whose output is a sublist of their input: Filter, Distinct, Limit -/
theorem sublist_wm_mono {ms ms' : List Msg} (h : ms'.Sublist ms) (hm : Mono (wms ms)) : Mono (wms ms') :=
  mono_sublist (wms_sublist h) hm
theorem sublist_no_late {ms ms' : List Msg} (h : ms'.Sublist ms) (hn : NoLate ms) : NoLate ms' :=
  noLateFrom_sublist h hn

theorem filter_wm_mono (p : Row → Value) (ms : List Msg) (hm : Mono (wms ms)) :
    Mono (wms (out (filterOp fun x => .ok (p x)) ms)) := sublist_wm_mono (filter_out_sublist p ms) hm
theorem filter_no_late (p : Row → Value) (ms : List Msg) (hn : NoLate ms) :
    NoLate (out (filterOp fun x => .ok (p x)) ms) := sublist_no_late (filter_out_sublist p ms) hn

/-- Distinct (it forwards no watermark at all) -/
theorem distinct_wm_mono (ms : List Msg) (hm : Mono (wms ms)) : Mono (wms (out distinctOp ms)) :=
  sublist_wm_mono (distinct_out_sublist ms [] false) hm
theorem distinct_no_late (ms : List Msg) (hn : NoLate ms) : NoLate (out distinctOp ms) :=
  sublist_no_late (distinct_out_sublist ms [] false) hn

theorem limitNode_sublist (n : Int) (ms : List Msg) : (limitNode n ms false).1.Sublist ms := by
  simp only [limitNode]
  split
  · exact List.nil_sublist _
  · exact limit_out_sublist n ms 0 false
theorem limit_wm_mono (n : Int) (ms : List Msg) (hm : Mono (wms ms)) : Mono (wms (limitNode n ms false).1) :=
  sublist_wm_mono (limitNode_sublist n ms) hm
theorem limit_no_late (n : Int) (ms : List Msg) (hn : NoLate ms) : NoLate (limitNode n ms false).1 :=
  sublist_no_late (limitNode_sublist n ms) hn

/-! ## record-wise rewrites that keep event times: Map, Unnest, LookupJoin -/
theorem map_wm_mono (f : Row → Row) (ms : List Msg) (hm : Mono (wms ms)) :
    Mono (wms (out (mapOp fun x => .ok (f x)) ms)) := by
  simp only [out, map_run]
  rw [wms_flatMap _ (fun _ => rfl) (fun _ => rfl)]; exact hm
theorem map_no_late (f : Row → Row) (ms : List Msg) (hn : NoLate ms) :
    NoLate (out (mapOp fun x => .ok (f x)) ms) := by
  simp only [out, map_run]
  exact noLateFrom_flatMap _ (fun _ => rfl) (fun r => ⟨[{ vals := f r.vals, retr := r.retr, et := r.et }], rfl, by simp⟩) ms [] hn

theorem unnest_wm_mono (idx : Nat) (ms : List Msg) (h : ∀ r ∈ recs ms, idx < r.vals.length) (hm : Mono (wms ms)) :
    Mono (wms (out (unnestOp idx) ms)) := by
  simp only [out, unnest_run idx ms h]
  have hd : ∀ r, wms (unnestEmit idx (.data r)) = [] := by
    intro r
    simp only [unnestEmit]
    induction unnestRow idx r.vals with
    | nil => rfl
    | cons v vs ih => simpa [wms] using ih
  rw [wms_flatMap _ (fun _ => rfl) hd]
  exact hm
theorem unnest_no_late (idx : Nat) (ms : List Msg) (h : ∀ r ∈ recs ms, idx < r.vals.length) (hn : NoLate ms) :
    NoLate (out (unnestOp idx) ms) := by
  simp only [out, unnest_run idx ms h]
  exact noLateFrom_flatMap _ (fun _ => rfl)
    (fun r => ⟨unnestBlock idx r, by simp [unnestEmit, unnestBlock, List.map_map, Function.comp_def], by
      intro q hq; simp only [unnestBlock, List.mem_map] at hq; obtain ⟨_, _, rfl⟩ := hq; rfl⟩) ms [] hn

/-- LookupJoin, for a joined side that emits no watermarks (it is handed `metaSend`: see `lookup_wm_refuted`) -/
theorem lookup_wm_mono (J : Row → List Msg) (hJ : ∀ x, wms (J x) = []) (ms : List Msg) (hm : Mono (wms ms)) :
    Mono (wms (out (lookupOp fun x => (J x, none)) ms)) := by
  simp only [out, lookup_run]
  rw [wms_flatMap _ (fun _ => rfl) (fun r => by
    simp only [lookupEmitAll]
    have := hJ r.vals
    generalize J r.vals = jm at this
    induction jm with
    | nil => rfl
    | cons m ms ih => cases m <;> simp_all [wms, lookupEmit])]
  exact hm
theorem lookup_no_late (J : Row → List Msg) (hJ : ∀ x, wms (J x) = []) (ms : List Msg) (hn : NoLate ms) :
    NoLate (out (lookupOp fun x => (J x, none)) ms) := by
  simp only [out, lookup_run]
  refine noLateFrom_flatMap _ (fun _ => rfl) (fun r => ⟨lookupBlock J r, ?_, ?_⟩) ms [] hn
  · simp only [lookupEmitAll, lookupBlock]
    have := hJ r.vals
    generalize J r.vals = jm at this
    induction jm with
    | nil => rfl
    | cons m ms ih => cases m <;> simp_all [wms, lookupEmit, recs]
  · intro q hq; simp only [lookupBlock, List.mem_map] at hq; obtain ⟨_, _, rfl⟩ := hq; rfl

/-- the joined side's watermarks are forwarded once per source record: not monotone -/
theorem lookup_wm_refuted :
    ¬ (∀ (J : Row → List Msg) (ms : List Msg), (∀ x, Mono (wms (J x))) → Mono (wms ms) →
        Mono (wms (out (lookupOp fun x => (J x, none)) ms))) := by
  intro h
  have := h (fun _ => [.wm 10]) [.data { vals := [], retr := false, et := none }, .wm 5]
    (by intro _; simp [wms, Mono]) (by simp [wms, Mono])
  simp [out, Op.run, Op.runFrom, lookupOp, lookupEmit, wms, Mono] at this

/-! ## watermarks, then a final batch without event times: SimpleGroupBy; final batch only: ORDER BY -/
theorem noLate_wm_then_zero (ms : List Msg) (l : List Rec) (h : ∀ q ∈ l, q.et = none) :
    NoLate (wmMsgs ms ++ l.map .data) := by
  simp only [NoLate]
  rw [noLateFrom_append]
  constructor
  · simp only [wmMsgs]
    generalize wms ms = ws
    have : ∀ s, NoLateFrom s (ws.map Msg.wm) := by
      induction ws with
      | nil => intro _; trivial
      | cons w ws ih => intro s; simp only [List.map_cons, NoLateFrom]; exact ih _
    exact this []
  · rw [noLateFrom_data]
    intro r hr e he; rw [h r hr] at he; cases he

theorem sgroup_wm_mono (agg : GAgg α) (kf inf : Row → Row) (ms : List Msg) (hm : Mono (wms ms)) :
    Mono (wms (out (simpleGroupOp agg (fun x => .ok (kf x)) (fun x => .ok (inf x))) ms)) := by
  obtain ⟨l, hl, _⟩ := sgroup_shape agg kf inf ms []
  simp only [out, Op.run]
  rw [show (simpleGroupOp agg (fun x => .ok (kf x)) (fun x => .ok (inf x))).init = [] from rfl, hl, wms_append, wms_wmMsgs,
    wms_map_data, List.append_nil]
  exact hm
theorem sgroup_no_late (agg : GAgg α) (kf inf : Row → Row) (ms : List Msg) :
    NoLate (out (simpleGroupOp agg (fun x => .ok (kf x)) (fun x => .ok (inf x))) ms) := by
  obtain ⟨l, hl, het⟩ := sgroup_shape agg kf inf ms []
  simp only [out, Op.run]
  rw [show (simpleGroupOp agg (fun x => .ok (kf x)) (fun x => .ok (inf x))).init = [] from rfl, hl]
  exact noLate_wm_then_zero ms l het

theorem order_wm_mono (dirs : List Int) (kf : Row → Row) (limit : Option Int) (noRetr : Bool) (ms : List Msg) :
    Mono (wms (out (orderOp dirs (fun x => .ok (kf x)) limit noRetr) ms)) := by
  obtain ⟨l, hl, _⟩ := order_shape dirs kf limit noRetr ms []
  simp only [out, Op.run]
  rw [show (orderOp dirs (fun x => .ok (kf x)) limit noRetr).init = [] from rfl, hl, wms_map_data]
  trivial
theorem order_no_late (dirs : List Int) (kf : Row → Row) (limit : Option Int) (noRetr : Bool) (ms : List Msg) :
    NoLate (out (orderOp dirs (fun x => .ok (kf x)) limit noRetr) ms) := by
  obtain ⟨l, hl, het⟩ := order_shape dirs kf limit noRetr ms []
  simp only [out, Op.run]
  rw [show (orderOp dirs (fun x => .ok (kf x)) limit noRetr).init = [] from rfl, hl]
  simp only [NoLate]
  rw [noLateFrom_data]
  intro r hr e he; rw [(het r hr).1] at he; cases he

/-! ## the event-time buffer -/
/-- **buffer_spec**: `EventTimeBuffer` over `RecordEventTimeBuffer` (buckets in a btree) emits exactly
    what the naive specification says, message for message, and never fails by itself -/
theorem buffer_spec (ms : List Msg) : etbOp.run ms = (bufSpec [] ms, none) :=
  etb_runFrom ms [] [] List.Pairwise.nil rfl

/-- a released batch is in event-time order … -/
theorem buffer_sorted (pending : List (Int × Rec)) (w : Int) :
    ((sortByEt pending).filter fun p => decide (p.1 ≤ w)).Pairwise fun a b => a.1 ≤ b.1 :=
  List.Pairwise.filter _ (sortByEt_sorted pending)
/-- … records with equal event times in arrival order … -/
theorem buffer_stable (pending : List (Int × Rec)) (u : Int) :
    (sortByEt pending).filter (fun a => a.1 == u) = pending.filter (fun a => a.1 == u) :=
  sortByEt_stable pending u
/-- … and it contains exactly the pending records at or below the watermark -/
theorem buffer_release_mem (pending : List (Int × Rec)) (w : Int) (q : Int × Rec) :
    q ∈ (sortByEt pending).filter (fun p => decide (p.1 ≤ w)) ↔ q ∈ pending ∧ q.1 ≤ w := by
  simp [List.mem_filter, mem_sortByEt]

/-- every record comes out exactly once, unchanged (event times within the Int64 nanosecond range) -/
theorem buffer_complete (ms : List Msg) (hr : InRange ms) : (recs (out etbOp ms)).Perm (recs ms) := by
  simp only [out, buffer_spec]
  simpa using recs_bufSpec_perm ms [] (by simp) hr

theorem etb_wm_eq (ms : List Msg) : wms (out etbOp ms) = wms ms := by
  simp only [out, buffer_spec, wms_bufSpec]
theorem etb_wm_mono (ms : List Msg) (hm : Mono (wms ms)) : Mono (wms (out etbOp ms)) := by
  rw [etb_wm_eq]; exact hm
theorem etb_no_late (ms : List Msg) (hn : NoLate ms) : NoLate (out etbOp ms) := by
  simp only [out, buffer_spec]
  exact noLate_bufSpec ms [] [] (by simp) hn

/-! ## CustomTriggerGroupBy with the end-of-stream trigger (behind its EventTimeBuffer) -/
theorem ctgb_wm_mono (agg : GAgg α) (kf inf : Row → Row) (ms : List Msg) (hm : Mono (wms ms)) :
    Mono (wms (ctgbNode agg (fun x => .ok (kf x)) (fun x => .ok (inf x)) none ms false).1) := by
  simp only [ctgbNode, feed, buffer_spec, Option.isSome_none]
  obtain ⟨l, hl, _⟩ := ctgb_shape agg kf inf (bufSpec [] ms) ⟨[], []⟩
  simp only [Op.run]
  rw [show (ctgbOp agg (fun x => .ok (kf x)) (fun x => .ok (inf x)) none).init = ⟨[], []⟩ from rfl, hl,
    wms_append, wms_wmMsgs, wms_map_data, List.append_nil, wms_bufSpec]
  exact hm

/-- without an event-time key the final rows are stamped `WatermarkMaxValue`: on time as long as the
    watermarks stay below it -/
theorem ctgb_no_late (agg : GAgg α) (kf inf : Row → Row) (ms : List Msg) (hw : ∀ w ∈ wms ms, w < maxWm) :
    NoLate (ctgbNode agg (fun x => .ok (kf x)) (fun x => .ok (inf x)) none ms false).1 := by
  simp only [ctgbNode, feed, buffer_spec, Option.isSome_none]
  obtain ⟨l, hl, het⟩ := ctgb_shape agg kf inf (bufSpec [] ms) ⟨[], []⟩
  simp only [Op.run]
  rw [show (ctgbOp agg (fun x => .ok (kf x)) (fun x => .ok (inf x)) none).init = ⟨[], []⟩ from rfl, hl]
  simp only [NoLate]
  rw [noLateFrom_append]
  constructor
  · simp only [wmMsgs]
    generalize wms (bufSpec [] ms) = ws
    have : ∀ s, NoLateFrom s (ws.map Msg.wm) := by
      induction ws with
      | nil => intro _; trivial
      | cons w ws ih => intro s; simp only [List.map_cons, NoLateFrom]; exact ih _
    exact this []
  · rw [noLateFrom_data]
    intro r hr e he w hw'
    rw [(het r hr).1] at he; cases he
    simp only [wms_wmMsgs, wms_bufSpec, List.append_nil, List.mem_reverse] at hw'
    exact hw w hw'

/-! # The full-strength statement (single-input nodes), its refutation, and what does hold -/

/-- what C18 demands of one node: monotone watermarks stay monotone, and no late data is created -/
def Keeps (run : List Msg → Out) (Side : List Msg → Prop) : Prop :=
  ∀ ms, Side ms → (Mono (wms ms) → Mono (wms (run ms).1)) ∧ (NoLate ms → NoLate (run ms).1)

structure StatementWith (extraLookup : (Row → List Msg) → Prop) (extraKey : Option Nat → Prop) : Prop where
  filter : ∀ p : Row → Value, Keeps (filterOp fun x => .ok (p x)).run (fun _ => True)
  map : ∀ f : Row → Row, Keeps (mapOp fun x => .ok (f x)).run (fun _ => True)
  distinct : Keeps distinctOp.run (fun _ => True)
  limit : ∀ n : Int, Keeps (fun ms => limitNode n ms false) (fun _ => True)
  unnest : ∀ idx : Nat, Keeps (unnestOp idx).run (fun ms => ∀ r ∈ recs ms, idx < r.vals.length)
  lookupJoin : ∀ J : Row → List Msg, (∀ x, Mono (wms (J x))) → extraLookup J →
    Keeps (lookupOp fun x => (J x, none)).run (fun _ => True)
  groupBy : ∀ (α : Type) (agg : GAgg α) (kf inf : Row → Row),
    Keeps (simpleGroupOp agg (fun x => .ok (kf x)) (fun x => .ok (inf x))).run (fun _ => True)
  groupByCustom : ∀ (α : Type) (agg : GAgg α) (kf inf : Row → Row) (etIdx : Option Nat), extraKey etIdx →
    Keeps (fun ms => ctgbNode agg (fun x => .ok (kf x)) (fun x => .ok (inf x)) etIdx ms false)
      (fun ms => ∀ w ∈ wms ms, w < maxWm)
  orderBy : ∀ (dirs : List Int) (kf : Row → Row) (limit : Option Int) (noRetr : Bool),
    Keeps (orderOp dirs (fun x => .ok (kf x)) limit noRetr).run (fun _ => True)
  eventTimeBuffer : Keeps etbOp.run (fun _ => True)
  bufferSpec : ∀ ms, etbOp.run ms = (bufSpec [] ms, none)

def Statement : Prop := StatementWith (fun _ => True) (fun _ => True)

/-- grouped by an event-time key (column 0), the end-of-stream flush stamps the row with the key's
    time although `W10` has been forwarded -/
def srcKeyed : List Msg := [.data { vals := [.time 5 0], retr := false, et := some 5 }, .wm 10]

theorem ctgb_keyed_refuted :
    ¬ Keeps (fun ms => ctgbNode countAgg (fun x => .ok x) (fun _ => .ok []) (some 0) ms false) (fun ms => ∀ w ∈ wms ms, w < maxWm) := by
  intro h
  have hin : NoLate srcKeyed := by rw [NoLate, noLateFrom_iff]; decide
  have := (h srcKeyed (by intro w hw; simp [srcKeyed, wms] at hw; subst hw; decide)).2 hin
  rw [NoLate, noLateFrom_iff] at this
  revert this; decide

/-- **C18 (single-input half) is refuted on the current tree** (reproduced on the real nodes: known
    findings `lookup-join-forwards-joined-watermarks`, `ctgb-end-of-stream-flush-late`) -/
theorem C18_refuted : ¬ Statement := by
  intro h
  apply lookup_wm_refuted
  intro J ms hJ hm
  exact ((h.lookupJoin J hJ trivial) ms trivial).1 hm

/-- **What holds**: everything, provided the joined side of a lookup join emits no watermarks and
    CustomTriggerGroupBy is not keyed by an event-time column -/
theorem C18_partial : StatementWith (fun J => ∀ x, wms (J x) = []) (fun etIdx => etIdx = none) where
  filter p ms _ := ⟨filter_wm_mono p ms, filter_no_late p ms⟩
  map f ms _ := ⟨map_wm_mono f ms, map_no_late f ms⟩
  distinct ms _ := ⟨distinct_wm_mono ms, distinct_no_late ms⟩
  limit n ms _ := ⟨limit_wm_mono n ms, limit_no_late n ms⟩
  unnest idx ms h := ⟨unnest_wm_mono idx ms h, unnest_no_late idx ms h⟩
  lookupJoin J _ hJ ms _ := ⟨lookup_wm_mono J hJ ms, lookup_no_late J hJ ms⟩
  groupBy _ agg kf inf ms _ := ⟨sgroup_wm_mono agg kf inf ms, fun _ => sgroup_no_late agg kf inf ms⟩
  groupByCustom _ agg kf inf etIdx he ms hw := by
    subst he
    exact ⟨ctgb_wm_mono agg kf inf ms, fun _ => ctgb_no_late agg kf inf ms hw⟩
  orderBy dirs kf limit noRetr ms _ := ⟨fun _ => order_wm_mono dirs kf limit noRetr ms, fun _ => order_no_late dirs kf limit noRetr ms⟩
  eventTimeBuffer ms _ := ⟨etb_wm_mono ms, etb_no_late ms⟩
  bufferSpec := buffer_spec

/-! ### non-vacuity: a stream with watermarks, ties, zero times, where the buffer really reorders -/
def srcBuf : List Msg :=
  [.data ⟨[.int 1], false, some 7⟩, .data ⟨[.int 2], false, some 3⟩, .data ⟨[.int 3], false, none⟩,
   .data ⟨[.int 4], false, some 3⟩, .wm 5, .data ⟨[.int 5], false, some 6⟩]
example : NoLate srcBuf ∧ Mono (wms srcBuf) := by
  constructor
  · rw [NoLate, noLateFrom_iff]; decide
  · rw [mono_iff_B]; decide
/-- zero-time record at once; at `W5` the two records of time 3 in arrival order; 6 before 7 at the end -/
example : (recs (out etbOp srcBuf)).map (fun r => r.vals.map intOf) = [[3], [2], [4], [5], [1]] := by
  simp only [out, buffer_spec]; decide

end Octo.C18
