import Octo.Model.SqlParse
/-! placeholder while the pipeline is brought up -/
namespace Octo.C30
open Octo.Sql

theorem C30_partial : parseStmt (printS (.select false [.aliased (.col "" "" "a") ""] [.table "" "t" ""] none [] none [] [] none none))
    = some (.select false [.aliased (.col "" "" "a") ""] [.table "" "t" ""] none [] none [] [] none none) := by rfl

end Octo.C30
