import Octo.Lemmas.SqlSel
import Octo.Lemmas.SqlDepth
/-!
# C30 — SQL formatting round-trips through the parser

Property: for every statement the SQL parser accepts (including OctoSQL's extensions: TRIGGER clauses, table valued
function arguments, DESCRIPTOR, TABLE(), LOOKUP JOIN, object field access and `->*`), printing the parsed statement
and parsing the printed text again yields the same syntax tree.

Model (all in `Octo.SqlSyn`):
* `printS : Sel → List Tok` — `sqlparser.String` at token level.  Every node is printed by interpreting the `Format`
  template that the translator extracted from the **current** `ast.go` (`Octo/Gen/SqlFormat.lean`);
* `parseStmt : List Tok → Option Sel` — a hand-written precedence-climbing parser for the fragment, tied to the
  goyacc tables only by the correspondence run;
* `okS` — the decidable predicate "precedence respecting and well formed" that describes the trees the parser builds.

All theorems are about token sequences (the tokenizer is outside the model) and hold for trees of any size and
nesting depth.
-/
namespace Octo.C30
open Octo.SqlSyn

/-- the trees the parser can build: a select statement, well formed and precedence respecting (`okS`) -/
def FromParser (t : Sel) : Prop := okS t = true ∧ t.isStmt = true

instance (t : Sel) : Decidable (FromParser t) := by unfold FromParser; exact inferInstance

/-- round trip with explicit nesting fuel: any fuel above the nesting depth of the tree will do -/
theorem roundtrip_fuel (t : Sel) (h : FromParser t) (n : Nat) (hn : depthS t < n) :
    parseStmtFuel n (printS t) = some t :=
  Octo.SqlSyn.roundtrip_fuel t h.1 h.2 n hn

/-- the nesting depth of a tree never exceeds the number of tokens it prints to (so `parseStmt`'s fuel suffices) -/
theorem depth_le_tokens (t : Sel) : depthS t ≤ (printS t).length := depthS_le_len t

/-- **round trip**: printing a tree the parser can build and parsing the tokens again gives the same tree -/
theorem roundtrip (t : Sel) (h : FromParser t) : parseStmt (printS t) = some t := by
  unfold parseStmt
  exact roundtrip_fuel t h _ (by have := depth_le_tokens t; omega)

/-- every expression of the fragment, at every precedence level, inside any statement: the expression parser of any
    sufficiently deep nesting level reads back a printed expression and stops exactly at its end -/
theorem roundtrip_expr (e : Expr) (hok : okE e = true) (hl : 1 ≤ e.lvl) (n : Nat) (hn : depthE e < n) (rest : List Tok)
    (hf : follow 1 rest = true) : (parsers n).expr (printE e ++ rest) = some (e, rest) :=
  (prevOK_all n).expr e hok hl hn rest hf

/-- table references (joins with strategy and kind, derived tables, table valued functions) -/
theorem roundtrip_table (t : Tbl) (hok : okT t = true) (n : Nat) (hn : depthT t < n) (rest : List Tok)
    (hf : followT rest = true)
    (hopen : t.isOpenInnerJoin = true → headIs .ON rest = false ∧ headIs .USING rest = false) :
    (parsers n).tbl (printT t ++ rest) = some (t, rest) :=
  (prevOK_all n).tbl t hok hn rest hf hopen

/-- the full-strength statement for a parser / printer pair: whatever the parser accepts survives print-then-parse -/
def Statement (parse : List Tok → Option Sel) (print : Sel → List Tok) : Prop :=
  ∀ ts t, parse ts = some t → parse (print t) = some t

/-! ## The known finding: names printed with `%s`

`FuncExpr.Format` and `IntervalExpr.Format` print the function name / the unit unquoted.  A back-quoted name that is a
reserved word (or is not a plain identifier) therefore does not re-parse.  The model mirrors this (`rawWord`), so the
full-strength statement is refuted by a concrete witness; `C30_partial` states exactly what holds. -/

/-- ``select `select`(a) from t`` as the tokenizer delivers it -/
def witnessToks : List Tok :=
  [.kw .SELECT, .id "select", .kw .LPAREN, .id "a", .kw .RPAREN, .kw .FROM, .id "t"]
def witnessTree : Sel :=
  .select false [.aliased (.func "" "select" false [.aliased (.col "" "" "a") ""]) ""] [.table "" "t" ""]
    none [] none [] [] none none

theorem witness_parses : parseStmt witnessToks = some witnessTree := by rfl
theorem witness_prints :
    printS witnessTree = [.kw .SELECT, .kw .SELECT, .kw .LPAREN, .id "a", .kw .RPAREN, .kw .FROM, .id "t"] := by
  decide +kernel
theorem witness_fails : parseStmt (printS witnessTree) = none := by rw [witness_prints]; rfl

/-- the full-strength statement fails on the current tree (known finding `raw-name-unquoted`) -/
theorem C30_refuted : ¬ Statement parseStmt printS := by
  intro h
  have := h witnessToks witnessTree witness_parses
  rw [witness_fails] at this
  exact absurd this (by simp)

/-- **C30, what holds**: every tree in the image of the parser (`FromParser`: precedence respecting, identifiers
    non-empty, and every name that `Format` prints unquoted lexes back to itself — `rawOK`) round-trips. -/
theorem C30_partial : ∀ t, FromParser t → parseStmt (printS t) = some t := roundtrip

/-- the witness is excluded by `FromParser` only because of the unquoted name -/
example : ¬ FromParser witnessTree := by decide +kernel
example : rawOK "select" = false ∧ rawOK "count" = true ∧ rawOK "time" = true ∧ rawOK "Time" = false ∧
    rawOK "a b" = false := by decide +kernel

/-! ## Non-vacuity: the hypothesis is met by statements using every extension -/

/-- `select distinct a->b, c->*, t.*, f(x, *) as y from t lookup join u on t.a = u.b where a::int is not null
     group by a having count(*) > 1 trigger counting 3, on watermark, on end of stream, after delay interval 2 second
     order by a desc, null limit 1, 2` -/
def ex1 : Sel :=
  .select true
    [.aliased (.field (.col "" "" "a") "b") "", .explode (.col "" "" "c"), .star "" "t",
     .aliased (.func "" "f" false [.aliased (.col "" "" "x") "", .star "" ""]) "y"]
    [.join (.table "" "t" "") .lookup .join (.table "" "u" "") (some (.cmp .eq (.col "" "t" "a") (.col "" "u" "b"))) []]
    (some (.is .notNull (.convert (.col "" "" "a") (.simple "int"))))
    [.col "" "" "a"]
    (some (.cmp .gt (.func "" "count" false [.star "" ""]) (.val .int false "1")))
    [.trigCount (.val .int false "3"), .trigWm, .trigEos, .trigDelay (.interval (.val .int false "2") "second")]
    [.order (.col "" "" "a") true, .order .null false]
    (some (.val .int false "1")) (some (.val .int false "2"))

example : FromParser ex1 := by decide +kernel
example : parseStmt (printS ex1) = some ex1 := C30_partial ex1 (by decide +kernel)

/-- `with x as (select a from t) select * from f(r => table(x), d => descriptor(x.a), n => -1 + 2 * (3 - b)) q
     left join (select 1 from dual) s using (a)` -/
def ex2 : Sel :=
  .with_ [.cte "x" (.select false [.aliased (.col "" "" "a") ""] [.table "" "t" ""] none [] none [] [] none none)]
    (.select false [.star "" ""]
      [.join
        (.tvf "f" [.argT "r" (.table "" "x" ""), .argD "d" "" "x" "a",
          .argE "n" (.bin .plus (.val .int true "1")
            (.bin .mult (.val .int false "2") (.paren (.bin .minus (.val .int false "3") (.col "" "" "b")))))] "q")
        .none_ .left
        (.sub (.select false [.aliased (.val .int false "1") ""] [.table "" "dual" ""] none [] none [] [] none none) "s")
        none ["a"]]
      none [] none [] [] none none)

example : FromParser ex2 := by decide +kernel
example : parseStmt (printS ex2) = some ex2 := C30_partial ex2 (by decide +kernel)

/-- precedence matters: `a - (b - c)` keeps its parentheses node, and a tree without it is *not* in the parser's image -/
example : okE (.bin .minus (.col "" "" "a") (.paren (.bin .minus (.col "" "" "b") (.col "" "" "c")))) = true := by decide
example : okE (.bin .minus (.col "" "" "a") (.bin .minus (.col "" "" "b") (.col "" "" "c"))) = false := by decide
/-- … and printing that tree indeed re-parses to a different one (`(a - b) - c`) -/
example : (parsers 1).expr (printE (.bin .minus (.col "" "" "a") (.bin .minus (.col "" "" "b") (.col "" "" "c")))) =
    some (.bin .minus (.bin .minus (.col "" "" "a") (.col "" "" "b")) (.col "" "" "c"), []) := by rfl

/-! ## The code before the repairs (templates as they were; see notes/C30.md) -/

/-- `EndOfStreamTrigger.Format` printed `ON WATERMARK`: it re-parsed as a *watermark* trigger -/
def old_fmt_EndOfStreamTrigger : List Step := [⟨[], .printf [.lit [.kw .ON, .kw .WATERMARK]]⟩]
theorem old_eos_trigger_reparses_as_watermark (prev : Parsers) :
    parseTrigger prev (Fmt.run old_fmt_EndOfStreamTrigger [] []) = some (.trigWm, []) := by rfl
/-- `DelayTrigger.Format` printed `DELAY e`: that is not a trigger of the grammar -/
def old_fmt_DelayTrigger : List Step := [⟨[], .printf [.lit [.kw .DELAY], .arg 'v' "w.Delay"]⟩]
theorem old_delay_trigger_does_not_parse (prev : Parsers) (e : List Tok) :
    parseTrigger prev (Fmt.run old_fmt_DelayTrigger [("w.Delay", e)] []) = none := by rfl

end Octo.C30
