import Octo.Lemmas.JoinProgressInd
/-!
# C19 — Stream joins are internally consistent under every schedule

Property: for watermarked inputs and every interleaving of the two inputs' records, watermarks
and end-of-stream, whenever an inner or outer stream join emits watermark W, its consolidated
output equals the join of all input records with event time at or below W. At end of stream it
equals the join of the complete inputs, including when either input ends first.

`Octo.Join.run cfg σ` is the model of `StreamJoin.Run` / `OuterJoin.Run` (`execution/nodes/stream_join.go`,
`outer_join.go`, `execution/record_event_time_buffer.go`) under an explicit schedule `σ` — the order in
which the `select` loop takes the two inputs' messages and observes their closes. It is tied to the
code by the C19 correspondence run, which drives the real nodes under exactly chosen schedules
(`verifJoinRecv` hook). `specRecs` (`Octo/Model/JoinSpec.lean`) is the SQL inner / LEFT / RIGHT /
FULL OUTER join of two changelogs, written as a nested loop.

All theorems quantify over **every** pair of inputs and **every** interleaving (`Interleave ls rs σ`),
of any length. "Consolidated output equals X" is `SameNet (recs out) X`: equal signed
multiplicity for every row.
-/
namespace Octo.C19
open Octo Octo.Join

/-- the configuration describes the code as it is now (after the two `fix:` commits) -/
def Current (cfg : Cfg) : Prop := cfg.switchOsr = false ∧ cfg.nullMatch = false

/-- the records have the field counts the OuterJoin node was constructed with (nothing for StreamJoin) -/
def WidthsOK (cfg : Cfg) (ls rs : List Msg) : Prop :=
  cfg.outer = true → (∀ x ∈ recs ls, x.vals.length = cfg.nL) ∧ (∀ x ∈ recs rs, x.vals.length = cfg.nR)

/-- equal consolidated content: every row has the same signed multiplicity -/
def SameNet (a b : List Rec) : Prop := ∀ row, net a row = net b row

/-- every watermark `w` in the output comes after an output prefix whose consolidated content is the join
    of the input records with event time at or below `w` -/
def ConsistentAtWm (cfg : Cfg) (ls rs : List Msg) (out : List Msg) : Prop :=
  ∀ pre w post, out = pre ++ Msg.wm w :: post →
    SameNet (recs pre) (specRecs cfg (upTo w (recs ls)) (upTo w (recs rs)))

theorem shapes_of_widths {cfg : Cfg} {ls rs : List Msg} (hw : WidthsOK cfg ls rs) :
    (∀ x ∈ recs ls, Shape cfg true x) ∧ (∀ x ∈ recs rs, Shape cfg false x) :=
  ⟨fun x hx ho => by simpa using (hw ho).1 x hx, fun x hx ho => by simpa using (hw ho).2 x hx⟩

/-- **final**: at end of stream the consolidated output is the join of the complete inputs — for every
    schedule, whichever input ends first, with or without event times, watermarks and late records. -/
theorem final {cfg : Cfg} (hcur : Current cfg) {ls rs : List Msg} {σ : List Ev} {out : List Msg}
    (hw : WidthsOK cfg ls rs) (hI : Interleave ls rs σ) (hrun : run cfg σ = .ok out) :
    SameNet (recs out) (specRecs cfg (recs ls) (recs rs)) := by
  intro row
  have sh := shapes_of_widths hw
  rw [net_specRecs]
  exact (run_spec (specW_recvOK hcur.2) hcur.1 sh.1 sh.2 hI hrun).1 row

/-- **consistent_at_wm**: for inputs with monotone watermarks and no late records (`Fresh`: every record
    carries an event time after the last watermark of its own input), whenever the join forwards a
    watermark `w`, the consolidated output so far is the join of all input records with event time ≤ `w`. -/
theorem consistent_at_wm {cfg : Cfg} (hcur : Current cfg) {ls rs : List Msg} {σ : List Ev} {out : List Msg}
    (hw : WidthsOK cfg ls rs) (hI : Interleave ls rs σ) (hfl : Fresh none ls) (hfr : Fresh none rs)
    (hrun : run cfg σ = .ok out) : ConsistentAtWm cfg ls rs out := by
  intro pre w post hout row
  have sh := shapes_of_widths hw
  have h := (run_spec (specW_recvOK hcur.2) hcur.1 sh.1 sh.2 hI hrun).2 ⟨hfl, hfr⟩
  rw [hout] at h
  rw [net_specRecs]
  exact wmOK_split h row

/-- inputs on which the node must not panic: every record has its key columns, records that carry an
    event time are insertions (append-only streams), and the records without event time of each input
    form, in arrival order, a valid changelog (tables, changelogs of upstream operators). -/
structure GoodInputs (cfg : Cfg) (ls rs : List Msg) : Prop where
  keysL : ∀ x ∈ recs ls, KeysOK cfg true x
  keysR : ∀ x ∈ recs rs, KeysOK cfg false x
  timedL : ∀ x ∈ recs ls, untimed x = false → x.retr = false
  timedR : ∀ x ∈ recs rs, untimed x = false → x.retr = false
  validL : ValidLog ((recs ls).filter untimed)
  validR : ValidLog ((recs rs).filter untimed)

/-- **no_panic**: on such inputs the node finishes under every schedule (the two panics of `receiveRecord` — key
    index out of range, `EventTimes[1:]` of an empty slice — cannot happen), so `final` and
    `consistent_at_wm` are not vacuous. -/
theorem no_panic {cfg : Cfg} (hcur : Current cfg) {ls rs : List Msg} {σ : List Ev}
    (hw : WidthsOK cfg ls rs) (hg : GoodInputs cfg ls rs) (hI : Interleave ls rs σ) :
    ∃ out, run cfg σ = .ok out := by
  have sh := shapes_of_widths hw
  exact run_ok (specW_recvOK hcur.2) hcur.2 hcur.1 sh.1 sh.2 hg.keysL hg.keysR hg.timedL hg.timedR hg.validL hg.validR hI

/-- the inner join node, stated directly -/
theorem streamJoin_final (keysL keysR : List Nat) {ls rs : List Msg} {σ : List Ev} {out : List Msg}
    (hI : Interleave ls rs σ) (hrun : run (cfgInner keysL keysR) σ = .ok out) :
    SameNet (recs out) (joinRecs (cfgInner keysL keysR) (recs ls) (recs rs)) :=
  final (cfg := cfgInner keysL keysR) ⟨rfl, rfl⟩ (fun h => by cases h) hI hrun

/-- the outer join node, stated directly -/
theorem outerJoin_final (oL oR : Bool) (nL nR : Nat) (keysL keysR : List Nat) {ls rs : List Msg} {σ : List Ev} {out : List Msg}
    (hwL : ∀ x ∈ recs ls, x.vals.length = nL) (hwR : ∀ x ∈ recs rs, x.vals.length = nR)
    (hI : Interleave ls rs σ) (hrun : run (cfgOuter oL oR nL nR keysL keysR) σ = .ok out) :
    SameNet (recs out) (outerRecs (cfgOuter oL oR nL nR keysL keysR) (recs ls) (recs rs)) :=
  final (cfg := cfgOuter oL oR nL nR keysL keysR) ⟨rfl, rfl⟩ (fun _ => ⟨hwL, hwR⟩) hI hrun

/-- the full-strength statement of the property for a node configuration -/
def Statement (cfg : Cfg) : Prop :=
  ∀ (ls rs : List Msg) (σ : List Ev), Interleave ls rs σ → WidthsOK cfg ls rs →
    (GoodInputs cfg ls rs → ∃ out, run cfg σ = .ok out) ∧
    ∀ out, run cfg σ = .ok out →
      SameNet (recs out) (specRecs cfg (recs ls) (recs rs)) ∧
      (Fresh none ls → Fresh none rs → ConsistentAtWm cfg ls rs out)

/-- **C19, full strength, on the current tree**: for StreamJoin and for LEFT / RIGHT / FULL OuterJoin. -/
theorem C19_full (cfg : Cfg) (hcur : Current cfg) : Statement cfg :=
  fun _ _ _ hI hw => ⟨fun hg => no_panic hcur hw hg hI,
    fun _ hrun => ⟨final hcur hw hI hrun, fun hfl hfr => consistent_at_wm hcur hw hI hfl hfr hrun⟩⟩

/-! ## Non-vacuity and the refutation of the code before the repairs -/

def rec1 (t : Option Int) : Rec := { vals := [.int 1], retr := false, et := t }
def recN : Rec := { vals := [.null], retr := false, et := none }
def evL (m : Option Msg) : Ev := { left := true, msg := m }
def evR (m : Option Msg) : Ev := { left := false, msg := m }

/-- left = [rec(1, et 5), wm 10], right = [rec(1, et 7), wm 8]: fresh inputs -/
def wL : List Msg := [.data (rec1 (some 5)), .wm 10]
def wR : List Msg := [.data (rec1 (some 7)), .wm 8]
def wσ : List Ev := [evL (some (.data (rec1 (some 5)))), evR (some (.data (rec1 (some 7)))), evL (some (.wm 10)),
  evR (some (.wm 8)), evL none, evR none]

example : Interleave wL wR wσ :=
  .left (.right (.left (.right (.left (.right .nil)))))
example : Fresh none wL ∧ Fresh none wR := ⟨⟨rfl, rfl, trivial⟩, ⟨rfl, rfl, trivial⟩⟩
/-- the hypotheses of `consistent_at_wm` are met by a run that buffers, forwards a watermark and joins -/
example : run (cfgInner [0] [0]) wσ =
    .ok [.data { vals := [.int 1, .int 1], retr := false, et := some 7 }, .wm 8] := by rfl

/-- the hypotheses of `no_panic` are met by inputs with a retraction -/
example : GoodInputs (cfgInner [0] [0])
    [.data (rec1 none), .data { vals := [.int 1], retr := true, et := none }] [.data (rec1 (some 3)), .wm 4] :=
  { keysL := by intro x hx; simp [recs] at hx; rcases hx with rfl | rfl <;> exact ⟨[.int 1], rfl⟩
    keysR := by intro x hx; simp [recs] at hx; subst hx; exact ⟨[.int 1], rfl⟩
    timedL := by intro x hx; simp [recs] at hx; rcases hx with rfl | rfl <;> simp [untimed, rec1]
    timedR := by intro x hx; simp [recs] at hx; subst hx; simp [rec1]
    validL := by
      have e : (recs [.data (rec1 none), .data { vals := [.int 1], retr := true, et := none }]).filter untimed =
          [rec1 none, { vals := [.int 1], retr := true, et := none }] := rfl
      rw [e]
      intro n row
      rcases n with _ | _ | _ | n <;> simp [net, Rec.weight, rec1] <;> split <;> simp
    validR := by intro n row; simp [recs, untimed, rec1, net] }

/-- the schedule on which the unrepaired StreamJoin lost the pair: left = [rec(1, et 5)],
    right = [rec(1, et 7), wm 10], order L.rec R.rec R.wm L.close R.close -/
def xL : List Msg := [.data (rec1 (some 5))]
def xR : List Msg := [.data (rec1 (some 7)), .wm 10]
def xσ : List Ev := [evL (some (.data (rec1 (some 5)))), evR (some (.data (rec1 (some 7)))), evR (some (.wm 10)),
  evL none, evR none]
theorem xσ_interleave : Interleave xL xR xσ := .left (.right (.right (.left (.right .nil))))

/-- StreamJoin before `fix: stream join must keep storing records released when the first input ends` -/
def cfgBeforeSwitchFix : Cfg := { cfgInner [0] [0] with switchOsr := true }
/-- StreamJoin before `fix: NULL join keys never match in StreamJoin and OuterJoin` -/
def cfgBeforeNullFix : Cfg := { cfgInner [0] [0] with nullMatch := true }

example : run (cfgInner [0] [0]) xσ = .ok [.data { vals := [.int 1, .int 1], retr := false, et := some 7 }] := by rfl

/-- the code before the repair violates the property: the matching pair is lost when the left input ends
    while both records are still buffered -/
theorem switch_refuted : ¬ Statement cfgBeforeSwitchFix := by
  intro h
  have h1 := ((h xL xR xσ xσ_interleave (fun h => by cases h)).2 [] (by rfl)).1 [.int 1, .int 1]
  revert h1
  decide

/-- … and NULL keys matched: `NULL = NULL` produced a row -/
theorem null_refuted : ¬ Statement cfgBeforeNullFix := by
  intro h
  have h1 := ((h [.data recN] [.data recN] [evL (some (.data recN)), evR (some (.data recN)), evL none, evR none]
    (.left (.right (.left (.right .nil)))) (fun h => by cases h)).2
    [.data { vals := [.null, .null], retr := false, et := none }] (by rfl)).1 [.null, .null]
  revert h1
  decide

end Octo.C19
