import Octo.Model.JoinSpec
namespace Octo.C19
open Octo Octo.Join
theorem stub : run (cfgInner [] []) [] = .ok [] := rfl
end Octo.C19
