import Octo.Model.Plugins
namespace Octo.C27
theorem placeholder : True := trivial
end Octo.C27
