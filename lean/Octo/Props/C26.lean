import Octo.Lemmas.Wire
import Octo.Lemmas.Repopulate
import Octo.Lemmas.WireJson
import Octo.Lemmas.PluginFlow
import Octo.Lemmas.ValueOrder
/-!
# C26 — The plugin protocol carries data and predicates without change

Property: values, types, schemas, records, watermarks and variable contexts come out of the plugin wire encoding
equal to what went in; a pushed-down predicate evaluates the same on both sides of the plugin boundary.

* `encodeV`/`decodeV`, `encodeT`/`decodeT` are `NativeValueToProto`/`ToNativeValue`, `NativeTypeToProto`/`ToNativeType`
  of `plugins/internal/plugins/plugins.go`: one generic interpreter (`Octo.Model.Wire.convV`, `convT`) run on the
  tables `Octo.Gen.Wire.*`, which `vh extract wire` regenerates from the Go source on every check.  The theorems
  below are therefore re-proved against what the source says now.
* `repopulate` is the descriptor loop of `RepopulatePhysicalExpressionFunctions`, `typecheckPick` the overload
  resolution of `logical/function.go`, both run on `Octo.Gen.WireFunctions.table` (regenerated `FunctionMap()`).
* `repopTree` is `RepopulatePhysicalExpressionFunctions` over a whole predicate (`TransformExpr` bottom-up, `outOk` the
  conjunction over all calls), `clientPushDown`/`serverPushDown` the predicate bookkeeping of executor.go / plugins.go.
* everything is tied to the real code by the C26 correspondence run (all fields of every proto message compared, the
  descriptor of every call after the real JSON + Repopulate trip), predicate evaluation and end-to-end plugin queries
  are checked differentially (native against through-the-boundary).

"Equal" for values means equal up to the location of times (`normLoc`): a timestamp carries an instant, `AsTime`
returns it in UTC; `Value.Compare` ignores the location (`value_roundtrip_cmp`).
All theorems quantify over values / types of **any** nesting depth and over **all** argument type lists.
-/
namespace Octo.C26
open Octo Octo.Wire

/-! ## 1. The regenerated tables: the decoder reads what the encoder wrote -/

/-- the field that holds the payload of a value with this TypeID (what every consumer reads, `toValue`) -/
def fieldOf : Nat → Option VF
  | 1 => some .int | 2 => some .float | 3 => some .boolean | 4 => some .str | 5 => some .time
  | 6 => some .duration | 7 => some .list | 8 => some .struct | 9 => some .tuple | _ => none

/-- encoder conversion / decoder conversion pairs that undo one another -/
def inverse : VConv → VConv → Bool
  | .copy, .copy => true
  | .int64, .copy => true
  | .tsNew, .tsAsTime => true
  | .durNew, .durAsDuration => true
  | .mapSelf, .mapSelf => true
  | _, _ => false

/-- for TypeID `id`: the encoder writes exactly the payload field, from the payload field; the decoder reads that
    same field back into the payload field with the inverse conversion; a TypeID without payload assigns nothing -/
def valueCaseOk (enc dec : VTable) (id : Nat) : Bool :=
  match lookupV enc.cases id, lookupV dec.cases id, fieldOf id with
  | some [], some [], none => true
  | some [a], some [b], some f => a.dst == f && a.src == f && b.src == f && b.dst == f && inverse a.conv b.conv
  | _, _, _ => false

def typeFieldOf : Nat → Option (TF × TConv)
  | 7 => some (.list, .optSelf) | 8 => some (.struct, .mapFields) | 9 => some (.tuple, .mapSelf)
  | 10 => some (.union, .mapSelf) | _ => none

def typeCaseOk (enc dec : TTable) (id : Nat) : Bool :=
  match lookupT enc.cases id, lookupT dec.cases id, typeFieldOf id with
  | some [], some [], none => true
  | some [a], some [b], some (f, c) => a == ⟨f, f, c⟩ && b == ⟨f, f, c⟩
  | _, _, _ => false

/-- **the case coverage of the four conversion functions, over the tables extracted from plugins.go**:
    every value TypeID (0..9) and every type TypeID (0..11) has a case on both sides, the two sides agree on the
    field and use inverse conversions, no other TypeID has a case, and `default:` panics. -/
theorem wire_table_ok :
    (List.range 10).all (valueCaseOk Gen.Wire.nativeValueToProto Gen.Wire.toNativeValue) = true ∧
    (List.range 12).all (typeCaseOk Gen.Wire.nativeTypeToProto Gen.Wire.toNativeType) = true ∧
    ([10, 11, 12, 13].all fun id => (lookupV Gen.Wire.nativeValueToProto.cases id).isNone
      && (lookupV Gen.Wire.toNativeValue.cases id).isNone) = true ∧
    ((lookupT Gen.Wire.nativeTypeToProto.cases 12).isNone && (lookupT Gen.Wire.toNativeType.cases 12).isNone) = true ∧
    (Gen.Wire.nativeValueToProto.defaultPanics && Gen.Wire.toNativeValue.defaultPanics
      && Gen.Wire.nativeTypeToProto.defaultPanics && Gen.Wire.toNativeType.defaultPanics) = true ∧
    Gen.Wire.nativeValueToProto.tid = .int32 ∧ Gen.Wire.toNativeValue.tid = .typeID ∧
    Gen.Wire.nativeTypeToProto.tid = .int32 ∧ Gen.Wire.toNativeType.tid = .typeID := by decide

/-! ## 2. Library round trips (timestamppb / durationpb) -/

/-- `timestamppb.New(t).AsTime()` is the same instant, for every instant — also before 1970 and with a
    fractional second (floor division of seconds, non-negative nanos) -/
theorem timestamp_roundtrip (ns : Int) (loc : Nat) : (tsNew (ns, loc)).map (fun x => tsAsTime (some x)) = some (ns, 0) :=
  ts_roundtrip (ns, loc)

/-- the nanos field written for any instant lies in `[0, 1e9)` (the range protobuf requires) -/
theorem timestamp_nanos_valid (ns : Int) (loc : Nat) :
    ∃ x, tsNew (ns, loc) = some x ∧ 0 ≤ x.nanos ∧ x.nanos < 1000000000 :=
  ⟨_, rfl, tsNew_nanos_range ns⟩

/-- `durationpb.New(d).AsDuration() = d` for every int64 duration (negative ones included: truncated division,
    both fields of the same sign, no spurious overflow saturation) -/
theorem duration_roundtrip (d : Int) (h : inInt64 d) : (durNew d).map (fun x => durAsDuration (some x)) = some d := by
  simp only [durNew, Option.map]; rw [dur_roundtrip d h]

/-! ## 3. Values and types -/

/-- `NativeValueToProto` never panics on a value and `ToNativeValue` returns it, every time moved to UTC -/
theorem value_roundtrip (v : Value) (h : durOk v) : tripValue v = some (normLoc v) := tripValue_eq v h

/-- … which is the same value for `Value.Compare` (and hence for `=`, GROUP BY, joins, ORDER BY) -/
theorem value_roundtrip_cmp (v : Value) (h : durOk v) : ∃ w, tripValue v = some w ∧ cmp w v = 0 :=
  ⟨normLoc v, tripValue_eq v h, cmp_normLoc cmpFloatFixed cmpFloatFixed_laws.refl v⟩

/-- values without times come back identical -/
theorem value_roundtrip_exact (v : Value) (h : durOk v) (hn : normLoc v = v) : tripValue v = some v := by
  rw [tripValue_eq v h, hn]

/-- `NativeTypeToProto` / `ToNativeType`: every type comes back identical (`List` without element type, `Any`,
    nested unions, struct field names included) -/
theorem type_roundtrip (t : Ty) : tripTy t = some t := tripTy_eq t

/-! ## 4. Schema, record, metadata message, variable contexts -/

/-- `NativeSchemaToProto` / `ToNativeSchema`: field names, field types, time field index and the
    NoRetractions flag all survive (the index travels as int32) -/
theorem schema_roundtrip (ns : List Name) (ts : List Ty) (tf : Int) (nr : Bool) (h : inInt32 tf) :
    (encodeSchema ⟨⟨ns, ofTys ts⟩, tf, nr⟩).bind decodeSchema = some ⟨⟨ns, ofTys ts⟩, tf, nr⟩ := by
  have hw : wrap32 tf = tf := by unfold inInt32 at h; unfold wrap32; omega
  simp [encodeSchema, decodeSchema, encodeFields_ofTys, decodeFields_ofTys, hw]

/-- `NativeRecordToProto` / `ToNativeRecord`: values, retraction flag and event time (any instant, the zero
    `time.Time` included) survive -/
theorem record_roundtrip (vs : List Value) (retr : Bool) (et : Int) (loc : Nat) (h : dursOk vs) :
    (encodeRecord ⟨ofValues vs, retr, (et, loc)⟩).bind decodeRecord = some ⟨ofValues (normLocs vs), retr, (et, 0)⟩ := by
  have h1 := encode_ofValues vs
  have h2 := decode_encPs vs h
  simp only [encodeRecord, h1, tsNew, Option.bind, decodeRecord, h2, Option.map, tsAsTime_tsNew]

/-- the zero event time ("no event time") is still the zero time afterwards -/
theorem record_zero_event_time (vs : List Value) (retr : Bool) (h : dursOk vs) :
    (encodeRecord ⟨ofValues vs, retr, zeroTime⟩).bind decodeRecord = some ⟨ofValues (normLocs vs), retr, zeroTime⟩ :=
  record_roundtrip vs retr zeroTimeNs 0 h

/-- `NativeMetadataMessageToProto` / `ToNativeMetadataMessage`: the watermark survives -/
theorem metadata_roundtrip (ty wm : Int) (loc : Nat) (h : inInt32 ty) :
    (encodeMeta ⟨ty, (wm, loc)⟩).map decodeMeta = some ⟨ty, (wm, 0)⟩ := by
  have hw : wrap32 ty = ty := by unfold inInt32 at h; unfold wrap32; omega
  simp only [encodeMeta, tsNew, Option.map, decodeMeta, hw, tsAsTime_tsNew]

/-- `NativePhysicalVariableContextToProto` / `ToNativePhysicalVariableContext`: the chain of frames comes back
    in the same order (the decoder walks the frame list backwards and prepends), any length, nil included -/
theorem physCtx_roundtrip (frames : List (List Name × List Ty)) :
    (encodePhysCtx (physFrames frames)).bind decodePhysCtx = some (physFrames frames) := by
  have he : ∀ f ∈ physFrames frames, encodeFields f = some f := by
    intro f hf
    simp only [physFrames, List.mem_map] at hf
    obtain ⟨p, _, rfl⟩ := hf
    exact encodeFields_ofTys p.1 p.2
  have hd : ∀ f ∈ (physFrames frames).reverse, decodeFields f = some f := by
    intro f hf
    simp only [physFrames, List.mem_reverse, List.mem_map] at hf
    obtain ⟨p, _, rfl⟩ := hf
    exact decodeFields_ofTys p.1 p.2
  simp [encodePhysCtx_ok _ he, decodePhysCtx, decodePhysCtxRev_ok _ [] hd]

/-- `NativeExecutionVariableContextToProto` / `ToNativeExecutionVariableContext`: the chain of value frames comes
    back in the same order with the same values -/
theorem execCtx_roundtrip (frames : List (List Value)) (h : framesDursOk frames) :
    (encodeExecCtx (frames.map ofValues)).bind decodeExecCtx = some (frames.map fun f => ofValues (normLocs f)) := by
  have hd := decodeExecCtxRev_ok frames.reverse [] (by
    intro f hf
    exact framesDursOk_mem frames h f (by simpa using hf))
  simp only [encodeExecCtx_ok, Option.bind, decodeExecCtx]
  rw [← List.map_reverse, hd]
  simp

/-! ## 5. Predicates: the function of a call survives JSON + `RepopulatePhysicalExpressionFunctions` -/

/-- **over the regenerated `FunctionMap()`**: within one function, a signature identifies a descriptor, except
    among `TypeFn` descriptors, and those exclude one another by the TypeID they demand of an argument -/
theorem fn_table_ok : Gen.WireFunctions.table.all (fun e => pairwiseOk e.descs) = true := by decide

/-- **repopulate_exact**: for every function of `FunctionMap()` and all argument types, a call that the typechecker
    resolves in its exact pass to descriptor `i` is given descriptor `i` again by the plugin after the JSON trip -/
theorem repopulate_exact (name : List Nat) (ds : List FnDesc) (hn : lookupFn Gen.WireFunctions.table name = some ds)
    (argTys : List Ty) (i : Nat) (h : exactPassFrom argTys 0 ds none = .found i) : transportPick ds argTys i = .found i :=
  transport_exact ds (table_pairwise fn_table_ok name ds hn) argTys i h

/-- **repopulate_safe**: whatever descriptor the typechecker attached (second, "may fit" pass included), the plugin
    either finds the same one or rejects the predicate (which then is evaluated by octosql itself) — it never
    evaluates another overload and never panics -/
theorem repopulate_safe (name : List Nat) (ds : List FnDesc) (hn : lookupFn Gen.WireFunctions.table name = some ds)
    (argTys : List Ty) (i : Nat) (h : typecheckPick ds argTys = .found i) :
    transportPick ds argTys i = .found i ∨ transportPick ds argTys i = .notFound :=
  transport_safe ds (table_pairwise fn_table_ok name ds hn) argTys i h

/-- **a whole predicate** (any nesting of calls under AND / OR / tuples / type assertions / casts / COALESCE): if every
    call was resolved by the typechecker's exact pass, the predicate that `RepopulatePhysicalExpressionFunctions`
    returns after the JSON trip is the predicate that was sent — every call has its function back — and it is accepted -/
theorem predicate_roundtrip (e : PExpr) (h : exactTyped Gen.WireFunctions.table e) :
    repopTree Gen.WireFunctions.table (stripFns e) = some (e, true) :=
  repopTree_exact fn_table_ok e h

/-- for any predicate the typechecker produced: the repopulation does not panic, and if the plugin accepts the
    predicate it holds exactly the functions that were sent (otherwise the predicate is rejected and octosql keeps it) -/
theorem predicate_never_misrouted (e : PExpr) (h : typechecked Gen.WireFunctions.table e) :
    ∃ e' ok, repopTree Gen.WireFunctions.table (stripFns e) = some (e', ok) ∧ (ok = true → e' = e) :=
  repopTree_safe fn_table_ok e h

/-- **no predicate is lost on the way**: whatever `PhysicalDatasource.PushDownPredicates` (executor.go) is given comes
    back — as rejected (octosql keeps filtering by it) or as pushed down — including the predicates it does not send
    (subqueries) and those the plugin side (`physicalServer.PushDownPredicates`, plugins.go) keeps from the datasource
    because it does not know their functions; provided the datasource's own `PushDownPredicates` loses nothing -/
theorem pushdown_conserves (impl : PushImpl)
    (himpl : ∀ a b, ((impl a b).1 ++ (impl a b).2.1).Perm (a ++ b)) (newPreds pushed : List Pred) :
    ((clientPushDown impl newPreds pushed).1 ++ (clientPushDown impl newPreds pushed).2.1).Perm (newPreds ++ pushed) :=
  clientPushDown_perm impl himpl newPreds pushed

/-- a predicate with a subquery or with a function unknown to the plugin is never handed to the datasource -/
theorem pushdown_filters (impl : PushImpl) (newPreds pushed : List Pred) :
    clientPushDown impl newPreds pushed =
      let sent := (newPreds.filter fun p => !p.hasSubquery).filter (·.known)
      ((impl sent pushed).1 ++ ((newPreds.filter fun p => !p.hasSubquery).filter fun p => !p.known)
        ++ newPreds.filter (·.hasSubquery), (impl sent pushed).2.1, (impl sent pushed).2.2) := by
  simp [clientPushDown, serverPushDown]

/-! ## 6. Constants of a predicate through `encoding/json` (library behaviour, as modelled in `WireJson`) -/

/-- a constant made of finite floats, UTF-8 strings and times with a four-digit year reaches the plugin unchanged -/
theorem json_constant_roundtrip (v : Value) (h : jsonSafe v = true) : jsonValue v = .ok (normLoc v) := json_value_ok v h

/-! ## 7. The property -/

def utf8Name (n : Name) : Bool := Utf8.validUtf8 (n.map UInt8.ofNat)

/-- a value across the plugin boundary: converted, marshalled by protobuf (which refuses a `string` field that is
    not valid UTF-8), converted back -/
def wireValue (v : Value) : Option Value := if allStr Utf8.validUtf8 v then tripValue v else none
def wireTy (t : Ty) : Option Ty := if allNames utf8Name t then tripTy t else none

/-- **The full-strength statement**, for a descriptor lookup `repop` (the loop of
    `RepopulatePhysicalExpressionFunctions`): every value, type, schema, record, watermark and variable context
    comes out equal to what went in, every constant of a predicate reaches the plugin unchanged, and every
    function call of a predicate is evaluated by the plugin with the descriptor the typechecker chose (or is not
    pushed down at all). `durOk`/`inInt32` only say that Go's `time.Duration` is an int64 and an index an int32. -/
def Statement (repop : List FnDesc → Sig → List Ty → Pick) : Prop :=
  (∀ v, durOk v → wireValue v = some (normLoc v)) ∧
  (∀ t, wireTy t = some t) ∧
  (∀ ns ts tf nr, inInt32 tf → (encodeSchema ⟨⟨ns, ofTys ts⟩, tf, nr⟩).bind decodeSchema = some ⟨⟨ns, ofTys ts⟩, tf, nr⟩) ∧
  (∀ vs retr et loc, dursOk vs →
    (encodeRecord ⟨ofValues vs, retr, (et, loc)⟩).bind decodeRecord = some ⟨ofValues (normLocs vs), retr, (et, 0)⟩) ∧
  (∀ ty wm loc, inInt32 ty → (encodeMeta ⟨ty, (wm, loc)⟩).map decodeMeta = some ⟨ty, (wm, 0)⟩) ∧
  (∀ frames, (encodePhysCtx (physFrames frames)).bind decodePhysCtx = some (physFrames frames)) ∧
  (∀ frames, framesDursOk frames →
    (encodeExecCtx (frames.map ofValues)).bind decodeExecCtx = some (frames.map fun f => ofValues (normLocs f))) ∧
  (∀ v, durOk v → jsonValue v = .ok (normLoc v)) ∧
  (∀ name ds, lookupFn Gen.WireFunctions.table name = some ds →
    ∀ argTys i d, typecheckPick ds argTys = .found i → ds[i]? = some d →
    (repop ds d.sig argTys = .found i ∨ repop ds d.sig argTys = .notFound) ∧
    (exactPassFrom argTys 0 ds none = .found i → repop ds d.sig argTys = .found i))

/-- the same with the inputs the transports cannot carry excluded: strings and field names are valid UTF-8
    (protobuf `string`, JSON), floats of predicate constants are finite and their times have a year in 0..9999 (JSON) -/
def PartialStatement (repop : List FnDesc → Sig → List Ty → Pick) : Prop :=
  (∀ v, durOk v → allStr Utf8.validUtf8 v = true → wireValue v = some (normLoc v)) ∧
  (∀ t, allNames utf8Name t = true → wireTy t = some t) ∧
  (∀ ns ts tf nr, inInt32 tf → (encodeSchema ⟨⟨ns, ofTys ts⟩, tf, nr⟩).bind decodeSchema = some ⟨⟨ns, ofTys ts⟩, tf, nr⟩) ∧
  (∀ vs retr et loc, dursOk vs →
    (encodeRecord ⟨ofValues vs, retr, (et, loc)⟩).bind decodeRecord = some ⟨ofValues (normLocs vs), retr, (et, 0)⟩) ∧
  (∀ ty wm loc, inInt32 ty → (encodeMeta ⟨ty, (wm, loc)⟩).map decodeMeta = some ⟨ty, (wm, 0)⟩) ∧
  (∀ frames, (encodePhysCtx (physFrames frames)).bind decodePhysCtx = some (physFrames frames)) ∧
  (∀ frames, framesDursOk frames →
    (encodeExecCtx (frames.map ofValues)).bind decodeExecCtx = some (frames.map fun f => ofValues (normLocs f))) ∧
  (∀ v, jsonSafe v = true → jsonValue v = .ok (normLoc v)) ∧
  (∀ name ds, lookupFn Gen.WireFunctions.table name = some ds →
    ∀ argTys i d, typecheckPick ds argTys = .found i → ds[i]? = some d →
    (repop ds d.sig argTys = .found i ∨ repop ds d.sig argTys = .notFound) ∧
    (exactPassFrom argTys 0 ds none = .found i → repop ds d.sig argTys = .found i))

/-- **C26, on the current tree, for everything the two transports can carry.** -/
theorem C26_partial : PartialStatement repopulate := by
  refine ⟨?_, ?_, schema_roundtrip, record_roundtrip, metadata_roundtrip, physCtx_roundtrip, execCtx_roundtrip,
    json_constant_roundtrip, ?_⟩
  · intro v hd hu; simp [wireValue, hu, value_roundtrip v hd]
  · intro t hu; simp [wireTy, hu, type_roundtrip t]
  · intro name ds hn argTys i d htc hd
    have hs := repopulate_safe name ds hn argTys i htc
    simp only [transportPick, hd] at hs
    refine ⟨hs, fun hex => ?_⟩
    have := repopulate_exact name ds hn argTys i hex
    simpa only [transportPick, hd] using this

/-- a string that is not UTF-8 (the single byte 0xFF) -/
def badStr : Value := .str [0xFF]
/-- a NaN constant -/
def nanConst : Value := .float 0x7FF8000000000001

/-- **C26 at full strength is false on the current tree**: protobuf refuses the string `"\xff"` (the record cannot
    be sent), and JSON refuses a NaN constant (known findings `proto-invalid-utf8`, `json-constant-rejected`) -/
theorem C26_refuted : ¬ Statement repopulate := by
  intro h
  have := h.1 badStr (by simp [badStr, durOk])
  have hb : allStr Utf8.validUtf8 badStr = false := by decide
  simp [wireValue, hb] at this

/-- what JSON does to the two constants: the NaN is refused, the byte 0xFF arrives as U+FFFD (EF BF BD) -/
theorem json_refuted : jsonValue nanConst = .error .nonfinite ∧ jsonValue badStr = .ok (.str [0xEF, 0xBF, 0xBD]) :=
  ⟨rfl, rfl⟩

/-! ## 8. The code before the repair (`repopulateRaw`: first descriptor with an equal signature) -/

def inName : List Nat := [105, 110]   -- "in"
def inArgs : List Ty := [.int, .tuple [.int, .int]]

/-- `x IN (1, 2)`: the typechecker attaches the tuple overload (index 1) … -/
theorem in_tuple_typechecks :
    (lookupFn Gen.WireFunctions.table inName).map (fun ds => typecheckPick ds inArgs) = some (.found 1) := by decide
/-- … the shipped loop gave the plugin the list overload (index 0), which ranges over an empty list: FALSE for every row … -/
theorem raw_in_tuple_gets_list_overload :
    (lookupFn Gen.WireFunctions.table inName).map (fun ds => transportPickRaw ds 1) = some (.found 0) := by decide
/-- … the repaired loop gives it the tuple overload -/
theorem in_tuple_keeps_overload :
    (lookupFn Gen.WireFunctions.table inName).map (fun ds => transportPick ds inArgs 1) = some (.found 1) := by decide

theorem raw_refuted : ¬ PartialStatement (fun ds r _ => repopulateRaw ds r) := by
  intro h
  have h9 := h.2.2.2.2.2.2.2.2
  have hm : lookupFn Gen.WireFunctions.table inName = some [
      { args := [], out := .null, strict := true, typeFn := some [.lenNe 2, .typeIdNe 1 7] },
      { args := [], out := .null, strict := true, typeFn := some [.lenNe 2, .typeIdNe 1 9] }] := by rfl
  have := (h9 _ _ hm inArgs 1 _ (by decide) (by rfl)).1
  revert this
  decide

/-! ## Non-vacuity -/

/-- a nested value with a pre-1970 time in a non-UTC location, a negative duration and a NaN: the hypotheses of
    `value_roundtrip` hold and the trip is computed by the kernel -/
def sample : Value :=
  .list [.struct [.time (-1) 103, .dur (-1500000001), .float 0x7FF8000000000001], .tuple [.str [0xC3, 0xA9], .null], .int (-5)]
example : tripValue sample = some (normLoc sample) := by rfl
example : normLoc sample ≠ sample := by simp [sample, normLoc, normLocs]
example : tripTy (.struct [[97], [98]] [.list .int, .union [.null, .listNil, .tuple [.any]]])
    = some (.struct [[97], [98]] [.list .int, .union [.null, .listNil, .tuple [.any]]]) := by rfl
/-- the zero `time.Time` (year 1) and −1 ns keep their instant: seconds −62135596800 / −1, nanos 0 / 999999999 -/
example : tsNew zeroTime = some ⟨-62135596800, 0⟩ ∧ tsNew (-1, 0) = some ⟨-1, 999999999⟩ := by decide
example : durNew (-1500000001) = some ⟨-1, -500000001⟩ ∧ durAsDuration (some ⟨-1, -500000001⟩) = -1500000001 := by decide
/-- the hypothesis of `repopulate_exact` is met by the three `len` TypeFn overloads, each found again -/
example : (lookupFn Gen.WireFunctions.table [108, 101, 110]).map (fun ds =>
    [exactPassFrom [.list .int] 0 ds none, exactPassFrom [.struct [] []] 0 ds none, exactPassFrom [.tuple []] 0 ds none,
     transportPick ds [.list .int] 1, transportPick ds [.struct [] []] 2, transportPick ds [.tuple []] 3])
    = some [.found 1, .found 2, .found 3, .found 1, .found 2, .found 3] := by decide
/-- `len()` without arguments: no longer typechecks (the second pass skips TypeFn overloads); were such a call to
    arrive anyway it is rejected by the transport, not misrouted -/
example : (lookupFn Gen.WireFunctions.table [108, 101, 110]).map (fun ds => (typecheckPick ds [], transportPick ds [] 1))
    = some (.notFound, .notFound) := by decide

/-- `c IN (1, 2) AND len(t) = 2` with `t` a tuple: three calls, TypeFn overloads 1 (`in`, tuple) and 3 (`len`, tuple) among
    them; after the trip every call has its own descriptor again -/
def sampleTree : PExpr :=
  .node .bool [
    .call .bool [105, 110] ⟨[], .null, true⟩ (some 1) [.leaf .int, .node (.tuple [.int, .int]) [.leaf .int, .leaf .int]],
    .call .bool [61] ⟨[.any, .any], .bool, true⟩ (some 0)
      [.call .int [108, 101, 110] ⟨[], .null, true⟩ (some 3) [.leaf (.tuple [.int, .int])], .leaf .int]]
example : (repopTree Gen.WireFunctions.table (stripFns sampleTree)).map (fun p => (fnsOf p.1, p.2))
    = some ([some 1, some 0, some 3], true) := by decide
example : fnsOf (stripFns sampleTree) = [none, none, none] := by decide
/-- a datasource that pushes everything down (the test plugin): a subquery predicate and an unknown-function predicate
    come back as rejected, the third one is pushed down -/
example : clientPushDown (fun a b => ([], b ++ a, true)) [⟨1, true, true⟩, ⟨2, false, false⟩, ⟨3, false, true⟩] []
    = ([⟨2, false, false⟩, ⟨1, true, true⟩], [⟨3, false, true⟩], true) := by decide
/-- … and it satisfies the hypothesis of `predicate_roundtrip` -/
example : exactTyped Gen.WireFunctions.table sampleTree := by
  simp only [sampleTree, exactTyped, exactTypedL, and_true, true_and]
  exact ⟨⟨_, 1, _, rfl, by decide, rfl, rfl, rfl⟩, ⟨_, 3, _, rfl, by decide, rfl, rfl, rfl⟩, _, 0, _, rfl, by decide, rfl, rfl, rfl⟩

end Octo.C26
