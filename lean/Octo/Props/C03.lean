import Octo.Spec.GroupSem
import Octo.Model.SqlGroupTrig
/-!
# C03 — GROUP BY and aggregates match relational semantics (work in progress)
-/
namespace Octo.C03
open Octo Octo.Sql Octo.Grp

theorem placeholder_keyClasses_nil : keyClasses [] = [] := rfl

end Octo.C03
