import Octo.Lemmas.GroupAgg
import Octo.Lemmas.GroupResolve
import Octo.Props.C01
import Octo.Model.SqlGroupTrig
import Octo.Lemmas.GroupTrigSem
import Octo.Props.C09
/-!
# C03 — GROUP BY and aggregates match relational semantics

Property: for every grouping query and every input, octosql returns one row per distinct key, including a
NULL key; each row holds count / sum / avg / min / max / array_agg and their DISTINCT variants computed over
that group's non-NULL inputs, NULL when a group has no non-NULL input; AVG over Int truncates toward zero,
array_agg lists its elements in ascending order.

* `Octo.Grp.denoteG mode tys q t` is the model of what the engine does with a grouping query (the planner's
  FROM → WHERE → GroupBy → Map → DISTINCT → ORDER BY / LIMIT pipeline, `GroupBy.Typecheck`'s overload resolution
  over the GENERATED aggregate table, `SimpleGroupBy`'s hash map with its `AggregatedSetSize` bookkeeping, C14's
  aggregate models), tied to the real binary by the C03 correspondence run (exact printed rows).
* `Octo.Grp.groupSem` is the specification: the classes of key tuples under `Compare == 0` (NULL is a key), and for
  each class the aggregates computed from scratch (`Octo.Agg.specFull`: length, wrapped sum, `Int.tdiv`, least /
  greatest element, insertion sort, the support for DISTINCT) over the non-NULL argument values, NULL for none.
* `Octo.Grp.GQueryResult` composes it with C01's `QueryResult` / `BlockResult` for the rest of the query.

All theorems quantify over tables of any size and queries of any nesting depth.  Float `sum` / `avg` are stated
in exact arithmetic for finite inputs (C14's caveat, `FiniteArgs`).
-/
namespace Octo.C03
open Octo Octo.Sql Octo.Grp

/-! ## the grouping node -/

/-- **GROUP BY = `groupSem`** (`groupBy_sql`): on every input on which the key and aggregate expressions
    evaluate, the engine's group-by neither fails nor panics and emits exactly one row per class of key tuples (a
    NULL key is a class), equal — pointwise `Compare == 0` — to the key followed by the from-scratch aggregates of
    the class's non-NULL inputs (NULL where there is none) -/
theorem groupBy_sql (keys : List SExpr) (aggs : List PAgg) (rows : List Row)
    (hok : evalsOk keys aggs rows = true) (hf : FiniteArgs aggs rows) :
    ∃ out, groupNode keys aggs rows = .ok out ∧ RowsEqv out (groupSem keys aggs rows) :=
  groupNode_sem keys aggs rows hok hf

/-- one output row per distinct key: the keys of the output are one representative per class, pairwise different -/
theorem one_row_per_key (keys : List SExpr) (aggs : List PAgg) (rows : List Row) :
    (groupSem keys aggs rows).length = (keyClasses (rows.map (keyOfRow keys))).length ∧
    (keyClasses (rows.map (keyOfRow keys))).Pairwise (fun a b => rowEq b a = false) ∧
    ∀ r ∈ rows, ∃ k ∈ keyClasses (rows.map (keyOfRow keys)), rowEq (keyOfRow keys r) k = true := by
  refine ⟨by simp [groupSem], keyClasses_pairwise _, ?_⟩
  intro r hr
  exact keyClasses_covers _ _ (List.mem_map_of_mem hr)

/-- when does the node fail: exactly when some key / aggregate expression fails on some row -/
theorem groupNode_err_iff (keys : List SExpr) (aggs : List PAgg) (rows : List Row) (hf : FiniteArgs aggs rows) :
    (∃ out, groupNode keys aggs rows = .ok out) ↔ evalsOk keys aggs rows = true := by
  constructor
  · rintro ⟨out, h⟩
    exact evalsOk_of_groupNode h
  · intro h
    obtain ⟨out, ho, _⟩ := groupNode_sem keys aggs rows h hf
    exact ⟨out, ho⟩

/-! ## what the specification's aggregate values are (the clauses of the property, spelled out) -/

/-- a group without non-NULL input reports NULL — for every aggregate, COUNT included -/
theorem no_input_is_null (p : PAgg) : aggValue p [] = .null := rfl

/-- COUNT counts the non-NULL inputs; COUNT(DISTINCT) their classes -/
theorem count_is_length (M : List Value) (hne : M ≠ []) (d : Bool) (e : SExpr) (a : Option (List Nat)) :
    aggValue ⟨.count, d, e, a⟩ M = .int (if d then (Agg.support M).length else M.length) := by
  cases M with
  | nil => exact absurd rfl hne
  | cons x r => cases d <;> rfl

/-- AVG over Int is the (wrapped) sum divided by the count, truncated toward zero (`Int.tdiv`) -/
theorem avg_int_truncates (M : List Value) (hne : M ≠ []) (e : SExpr) (a : Option (List Nat)) :
    aggValue ⟨.avgInt, false, e, a⟩ M =
      .int (Agg.wrap64 (Int.tdiv (Agg.wrap64 (Agg.sumZ Agg.intField M)) M.length)) := by
  cases M with
  | nil => exact absurd rfl hne
  | cons x r => rfl

example : aggValue ⟨.avgInt, false, .col 0, none⟩ [.int 1, .int (-4)] = .int (-1) := by rfl
example : aggValue ⟨.avgInt, false, .col 0, none⟩ [.int (-1), .int (-4), .int 0] = .int (-1) := by rfl

/-- array_agg lists the group's non-NULL inputs in ascending `Compare` order, each as often as it occurs -/
theorem array_agg_ascending (M : List Value) (hne : M ≠ []) (e : SExpr) (a : Option (List Nat)) :
    ∃ l, aggValue ⟨.array, false, e, a⟩ M = .list l ∧ l.Pairwise (fun x y => cmp x y ≤ 0) ∧
      ∀ v, Agg.cnt l v = Agg.cnt M v := by
  cases M with
  | nil => exact absurd rfl hne
  | cons x r => exact ⟨Agg.sortSpec (x :: r), rfl, Agg.sortSpec_sorted _, Agg.cnt_sortSpec _⟩

/-- the DISTINCT variants aggregate the support: every class of inputs exactly once -/
theorem distinct_over_support (k : Agg.Kind) (M : List Value) (hne : M ≠ []) (e : SExpr) (a : Option (List Nat)) :
    aggValue ⟨k, true, e, a⟩ M = Agg.specOf k (Agg.support M) ∧
      ∀ v, Agg.cnt (Agg.support M) v = if 0 < Agg.cnt M v then 1 else 0 := by
  cases M with
  | nil => exact absurd rfl hne
  | cons x r => exact ⟨rfl, fun v => Agg.cnt_support _ v⟩

/-- MIN / MAX are least / greatest elements of the inputs -/
theorem min_max_values (M : List Value) (hne : M ≠ []) (e : SExpr) (a : Option (List Nat)) :
    aggValue ⟨.min, false, e, a⟩ M = Agg.specMin M ∧ aggValue ⟨.max, false, e, a⟩ M = Agg.specMax M := by
  cases M with
  | nil => exact absurd rfl hne
  | cons x r => exact ⟨rfl, rfl⟩

/-! ## the query -/

/-- side conditions of the soundness theorem (all true of the generated, well-typed queries): the ORDER BY keys of
    every block evaluate on the rows they meet, and the float sums see finite floats -/
def GSide (tys : List Ty) : GQuery → List Row → Prop
  | .group src g, t =>
    C01.KeysTotal src t ∧
    (∀ aggs r0, typecheckGroup tys src g = some aggs → denoteNested src t = some r0 →
      FiniteArgs aggs (specFilter g.whr r0)) ∧
    (∀ aggs grouped c, typecheckGroup tys src g = some aggs → groupCore aggs src g t = .ok grouped →
      blockCore g.post grouped = some c → C01.KeysOk g.post.order c)
  | .sel src b, t => GSide tys src t ∧
      ∀ mid c, denoteGNested tys src t = .ok mid → blockCore b mid = some c → C01.KeysOk b.order c

/-- FROM → WHERE → GroupBy -/
theorem groupCore_sound (aggs : List PAgg) (src : Query) (g : GroupBlock) (t grouped : List Row)
    (hk : C01.KeysTotal src t)
    (hf : ∀ r0, denoteNested src t = some r0 → FiniteArgs aggs (specFilter g.whr r0))
    (h : groupCore aggs src g t = .ok grouped) :
    ∃ r0, QueryResult src t r0 ∧ RowsEqv grouped (groupSem g.keys aggs (specFilter g.whr r0)) := by
  simp only [groupCore] at h
  obtain ⟨r0, h0, h⟩ := Res.bind_ok h
  obtain ⟨r1, h1, h⟩ := Res.bind_ok h
  have h0' := Res.ofOption_ok h0
  have h1' := whereStep_spec (Res.ofOption_ok h1)
  subst h1'
  have hok := evalsOk_of_groupNode h
  obtain ⟨out, ho, he⟩ := groupNode_sem g.keys aggs _ hok (hf r0 h0')
  rw [h] at ho
  cases ho
  exact ⟨r0, C01.denoteNested_sound src t r0 hk h0', he⟩

/-- nested grouping queries (the HAVING-like outer blocks, subqueries in FROM) -/
theorem denoteGNested_sound (tys : List Ty) (q : GQuery) (t out : List Row) (hs : GSide tys q t)
    (hl : q.hasLimit0 = false) (h : denoteGNested tys q t = .ok out) : GQueryResult tys q t out := by
  induction q generalizing out with
  | group src g =>
    simp only [GQuery.hasLimit0] at hl
    simp only [denoteGNested, hl] at h
    cases htc : typecheckGroup tys src g with
    | none => simp [htc] at h
    | some aggs =>
      simp only [htc, Bool.false_eq_true, if_false] at h
      obtain ⟨grouped, hg, h⟩ := Res.bind_ok h
      obtain ⟨c, hc, h⟩ := Res.bind_ok h
      obtain ⟨cols, hcols, haggs⟩ := typecheckGroup_some htc
      obtain ⟨r0, hq, he⟩ := groupCore_sound aggs src g t grouped hs.1 (fun r0 hr0 => hs.2.1 aggs r0 htc hr0) hg
      exact ⟨cols, aggs, r0, grouped, hcols, haggs, hq, he,
        C01.block_eager_sound g.post grouped c out (Res.ofOption_ok hc)
          (hs.2.2 aggs grouped c htc hg (Res.ofOption_ok hc)) (Res.ofOption_ok h)⟩
  | sel src b ih =>
    simp only [GQuery.hasLimit0, Bool.or_eq_false_iff] at hl
    simp only [denoteGNested, hl.1, Bool.false_eq_true, if_false] at h
    obtain ⟨mid, hm, h⟩ := Res.bind_ok h
    obtain ⟨c, hc, h⟩ := Res.bind_ok h
    exact ⟨mid, ih mid hs.1 hl.2 hm,
      C01.block_eager_sound b mid c out (Res.ofOption_ok hc) (hs.2 mid c hm (Res.ofOption_ok hc)) (Res.ofOption_ok h)⟩

theorem sink_sound (mode : Mode) (b : Block) (inp c out : List Row) (hc : blockCore b inp = some c)
    (hk : C01.KeysOk b.order c) (h : sink mode b c = .ok out) : BlockResult b inp out := by
  cases mode with
  | eager => exact C01.block_eager_sound b inp c out hc hk (Res.ofOption_ok h)
  | table => exact C01.block_table_sound b inp c out hc (Res.ofOption_ok h)

/-- **C03 for SimpleGroupBy plans**: in every output mode, whatever a grouping query prints is an allowed
    result of the query: FROM per C01, WHERE keeps the TRUE rows, GROUP BY is `groupSem`, then select list,
    DISTINCT, ORDER BY and LIMIT (and the HAVING-like outer blocks) per C01 / C05 -/
theorem C03_denote_sound (mode : Mode) (tys : List Ty) (q : GQuery) (t out : List Row) (hs : GSide tys q t)
    (hl : q.hasLimit0 = false) (h : denoteG mode tys q t = .ok out) : GQueryResult tys q t out := by
  cases q with
  | group src g =>
    simp only [GQuery.hasLimit0] at hl
    have hskip : skipsSource mode g.post = false := by simp [skipsSource, GroupBlock.post, hl]
    simp only [denoteG, hskip] at h
    cases htc : typecheckGroup tys src g with
    | none => simp [htc] at h
    | some aggs =>
      simp only [htc, Bool.false_eq_true, if_false] at h
      obtain ⟨grouped, hg, h⟩ := Res.bind_ok h
      obtain ⟨c, hc, h⟩ := Res.bind_ok h
      obtain ⟨cols, hcols, haggs⟩ := typecheckGroup_some htc
      obtain ⟨r0, hq, he⟩ := groupCore_sound aggs src g t grouped hs.1 (fun r0 hr0 => hs.2.1 aggs r0 htc hr0) hg
      exact ⟨cols, aggs, r0, grouped, hcols, haggs, hq, he,
        sink_sound mode g.post grouped c out (Res.ofOption_ok hc) (hs.2.2 aggs grouped c htc hg (Res.ofOption_ok hc)) h⟩
  | sel src b =>
    simp only [GQuery.hasLimit0, Bool.or_eq_false_iff] at hl
    have hskip : skipsSource mode b = false := by simp [skipsSource, hl.1]
    simp only [denoteG, hskip, Bool.false_eq_true, if_false] at h
    obtain ⟨mid, hm, h⟩ := Res.bind_ok h
    obtain ⟨c, hc, h⟩ := Res.bind_ok h
    exact ⟨mid, denoteGNested_sound tys src t mid hs.1 hl.2 hm,
      sink_sound mode b mid c out (Res.ofOption_ok hc) (hs.2 mid c hm (Res.ofOption_ok hc)) h⟩

/-- `LIMIT 0` at the top: the engine returns no rows without running anything (which is what LIMIT 0 asks for) -/
theorem limit0_returns_nothing (mode : Mode) (tys : List Ty) (src : Query) (g : GroupBlock) (t out : List Row)
    (h0 : skipsSource mode g.post = true) (h : denoteG mode tys (.group src g) t = .ok out) : out = [] := by
  simp only [denoteG, h0] at h
  cases htc : typecheckGroup tys src g with
  | none => simp [htc] at h
  | some aggs => simp only [htc, if_true, Res.ok.injEq] at h; exact h.symm

/-! ## both group-by nodes -/

/-- **the TRIGGER clause does not change the final result** (C16 at the SQL level): for the node configuration the
    planner builds from a grouping block and any trigger that selects `CustomTriggerGroupBy` (`COUNTING k`, with or
    without `ON END OF STREAM`), on every batch input on which the expressions evaluate the node does not panic and
    its changelog — retractions included — consolidates, row for row, to the output of `SimpleGroupBy` (C16's model
    of it, `Octo.Trig.simpleRun`) for the same block -/
theorem trigger_same_final_result (keys : List SExpr) (aggs : List PAgg) (t : Trig) (rows : List Row)
    (hok : evalsOk keys aggs rows = true) :
    ∃ out, Trig.run Trig.wlessFixed (gbConf keys aggs t) (toMsgs rows) = some out ∧
      ∀ row, net (recs out) row = net (recs (Trig.simpleRun (gbConf keys aggs t) (toMsgs rows))) row :=
  custom_consolidates_to_simple keys aggs t rows hok

/-- **`CustomTriggerGroupBy` = `groupSem`**: for every grouping block and every trigger that selects the node, on
    every batch input on which the expressions evaluate: no panic, and the changelog the node emits — with all its
    retractions — consolidates to exactly the rows of `groupSem` (for every row, its net multiplicity in the output
    is its multiplicity in `groupSem`).  Together with `groupBy_sql`: both group-by nodes compute the same relation. -/
theorem customTrigger_groupBy_sql (keys : List SExpr) (aggs : List PAgg) (t : Trig) (rows : List Row)
    (hok : evalsOk keys aggs rows = true) (hf : FiniteArgs aggs rows) :
    ∃ out, Trig.run Trig.wlessFixed (gbConf keys aggs t) (toMsgs rows) = some out ∧
      ∀ row, net (recs out) row = (countRow row (groupSem keys aggs rows) : Int) :=
  custom_trigger_groupSem keys aggs t rows hok hf

/-- the grouping keys are found through `HashManyValues`: key tuples the node treats as one group
    (`Compare == 0` pointwise) hash equally, so the hash map cannot split a group (C09) -/
theorem group_keys_hash_equally (a b : Row) (wa : Value.wfList a = true) (wb : Value.wfList b = true)
    (h : rowEq a b = true) : hashMany a = hashMany b :=
  C09.hashMany_congr a b wa wb (by simpa [rowEq] using h)

/-! ## aggregate overload resolution (`GroupBy.Typecheck`) over the generated table -/

/-- **overload resolution picks the first overload that admits the argument type**: for every list of
    descriptors and every argument type, if `resolve` chooses descriptor `i` without a type assertion then `i` is the
    first descriptor accepting the type outright; if it chooses `i` with an assertion then no descriptor accepts
    outright and `i` is the first whose `ArgumentType` may fit the type's non-nullable part; if it fails, no
    descriptor does either -/
theorem resolve_first_fit (descs : List Gen.Agg.Desc) (t : Ty) :
    match resolve descs t with
    | some ch =>
      descs[ch.idx]? = some ch.desc ∧
      (match ch.assertIds with
       | none => Accepts t ch.desc ∧ ∀ j d, j < ch.idx → descs[j]? = some d → ¬ Accepts t d
       | some ids => (∀ d ∈ descs, ¬ Accepts t d) ∧ MayFit t ch.desc ∧
                     (∀ j d, j < ch.idx → descs[j]? = some d → ¬ MayFit t d) ∧
                     ids = typeIds (addNull (Desc.argTy ch.desc)))
    | none => ∀ d ∈ descs, ¬ Accepts t d ∧ ¬ MayFit t d :=
  resolve_spec descs t

/-- the assertion inserted around a "maybe" argument lets NULL through (NULL inputs are skipped by the group-by
    nodes, they must not be run-time errors): over the generated table, for every overload with a declared scalar
    `ArgumentType` (`Any`, TypeID 11, never needs an assertion) -/
theorem assertion_admits_null :
    (Gen.Agg.table.all fun e => e.2.all fun d =>
      match d.arg with
      | some a => a.id == 11 || (typeIds (addNull a)).contains 0
      | none => true) = true := by
  decide

/-- every descriptor of the generated table is one of the aggregates C14 models (possibly behind `Distinct`) -/
theorem table_modelled : (Gen.Agg.table.all fun e => e.2.all fun d => (descKind d).isSome) = true := by decide

/-- the generated table agrees with the table C14's theorems are stated over (`Octo.Agg.table`): same names, same
    number of overloads, same aggregate (and `Distinct` wrapper) behind each of them -/
theorem table_matches_c14 :
    Gen.Agg.table.map (fun e => (e.1, e.2.map descKind)) =
      Agg.table.map (fun e => (e.1, e.2.map fun d => some (d.2.2.1, d.2.2.2))) := by
  decide

/-- signature of a descriptor: TypeIDs of argument / output type, the wrapped aggregate -/
def descSig (d : Gen.Agg.Desc) : Option Nat × Option Nat × Option Agg.Kind :=
  (d.arg.map Ty.id, d.out.map Ty.id, (descKind d).map (·.1))

/-- the `_distinct` variants differ from the plain ones by the `Distinct` wrapper only -/
theorem distinct_variants_wrap :
    (["array_agg", "avg", "count", "sum"].all fun n =>
      (lookupDescs (n ++ "_distinct")).map (·.map descSig) == (lookupDescs n).map (·.map descSig) &&
      (lookupDescs (n ++ "_distinct")).map (·.all fun d => (descKind d).map (·.2) == some true) == some true &&
      (lookupDescs n).map (·.all fun d => (descKind d).map (·.2) == some false) == some true) = true := by
  decide

/-- the witness of the defect: a column of type `NULL | Float | String` -/
def nfs : Ty := .union [.null, .float, .str]

def sumDescs : List Gen.Agg.Desc := (lookupDescs "sum").getD []

/-- before the fix the NULL alternative alone made every overload "maybe": `SUM(c)` over `NULL | Float | String`
    chose the *Int* overload (index 0) and asserted `Int` (TypeID 1) — without NULL … -/
theorem raw_resolution_picks_int :
    ((resolveRaw sumDescs nfs).map fun ch => (ch.idx, ch.assertIds)) = some (0, some [1]) := by
  decide

def rawBad : Bool :=
  match resolveRaw sumDescs nfs with
  | some ch => ch.assertIds.isSome && !MayFitB nfs ch.desc
  | none => false

/-- … although `Int` admits none of the column's non-NULL alternatives: the statement "an overload chosen with an
    assertion may fit the non-nullable part of the type" fails for the code as shipped -/
theorem raw_resolution_refuted :
    ¬ (∀ (descs : List Gen.Agg.Desc) (t : Ty) (ch : Choice), resolveRaw descs t = some ch →
        ch.assertIds.isSome = true → MayFit t ch.desc) := by
  intro h
  have hb : rawBad = true := by decide
  simp only [rawBad] at hb
  cases hr : resolveRaw sumDescs nfs with
  | none => simp [hr] at hb
  | some ch =>
    simp only [hr, Bool.and_eq_true, Bool.not_eq_true'] at hb
    exact not_mayFit hb.2 (h sumDescs nfs ch hr hb.1)

/-- after the fix: every overload chosen with an assertion may fit the non-nullable part of the type (all descriptor
    lists, all types) … -/
theorem fixed_resolution_fits (descs : List Gen.Agg.Desc) (t : Ty) (ch : Choice)
    (h : resolve descs t = some ch) (ha : ch.assertIds.isSome = true) : MayFit t ch.desc := by
  have := resolve_spec descs t
  simp only [h] at this
  cases hi : ch.assertIds with
  | none => simp [hi] at ha
  | some ids => simp only [hi] at this; exact this.2.2.1

/-- … and on the witness it chooses the Float overload (index 1) and asserts `NULL | Float` (TypeIDs 0 and 2) -/
theorem fixed_resolution_picks_float :
    ((resolve sumDescs nfs).map fun ch => (ch.idx, ch.assertIds)) = some (1, some [0, 2]) := by
  decide

/-! ## the full-strength statement -/

/-- C03 for an engine `run`: every grouping query's output is an allowed result per `GQueryResult` -/
def Statement (run : Mode → List Ty → GQuery → List Row → Res (List Row)) : Prop :=
  ∀ (mode : Mode) (tys : List Ty) (q : GQuery) (t out : List Row),
    GSide tys q t → q.hasLimit0 = false → run mode tys q t = .ok out → GQueryResult tys q t out

/-- **C03 holds for the SimpleGroupBy pipeline** (no TRIGGER clause, or `ON END OF STREAM`) -/
theorem C03_full : Statement denoteG :=
  fun mode tys q t out hs hl h => C03_denote_sound mode tys q t out hs hl h

/-- on plans without a custom trigger the engine (`denoteGT`) is that pipeline -/
theorem C03_engine_on_simple_plans (mode : Mode) (tys : List Ty) (q : GQuery) (t out : List Row) (hq : q.simple = true)
    (hs : GSide tys q t) (hl : q.hasLimit0 = false) (h : denoteGT mode tys q t = .ok out) :
    GQueryResult tys q t out := by
  simp only [denoteGT, hq, if_true] at h
  exact C03_full mode tys q t out hs hl h

/-! ## non-vacuity: a concrete table and query, evaluated in the kernel -/

/-- k | a :  (1,1) (1,NULL) (NULL,3) (NULL,4) (2,NULL) (1,-4) -/
def tbl : List Row :=
  [[.int 1, .int 1], [.int 1, .null], [.null, .int 3], [.null, .int 4], [.int 2, .null], [.int 1, .int (-4)]]
def tys2 : List Ty := tableTys 2 tbl

/-- `SELECT c0, count(c1), sum(c1), avg(c1), array_agg(c1), count(*) FROM t GROUP BY c0` -/
def q1 : GQuery := .group .table
  { whr := none, keys := [.col 0],
    aggs := [⟨"count", some (.col 1)⟩, ⟨"sum", some (.col 1)⟩, ⟨"avg", some (.col 1)⟩, ⟨"array_agg", some (.col 1)⟩, ⟨"count", none⟩],
    sel := [0, 1, 2, 3, 4, 5], distinct := false, order := [], limit := none, trig := .none }

def isRows (want : List Row) : Res (List Row) → Bool
  | .ok rows => rowsEqvB rows want
  | _ => false

/-- three groups incl. the NULL key; AVG(1, -4) = -3/2 truncates to -1; the all-NULL group reports NULL also for COUNT -/
example : isRows [[.int 1, .int 2, .int (-3), .int (-1), .list [.int (-4), .int 1], .int 3],
                  [.null, .int 2, .int 7, .int 3, .list [.int 3, .int 4], .int 2],
                  [.int 2, .null, .null, .null, .null, .int 1]] (denoteG .eager tys2 q1 tbl) = true := by decide

example : tys2.map Ty.id = [10, 10] ∧ tys2.map (fun t => typeIds t) = [[0, 1], [0, 1]] := by decide
/-- the hypotheses of `groupBy_sql` hold for this table -/
example : ∃ aggs, typecheckGroup tys2 .table (match q1 with | .group _ g => g | _ => default) = some aggs ∧
    evalsOk [.col 0] aggs tbl = true := by
  refine ⟨_, rfl, ?_⟩
  decide

/-- `SELECT * FROM (q1) WHERE count(c1) > 1 ORDER BY c0` — the HAVING-like outer block -/
def q2 : GQuery := .sel q1
  { whr := some (.bin .gt (.col 1) (.lit (.int 1))), proj := none, distinct := false, order := [(.col 0, false)], limit := none }

example : isRows [[.null, .int 2, .int 7, .int 3, .list [.int 3, .int 4], .int 2],
                  [.int 1, .int 2, .int (-3), .int (-1), .list [.int (-4), .int 1], .int 3]]
    (denoteG .eager tys2 q2 tbl) = true := by decide

/-- `q1` with `TRIGGER COUNTING 1` (every record fires its key: five retractions on this table), through the
    changelog pipeline and the table printer -/
def q3 : GQuery := match q1 with
  | .group src g => .group src { g with trig := .counting 1 }
  | q => q

example : isRows [[.null, .int 2, .int 7, .int 3, .list [.int 3, .int 4], .int 2],
                  [.int 1, .int 2, .int (-3), .int (-1), .list [.int (-4), .int 1], .int 3],
                  [.int 2, .null, .null, .null, .null, .int 1]]
    (denoteGT .table tys2 q3 tbl) = true := by decide

/-- the side conditions of `C03_full` hold for it: no float sums, no ORDER BY keys -/
example : GSide tys2 q1 tbl := by
  refine ⟨trivial, ?_, ?_⟩
  · intro aggs r0 h1 _ p hp r _ v _
    have e : typecheckGroup tys2 .table (match q1 with | .group _ g => g | _ => default) =
        some [⟨.count, false, .col 1, none⟩, ⟨.sumInt, false, .col 1, none⟩, ⟨.avgInt, false, .col 1, none⟩,
              ⟨.array, false, .col 1, none⟩, ⟨.count, false, .lit (.bool true), none⟩] := by rfl
    have h1' := e.symm.trans h1
    cases h1'
    simp only [List.mem_cons, List.not_mem_nil, or_false] at hp
    rcases hp with rfl | rfl | rfl | rfl | rfl <;> trivial
  · intro aggs grouped c _ _ _ r _
    rfl

end Octo.C03
