import Octo.Lemmas.TrigWatermark
/-!
# C17 — Triggers fire exactly when specified

Property: COUNTING n emits a key's current result after every n-th record for that key and ON END OF STREAM
emits every remaining key once at the end.  With ON WATERMARK, once a watermark W has been forwarded the
output already holds the current result of every key whose event time is at or below W.  No key beyond W
has been emitted unless another trigger fired it.

The trigger machines (`Octo.Model.Triggers`) are driven the way the group-by node drives them: `Poll`
right after every `KeyReceived` / `WatermarkReceived` (`Leaf.stepEv`, `Leaf.drive`); the node-level theorems
are about `Octo.Model.TriggerGroupBy` (`gbFold` = the node while its source runs, `gbRun` = the whole run).
All theorems are for the code as it stands (`wlessFixed`); event lists, message lists, keys, `n` are arbitrary.
-/
namespace Octo.C17
open Octo Octo.Trig Octo.TMap

abbrev wl := wlessFixed

/-! ## COUNTING n -/

/-- **COUNTING n fires after every n-th record of a key, and only then.**  After any events `es` (records of
    any keys — additions and retractions alike — and watermarks), a further record of group `k'` makes the
    trigger fire iff it is the group's `n`-th, `2n`-th, … record; what fires is that group, once. -/
theorem counting_fires (n : Nat) (hn : 0 < n) (es : List TEv) (k' : Key) :
    let fired := (((Leaf.counting n [] false []).drive wl es).stepEv wl (.key k')).1
    (∀ k ∈ fired, keq k k' = true) ∧ fired.length = if (occ k' es + 1) % n = 0 then 1 else 0 := by
  have h := counting_drive (wl := wl) n hn [] _ (countInv_init n) es
  have := counting_step (wl := wl) n hn ([] ++ es) _ h k'
  simpa using this.2

/-- a watermark never makes COUNTING n fire -/
theorem counting_ignores_watermarks (n : Nat) (hn : 0 < n) (es : List TEv) (w : Int) :
    (((Leaf.counting n [] false []).drive wl es).stepEv wl (.wm w)).1 = [] :=
  (counting_step_wm (wl := wl) n ([] ++ es) _ (counting_drive (wl := wl) n hn [] _ (countInv_init n) es) w).2

/-! ## end of stream -/

/-- **At end of stream every trigger returns every pending key exactly once.**  For a primitive trigger in
    any state the node can bring it to, the `Poll` after `EndOfStreamReached` is duplicate-free (no two keys
    of the same group) and lists exactly the keys that were received and not yet fired. -/
theorem eos_once (l₀ : Leaf) (h₀ : l₀.isInit) (es : List TEv) :
    let l := l₀.drive wl es
    ((l.endOfStream.poll wl).1.Pairwise fun a b => keq a b = false) ∧
    ∀ k, (l.endOfStream.poll wl).1.any (keq k) = l.pend wl k := by
  have := Leaf.drive_inv wlessFixed_laws l₀ es ⟨Leaf.nodup_init l₀ h₀, Leaf.wf_init l₀ h₀, Leaf.sorted_init l₀ h₀⟩
  exact Leaf.eos_once wlessFixed_laws _ this.1 this.2.1

/-- ON END OF STREAM fires nothing while the source runs … -/
theorem eos_trigger_silent (es : List TEv) (e : TEv) :
    (((Leaf.eos [] false).drive wl es).stepEv wl e).1 = [] := by
  have : ∀ (ks : List (Key × Unit)) (es : List TEv), ∃ ks', (Leaf.eos ks false).drive wl es = .eos ks' false := by
    intro ks es
    induction es generalizing ks with
    | nil => exact ⟨ks, rfl⟩
    | cons e es ih =>
      obtain ⟨ks', h⟩ := (Leaf.eos_silent (wl := wl) ks e).2
      simp only [Leaf.drive, h]
      exact ih ks'
  obtain ⟨ks', h⟩ := this [] es
  rw [h]
  exact (Leaf.eos_silent ks' e).1

/-- has a record of group `k` been received? -/
def received (k : Key) (es : List TEv) : Bool :=
  es.any fun e => match e with
    | .key k' => keq k' k
    | .wm _ => false

theorem eos_trigger_pending (ks : List (Key × Unit)) (es : List TEv) (k : Key) :
    ((Leaf.eos ks false).drive wl es).pend wl k = (has keyLess k ks || received k es) := by
  induction es generalizing ks with
  | nil => simp [Leaf.drive, Leaf.pend, received]
  | cons e es ih =>
    cases e with
    | key x =>
      simp only [Leaf.drive, Leaf.stepEv, Leaf.keyReceived, Leaf.poll, ih, has_insert keyLaws, eqv_keyLess,
        received, List.any_cons]
      cases keq x k <;> cases has keyLess k ks <;> simp
    | wm w =>
      simp only [Leaf.drive, Leaf.stepEv, Leaf.watermarkReceived, Leaf.poll, ih, received, List.any_cons]
      simp

/-- **ON END OF STREAM emits every key once at the end**: the `Poll` after `EndOfStreamReached` lists
    exactly the groups of which a record was received, each once. -/
theorem eos_trigger_spec (es : List TEv) :
    let p := (((Leaf.eos [] false).drive wl es).endOfStream.poll wl).1
    (p.Pairwise fun a b => keq a b = false) ∧ ∀ k, p.any (keq k) = received k es := by
  have h := eos_once (.eos [] false) (by simp [Leaf.isInit]) es
  refine ⟨h.1, fun k => ?_⟩
  rw [h.2 k, eos_trigger_pending]
  simp [has]

/-! ## ON WATERMARK, on the trigger -/

/-- before the end of the stream ON WATERMARK returns only keys whose instant is at or below the watermark … -/
theorem watermark_upto (idx : Nat) (es : List TEv) (w : Int) :
    ∀ k ∈ (((Leaf.watermark idx [] false zeroNs).drive wl es).stepEv wl (.wm w)).1, (timeAt idx k).ns ≤ w := by
  have hi : (Leaf.watermark idx [] false zeroNs).isInit := by simp [Leaf.isInit]
  have hinv := Leaf.drive_inv wlessFixed_laws _ es ⟨Leaf.nodup_init (wl := wl) _ hi, Leaf.wf_init _ hi, Leaf.sorted_init _ hi⟩
  have hform : ∀ (tks : List (WKey × Unit)) (w0 : Int) (es : List TEv),
      ∃ tks' w', (Leaf.watermark idx tks false w0).drive wl es = .watermark idx tks' false w' := by
    intro tks w0 es
    induction es generalizing tks w0 with
    | nil => exact ⟨tks, w0, rfl⟩
    | cons e es ih => cases e <;> exact ih _ _
  obtain ⟨tks', w', h⟩ := hform [] zeroNs es
  rw [h] at hinv ⊢
  simp only [Leaf.stepEv, Leaf.watermarkReceived]
  exact Leaf.watermark_upto idx tks' w (Leaf.wf_watermarkReceived _ w hinv.2.1)

/-- … and returns every pending key whose instant is at or below the watermark -/
theorem watermark_all (idx : Nat) (es : List TEv) (w : Int) (k : Key)
    (hp : ((Leaf.watermark idx [] false zeroNs).drive wl es).pend wl k = true) (ht : (timeAt idx k).ns ≤ w) :
    (((Leaf.watermark idx [] false zeroNs).drive wl es).stepEv wl (.wm w)).1.any (keq k) = true := by
  have hi : (Leaf.watermark idx [] false zeroNs).isInit := by simp [Leaf.isInit]
  have hinv := Leaf.drive_inv wlessFixed_laws _ es ⟨Leaf.nodup_init (wl := wl) _ hi, Leaf.wf_init _ hi, Leaf.sorted_init _ hi⟩
  have hform : ∀ (tks : List (WKey × Unit)) (w0 : Int) (es : List TEv),
      ∃ tks' w', (Leaf.watermark idx tks false w0).drive wl es = .watermark idx tks' false w' := by
    intro tks w0 es
    induction es generalizing tks w0 with
    | nil => exact ⟨tks, w0, rfl⟩
    | cons e es ih => cases e <;> exact ih _ _
  obtain ⟨tks', w', h⟩ := hform [] zeroNs es
  rw [h] at hinv hp ⊢
  simp only [Leaf.stepEv, Leaf.watermarkReceived]
  exact Leaf.watermark_all wlessFixed_laws idx tks' w (Leaf.sorted_watermarkReceived _ w hinv.2.2) k hp ht

/-! ## ON WATERMARK, on the node -/

/-- **Once a watermark has been forwarded the output holds the current result of every key at or below it.**
    For every configuration containing ON WATERMARK (on key column `idx`; alone or in any combination and
    nesting), any messages `B₁` followed by a watermark `w`: what the node has emitted when it forwards
    `wm w` (the emitted list ends with it — the node triggers *before* forwarding) consolidates, on every row
    whose key instant is at or below `w`, to the table of the records received so far. -/
theorem watermark_complete (C : GBConf) (nk : Nat) (hK : KeyLen C nk) (idx : Nat) (hwm : C.cfg.hasWm idx = true)
    (B₁ : List Msg) (w : Int) :
    (∃ o, (gbFold wl C (gbInit C) (B₁ ++ [.wm w])).2 = o ++ [.wm w]) ∧
    ∀ row, (timeAt idx (row.take nk)).ns ≤ w →
      net (recs (gbFold wl C (gbInit C) (B₁ ++ [.wm w])).2) row = tableOf C nk (aggsAfter C (recs B₁)) row := by
  have hf := fold_inv wlessFixed_laws hK (gbInit C) B₁ (init_inv (C := C) (nk := nk) (wl := wl))
  have hex := fold_hasWm (wl := wl) (C := C) idx (gbInit C) B₁ (hasWm_leaves idx C.cfg hwm)
  constructor
  · rw [gbFold_append]
    simp only [gbFold, gbStep, List.append_nil]
    exact ⟨_, (List.append_assoc _ _ _).symm⟩
  · intro row ht
    have hstep := step_inv wlessFixed_laws hK _ (.wm w) hf.1
    have hclean := wm_step_clean wlessFixed_laws idx _ w hf.1 hex (row.take nk) ht
    have htab := sentOf_eq_tableOf C nk row hclean
    rw [gbFold_append]
    simp only [gbFold, List.append_nil, recs_append, net_append]
    rw [hf.2.1 row, hstep.2 row, htab]
    have h0 : sentOf nk (gbInit C).prev row = 0 := by simp [sentOf, gbInit, find]
    have hagg : (gbStep wl C (gbFold wl C (gbInit C) B₁).1 (.wm w)).1.aggs = aggsAfter C (recs B₁) := by
      rw [step_aggs]; simp only []; rw [hf.2.2]; rfl
    rw [h0, hagg]; omega

/-- **No key beyond the watermark is emitted early.**  With ON WATERMARK alone (on key column `idx`), while
    the source runs, every record the node emits (new rows and retractions alike) belongs to a key whose
    instant is at or below the highest watermark received so far (`zeroNs`, the zero time, before the first
    one).  Applied to a prefix of the input that ends with `wm W`: when `W` is forwarded nothing beyond `W`
    has been emitted.  (With other triggers in the combination, whatever else is emitted was returned by
    their `Poll`: see `watermark_upto` for what the ON WATERMARK member itself returns.) -/
theorem no_early (C : GBConf) (nk : Nat) (hK : KeyLen C nk) (idx : Nat) (honly : C.cfg.onlyWm idx = true)
    (B : List Msg) :
    ∀ r ∈ recs (gbFold wl C (gbInit C) B).2, (timeAt idx (r.vals.take nk)).ns ≤ (wms B).foldl max zeroNs :=
  fold_no_early wlessFixed_laws hK idx zeroNs (gbInit C) B (init_inv (C := C) (nk := nk) (wl := wl))
    (onlyWm_leaves idx C.cfg honly)

/-- the trigger object right before the node polls it for message `m` -/
def polledTrigger (C : GBConf) (st : NState) : Msg → TState
  | .data r => st.trig.keyReceived wl (C.keyOf r.vals)
  | .wm w => st.trig.watermarkReceived w

/-- **Nothing is emitted unless a trigger fired it.**  For every configuration, at every point of the run:
    each record the node emits for a message (a new row or a retraction) belongs to a key that one of the
    primitive triggers returned from the `Poll` made for that message.  What each kind of primitive trigger
    returns is pinned down by `counting_fires`, `watermark_upto` and `eos_trigger_silent`; in particular a key
    beyond the watermark can only have been emitted because a COUNTING member fired it. -/
theorem emitted_was_polled (C : GBConf) (nk : Nat) (hK : KeyLen C nk) (B : List Msg) (m : Msg) :
    let st := (gbFold wl C (gbInit C) B).1
    ∀ r ∈ recs (gbStep wl C st m).2,
      ∃ l ∈ (polledTrigger C st m).leaves, ∃ k ∈ (l.poll wl).1, keq k (r.vals.take nk) = true := by
  intro st r hr
  have hinv := (fold_inv wlessFixed_laws hK (gbInit C) B (init_inv (C := C) (nk := nk) (wl := wl))).1
  cases m with
  | data rec =>
    exact fire_emitted_polled (wl := wl) _ (etNs rec.et) (pre_inv_data wlessFixed_laws hK st rec hinv) r hr
  | wm w =>
    simp only [gbStep, recs_append, List.mem_append, recs, List.not_mem_nil, or_false] at hr
    exact fire_emitted_polled (wl := wl) _ w (pre_inv_wm st w hinv) r hr

/-- the output of the whole run starts with what was emitted while the source ran -/
theorem run_prefix (C : GBConf) (B₁ B₂ : List Msg) :
    ∃ rest, gbRun wl C (B₁ ++ B₂) = (gbFold wl C (gbInit C) B₁).2 ++ rest := by
  simp only [gbRun, gbFold_append, List.append_assoc]
  exact ⟨_, rfl⟩

/-! ## The full statement -/

/-- the full-strength statement of the property, for a given `watermarkTriggerKey.Less` -/
def Statement (wl : WKey → WKey → Bool) : Prop :=
  -- COUNTING n: after every n-th record for the key, and only then
  (∀ (n : Nat), 0 < n → ∀ (es : List TEv) (k' : Key),
    let fired := (((Leaf.counting n [] false []).drive wl es).stepEv wl (.key k')).1
    (∀ k ∈ fired, keq k k' = true) ∧ fired.length = if (occ k' es + 1) % n = 0 then 1 else 0) ∧
  -- end of stream: every remaining key once (every primitive trigger; ON END OF STREAM: nothing before)
  (∀ (l₀ : Leaf), l₀.isInit → ∀ es : List TEv,
    let l := l₀.drive wl es
    ((l.endOfStream.poll wl).1.Pairwise fun a b => keq a b = false) ∧
    ∀ k, (l.endOfStream.poll wl).1.any (keq k) = l.pend wl k) ∧
  (∀ (es : List TEv) (e : TEv), (((Leaf.eos [] false).drive wl es).stepEv wl e).1 = []) ∧
  -- ON WATERMARK: once W has been forwarded the output holds the current result of every key at or below W
  (∀ (C : GBConf) (nk : Nat), KeyLen C nk → ∀ idx, C.cfg.hasWm idx = true → ∀ (B₁ : List Msg) (w : Int),
    (∃ o, (gbFold wl C (gbInit C) (B₁ ++ [.wm w])).2 = o ++ [.wm w]) ∧
    ∀ row, (timeAt idx (row.take nk)).ns ≤ w →
      net (recs (gbFold wl C (gbInit C) (B₁ ++ [.wm w])).2) row = tableOf C nk (aggsAfter C (recs B₁)) row) ∧
  -- … and no key beyond W has been emitted (ON WATERMARK alone)
  (∀ (C : GBConf) (nk : Nat), KeyLen C nk → ∀ idx, C.cfg.onlyWm idx = true → ∀ B : List Msg,
    ∀ r ∈ recs (gbFold wl C (gbInit C) B).2, (timeAt idx (r.vals.take nk)).ns ≤ (wms B).foldl max zeroNs)

/-- **C17, full strength, on the current tree.** -/
theorem C17_full : Statement wlessFixed :=
  ⟨counting_fires, eos_once, eos_trigger_silent, watermark_complete, no_early⟩

/-! ## Non-vacuity, and the refutation of the code as shipped -/

def ka : Key := [.time 1000 0, .int 0]
def kb : Key := [.time 1000 101, .int 1]
def kc : Key := [.time 2000 0, .int 0]

/-- COUNTING 2: the second record of a key fires it, the first and third do not; other keys do not interfere -/
example : (((Leaf.counting 2 [] false []).drive wl [.key ka, .key kb]).stepEv wl (.key ka)).1 = [ka] := by rfl
example : (((Leaf.counting 2 [] false []).drive wl [.key kb]).stepEv wl (.key ka)).1 = [] := by decide
example : (((Leaf.counting 2 [] false []).drive wl [.key ka, .key ka, .wm 5]).stepEv wl (.key ka)).1 = [] := by decide
/-- ON WATERMARK: both keys of instant 1000 fire at watermark 1000, the key of instant 2000 does not -/
example : (((Leaf.watermark 0 [] false zeroNs).drive wl [.key ka, .key kc, .key kb]).stepEv wl (.wm 1000)).1 = [ka, kb] := by
  rfl
/-- end of stream returns what is left, once -/
example : (((Leaf.watermark 0 [] false zeroNs).drive wl [.key ka, .key kc, .key ka, .wm 1500]).endOfStream.poll wl).1 = [kc] := by
  rfl

/-- GROUP BY (column 0, column 1), count(column 2) TRIGGER ON WATERMARK -/
def exConf : GBConf where
  keyOf := fun v => [v.getD 0 .null, v.getD 1 .null]
  aggs := [⟨aggCount, fun v => v.getD 2 .null⟩]
  ket := some 0
  cfg := .watermark 0
  recOk := fun v => decide (3 ≤ v.length)

def wB : List Msg :=
  [.data ⟨[.time 1000 0, .int 0, .int 1], false, some 1000⟩,
   .data ⟨[.time 1000 101, .int 1, .int 1], false, some 1000⟩]
def wRow : Row := [.time 1000 0, .int 0, .int 1]

/-- two keys with one instant in two locations, then watermark 1000: the current code has emitted both rows
    when it forwards the watermark, the code as shipped has lost the first key -/
example : net (recs (gbFold wlessFixed exConf (gbInit exConf) (wB ++ [.wm 1000])).2) wRow = 1 := by decide
theorem raw_incomplete : net (recs (gbFold wlessRaw exConf (gbInit exConf) (wB ++ [.wm 1000])).2) wRow = 0 := by decide

/-- **the code before the repair violates C17** (the watermark is forwarded without the result of a key at or below it) -/
theorem C17_refuted_raw : ¬ Statement wlessRaw := by
  intro h
  have h4 := h.2.2.2.1 exConf 2 (fun _ => rfl) 0 rfl wB 1000
  have := h4.2 wRow (by decide)
  rw [raw_incomplete] at this
  exact absurd this (by decide)

end Octo.C17
