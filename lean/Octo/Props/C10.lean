import Octo.Lemmas.TyTypeOf
import Octo.Lemmas.TyNonNull
import Octo.Lemmas.TyInter
import Octo.Lemmas.TyRecFree
import Octo.Lemmas.TyTypeOfWf
import Octo.Lemmas.TyTotal
import Octo.Gen.C10Consts
/-!
# C10 — Type algebra laws hold

Property: for all types the subtype relation is reflexive; `TypeSum(a, b)` is an upper bound of both `a` and
`b`, commutative and idempotent up to type equality; `TypeIntersection(a, b)` is contained in both;
`NonNullable` removes exactly the NULL alternative; every value matches the type it reports for itself.

`Ty.is`, `Ty.typeSumF`/`Ty.typeSum`, `Ty.typeInter`, `Ty.nonNullable`, `Value.typeOf` (all in
`Octo.Model.TyAlgebra`) are the models of `Type.Is`, `TypeSum`, `TypeIntersection`, `NonNullable` of
`octosql/types.go` and of `Value.Type` of `octosql/values.go` **after** the two `fix:` commits (loop-variable
aliasing in `TypeIntersection`; `range value.Tuple` in the Struct case of `Value.Type`); they are tied to the
code by the C10 correspondence run on every check.  `conforms t v` is the Spec notion "value `v` matches
type `t`".

All theorems quantify over types/values of **any** size and nesting depth.  `TypeSum` is modelled with a
fuel argument (`none` = fuel exhausted); its theorems hold for **every** fuel `n`, by `typeSumF_mono` a result
never changes when more fuel is given, and on well-formed types the default fuel is proved sufficient
(`sum_total`: `TypeSum` terminates; likewise `inter_total`, `typeOf_total`), so the laws are not vacuous:
`sum_lub` states them in the form "there **is** a result and it is …".

Hypotheses that appear below:
* `wf t` — *well formed*: hereditarily, union alternatives are plain (no nested union, no `Any`) with pairwise
  distinct `TypeID`s, struct field names are strictly sorted.  `TypeSum` preserves it (`sum_wf`); type literals
  such as `Union[List Int, List Str]` violate the union laws and are outside the domain.
* `shapeOkF n a b` — *ShapeCompatible*: computing `TypeSum(a, b)` never merges two structs with different
  (or unsorted) field-name lists nor two tuples of different lengths.  Without it the sum is **not** an upper
  bound under `Is` (`sum_upper_refuted`, known finding `typesum-shape-mismatch`).
-/
namespace Octo.C10
open Octo Octo.Ty

/-! ## Tie to the regenerated constants of `octosql/types.go` -/

/-- the name of the `TypeID` constant of each model constructor -/
def idName : Ty → String
  | .null => "TypeIDNull" | .int => "TypeIDInt" | .float => "TypeIDFloat" | .bool => "TypeIDBoolean"
  | .str => "TypeIDString" | .time => "TypeIDTime" | .dur => "TypeIDDuration" | .listNil => "TypeIDList"
  | .list _ => "TypeIDList" | .struct _ _ => "TypeIDStruct" | .tuple _ => "TypeIDTuple" | .union _ => "TypeIDUnion"
  | .any => "TypeIDAny"

/-- `Ty.id` (the sort key of union alternatives) is the position of the constructor's `TypeID` constant in the
    const block **as it stands in /repo now** (`Octo.Gen.C10.typeIds` is rewritten by `vh extract` on every run) -/
theorem typeIds_tie (t : Ty) : Gen.C10.typeIds[t.id]? = some (idName t) := by
  cases t <;> rfl

/-- `Rel.toNat` is the iota value of the corresponding `TypeRelation` constant -/
theorem typeRelations_tie :
    Gen.C10.typeRelations[Rel.isnt.toNat]? = some "TypeRelationIsnt" ∧
    Gen.C10.typeRelations[Rel.maybe.toNat]? = some "TypeRelationMaybe" ∧
    Gen.C10.typeRelations[Rel.is.toNat]? = some "TypeRelationIs" ∧ Gen.C10.typeRelations.length = 3 := by
  decide

/-! ## `Is` -/

/-- the subtype relation is reflexive (all types) -/
theorem is_refl (t : Ty) : t.is t = .is := Ty.is_refl t

/-- … transitive (all types) -/
theorem is_trans (a b c : Ty) (h1 : a.is b = .is) (h2 : b.is c = .is) : a.is c = .is := Ty.is_trans h1 h2

/-- … and sound for "value matches type" (all types, all values) — the bridge used by C08 -/
theorem is_sound (a b : Ty) (h : a.is b = .is) (v : Value) (hv : conforms a v = true) : conforms b v = true :=
  Ty.is_sound h v hv

/-- `Equals` is an equivalence relation -/
theorem equals_refl (t : Ty) : t.equals t = true := by simp [equals, Ty.is_refl]
theorem equals_symm (a b : Ty) (h : a.equals b = true) : b.equals a = true := by
  simp only [equals, Bool.and_eq_true, beq_iff_eq] at h ⊢; exact ⟨h.2, h.1⟩
theorem equals_trans (a b c : Ty) (h1 : a.equals b = true) (h2 : b.equals c = true) : a.equals c = true := by
  simp only [equals, Bool.and_eq_true, beq_iff_eq] at h1 h2 ⊢
  exact ⟨Ty.is_trans h1.1 h2.1, Ty.is_trans h2.2 h1.2⟩

/-- the fuel of `Is` does not matter once it covers the two sizes -/
theorem is_fuel_irrelevant (n : Nat) (a b : Ty) (h : a.size + b.size ≤ n) : isF n a b = a.is b :=
  isF_fuel n _ a b h (Nat.le_refl _)

/-! ## `TypeSum` -/

/-- more fuel never changes a result -/
theorem sum_fuel_mono (n m : Nat) (h : n ≤ m) (a b c : Ty) (hc : typeSumF n a b = some c) :
    typeSumF m a b = some c := typeSumF_mono h hc

/-- `TypeSum(a, a) = a` exactly (all types) -/
theorem sum_idem (a : Ty) (n : Nat) : typeSumF (n + 1) a a = some a := by
  simp [typeSumF, typeSumStep, Ty.is_refl]

/-- `TypeSum(a, b)` is an upper bound of `a` and of `b` — for shape-compatible operands (all types) -/
theorem sum_upper_partial (n : Nat) (a b c : Ty) (h : typeSumF n a b = some c) (hok : shapeOkF n a b = true) :
    a.is c = .is ∧ b.is c = .is := sum_upper_F n a b c h hok

theorem sum_upper_l (n : Nat) (a b c : Ty) (h : typeSumF n a b = some c) (hok : shapeOkF n a b = true) :
    a.is c = .is := (sum_upper_partial n a b c h hok).1
theorem sum_upper_r (n : Nat) (a b c : Ty) (h : typeSumF n a b = some c) (hok : shapeOkF n a b = true) :
    b.is c = .is := (sum_upper_partial n a b c h hok).2

/-- every value of `a` (and of `b`) is a value of `TypeSum(a, b)` -/
theorem sum_sound (n : Nat) (a b c : Ty) (h : typeSumF n a b = some c) (hok : shapeOkF n a b = true) (v : Value)
    (hv : conforms a v = true ∨ conforms b v = true) : conforms c v = true := by
  have ⟨h1, h2⟩ := sum_upper_partial n a b c h hok
  rcases hv with hv | hv
  · exact Ty.is_sound h1 v hv
  · exact Ty.is_sound h2 v hv

/-- a declarative sufficient condition: types without structs and tuples (scalars, lists, unions of those) are
    always shape compatible — for them the sum is an upper bound without further hypothesis -/
theorem sum_upper_recfree (n : Nat) (a b c : Ty) (h : typeSumF n a b = some c) (na : noRec a = true)
    (nb : noRec b = true) : a.is c = .is ∧ b.is c = .is ∧ noRec c = true :=
  have ⟨hok, nc⟩ := recFree_F n a b c h na nb
  have ⟨h1, h2⟩ := sum_upper_partial n a b c h hok
  ⟨h1, h2, nc⟩

/-- `TypeSum` of well-formed types is well formed -/
theorem sum_wf (n : Nat) (a b c : Ty) (h : typeSumF n a b = some c) (wa : wf a = true) (wb : wf b = true) :
    wf c = true := (wfFor_F n a b c h wa wb).1

/-- `TypeSum(a, b)` is below every well-formed upper bound of `a` and `b`: it is the *least* upper bound -/
theorem sum_least (n : Nat) (a b c t : Ty) (h : typeSumF n a b = some c) (wa : wf a = true) (wb : wf b = true)
    (wt : wf t = true) (ha : a.is t = .is) (hb : b.is t = .is) : c.is t = .is :=
  leastFor_F n a b c t h wa wb wt ha hb

/-- **termination**: on well-formed operands `TypeSum` needs at most fuel `2·(size a + size b)` -/
theorem sum_terminates (a b : Ty) (wa : wf a = true) (wb : wf b = true) (n : Nat) (hn : 2 * (a.size + b.size) ≤ n) :
    (typeSumF n a b).isSome = true := sum_total_aux _ n a b wa wb (Nat.le_refl _) hn

/-- … hence the model's `typeSum` (default fuel) is total on well-formed types -/
theorem sum_total (a b : Ty) (wa : wf a = true) (wb : wf b = true) : (typeSum a b).isSome = true :=
  typeSum_total wa wb

/-- the laws of `TypeSum` in one statement, without fuel: for well-formed `a`, `b` there is a result `c`; it is well
    formed, below every well-formed upper bound of `a` and `b`, and — when the operands are shape compatible — an
    upper bound of both -/
theorem sum_lub (a b : Ty) (wa : wf a = true) (wb : wf b = true) :
    ∃ c, typeSum a b = some c ∧ wf c = true ∧
      (∀ t, wf t = true → a.is t = .is → b.is t = .is → c.is t = .is) ∧
      (shapeOk a b = true → a.is c = .is ∧ b.is c = .is) := by
  have tot := sum_total a b wa wb
  cases h : typeSum a b with
  | none => simp [h] at tot
  | some c =>
    exact ⟨c, rfl, sum_wf _ a b c h wa wb, fun t wt ha hb => sum_least _ a b c t h wa wb wt ha hb,
      fun hok => sum_upper_partial _ a b c h hok⟩

/-- `TypeSum` is commutative up to `Equals` (well-formed, shape-compatible operands; nested unions included) -/
theorem sum_comm (n m : Nat) (a b s s' : Ty) (wa : wf a = true) (wb : wf b = true)
    (h : typeSumF n a b = some s) (h' : typeSumF m b a = some s')
    (hok : shapeOkF n a b = true) (hok' : shapeOkF m b a = true) : s.equals s' = true := by
  have ⟨u1, u2⟩ := sum_upper_partial n a b s h hok
  have ⟨u3, u4⟩ := sum_upper_partial m b a s' h' hok'
  simp only [equals, Bool.and_eq_true, beq_iff_eq]
  exact ⟨sum_least n a b s s' h wa wb (sum_wf m b a s' h' wb wa) u4 u3,
         sum_least m b a s' s h' wb wa (sum_wf n a b s h wa wb) u2 u1⟩

/-! ## `TypeIntersection` -/

/-- `TypeIntersection(a, b)` is contained in `a` and in `b` (well-formed operands) -/
theorem inter_sub (a b c : Ty) (wa : wf a = true) (wb : wf b = true) (h : typeInter a b = some (some c)) :
    c.is a = .is ∧ c.is b = .is := (typeInter_sub wa wb h).2
/-- … and well formed -/
theorem inter_wf (a b c : Ty) (wa : wf a = true) (wb : wf b = true) (h : typeInter a b = some (some c)) :
    wf c = true := (typeInter_sub wa wb h).1
theorem inter_sub_l (a b c : Ty) (wa : wf a = true) (wb : wf b = true) (h : typeInter a b = some (some c)) :
    c.is a = .is := (inter_sub a b c wa wb h).1
theorem inter_sub_r (a b c : Ty) (wa : wf a = true) (wb : wf b = true) (h : typeInter a b = some (some c)) :
    c.is b = .is := (inter_sub a b c wa wb h).2

/-- `TypeIntersection` of well-formed operands never runs out of fuel -/
theorem inter_total (a b : Ty) (wa : wf a = true) (wb : wf b = true) : (typeInter a b).isSome = true :=
  typeInter_total wa wb

/-! ## `NonNullable` -/

/-- identity on non-unions -/
theorem nonNullable_non_union (t : Ty) (h : t.isUnion = false) : nonNullable t = t := nonNullable_of_not_union t h
/-- the result is contained in the argument (all types) -/
theorem nonNullable_sub (t : Ty) : (nonNullable t).is t = .is := nonNullable_is t
/-- `NonNullable` removes exactly NULL: a value matches the result iff it matches the union and is not NULL -/
theorem nonNullable_spec (alts : List Ty) (w : wf (.union alts) = true) (v : Value) :
    conforms (nonNullable (.union alts)) v = true ↔ (conforms (.union alts) v = true ∧ v ≠ .null) := by
  rw [wf_union] at w
  exact nonNullable_conforms alts ((altsPlain_iff _).mp w.1) v
/-- … syntactically: the alternatives kept are exactly the non-NULL ones (a single one is unwrapped) -/
theorem nonNullable_alts (alts : List Ty) :
    nonNullable (.union alts) = (match alts.filter (fun a => a.id ≠ 0) with | [x] => x | out => .union out) := rfl

/-! ## `Value.Type` -/

/-- every value matches the type it reports, provided the element chains of its lists are shape compatible -/
theorem typeOf_conforms (v : Value) (hok : v.typeOfShapeOk = true) (t : Ty) (ht : v.typeOf = some t) :
    conforms t v = true := typeOf_conforms_aux v.size v (Nat.le_refl _) hok t ht

/-- … unconditionally for values without struct and tuple parts (any nesting of lists of scalars) -/
theorem typeOf_conforms_recfree (v : Value) (hv : v.noRecV = true) (t : Ty) (ht : v.typeOf = some t) :
    conforms t v = true :=
  typeOf_conforms v (typeOf_recFree_aux v.size v (Nat.le_refl _) hv t ht).1 t ht

/-- the type a value reports is well formed (i.e. inside the domain of the binary laws) when no struct value
    inside has two or more fields -/
theorem typeOf_wf (v : Value) (hv : v.narrowStructs = true) (t : Ty) (ht : v.typeOf = some t) : wf t = true :=
  typeOf_wf_aux v.size v (Nat.le_refl _) hv t ht

/-- … and `Value.Type` never runs out of fuel on such values -/
theorem typeOf_total (v : Value) (hv : v.narrowStructs = true) : (v.typeOf).isSome = true :=
  typeOf_total_aux v.size v (Nat.le_refl _) hv

/-- … and a struct value with two fields is reported with the field name `""` twice, which is not well formed
    (struct values carry no names; same root cause as finding `typeof-list-shape-mismatch`) -/
theorem typeOf_wide_struct_not_wf :
    (Value.struct [.int 5, .str [120]]).typeOf = some (.struct [[], []] [.int, .str]) ∧
    wf (.struct [[], []] [.int, .str]) = false := ⟨rfl, by decide⟩

/-! ## The full-strength statement -/

/-- C10 as stated, for an implementation `(is, sum, inter, nonNull, typeOf)` of the type algebra.
    The domain of the binary laws is the well-formed types (see the header). -/
def Statement (is : Ty → Ty → Rel) (sum : Ty → Ty → Option Ty) (inter : Ty → Ty → Option (Option Ty))
    (nonNull : Ty → Ty) (typeOf : Value → Option Ty) : Prop :=
  (∀ t, is t t = .is) ∧
  (∀ a b s, wf a = true → wf b = true → sum a b = some s → is a s = .is ∧ is b s = .is) ∧
  (∀ a b s s', wf a = true → wf b = true → sum a b = some s → sum b a = some s' → is s s' = .is ∧ is s' s = .is) ∧
  (∀ a, sum a a = some a) ∧
  (∀ a b c, wf a = true → wf b = true → inter a b = some (some c) → is c a = .is ∧ is c b = .is) ∧
  (∀ t, t.isUnion = false → nonNull t = t) ∧
  (∀ alts v, wf (.union alts) = true →
    (conforms (nonNull (.union alts)) v = true ↔ (conforms (.union alts) v = true ∧ v ≠ .null))) ∧
  (∀ v t, typeOf v = some t → conforms t v = true)

/-- the same with the two hypotheses that exclude the known findings -/
def StatementPartial (is : Ty → Ty → Rel) (sum : Ty → Ty → Option Ty) (ok : Ty → Ty → Bool)
    (inter : Ty → Ty → Option (Option Ty)) (nonNull : Ty → Ty) (typeOf : Value → Option Ty)
    (vok : Value → Bool) : Prop :=
  (∀ t, is t t = .is) ∧
  (∀ a b s, sum a b = some s → ok a b = true → is a s = .is ∧ is b s = .is) ∧
  (∀ a b s s', wf a = true → wf b = true → sum a b = some s → sum b a = some s' → ok a b = true → ok b a = true →
    is s s' = .is ∧ is s' s = .is) ∧
  (∀ a, sum a a = some a) ∧
  (∀ a b c, wf a = true → wf b = true → inter a b = some (some c) → is c a = .is ∧ is c b = .is) ∧
  (∀ t, t.isUnion = false → nonNull t = t) ∧
  (∀ alts v, wf (.union alts) = true →
    (conforms (nonNull (.union alts)) v = true ↔ (conforms (.union alts) v = true ∧ v ≠ .null))) ∧
  (∀ v t, vok v = true → typeOf v = some t → conforms t v = true)

/-! ### witnesses -/
def sx : Ty := .struct [[120]] [.int]            -- {x: Int}
def sy : Ty := .struct [[121]] [.int]            -- {y: Int}
def sxy : Ty := .struct [[120], [121]] [.union [.null, .int], .union [.null, .int]]
def intStr : Ty := .union [.int, .str]
def nullInt : Ty := .union [.null, .int]
/-- `[ {0, 0}, {NULL, 1} ]` -/
def vStructs : Value := .list [.struct [.int 0, .int 0], .struct [.null, .int 1]]
/-- `[ (1), (1, 2) ]` -/
def vTuples : Value := .list [.tuple [.int 1], .tuple [.int 1, .int 2]]

/-- `TypeSum({x:Int}, {y:Int}) = {x: NULL|Int; y: NULL|Int}` and neither operand `Is` it
    (known finding `typesum-shape-mismatch`) -/
theorem sum_upper_refuted :
    typeSum sx sy = some sxy ∧ sx.is sxy = .isnt ∧ sy.is sxy = .isnt ∧ wf sx = true ∧ wf sy = true ∧
      shapeOk sx sy = false := by
  refine ⟨rfl, ?_, ?_, ?_, ?_, ?_⟩ <;> decide

/-- `[ {0,0}, {NULL,1} ].Type() = [{: Int}]`, `[ (1), (1,2) ].Type() = [(Int, NULL|Int)]`: the value does not match
    the type it reports (known finding `typeof-list-shape-mismatch`) -/
theorem typeOf_refuted :
    vStructs.typeOf = some (.list (.struct [[]] [.int])) ∧ conforms (.list (.struct [[]] [.int])) vStructs = false ∧
    vTuples.typeOf = some (.list (.tuple [.int, .union [.null, .int]])) ∧
    conforms (.list (.tuple [.int, .union [.null, .int]])) vTuples = false ∧
    vStructs.typeOfShapeOk = false ∧ vTuples.typeOfShapeOk = false := by
  refine ⟨rfl, ?_, rfl, ?_, ?_, ?_⟩ <;> decide

/-- **C10, full strength, is false on the current tree** (upper bound and `Value.Type`, both by design of
    `Is`/`TypeSum` on shape-mismatched structs and tuples) -/
theorem C10_refuted : ¬ Statement Ty.is typeSum typeInter nonNullable Value.typeOf := by
  intro ⟨_, h2, _⟩
  have := (h2 sx sy sxy (by decide) (by decide) rfl).1
  exact absurd this (by decide)

/-- **C10 with exactly the hypotheses that exclude the two known findings** -/
theorem C10_partial :
    StatementPartial Ty.is typeSum shapeOk typeInter nonNullable Value.typeOf Value.typeOfShapeOk :=
  ⟨is_refl,
   fun a b s h hok => sum_upper_partial _ a b s h hok,
   fun a b s s' wa wb h h' hok hok' => by
     have := sum_comm _ _ a b s s' wa wb h h' hok hok'
     simpa [equals] using this,
   fun a => sum_idem a _,
   inter_sub,
   nonNullable_non_union,
   fun alts v w => nonNullable_spec alts w v,
   fun v t hok ht => typeOf_conforms v hok t ht⟩

/-! ## The code before the two repairs (models `typeInterRaw`, `typeOfRaw`) -/

/-- go 1.18 loop-variable aliasing: `TypeIntersection(Int|String, Int) = Int|String`, which is not contained in
    `Int`; `TypeIntersection(NULL|Int, NULL) = NULL|Int` -/
theorem raw_inter_refuted :
    typeInterRaw intStr .int = some (some intStr) ∧ intStr.is .int ≠ .is ∧
    typeInterRaw nullInt .null = some (some nullInt) ∧ nullInt.is .null ≠ .is ∧
    wf intStr = true ∧ wf nullInt = true := by
  refine ⟨rfl, ?_, rfl, ?_, ?_, ?_⟩ <;> decide

/-- the repaired code on the same inputs -/
theorem fixed_inter_witness :
    typeInter intStr .int = some (some .int) ∧ typeInter nullInt .null = some (some .null) := ⟨rfl, rfl⟩

/-- `range value.Tuple` in the Struct case: `NewStruct([5, "x"]).Type() = {: NULL; : NULL}` -/
theorem raw_typeOf_refuted :
    (Value.struct [.int 5, .str [120]]).typeOfRaw = some (.struct [[], []] [.null, .null]) ∧
    conforms (.struct [[], []] [.null, .null]) (.struct [.int 5, .str [120]]) = false ∧
    (Value.struct [.int 5, .str [120]]).typeOfShapeOk = true := by
  refine ⟨rfl, ?_, ?_⟩ <;> decide

/-! ## Non-vacuity: the hypotheses are met by non-trivial instances -/

-- shape-compatible, well-formed, genuinely merging operands (nested unions, struct fields, tuples)
def ex1 : Ty := .struct [[120], [121]] [.int, .list (.union [.null, .str])]
def ex2 : Ty := .struct [[120], [121]] [.union [.null, .float], .list .int]
example : wf ex1 = true ∧ wf ex2 = true ∧ shapeOk ex1 ex2 = true ∧ shapeOk ex2 ex1 = true := by decide
example : typeSum ex1 ex2 =
    some (.struct [[120], [121]] [.union [.null, .int, .float], .list (.union [.null, .int, .str])]) := rfl
example : ex1.is ex2 = .isnt ∧ ex2.is ex1 = .isnt := by decide
-- unions with a common TypeID whose alternatives must be merged
def ex3 : Ty := .union [.null, .list .int, .tuple [.int, .str]]
def ex4 : Ty := .union [.list .str, .tuple [.float, .str]]
example : wf ex3 = true ∧ wf ex4 = true ∧ shapeOk ex3 ex4 = true ∧ shapeOk ex4 ex3 = true := by decide
example : typeSum ex3 ex4 = some (.union [.null, .list (.union [.int, .str]), .tuple [.union [.int, .float], .str]]) := rfl
example : (typeSum ex3 ex4).map (fun s => (typeSum ex4 ex3).map (fun s' => s.equals s')) = some (some true) := by decide
-- intersection of overlapping unions
example : typeInter (.union [.null, .int, .str]) (.union [.int, .float, .str]) = some (some (.union [.int, .str])) := rfl
example : typeInter ex3 (.union [.null, .list (.union [.int, .str])]) = some (some (.union [.null, .list .int])) := rfl
-- NonNullable
example : nonNullable (.union [.null, .int]) = .int ∧ nonNullable (.union [.null, .int, .str]) = .union [.int, .str] :=
  ⟨rfl, rfl⟩
/-- `NonNullable` of the malformed one-alternative union `[NULL]` is the empty union (matches nothing);
    the comment in the code promises `Null` only for the *type* `Null` -/
example : nonNullable (.union [.null]) = .union [] ∧ nonNullable .null = .null := ⟨rfl, rfl⟩
-- Value.Type on a list whose elements need a sum, shape compatible
def vOk : Value := .list [.tuple [.int 1, .null], .tuple [.float 0, .str [97]]]
example : vOk.typeOfShapeOk = true := by decide
example : vOk.typeOf = some (.list (.tuple [.union [.int, .float], .union [.null, .str]])) := rfl
-- record-free operands / values: no side condition at all
example : noRec (.union [.null, .list (.union [.int, .str])]) = true ∧ noRec (.list (.list .float)) = true := by decide
example : (Value.list [.list [.int 1, .null], .list [], .list [.str [97]]]).noRecV = true := by decide
example : (Value.list [.list [.int 1, .null], .list [], .list [.str [97]]]).typeOf =
    some (.list (.list (.union [.null, .int, .str]))) := rfl
-- the default fuel of `typeSum` is ample for these (the driver would print `fuel` otherwise)
example : (typeSum ex3 ex4).isSome = true ∧ (typeSum sx sy).isSome = true := by decide

end Octo.C10
