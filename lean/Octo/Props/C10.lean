import Octo.Model.TyAlgebra
/-! # C10 — Type algebra laws (work in progress) -/
namespace Octo.C10
open Octo Octo.Ty

theorem nonNullable_id_of_not_union (t : Ty) (h : t.isUnion = false) : nonNullable t = t := by
  cases t <;> simp_all [nonNullable, isUnion]

end Octo.C10
