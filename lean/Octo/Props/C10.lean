import Octo.Lemmas.TyTypeOf
import Octo.Lemmas.TyNonNull
/-!
# C10 — Type algebra laws hold (checkpoint; extended below)
-/
namespace Octo.C10
open Octo Octo.Ty

/-- the subtype relation is reflexive (all types, any nesting) -/
theorem is_refl (t : Ty) : t.is t = .is := Ty.is_refl t

/-- … and transitive -/
theorem is_trans (a b c : Ty) (h1 : a.is b = .is) (h2 : b.is c = .is) : a.is c = .is := Ty.is_trans h1 h2

/-- `Is` is sound for "value matches type" -/
theorem is_sound (a b : Ty) (h : a.is b = .is) (v : Value) (hv : conforms a v = true) : conforms b v = true :=
  Ty.is_sound h v hv

/-- `TypeSum(a, a) = a` -/
theorem sum_idem (a : Ty) (n : Nat) : typeSumF (n + 1) a a = some a := by
  simp [typeSumF, typeSumStep, Ty.is_refl]

/-- `TypeSum(a, b)` is an upper bound of `a` and of `b` when the operands are shape compatible -/
theorem sum_upper_partial (n : Nat) (a b c : Ty) (h : typeSumF n a b = some c) (hok : shapeOkF n a b = true) :
    a.is c = .is ∧ b.is c = .is := sum_upper_F n a b c h hok

theorem nonNullable_sub (t : Ty) : (nonNullable t).is t = .is := nonNullable_is t

theorem typeOf_conforms (v : Value) (hok : v.typeOfShapeOk = true) (t : Ty) (ht : v.typeOf = some t) :
    conforms t v = true := typeOf_conforms_aux v.size v (Nat.le_refl _) hok t ht

end Octo.C10
