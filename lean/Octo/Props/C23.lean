import Octo.Model.FileQueue
import Octo.Model.LineSplit
import Octo.Model.StdinPreview
/-!
# C23 — File datasources return exactly the file's rows
-/
namespace Octo.C23
open Octo Octo.Files

/-! ## 3. stdin preview replay -/

theorem previewRead_inv (copy : BytesS) (st : StdinState) (req got : Nat) :
    let r := previewRead copy st req got
    r.2.2.previewed ++ r.2.2.unread = st.previewed ++ st.unread := by
  unfold previewRead
  split
  · rfl
  · split
    · rfl
    · simp [List.append_assoc, List.take_append_drop]

end Octo.C23
